package c13

import (
	"context"
	"fmt"
	"strings"
	"testing"

	remoteexecution "github.com/bazelbuild/remote-apis/build/bazel/remote/execution/v2"
	"github.com/buildbarn/bb-storage/pkg/blobstore"
	"github.com/buildbarn/bb-storage/pkg/blobstore/buffer"
	"github.com/buildbarn/bb-storage/pkg/blobstore/configuration"
	"github.com/buildbarn/bb-storage/pkg/digest"
	"github.com/buildbarn/bb-storage/pkg/program"
	pb "github.com/buildbarn/bb-storage/pkg/proto/configuration/blobstore"
	"google.golang.org/protobuf/proto"
	"google.golang.org/protobuf/types/known/timestamppb"
	"pgregory.net/rapid"

	"verif/harness/vstats"
)

var recCfg = vstats.New("TestC13Configured")

// cfgLocal is an in-memory `local` back end, far larger than what one case
// stores (nothing is ever evicted). The Action Cache flavour of `local`
// insists on a single "new" block.
func cfgLocal(newBlocks int32) *pb.BlobAccessConfiguration {
	return &pb.BlobAccessConfiguration{Backend: &pb.BlobAccessConfiguration_Local{Local: &pb.LocalBlobAccessConfiguration{
		KeyLocationMapBackend:            &pb.LocalBlobAccessConfiguration_KeyLocationMapInMemory_{KeyLocationMapInMemory: &pb.LocalBlobAccessConfiguration_KeyLocationMapInMemory{Entries: 4093}},
		KeyLocationMapMaximumGetAttempts: 16,
		KeyLocationMapMaximumPutAttempts: 64,
		OldBlocks:                        2,
		CurrentBlocks:                    2,
		NewBlocks:                        newBlocks,
		BlocksBackend:                    &pb.LocalBlobAccessConfiguration_BlocksInMemory_{BlocksInMemory: &pb.LocalBlobAccessConfiguration_BlocksInMemory{BlockSizeBytes: 1 << 16}},
	}}}
}

// configuredCAS is the harness' record of what was uploaded into the
// configured CAS. The CAS the configuration code builds always holds the
// empty object (casBlobAccessCreator.WrapTopLevelBlobAccess documents it), so
// the record does too.
type configuredCAS map[digest.Digest][]byte

func (m configuredCAS) Peek(d digest.Digest) ([]byte, bool) {
	if d.GetSizeBytes() == 0 {
		return nil, true
	}
	b, ok := m[d]
	return b, ok
}

// largestMessage returns the size of the largest message the decorator has to
// parse in one piece for this case: the ActionResult (plus what the top level
// of the configured Action Cache may add on upload) and every Directory
// embedded in a Tree.
func largestMessage(arBytes []byte, trees []*treeBuild) (int, bool) {
	// execution_metadata { worker_completed_timestamp { seconds nanos } }:
	// 2 + 2 + 11 + 6 bytes at most, had neither been present.
	largest := len(arBytes) + 32
	for _, tb := range trees {
		var tree remoteexecution.Tree
		if err := proto.Unmarshal(tb.bytes, &tree); err != nil {
			return 0, false
		}
		dirs := append([]*remoteexecution.Directory(nil), tree.Children...)
		if tree.Root != nil {
			dirs = append(dirs, tree.Root)
		}
		for _, d := range dirs {
			if n := proto.Size(d); n > largest {
				largest = n
			}
		}
	}
	return largest, true
}

// Tree faults that leave an object whose bytes match its digest (a real CAS
// refuses anything else on upload).
var storableFaultKinds = []string{"trunc_rehash", "trunc_boundary_rehash", "corrupt_rehash", "insert_rehash", "not_a_tree", "unknown_field", "unknown_field_trunc"}

// TestC13Configured: the completeness-checking Action Cache as the REAL
// configuration code assembles it (completeness_checking {backend: local,
// maximum_total_tree_size_bytes: L} over a local CAS, both in memory), so
// that what pkg/blobstore/configuration hands to the decorator - which CAS,
// which limit, which maximum message size - is part of what is checked.
// Objects are uploaded through the configured CAS, the ActionResult through
// the configured Action Cache; it is then read through Get and through
// GetFromComposite. L is drawn relative to the combined size of the Trees
// (below / at / above) and is unrelated to the creator's maximum message
// size, which is either far larger than everything or only just large enough
// for the largest single message of the case (then L may well exceed it).
func TestC13Configured(t *testing.T) {
	rapid.Check(t, func(t *rapid.T) {
		c := recCfg.Begin()
		g := &gen{
			t:         t,
			instance:  rapid.SampledFrom(instances).Draw(t, "instance"),
			fn:        rapid.SampledFrom(digestFunctions).Draw(t, "fn"),
			universe:  map[digest.Digest][]byte{},
			isTree:    map[digest.Digest]bool{},
			malformAt: -1,
		}
		g.clean = g.n(0, 3, "dirty") != 3
		if !g.clean && g.n(0, 2, "malform") == 2 {
			g.malformAt = g.n(0, 19, "malformAt")
		}
		ndirs := rapid.SampledFrom([]int{0, 1, 1, 2, 2, 2, 3, 3}).Draw(t, "ndirs")
		ntrees := 0
		if ndirs > 0 {
			ntrees = g.n(1, ndirs, "ntrees")
		}
		var trees []*treeBuild
		for i := 0; i < ntrees; i++ {
			trees = append(trees, g.genTree(fmt.Sprintf("t%d", i)))
		}
		fault := ""
		if ntrees > 0 && g.n(0, 9, "fault") == 9 {
			tb := trees[g.n(0, ntrees-1, "fault/tree")]
			g.applyFault(tb, rapid.SampledFrom(storableFaultKinds).Draw(t, "fault/kind"), nil, nil, nil)
			fault = tb.fault
		}
		ar := g.genActionResult(trees, ndirs)
		if g.n(0, 2, "completedTimestamp") == 0 {
			// the client filled in worker_completed_timestamp itself: the
			// configured Action Cache stores the message as it is
			if ar.ExecutionMetadata == nil {
				ar.ExecutionMetadata = &remoteexecution.ExecutedActionMetadata{}
			}
			ar.ExecutionMetadata.WorkerCompletedTimestamp = &timestamppb.Timestamp{Seconds: int64(g.n(0, 1<<30, "completedTimestamp/seconds")), Nanos: int32(g.n(0, 999999999, "completedTimestamp/nanos"))}
		}
		arBytes := mustMarshal(ar)
		full, err := referenceWalk(g.instance, g.fn, arBytes, mapView(g.universe), nil)
		if err != nil {
			t.Fatalf("harness: generated ActionResult does not parse: %v", err)
		}

		// Which objects are uploaded?
		var cands []digest.Digest
		for _, d := range full.refOrder {
			if _, ok := g.universe[d]; ok && d.GetSizeBytes() > 0 {
				cands = append(cands, d)
			}
		}
		absent := map[digest.Digest]bool{}
		switch rapid.SampledFrom([]string{"none", "none", "none", "one", "one", "subset"}).Draw(t, "missing") {
		case "one":
			if len(cands) > 0 {
				absent[cands[g.n(0, len(cands)-1, "missing/which")]] = true
			}
		case "subset":
			for i, d := range cands {
				if g.n(0, 3, fmt.Sprintf("missing/%d", i)) == 0 {
					absent[d] = true
				}
			}
		}

		// maximum_total_tree_size_bytes, relative to the Trees of the case.
		limitMode := rapid.SampledFrom([]string{"below", "below", "at", "at", "above", "above", "far_above", "zero", "any"}).Draw(t, "limit")
		var limit int64
		switch limitMode {
		case "below":
			if limit = full.sumDup - int64(g.n(1, 40, "limit/delta")); limit < 0 {
				limit = 0
			}
		case "at":
			limit = full.sumDup
		case "above":
			limit = full.sumDup + int64(g.n(1, 40, "limit/delta"))
		case "far_above":
			limit = 1 << 30
		case "any":
			limit = int64(g.n(0, int(full.sumDup)+40, "limit/value"))
		}
		// The maximum message size the creators are given.
		maxMsg := rapid.SampledFrom([]int{1 << 14, 1 << 16, 1 << 22, 16 << 20}).Draw(t, "maxMessageSize")
		msgMode := "roomy"
		if largest, ok := largestMessage(arBytes, trees); ok && g.n(0, 2, "tightMessageSize") == 2 {
			msgMode = "tight"
			maxMsg = largest + g.n(16, 200, "maxMessageSize/slack")
		}
		if int64(maxMsg) == limit {
			maxMsg++
		}
		build := rapid.SampledFrom([]string{"cas_and_ac", "separate_creators"}).Draw(t, "build")
		firstRead := drawReadPath(t)
		secondRead := drawReadPath(t)
		acMode := g.n(0, 1, "acmode")
		childIsParent := g.n(0, 1, "child") == 0

		c.Add(g.instance, int(g.fn), arBytes, limit, maxMsg, build, firstRead, secondRead, fault, acMode, childIsParent)
		for _, d := range g.order {
			c.Add(d.String(), !absent[d], g.universe[d])
		}

		acCfg := &pb.BlobAccessConfiguration{Backend: &pb.BlobAccessConfiguration_CompletenessChecking{CompletenessChecking: &pb.CompletenessCheckingBlobAccessConfiguration{
			Backend:                   cfgLocal(1),
			MaximumTotalTreeSizeBytes: limit,
		}}}
		uploaded := configuredCAS{}
		acDigest := g.toDigest(g.protoDigest([]byte("action")))
		childDigest := acDigest
		if !childIsParent {
			childDigest = g.toDigest(g.protoDigest([]byte("some part of the action result")))
		}
		type readOutcome struct {
			rd      readResult
			outcome string
		}
		var reads []readOutcome
		var sp *spy
		var final *verdict
		ctx := context.Background()
		runErr := program.RunLocal(ctx, func(ctx context.Context, siblings, deps program.Group) error {
			var cas, ac blobstore.BlobAccess
			switch build {
			case "cas_and_ac":
				var err error
				cas, ac, err = configuration.NewCASAndACBlobAccessFromConfiguration(deps, &pb.BlobstoreConfiguration{
					ContentAddressableStorage: cfgLocal(2),
					ActionCache:               acCfg,
				}, nil, maxMsg, nil)
				if err != nil {
					return fmt.Errorf("harness: NewCASAndACBlobAccessFromConfiguration: %v", err)
				}
			default:
				// The same two steps NewCASAndACBlobAccessFromConfiguration
				// performs, with the harness' spy between the configured CAS
				// and the Action Cache creator.
				casInfo, err := configuration.NewBlobAccessFromConfiguration(deps, cfgLocal(2), configuration.NewCASBlobAccessCreator(nil, maxMsg, nil))
				if err != nil {
					return fmt.Errorf("harness: building the CAS: %v", err)
				}
				cas = casInfo.BlobAccess
				sp = newSpy(cas)
				acInfo, err := configuration.NewBlobAccessFromConfiguration(deps, acCfg, configuration.NewACBlobAccessCreator(
					&configuration.BlobAccessInfo{BlobAccess: sp, DigestKeyFormat: casInfo.DigestKeyFormat}, nil, maxMsg))
				if err != nil {
					return fmt.Errorf("harness: building the Action Cache: %v", err)
				}
				ac = acInfo.BlobAccess
			}
			for _, d := range g.order {
				if absent[d] {
					continue
				}
				if err := cas.Put(ctx, d, buffer.NewCASBufferFromByteSlice(d, g.universe[d], buffer.UserProvided)); err != nil {
					return fmt.Errorf("harness: upload of %s into the configured CAS failed: %v", d, err)
				}
				uploaded[d] = g.universe[d]
			}
			var b buffer.Buffer
			if acMode == 0 {
				b = buffer.NewProtoBufferFromProto(ar, buffer.UserProvided)
			} else {
				b = buffer.NewProtoBufferFromByteSlice(&remoteexecution.ActionResult{}, arBytes, buffer.UserProvided)
			}
			if err := ac.Put(ctx, acDigest, b); err != nil {
				return fmt.Errorf("harness: upload of the ActionResult into the configured Action Cache failed: %v", err)
			}
			var err error
			if final, err = referenceWalk(g.instance, g.fn, arBytes, uploaded, nil); err != nil {
				return fmt.Errorf("harness: %v", err)
			}
			for _, path := range []string{firstRead, secondRead} {
				if sp != nil {
					// "during that call": only what this read was told counts
					sp.reported, sp.served, sp.asked = map[digest.Digest]bool{}, map[digest.Digest]bool{}, map[digest.Digest]bool{}
					sp.log.Reset()
				}
				rd := readThrough(ctx, ac, path, acDigest, childDigest)
				describe := func() string {
					var sb strings.Builder
					fmt.Fprintf(&sb, "  configured stack (%s): completeness_checking{backend: local, maximum_total_tree_size_bytes: %d} over a local CAS; creators' maximum message size %d (%s)\n", build, limit, maxMsg, msgMode)
					fmt.Fprintf(&sb, "  %s\n  instance=%q fn=%s tree_fault=%q malformed=%q\n", rd, g.instance, g.fn, fault, g.malformDone)
					fmt.Fprintf(&sb, "  action result (%d bytes): %s\n", len(arBytes), renderAR(arBytes))
					for _, d := range g.order {
						state := "uploaded"
						if absent[d] {
							state = "NOT UPLOADED"
						}
						what := ""
						if g.isTree[d] {
							what = " tree=" + renderTree(g.universe[d])
						}
						fmt.Fprintf(&sb, "  cas %s %s refs=%v%s\n", d, state, final.refs[d], what)
					}
					fmt.Fprintf(&sb, "  reference walker: missing=%v malformed=%v tree_bad=%v ambiguous=%v tree_bytes=%d (per distinct Tree: %d)\n", final.missing, final.malformed, final.treeBad, final.ambiguous, final.sumDup, final.sumDedup)
					if sp != nil {
						fmt.Fprintf(&sb, "  calls seen by the CAS:\n%s", renderLog(sp))
					}
					fmt.Fprintf(&sb, "  outcome: err=%v\n", rd.err)
					return sb.String()
				}
				in := judgeInput{v: final, stored: arBytes, spy: sp, maxTotal: limit, mutated: fault != "", timestampInjected: true, describe: describe}
				for _, m := range rd.handed {
					in.got, in.err = m, nil
					judge(t, in)
				}
				in.got, in.err = rd.got, rd.err
				reads = append(reads, readOutcome{rd, judge(t, in)})
			}
			return nil
		})
		if runErr != nil {
			t.Fatalf("%v", runErr)
		}

		// Statistics.
		wellFormedAndPresent := len(final.missing) == 0 && len(final.malformed) == 0 && len(final.treeBad) == 0
		for i, r := range reads {
			c.Class("outcome_" + r.outcome)
			c.Class("read_" + r.rd.path + "_outcome_" + r.outcome)
			c.ClassIf(i == 1 && r.outcome != reads[0].outcome, "two_reads_differ_in_outcome")
		}
		c.Class("build_" + build)
		c.Class("limit_" + limitMode)
		c.Class("message_size_" + msgMode)
		over := final.sumDup > limit
		c.ClassIf(over, "trees_over_the_configured_limit")
		c.ClassIf(over && wellFormedAndPresent, "over_the_limit_and_otherwise_complete")
		c.ClassIf(over && wellFormedAndPresent && final.sumDup <= int64(maxMsg), "over_the_limit_but_within_the_message_size")
		c.ClassIf(!over && final.sumDup > 0 && wellFormedAndPresent, "within_the_limit_and_complete")
		c.ClassIf(!over && wellFormedAndPresent && final.sumDup > int64(maxMsg), "within_the_limit_but_over_the_message_size")
		c.ClassIf(final.sumDup == limit && limit > 0, "limit_exactly_met")
		c.ClassIf(final.sumDup != final.sumDedup, "same_tree_in_two_directories")
		c.ClassIf(len(final.missing) == 1, "exactly_one_missing")
		c.ClassIf(len(final.missing) > 1, "several_missing")
		c.ClassIf(fault != "", "tree_fault_applied")
		c.ClassIf(g.malformDone != "", "malformation_applied")
		c.ClassIf(len(final.ambiguous) > 0, "shape_without_fixed_outcome")
		c.ClassIf(ar.GetExecutionMetadata().GetWorkerCompletedTimestamp() == nil, "timestamp_injected_on_upload")
		if wellFormedAndPresent && final.sumDup > 0 && limitMode != "far_above" {
			c.NonTrivial()
		}
		c.Sample(func() string {
			return fmt.Sprintf("limit=%d max_message=%d trees=%d bytes missing=%v ar=%s -> %s via %s, %s via %s", limit, maxMsg, final.sumDup, final.missing, renderAR(arBytes), reads[0].outcome, reads[0].rd.path, reads[1].outcome, reads[1].rd.path)
		})
		c.End()
	})
}
