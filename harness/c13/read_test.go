package c13

import (
	"bytes"
	"context"
	"fmt"

	"github.com/buildbarn/bb-storage/pkg/blobstore"
	"github.com/buildbarn/bb-storage/pkg/blobstore/buffer"
	"github.com/buildbarn/bb-storage/pkg/blobstore/slicing"
	"github.com/buildbarn/bb-storage/pkg/digest"
	"pgregory.net/rapid"
)

// The decorator is a BlobAccess: it has two read operations, Get and
// GetFromComposite. C13 speaks about what "the caller receives" through the
// decorator, so both are read paths of the property. GetFromComposite takes
// a caller-side slicer; the ones below hand back the whole parent object, so
// that what the caller receives is the ActionResult itself.

var readPaths = []string{"get", "get", "composite_whole", "composite_rebuffer"}

// wholeSlicer is the trivial caller-side slicer: the child is the whole
// parent. With rebuffer it consumes the parent buffer and returns a fresh one
// holding the same bytes (which is what a real slicer does with the parts it
// extracts), and it remembers every message it was handed: a message that
// reaches the caller's slicer has reached the caller.
type wholeSlicer struct {
	rebuffer bool
	calls    int
	saw      [][]byte
}

func (s *wholeSlicer) Slice(b buffer.Buffer, child digest.Digest) (buffer.Buffer, []slicing.BlobSlice) {
	s.calls++
	if !s.rebuffer {
		return b, nil
	}
	data, err := b.ToByteSlice(1 << 20)
	if err != nil {
		return buffer.NewBufferFromError(err), nil
	}
	s.saw = append(s.saw, data)
	return buffer.NewValidatedBufferFromByteSlice(data), nil
}

// readResult is what one read through the decorator gave the caller.
type readResult struct {
	path string
	got  []byte
	err  error
	// handed: messages the caller's slicer was handed that are not the
	// final result (never happens with the unchanged decorator).
	handed [][]byte
	slicer *wholeSlicer
}

// readThrough performs one read of parent through ba along the given path.
// child is only passed on (the slicers ignore it).
func readThrough(ctx context.Context, ba blobstore.BlobAccess, path string, parent, child digest.Digest) readResult {
	r := readResult{path: path}
	switch path {
	case "get":
		r.got, r.err = ba.Get(ctx, parent).ToByteSlice(1 << 20)
	case "composite_whole", "composite_rebuffer":
		r.slicer = &wholeSlicer{rebuffer: path == "composite_rebuffer"}
		r.got, r.err = ba.GetFromComposite(ctx, parent, child, r.slicer).ToByteSlice(1 << 20)
		for _, m := range r.slicer.saw {
			if r.err != nil || !bytes.Equal(m, r.got) {
				r.handed = append(r.handed, m)
			}
		}
	default:
		panic("unknown read path " + path)
	}
	return r
}

func (r readResult) String() string {
	s := "read through " + r.path
	if r.slicer != nil {
		s += fmt.Sprintf(" (slicer called %d times, handed %d messages)", r.slicer.calls, len(r.slicer.saw))
	}
	return s
}

func drawReadPath(t *rapid.T) string {
	return rapid.SampledFrom(readPaths).Draw(t, "readPath")
}

// captured is the panic value of a probing fataler.
type captured struct{ msg string }

// probe is a fataler that does not end the test: it lets a caller find out
// whether judge would accept an outcome.
type probe struct{}

func (probe) Fatalf(format string, args ...any) {
	panic(captured{fmt.Sprintf(format, args...)})
}

// tryJudge runs judge and reports its complaint instead of failing the test.
func tryJudge(in judgeInput) (outcome, complaint string) {
	defer func() {
		if r := recover(); r != nil {
			c, ok := r.(captured)
			if !ok {
				panic(r)
			}
			complaint = c.msg
		}
	}()
	return judge(probe{}, in), ""
}

// childOf draws the child digest of a GetFromComposite read: the parent
// itself or some other object (the whole-parent slicers ignore it; the
// decorator has no reason to look at it).
func (g *gen) childOf(parent digest.Digest, path string) digest.Digest {
	if path == "get" || g.n(0, 1, "child") == 0 {
		return parent
	}
	return g.toDigest(g.protoDigest([]byte("some part of the action result")))
}
