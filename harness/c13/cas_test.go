package c13

import (
	"bytes"
	"context"
	"io"
	"sync/atomic"

	remoteexecution "github.com/bazelbuild/remote-apis/build/bazel/remote/execution/v2"
	"github.com/buildbarn/bb-storage/pkg/blobstore"
	"github.com/buildbarn/bb-storage/pkg/blobstore/buffer"
	"github.com/buildbarn/bb-storage/pkg/blobstore/slicing"
	"github.com/buildbarn/bb-storage/pkg/digest"
	"google.golang.org/grpc/codes"
	"google.golang.org/grpc/status"
	"google.golang.org/protobuf/proto"

	"verif/harness/backends"
	"verif/harness/hx"
)

func quiet(bool) {}

// acStore is backends.Mem holding marshalled ActionResult messages, served
// the way an Action Cache back end does (proto buffers, not CAS buffers).
type acStore struct {
	*backends.Mem
	mode int // 0 from proto, 1 from byte slice, 2 from reader
	// gets counts the reads (Get and GetFromComposite) received so far;
	// beforeRead, if set, runs at the start of every read with the number
	// of reads received before it (the place where another client's
	// UpdateActionResult lands between two reads of the same entry).
	gets       int
	beforeRead func(n int)
}

// GetFromComposite serves the entry the way Get does and hands it to the
// caller's slicer (backends.Mem would serve a CAS buffer).
func (a *acStore) GetFromComposite(ctx context.Context, parent, child digest.Digest, slicer slicing.BlobSlicer) buffer.Buffer {
	b, _ := slicer.Slice(a.Get(ctx, parent), child)
	return b
}

func (a *acStore) Get(ctx context.Context, d digest.Digest) buffer.Buffer {
	if a.beforeRead != nil {
		a.beforeRead(a.gets)
	}
	a.gets++
	data, ok := a.Mem.Peek(d)
	if !ok {
		return buffer.NewBufferFromError(status.Errorf(codes.NotFound, "ac: %s not found", d))
	}
	src := buffer.BackendProvided(quiet)
	switch a.mode {
	case 0:
		m := &remoteexecution.ActionResult{}
		if err := proto.Unmarshal(data, m); err != nil {
			return buffer.NewBufferFromError(status.Errorf(codes.Internal, "ac: %v", err))
		}
		return buffer.NewProtoBufferFromProto(m, src)
	case 1:
		return buffer.NewProtoBufferFromByteSlice(&remoteexecution.ActionResult{}, data, src)
	}
	return buffer.NewProtoBufferFromReader(&remoteexecution.ActionResult{}, io.NopCloser(bytes.NewReader(data)), src)
}

// serveSpec says how one CAS object is streamed.
type serveSpec struct {
	chunks      []int
	eofWithData bool
	failAfter   int // <0: never
	failErr     error
}

// viaSpec says through which constructor of the real read-buffer factory
// (blobstore.CASReadBufferFactory) one object is handed out.
type viaSpec struct {
	method string // "readerat", "reader" or "slice"
	// sizeFromDigest: the size handed to NewBufferFromReaderAt is the one the
	// digest states (a location record of a local store) instead of the
	// number of bytes actually held (the entry size of a ZIP archive).
	sizeFromDigest bool
	// eofAtEnd: a ReadAt that ends exactly at the last stored byte returns
	// (n, io.EOF) instead of (n, nil); io.ReaderAt allows both.
	eofAtEnd bool
}

// countingReadAtCloser is random-access storage holding the bytes that are
// stored for one object (which need not be the bytes the digest names). It
// optionally fails every read that reaches byte FailAfter, and counts.
type countingReadAtCloser struct {
	Digest    digest.Digest
	Data      []byte
	FailAfter int // <0: never
	FailErr   error
	EOFAtEnd  bool

	Closes atomic.Int32
	Reads  atomic.Int32
}

func (r *countingReadAtCloser) ReadAt(p []byte, off int64) (int, error) {
	r.Reads.Add(1)
	if off < 0 {
		return 0, status.Error(codes.InvalidArgument, "harness: negative offset")
	}
	end := int64(len(r.Data))
	if r.FailAfter >= 0 && int64(r.FailAfter) < end+1 {
		if off >= int64(r.FailAfter) {
			return 0, r.FailErr
		}
		if off+int64(len(p)) > int64(r.FailAfter) {
			return copy(p, r.Data[off:r.FailAfter]), r.FailErr
		}
	}
	if off >= end {
		return 0, io.EOF
	}
	n := copy(p, r.Data[off:])
	if n < len(p) || (r.EOFAtEnd && off+int64(n) == end) {
		return n, io.EOF
	}
	return n, nil
}

func (r *countingReadAtCloser) Close() error {
	r.Closes.Add(1)
	return nil
}

// casServer is the CAS proper: presence and bytes come from a backends.Mem.
//
// Without a factory, objects listed in streamed are handed out as
// reader-backed CAS buffers (validated only when the stream ends), everything
// else as byte slices, using the buffer constructors directly.
//
// With a factory (blobstore.CASReadBufferFactory), every object goes through
// the real read-buffer factory, exactly as in a local (block device backed)
// or ZIP backed CAS: the stored bytes sit in a ReadAtCloser, a ReadCloser or
// a byte slice and the factory decides how they become a Buffer. The stored
// bytes may differ from what the digest names.
type casServer struct {
	*backends.Mem
	streamed map[digest.Digest]serveSpec
	readers  []*hx.CountingReadCloser

	factory   blobstore.ReadBufferFactory
	via       map[digest.Digest]viaSpec
	readerAts []*countingReadAtCloser
	// answers given to the data integrity callback of the factory's buffers
	integrityOK, integrityBad atomic.Int32
}

func (s *casServer) integrity(ok bool) {
	if ok {
		s.integrityOK.Add(1)
	} else {
		s.integrityBad.Add(1)
	}
}

func (s *casServer) Get(ctx context.Context, d digest.Digest) buffer.Buffer {
	data, ok := s.Mem.Peek(d)
	if !ok {
		return buffer.NewBufferFromError(status.Errorf(codes.NotFound, "cas: object %s not found", d))
	}
	spec, isStreamed := s.streamed[d]
	if s.factory != nil {
		v := s.via[d]
		switch v.method {
		case "readerat":
			ra := &countingReadAtCloser{Digest: d, Data: data, FailAfter: -1, EOFAtEnd: v.eofAtEnd}
			if isStreamed && spec.failAfter >= 0 {
				ra.FailAfter, ra.FailErr = spec.failAfter, spec.failErr
			}
			s.readerAts = append(s.readerAts, ra)
			size := int64(len(data))
			if v.sizeFromDigest {
				size = d.GetSizeBytes()
			}
			return s.factory.NewBufferFromReaderAt(d, ra, size, s.integrity)
		case "reader":
			if !isStreamed {
				spec = serveSpec{failAfter: -1}
			}
			r := &hx.CountingReadCloser{Data: data, Chunks: spec.chunks, EOFWithData: spec.eofWithData, FailAfter: spec.failAfter, FailErr: spec.failErr}
			s.readers = append(s.readers, r)
			return s.factory.NewBufferFromReader(d, r, s.integrity)
		}
		return s.factory.NewBufferFromByteSlice(d, data, s.integrity)
	}
	src := buffer.BackendProvided(quiet)
	if !isStreamed {
		return buffer.NewCASBufferFromByteSlice(d, data, src)
	}
	r := &hx.CountingReadCloser{Data: data, Chunks: spec.chunks, EOFWithData: spec.eofWithData, FailAfter: spec.failAfter, FailErr: spec.failErr}
	s.readers = append(s.readers, r)
	return buffer.NewCASBufferFromReader(d, r, src)
}

// spy is the outermost CAS decorator: it sees exactly what the code under
// test asks and what it is told.
type spy struct {
	blobstore.BlobAccess
	log      backends.Log
	reported map[digest.Digest]bool // told "present" by a successful FindMissing
	served   map[digest.Digest]bool // a Get of the object was answered with the object (not with an error)
	asked    map[digest.Digest]bool
	finds    int
	gets     int
	maxBatch int
	other    int
	// beforeCall, if set, runs at the start of every FindMissing / Get with
	// the number of such calls received before it.
	beforeCall func(n int)
}

func newSpy(inner blobstore.BlobAccess) *spy {
	return &spy{BlobAccess: inner, reported: map[digest.Digest]bool{}, served: map[digest.Digest]bool{}, asked: map[digest.Digest]bool{}}
}

func (s *spy) FindMissing(ctx context.Context, ds digest.Set) (digest.Set, error) {
	if s.beforeCall != nil {
		s.beforeCall(s.finds + s.gets)
	}
	s.finds++
	items := ds.Items()
	if len(items) > s.maxBatch {
		s.maxBatch = len(items)
	}
	missing, err := s.BlobAccess.FindMissing(ctx, ds)
	s.log.Add(backends.Call{Backend: "cas", Op: "FindMissing", Digests: append([]digest.Digest(nil), items...), Err: err})
	for _, d := range items {
		s.asked[d] = true
	}
	if err == nil {
		absent := map[digest.Digest]bool{}
		for _, d := range missing.Items() {
			absent[d] = true
		}
		for _, d := range items {
			if !absent[d] {
				s.reported[d] = true
			}
		}
	}
	return missing, err
}

func (s *spy) Get(ctx context.Context, d digest.Digest) buffer.Buffer {
	if s.beforeCall != nil {
		s.beforeCall(s.finds + s.gets)
	}
	s.gets++
	s.log.Add(backends.Call{Backend: "cas", Op: "Get", Digests: []digest.Digest{d}})
	b := s.BlobAccess.Get(ctx, d)
	// Handing out the object is the CAS saying that it holds it (a damaged
	// or failing stream is judged separately, as an unreadable Tree).
	if _, err := b.GetSizeBytes(); err == nil {
		s.served[d] = true
	}
	return b
}

func (s *spy) Put(ctx context.Context, d digest.Digest, b buffer.Buffer) error {
	s.other++
	s.log.Add(backends.Call{Backend: "cas", Op: "Put", Digests: []digest.Digest{d}})
	return s.BlobAccess.Put(ctx, d, b)
}
