package c13

import (
	"crypto/md5"
	"crypto/sha1"
	"crypto/sha256"
	"crypto/sha512"
	"encoding/hex"
	"fmt"
	"strings"

	remoteexecution "github.com/bazelbuild/remote-apis/build/bazel/remote/execution/v2"
	"github.com/buildbarn/bb-storage/pkg/digest"
	"google.golang.org/grpc/codes"
	"google.golang.org/grpc/status"
	"google.golang.org/protobuf/proto"
)

// The reference side of the check. Nothing in this file calls into
// pkg/blobstore or pkg/util; pkg/digest is used only to name objects
// (digest.Digest is the key type of the model CAS and of the call log).

var hashHexLen = map[remoteexecution.DigestFunction_Value]int{
	remoteexecution.DigestFunction_MD5:    32,
	remoteexecution.DigestFunction_SHA1:   40,
	remoteexecution.DigestFunction_SHA256: 64,
	remoteexecution.DigestFunction_SHA384: 96,
	remoteexecution.DigestFunction_SHA512: 128,
}

func hashHex(fn remoteexecution.DigestFunction_Value, data []byte) string {
	switch fn {
	case remoteexecution.DigestFunction_MD5:
		s := md5.Sum(data)
		return hex.EncodeToString(s[:])
	case remoteexecution.DigestFunction_SHA1:
		s := sha1.Sum(data)
		return hex.EncodeToString(s[:])
	case remoteexecution.DigestFunction_SHA256:
		s := sha256.Sum256(data)
		return hex.EncodeToString(s[:])
	case remoteexecution.DigestFunction_SHA384:
		s := sha512.Sum384(data)
		return hex.EncodeToString(s[:])
	case remoteexecution.DigestFunction_SHA512:
		s := sha512.Sum512(data)
		return hex.EncodeToString(s[:])
	}
	panic("unsupported digest function")
}

// wellFormed is the harness' own definition of a well-formed REv2 digest
// under a digest function: lowercase hexadecimal hash of exactly the
// function's length, non-negative size.
func wellFormed(fn remoteexecution.DigestFunction_Value, d *remoteexecution.Digest) bool {
	h := d.GetHash()
	if len(h) != hashHexLen[fn] {
		return false
	}
	for i := 0; i < len(h); i++ {
		c := h[i]
		if !(c >= '0' && c <= '9') && !(c >= 'a' && c <= 'f') {
			return false
		}
	}
	return d.GetSizeBytes() >= 0
}

// casView is what the walker needs from a CAS: the stored bytes.
type casView interface {
	Peek(d digest.Digest) ([]byte, bool)
}

type mapView map[digest.Digest][]byte

func (m mapView) Peek(d digest.Digest) ([]byte, bool) {
	b, ok := m[d]
	return b, ok
}

// verdict is what the reference walker derives from (ActionResult bytes,
// CAS contents).
type verdict struct {
	refs      map[digest.Digest][]string // well-formed referenced digests -> positions
	refOrder  []digest.Digest            // in walk order
	malformed []string                   // positions holding a malformed referenced digest
	treeBad   []string                   // Trees that are present but unreadable / corrupted / not a Tree
	missing   []digest.Digest            // referenced, well-formed, absent from the CAS
	ambiguous []string                   // shapes for which the property fixes no outcome
	sumDup    int64                      // sum of tree sizes, one term per output directory
	sumDedup  int64                      // sum of tree sizes, one term per distinct Tree
	trees     int                        // Trees successfully walked
	dirsSeen  int
}

func (v *verdict) ref(instance string, fn remoteexecution.DigestFunction_Value, pos string, d *remoteexecution.Digest) (digest.Digest, bool) {
	if d == nil {
		return digest.BadDigest, false
	}
	if !wellFormed(fn, d) {
		v.malformed = append(v.malformed, pos)
		return digest.BadDigest, false
	}
	dd := digest.MustNewDigest(instance, fn, d.Hash, d.SizeBytes)
	if _, ok := v.refs[dd]; !ok {
		v.refOrder = append(v.refOrder, dd)
	}
	v.refs[dd] = append(v.refs[dd], pos)
	return dd, true
}

// referenceWalk computes the set of CAS objects an ActionResult references
// according to the text of C13: output files, stdout, stderr, Tree objects,
// root directories, every file listed in any directory of those Trees and,
// when the output directory carries a root directory digest, every
// directory listed in any directory of those Trees.
func referenceWalk(instance string, fn remoteexecution.DigestFunction_Value, arBytes []byte, cas casView, unreadable map[digest.Digest]bool) (*verdict, error) {
	var ar remoteexecution.ActionResult
	if err := proto.Unmarshal(arBytes, &ar); err != nil {
		return nil, err
	}
	v := &verdict{refs: map[digest.Digest][]string{}}
	for i, f := range ar.OutputFiles {
		v.ref(instance, fn, fmt.Sprintf("output_files[%d]", i), f.Digest)
	}
	v.ref(instance, fn, "stdout", ar.StdoutDigest)
	v.ref(instance, fn, "stderr", ar.StderrDigest)
	seenTree := map[digest.Digest]bool{}
	for i, od := range ar.OutputDirectories {
		withRoot := od.RootDirectoryDigest != nil
		v.ref(instance, fn, fmt.Sprintf("dir[%d].root", i), od.RootDirectoryDigest)
		if od.TreeDigest == nil {
			// REv2 allows DIRECTORY_ONLY output directories; the
			// property text says nothing about them.
			v.ambiguous = append(v.ambiguous, fmt.Sprintf("dir[%d] has no tree digest", i))
			continue
		}
		td, ok := v.ref(instance, fn, fmt.Sprintf("dir[%d].tree", i), od.TreeDigest)
		if !ok {
			continue
		}
		v.sumDup += od.TreeDigest.SizeBytes
		if !seenTree[td] {
			seenTree[td] = true
			v.sumDedup += od.TreeDigest.SizeBytes
		}
		data, present := cas.Peek(td)
		if !present {
			continue
		}
		if unreadable[td] {
			v.treeBad = append(v.treeBad, fmt.Sprintf("dir[%d]: read error while streaming the Tree", i))
			continue
		}
		if int64(len(data)) != od.TreeDigest.SizeBytes || hashHex(fn, data) != od.TreeDigest.Hash {
			v.treeBad = append(v.treeBad, fmt.Sprintf("dir[%d]: stored Tree bytes do not match the digest", i))
			continue
		}
		var tree remoteexecution.Tree
		if err := proto.Unmarshal(data, &tree); err != nil {
			v.treeBad = append(v.treeBad, fmt.Sprintf("dir[%d]: not a Tree: %v", i, err))
			continue
		}
		v.trees++
		var walk func(pos string, d *remoteexecution.Directory)
		walk = func(pos string, d *remoteexecution.Directory) {
			v.dirsSeen++
			for j, f := range d.Files {
				v.ref(instance, fn, fmt.Sprintf("%s.file[%d]", pos, j), f.Digest)
			}
			for j, c := range d.Directories {
				if withRoot {
					v.ref(instance, fn, fmt.Sprintf("%s.subdir[%d]", pos, j), c.Digest)
				} else if c.Digest != nil && !wellFormed(fn, c.Digest) {
					v.ambiguous = append(v.ambiguous, fmt.Sprintf("%s.subdir[%d]: malformed digest at a position that is not referenced", pos, j))
				}
			}
		}
		if tree.Root != nil {
			walk(fmt.Sprintf("dir[%d].tree.root", i), tree.Root)
		}
		for k, c := range tree.Children {
			walk(fmt.Sprintf("dir[%d].tree.children[%d]", i, k), c)
		}
	}
	for _, d := range v.refOrder {
		if _, ok := cas.Peek(d); !ok {
			v.missing = append(v.missing, d)
		}
	}
	return v, nil
}

// positionKind maps a position label to the kind of reference.
func positionKind(pos string) string {
	switch {
	case strings.HasPrefix(pos, "output_files"):
		return "output_file"
	case pos == "stdout" || pos == "stderr":
		return pos
	case strings.HasSuffix(pos, ".tree"):
		return "tree_object"
	case strings.HasSuffix(pos, ".root"):
		return "root_directory"
	case strings.Contains(pos, ".file["):
		if strings.Contains(pos, ".children[") {
			return "file_in_child_directory"
		}
		return "file_in_root_directory"
	case strings.Contains(pos, ".subdir["):
		return "child_directory"
	}
	return "other"
}

type fataler interface {
	Fatalf(format string, args ...any)
}

type judgeInput struct {
	v        *verdict
	stored   []byte // ActionResult bytes held by the AC
	got      []byte
	err      error
	spy      *spy
	maxTotal int64
	// fired: an injected CAS error was delivered to the code under test.
	fired     bool
	faultCode codes.Code
	faultText string
	// mutated: a Tree of this case went through a byte-level fault
	// (so "well-formed" is not known by construction).
	mutated bool
	// timestampInjected: the result was stored through a stack whose top
	// level sets execution_metadata.worker_completed_timestamp on upload when
	// the client left it out (documented behaviour of the configured Action
	// Cache); that one field is then not compared.
	timestampInjected bool
	// describe renders the case for failure messages.
	describe func() string
}

// judge applies the clauses of C13 and returns the outcome class.
func judge(t fataler, in judgeInput) string {
	v := in.v
	returned := in.err == nil
	oversizeStrict := v.sumDedup > in.maxTotal
	oversizeLoose := v.sumDup > in.maxTotal
	if returned {
		var got, want remoteexecution.ActionResult
		if err := proto.Unmarshal(in.got, &got); err != nil {
			t.Fatalf("decorator returned bytes that are no ActionResult: %v\n%s", err, in.describe())
		}
		if err := proto.Unmarshal(in.stored, &want); err != nil {
			t.Fatalf("harness: stored ActionResult does not parse: %v", err)
		}
		if in.timestampInjected && want.GetExecutionMetadata().GetWorkerCompletedTimestamp() == nil && got.GetExecutionMetadata().GetWorkerCompletedTimestamp() != nil {
			got.ExecutionMetadata.WorkerCompletedTimestamp = nil
			if want.ExecutionMetadata == nil && proto.Size(got.ExecutionMetadata) == 0 {
				got.ExecutionMetadata = nil
			}
		}
		if !proto.Equal(&got, &want) {
			t.Fatalf("decorator returned an ActionResult different from the stored one\n%s", in.describe())
		}
		if len(v.malformed) > 0 {
			t.Fatalf("ActionResult returned although it holds a malformed digest at %v\n%s", v.malformed, in.describe())
		}
		if len(v.treeBad) > 0 {
			t.Fatalf("ActionResult returned although a Tree is unreadable/corrupted: %v\n%s", v.treeBad, in.describe())
		}
		if oversizeStrict {
			t.Fatalf("ActionResult returned although its Trees total %d bytes, limit %d\n%s", v.sumDedup, in.maxTotal, in.describe())
		}
		// A failed CAS call does not by itself forbid the result (the call
		// may have been repeated successfully); what counts is that every
		// referenced object was reported present by a call that succeeded.
		for _, d := range v.refOrder {
			if len(v.missing) > 0 && containsDigest(v.missing, d) {
				t.Fatalf("ActionResult returned although referenced object %s (%v) is absent from the CAS\n%s", d, v.refs[d], in.describe())
			}
			// (in.spy == nil: the CAS was assembled by the configuration
			// code and cannot be observed; its contents do not change
			// during the call, so presence is what it reports.)
			if in.spy != nil && !in.spy.reported[d] && !in.spy.served[d] {
				t.Fatalf("ActionResult returned although referenced object %s (%v) was not reported present by the CAS during this call (asked=%v)\n%s", d, v.refs[d], in.spy.asked[d], in.describe())
			}
		}
		return "returned"
	}
	// An error was returned.
	if in.fired {
		// The decorator documents that an error of the Tree stream itself
		// (here: only possible for a Tree that is unreadable/corrupted)
		// takes precedence over whatever failed while visiting it.
		if len(v.treeBad) > 0 {
			return "error_cas_failure_and_tree_bad"
		}
		// The property only demands that the result is withheld; with which
		// code and text the failure reaches the caller is counted.
		if status.Code(in.err) != in.faultCode || !strings.Contains(in.err.Error(), in.faultText) {
			return "error_cas_failure_recoded"
		}
		return "error_cas_failure"
	}
	certain := len(v.ambiguous) == 0 && !in.mutated
	clean := len(v.malformed) == 0 && len(v.treeBad) == 0 && !oversizeLoose
	if len(v.missing) > 0 && clean && certain {
		if status.Code(in.err) != codes.NotFound {
			t.Fatalf("referenced object(s) %v absent from the CAS, want NOT_FOUND, caller received %v\n%s", v.missing, in.err, in.describe())
		}
		return "not_found_missing"
	}
	if len(v.missing) == 0 && clean && certain {
		t.Fatalf("everything referenced is present and well-formed, yet the caller received %v\n%s", in.err, in.describe())
	}
	switch {
	case len(v.malformed) > 0:
		return "error_malformed"
	case len(v.treeBad) > 0:
		return "error_tree_bad"
	case oversizeLoose:
		return "error_oversize"
	case len(v.missing) > 0:
		return "error_missing_uncertain"
	}
	return "error_uncertain_shape"
}

func containsDigest(ds []digest.Digest, d digest.Digest) bool {
	for _, x := range ds {
		if x == d {
			return true
		}
	}
	return false
}
