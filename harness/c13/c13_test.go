package c13

import (
	"context"
	"fmt"
	"io"
	"log"
	"os"
	"strings"
	"testing"

	remoteexecution "github.com/bazelbuild/remote-apis/build/bazel/remote/execution/v2"
	"github.com/buildbarn/bb-storage/pkg/blobstore"
	"github.com/buildbarn/bb-storage/pkg/blobstore/completenesschecking"
	"github.com/buildbarn/bb-storage/pkg/digest"
	"google.golang.org/grpc/codes"
	"google.golang.org/grpc/status"
	"google.golang.org/protobuf/encoding/prototext"
	"google.golang.org/protobuf/proto"
	"pgregory.net/rapid"

	"verif/harness/backends"
	"verif/harness/vstats"
)

func TestMain(m *testing.M) {
	log.SetOutput(io.Discard)
	rc := m.Run()
	vstats.Flush()
	os.Exit(rc)
}

const maxMessageSize = 1 << 16

var faultCodes = []codes.Code{codes.Unavailable, codes.Internal, codes.DeadlineExceeded, codes.ResourceExhausted}

func renderAR(arBytes []byte) string {
	var ar remoteexecution.ActionResult
	if err := proto.Unmarshal(arBytes, &ar); err != nil {
		return fmt.Sprintf("<unparsable %x>", arBytes)
	}
	return prototext.MarshalOptions{Multiline: false}.Format(&ar)
}

func renderTree(data []byte) string {
	var tr remoteexecution.Tree
	if err := proto.Unmarshal(data, &tr); err != nil {
		return fmt.Sprintf("<not a Tree: %x>", data)
	}
	return prototext.MarshalOptions{Multiline: false}.Format(&tr)
}

func renderLog(sp *spy) string {
	var sb strings.Builder
	for _, c := range sp.log.Snapshot() {
		sb.WriteString("    " + c.String())
		if c.Err != nil {
			fmt.Fprintf(&sb, " -> %v", c.Err)
		}
		sb.WriteString("\n")
	}
	return sb.String()
}

var recMain = vstats.New("TestC13Completeness")

// TestC13Completeness: generated ActionResults over a model CAS holding a
// drawn subset of the referenced objects, with malformed digests, damaged
// Trees, size limits and CAS failures; every outcome is judged against the
// independent reference walker.
func TestC13Completeness(t *testing.T) {
	rapid.Check(t, func(t *rapid.T) {
		c := recMain.Begin()
		g := &gen{
			t:         t,
			instance:  rapid.SampledFrom(instances).Draw(t, "instance"),
			fn:        rapid.SampledFrom(digestFunctions).Draw(t, "fn"),
			universe:  map[digest.Digest][]byte{},
			isTree:    map[digest.Digest]bool{},
			malformAt: -1,
		}
		if g.n(0, 4, "malform") == 4 {
			g.malformAt = g.n(0, 19, "malformAt")
		}
		ndirs := rapid.SampledFrom([]int{0, 1, 1, 1, 2, 2, 3}).Draw(t, "ndirs")
		ntrees := 0
		if ndirs > 0 {
			ntrees = g.n(1, ndirs, "ntrees")
		}
		var trees []*treeBuild
		for i := 0; i < ntrees; i++ {
			trees = append(trees, g.genTree(fmt.Sprintf("t%d", i)))
		}
		streamed := map[digest.Digest]serveSpec{}
		unreadable := map[digest.Digest]bool{}
		fault := ""
		var faultDigest digest.Digest
		if ntrees > 0 && g.n(0, 3, "fault") == 3 {
			kind := rapid.SampledFrom(faultKinds).Draw(t, "fault/kind")
			tb := trees[g.n(0, ntrees-1, "fault/tree")]
			code := faultCodes[g.n(0, len(faultCodes)-1, "fault/code")]
			g.applyFault(tb, kind, streamed, unreadable, status.Error(code, "injected read failure"))
			fault = tb.fault
			faultDigest = g.toDigest(tb.digest)
		}
		ar := g.genActionResult(trees, ndirs)
		arBytes := mustMarshal(ar)

		full, err := referenceWalk(g.instance, g.fn, arBytes, mapView(g.universe), unreadable)
		if err != nil {
			t.Fatalf("harness: generated ActionResult does not parse: %v", err)
		}

		// Which objects does the CAS hold?
		var cands []digest.Digest
		for _, d := range full.refOrder {
			if _, ok := g.universe[d]; ok {
				cands = append(cands, d)
			}
		}
		absent := map[digest.Digest]bool{}
		mode := rapid.SampledFrom([]string{"all", "all", "one", "one", "one", "subset"}).Draw(t, "missing")
		switch mode {
		case "one":
			if len(cands) > 0 {
				absent[cands[g.n(0, len(cands)-1, "missing/which")]] = true
			}
		case "subset":
			for i, d := range cands {
				if g.n(0, 2, fmt.Sprintf("missing/%d", i)) == 0 {
					absent[d] = true
				}
			}
		}
		for i, d := range g.order {
			if _, referenced := full.refs[d]; !referenced {
				if g.n(0, 3, fmt.Sprintf("unreferenced/%d", i)) == 3 {
					absent[d] = true
				}
			}
		}
		kf := rapid.SampledFrom([]digest.KeyFormat{digest.KeyWithoutInstance, digest.KeyWithInstance}).Draw(t, "casKeyFormat")
		mem := backends.NewMem("cas", kf)
		for _, d := range g.order {
			c.Add(d.String(), !absent[d], g.universe[d])
			if !absent[d] {
				mem.Set(d, g.universe[d])
			}
		}
		for i, d := range g.order {
			if _, done := streamed[d]; done || !g.isTree[d] {
				continue
			}
			if g.n(0, 1, fmt.Sprintf("stream/%d", i)) == 1 {
				streamed[d] = serveSpec{chunks: []int{g.n(1, 40, "stream/chunk")}, eofWithData: g.n(0, 1, "stream/eof") == 1, failAfter: -1}
			}
		}

		// How the CAS turns stored bytes into buffers: with the buffer
		// constructors directly, or through the real read-buffer factory.
		serve := rapid.SampledFrom([]string{"direct", "factory", "factory"}).Draw(t, "serve")
		var via map[digest.Digest]viaSpec
		var factory blobstore.ReadBufferFactory
		if serve == "factory" {
			factory = blobstore.CASReadBufferFactory
			via = g.drawVia(streamed)
		}

		batch := g.n(1, 5, "batch")
		maxTotal := int64(1 << 20)
		switch g.n(0, 19, "limit") {
		case 16, 17:
			if maxTotal = full.sumDup - 1; maxTotal < 0 {
				maxTotal = 0
			}
		case 13, 14, 15:
			maxTotal = full.sumDup
		case 18:
			maxTotal = int64(g.n(0, int(full.sumDup), "limit/value"))
		case 19:
			maxTotal = 0
		}
		srv := &casServer{Mem: mem, streamed: streamed, factory: factory, via: via}
		var inner blobstore.BlobAccess = srv
		var faulty *backends.Faulty
		faultAt, faultCode, faultShape := -1, codes.OK, 0
		if g.n(0, 5, "casfault") == 5 {
			faultAt = rapid.SampledFrom([]int{0, 0, 1, 1, 2, 2, 3, 4, 5, 7}).Draw(t, "casfault/at")
			faultCode = faultCodes[g.n(0, len(faultCodes)-1, "casfault/code")]
			// Fault sequences, not only single faults: a burst of
			// consecutive failing calls (a repeated call fails as well), a
			// second failure further on, or an outage that lasts for the
			// rest of the call.
			script := map[int]backends.Fault{faultAt: {Code: faultCode, MidStreamAfter: -1}}
			switch faultShape = g.n(0, 5, "casfault/shape"); faultShape {
			case 2, 3:
				for i := 1; i <= faultShape-1; i++ {
					script[faultAt+i] = backends.Fault{Code: faultCodes[g.n(0, len(faultCodes)-1, "casfault/code+")], MidStreamAfter: -1}
				}
			case 4:
				script[faultAt+g.n(2, 5, "casfault/gap")] = backends.Fault{Code: faultCode, MidStreamAfter: -1}
			case 5:
				for i := 1; i < 64; i++ {
					script[faultAt+i] = backends.Fault{Code: faultCode, MidStreamAfter: -1}
				}
			}
			faulty = backends.NewFaulty("cas", srv, script)
			inner = faulty
		}
		sp := newSpy(inner)
		acMem := backends.NewMem("ac", digest.KeyWithInstance)
		acDigest := g.toDigest(g.protoDigest([]byte(fmt.Sprintf("action-%d", g.n(0, 3, "action")))))
		acMem.Set(acDigest, arBytes)
		acMode := g.n(0, 2, "acmode")
		readPath := drawReadPath(t)
		child := g.childOf(acDigest, readPath)
		c.Add(g.instance, int(g.fn), arBytes, batch, maxTotal, faultAt, faultShape, int(faultCode), fault, int(kf), acMode, serve, readPath, child.String())
		for _, d := range g.order {
			if s, ok := streamed[d]; ok {
				c.Add(d.String(), s.chunks[0], s.eofWithData, s.failAfter)
			}
			if v, ok := via[d]; ok && g.isTree[d] {
				c.Add(d.String(), v.method, v.sizeFromDigest, v.eofAtEnd)
			}
		}

		ba := completenesschecking.NewCompletenessCheckingBlobAccess(&acStore{Mem: acMem, mode: acMode}, sp, batch, maxMessageSize, maxTotal)
		rd := readThrough(context.Background(), ba, readPath, acDigest, child)
		got, gerr := rd.got, rd.err

		final, err := referenceWalk(g.instance, g.fn, arBytes, mem, unreadable)
		if err != nil {
			t.Fatalf("harness: %v", err)
		}
		describe := func() string {
			var sb strings.Builder
			fmt.Fprintf(&sb, "  %s\n", rd)
			fmt.Fprintf(&sb, "  instance=%q fn=%s batch=%d max_total_tree_size=%d cas_fault_at=%d cas_fault_shape=%d tree_fault=%q malformed=%q cas_serves=%s\n", g.instance, g.fn, batch, maxTotal, faultAt, faultShape, fault, g.malformDone, serve)
			fmt.Fprintf(&sb, "  action result: %s\n", renderAR(arBytes))
			for _, d := range g.order {
				state := "present"
				if absent[d] {
					state = "ABSENT"
				}
				what := ""
				if g.isTree[d] {
					what = " tree=" + renderTree(g.universe[d])
					if v, ok := via[d]; ok {
						what = fmt.Sprintf(" via CASReadBufferFactory/%s(size_from_digest=%v) stored_bytes=%d%s", v.method, v.sizeFromDigest, len(g.universe[d]), what)
					}
				}
				fmt.Fprintf(&sb, "  cas %s %s refs=%v%s\n", d, state, final.refs[d], what)
			}
			fmt.Fprintf(&sb, "  reference walker: missing=%v malformed=%v tree_bad=%v ambiguous=%v tree_bytes=%d\n", final.missing, final.malformed, final.treeBad, final.ambiguous, final.sumDup)
			fmt.Fprintf(&sb, "  calls seen by the CAS:\n%s  outcome: err=%v\n", renderLog(sp), gerr)
			return sb.String()
		}
		fired := faulty != nil && faulty.FiredCount() > 0
		// A message handed to the caller's slicer has reached the caller,
		// whatever the read finally returns.
		for _, m := range rd.handed {
			judge(t, judgeInput{
				v: final, stored: arBytes, got: m, err: nil, spy: sp, maxTotal: maxTotal,
				fired: fired, faultCode: faultCode, faultText: "injected fault at cas",
				mutated: fault != "", describe: func() string {
					return "  (message handed to the caller's slicer; the read itself ended with a different outcome)\n" + describe()
				},
			})
		}
		outcome := judge(t, judgeInput{
			v: final, stored: arBytes, got: got, err: gerr, spy: sp, maxTotal: maxTotal,
			fired: fired, faultCode: faultCode, faultText: "injected fault at cas",
			mutated: fault != "", describe: describe,
		})
		c.ClassIf(sp.other != 0, "wrote_to_the_cas")

		// Statistics.
		c.Class("outcome_" + outcome)
		c.Class("read_" + readPath)
		c.Class("read_" + readPath + "_outcome_" + outcome)
		c.ClassIf(rd.slicer != nil && rd.slicer.calls == 1, "slicer_called_once")
		c.ClassIf(rd.slicer != nil && rd.slicer.calls != 1, "slicer_not_called_exactly_once")
		c.ClassIf(len(final.missing) == 0 && len(final.malformed) == 0 && len(final.treeBad) == 0 && final.sumDup <= maxTotal && !fired, "all_present_and_well_formed")
		if len(final.missing) == 1 {
			c.NonTrivial()
			c.Class("exactly_one_missing")
			kinds := map[string]bool{}
			for _, p := range final.refs[final.missing[0]] {
				kinds[positionKind(p)] = true
			}
			for _, k := range []string{"output_file", "stdout", "stderr", "tree_object", "root_directory", "file_in_root_directory", "file_in_child_directory", "child_directory"} {
				c.ClassIf(kinds[k], "one_missing_"+k)
			}
		}
		c.ClassIf(len(final.missing) > 1, "several_missing")
		if fault != "" {
			c.NonTrivial()
			c.Class("tree_fault_" + strings.SplitN(fault, "@", 2)[0])
			c.ClassIf(len(final.treeBad) == 0, "tree_fault_still_parses")
		}
		c.ClassIf(g.malformDone != "", "malformation_applied")
		c.ClassIf(g.malformAt >= 0 && g.malformDone == "", "malformation_unreached")
		c.ClassIf(len(final.malformed) > 0, "malformed_referenced")
		c.ClassIf(fired, "cas_fault_fired")
		c.ClassIf(fired && faultShape >= 2, "cas_fault_fired_with_further_failures_scripted")
		c.ClassIf(faulty != nil && faulty.FiredCount() > 1, "cas_called_again_after_a_failure")
		c.ClassIf(fired && outcome == "returned", "returned_after_a_failed_cas_call")
		servedOnly := false
		for _, d := range final.refOrder {
			servedOnly = servedOnly || (outcome == "returned" && !sp.reported[d] && sp.served[d])
		}
		c.ClassIf(servedOnly, "presence_established_by_get_only")
		c.ClassIf(faulty != nil && !fired, "cas_fault_not_reached")
		c.ClassIf(final.sumDup > maxTotal, "tree_size_limit_exceeded")
		c.ClassIf(final.sumDup == maxTotal && maxTotal > 0, "tree_size_limit_exactly_met")
		c.ClassIf(final.sumDup != final.sumDedup, "same_tree_in_two_directories")
		c.ClassIf(len(final.ambiguous) > 0, "shape_without_fixed_outcome")
		if len(final.ambiguous) > 0 {
			c.ClassIf(strings.Contains(final.ambiguous[0], "no tree digest"), "shape_no_tree_digest")
			c.ClassIf(strings.Contains(final.ambiguous[0], "not referenced"), "shape_malformed_unreferenced_digest")
		}
		c.ClassIf(final.dirsSeen > final.trees, "tree_with_child_directories")
		c.ClassIf(sp.finds >= 2, "two_or_more_find_missing_calls")
		c.ClassIf(sp.maxBatch > batch, "batch_larger_than_configured")
		withRoot := false
		for _, od := range ar.OutputDirectories {
			withRoot = withRoot || od.RootDirectoryDigest != nil
		}
		c.ClassIf(withRoot, "with_root_directory_digest")
		c.ClassIf(len(ar.OutputDirectories) == 0, "no_output_directories")
		for _, r := range srv.readers {
			c.ClassIf(r.Closes.Load() != 1, "tree_reader_not_closed_exactly_once")
		}
		// The serving mode, and serving mode x Tree fault.
		c.Class("serve_" + serve)
		if serve == "factory" {
			methods := map[string]bool{}
			for _, d := range g.order {
				if g.isTree[d] {
					methods[via[d].method] = true
				}
			}
			for _, m := range []string{"readerat", "reader", "slice"} {
				c.ClassIf(methods[m], "factory_tree_via_"+m)
			}
			for _, r := range srv.readerAts {
				c.ClassIf(r.Closes.Load() != 1, "tree_readerat_not_closed_exactly_once")
				c.ClassIf(r.Closes.Load() == 1, "tree_readerat_closed_exactly_once")
				c.ClassIf(r.Reads.Load() > 0 && via[r.Digest].sizeFromDigest, "factory_readerat_read_size_from_digest")
				c.ClassIf(r.Reads.Load() > 0 && !via[r.Digest].sizeFromDigest, "factory_readerat_read_size_of_stored_bytes")
			}
			c.ClassIf(srv.integrityBad.Load() > 0, "factory_integrity_callback_reported_corruption")
			c.ClassIf(srv.integrityOK.Load() > 0, "factory_integrity_callback_reported_intact")
		}
		if fault != "" {
			kind := strings.SplitN(fault, "@", 2)[0]
			how := "direct"
			if serve == "factory" {
				how = "factory_" + via[faultDigest].method
			}
			c.Class(how + "_x_" + kind)
			fetched := false
			for _, call := range sp.log.Snapshot() {
				fetched = fetched || (call.Op == "Get" && len(call.Digests) == 1 && call.Digests[0] == faultDigest)
			}
			c.ClassIf(fetched && how == "factory_readerat", how+"_x_"+kind+"_fetched")
			c.ClassIf(fetched && how == "factory_readerat" && len(final.treeBad) > 0, "factory_readerat_damaged_tree_fetched")
		}
		c.Sample(func() string {
			return fmt.Sprintf("ar=%s batch=%d limit=%d tree_fault=%q missing=%v malformed=%v -> %s (%v)", renderAR(arBytes), batch, maxTotal, fault, final.missing, final.malformed, outcome, gerr)
		})
		c.End()
	})
}

var recEach = vstats.New("TestC13EachPosition")

// TestC13EachPosition: a well-formed ActionResult with everything present
// must be returned; then every referenced object in turn is taken out of
// the CAS (and put back), and each time the caller must get NOT_FOUND.
func TestC13EachPosition(t *testing.T) {
	rapid.Check(t, func(t *rapid.T) {
		c := recEach.Begin()
		g := &gen{
			t:         t,
			instance:  rapid.SampledFrom(instances).Draw(t, "instance"),
			fn:        rapid.SampledFrom(digestFunctions).Draw(t, "fn"),
			clean:     true,
			universe:  map[digest.Digest][]byte{},
			isTree:    map[digest.Digest]bool{},
			malformAt: -1,
		}
		ndirs := rapid.SampledFrom([]int{0, 1, 1, 1, 2, 2, 3}).Draw(t, "ndirs")
		ntrees := 0
		if ndirs > 0 {
			ntrees = g.n(1, ndirs, "ntrees")
		}
		var trees []*treeBuild
		for i := 0; i < ntrees; i++ {
			trees = append(trees, g.genTree(fmt.Sprintf("t%d", i)))
		}
		ar := g.genActionResult(trees, ndirs)
		arBytes := mustMarshal(ar)
		batch := g.n(1, 5, "batch")
		mem := backends.NewMem("cas", digest.KeyWithoutInstance)
		streamed := map[digest.Digest]serveSpec{}
		for i, d := range g.order {
			mem.Set(d, g.universe[d])
			c.Add(d.String(), g.universe[d])
			if g.isTree[d] && g.n(0, 1, fmt.Sprintf("stream/%d", i)) == 1 {
				streamed[d] = serveSpec{chunks: []int{g.n(1, 40, "stream/chunk")}, failAfter: -1}
				c.Add(streamed[d].chunks[0])
			}
		}
		serve := rapid.SampledFrom([]string{"direct", "factory"}).Draw(t, "serve")
		var via map[digest.Digest]viaSpec
		var factory blobstore.ReadBufferFactory
		if serve == "factory" {
			factory = blobstore.CASReadBufferFactory
			via = g.drawVia(streamed)
			for _, d := range g.order {
				if g.isTree[d] {
					c.Add(d.String(), via[d].method, via[d].sizeFromDigest, via[d].eofAtEnd)
				}
			}
		}
		acMem := backends.NewMem("ac", digest.KeyWithInstance)
		acDigest := g.toDigest(g.protoDigest([]byte("action")))
		acMem.Set(acDigest, arBytes)
		readPath := drawReadPath(t)
		child := g.childOf(acDigest, readPath)
		c.Add(g.instance, int(g.fn), arBytes, batch, serve, readPath, child.String())

		run := func(removed string) (*verdict, string) {
			srv := &casServer{Mem: mem, streamed: streamed, factory: factory, via: via}
			sp := newSpy(srv)
			v, err := referenceWalk(g.instance, g.fn, arBytes, mem, nil)
			if err != nil {
				t.Fatalf("harness: %v", err)
			}
			ba := completenesschecking.NewCompletenessCheckingBlobAccess(&acStore{Mem: acMem, mode: 1}, sp, batch, maxMessageSize, 1<<20)
			rd := readThrough(context.Background(), ba, readPath, acDigest, child)
			got, gerr := rd.got, rd.err
			describe := func() string {
				return fmt.Sprintf("  %s\n  batch=%d removed=%s\n  action result: %s\n  reference walker: missing=%v\n  calls seen by the CAS:\n%s  outcome: err=%v\n", rd, batch, removed, renderAR(arBytes), v.missing, renderLog(sp), gerr)
			}
			for _, m := range rd.handed {
				judge(t, judgeInput{v: v, stored: arBytes, got: m, spy: sp, maxTotal: 1 << 20, describe: describe})
			}
			outcome := judge(t, judgeInput{v: v, stored: arBytes, got: got, err: gerr, spy: sp, maxTotal: 1 << 20, describe: describe})
			return v, outcome
		}
		full, outcome := run("nothing")
		if outcome != "returned" {
			t.Fatalf("harness: clean case judged %s", outcome)
		}
		kinds := map[string]bool{}
		for _, d := range full.refOrder {
			data := g.universe[d]
			mem.Delete(d)
			v, outcome := run(fmt.Sprintf("%s %v", d, full.refs[d]))
			if outcome != "not_found_missing" || len(v.missing) != 1 {
				t.Fatalf("harness: removal of %s judged %s with missing=%v", d, outcome, v.missing)
			}
			mem.Set(d, data)
			for _, p := range full.refs[d] {
				kinds[positionKind(p)] = true
			}
		}
		for _, k := range []string{"output_file", "stdout", "stderr", "tree_object", "root_directory", "file_in_root_directory", "file_in_child_directory", "child_directory"} {
			c.ClassIf(kinds[k], "removed_"+k)
		}
		recEach.Count("objects_removed_in_turn", int64(len(full.refOrder)))
		c.Class("serve_" + serve)
		c.Class("read_" + readPath)
		for _, d := range g.order {
			if serve == "factory" && g.isTree[d] {
				c.Class("factory_tree_via_" + via[d].method)
			}
		}
		c.ClassIf(len(full.refOrder) == 0, "nothing_referenced")
		if len(full.refOrder) > 0 {
			c.NonTrivial()
		}
		c.Sample(func() string {
			return fmt.Sprintf("ar=%s batch=%d: returned with all %d objects present, NOT_FOUND with each one removed", renderAR(arBytes), batch, len(full.refOrder))
		})
		c.End()
	})
}
