package c13

import (
	"context"
	"fmt"
	"testing"

	remoteexecution "github.com/bazelbuild/remote-apis/build/bazel/remote/execution/v2"
	"github.com/buildbarn/bb-storage/pkg/blobstore"
	"github.com/buildbarn/bb-storage/pkg/blobstore/completenesschecking"
	"github.com/buildbarn/bb-storage/pkg/digest"

	"verif/harness/backends"
	"verif/harness/vstats"
)

var recFuzz = vstats.New("FuzzC13Tree")

func fuzzSeeds() [][]byte {
	fn := remoteexecution.DigestFunction_SHA256
	dg := func(s string) *remoteexecution.Digest {
		return &remoteexecution.Digest{Hash: hashHex(fn, []byte(s)), SizeBytes: int64(len(s))}
	}
	leaf := &remoteexecution.Directory{Files: []*remoteexecution.FileNode{{Name: "a", Digest: dg("a")}, {Name: "b", Digest: dg("b"), IsExecutable: true}}}
	leafBytes := mustMarshal(leaf)
	mid := &remoteexecution.Directory{
		Files:       []*remoteexecution.FileNode{{Name: "c", Digest: dg("c")}},
		Directories: []*remoteexecution.DirectoryNode{{Name: "leaf", Digest: &remoteexecution.Digest{Hash: hashHex(fn, leafBytes), SizeBytes: int64(len(leafBytes))}}},
		Symlinks:    []*remoteexecution.SymlinkNode{{Name: "s", Target: "t"}},
	}
	midBytes := mustMarshal(mid)
	root := &remoteexecution.Directory{
		Directories: []*remoteexecution.DirectoryNode{
			{Name: "mid", Digest: &remoteexecution.Digest{Hash: hashHex(fn, midBytes), SizeBytes: int64(len(midBytes))}},
			{Name: "empty", Digest: dg("")},
		},
	}
	return [][]byte{
		nil,
		mustMarshal(&remoteexecution.Tree{Root: &remoteexecution.Directory{}}),
		mustMarshal(&remoteexecution.Tree{Root: leaf}),
		mustMarshal(&remoteexecution.Tree{Root: root, Children: []*remoteexecution.Directory{mid, leaf, {}}}),
		mustMarshal(&remoteexecution.Tree{Children: []*remoteexecution.Directory{leaf}}),
		{0x18, 0x05},
	}
}

// FuzzC13Tree feeds arbitrary bytes as the Tree object of a single output
// directory. flags: bit 0 root directory digest set; bits 1..3 batch size;
// bits 4..7 which referenced object (if any) is absent; bits 8..12 chunk
// size when streaming (0: byte slice); bits 13..14 serving: 0 buffer
// constructors directly, 1..3 through blobstore.CASReadBufferFactory from a
// byte slice / a reader / a ReadAtCloser.
func FuzzC13Tree(f *testing.F) {
	for i, s := range fuzzSeeds() {
		f.Add(s, uint16(i*37))
		f.Add(s, uint16(1|3<<1|uint16(i+1)<<4|7<<8))
		f.Add(s, uint16(1|2<<1|uint16(i)<<4|uint16(i%4)<<8|3<<13))
		f.Add(s, uint16(1|1<<1|uint16(i)<<4|uint16(i%3+1)<<13))
	}
	f.Fuzz(func(t *testing.T, tree []byte, flags uint16) {
		c := recFuzz.Begin()
		const instance = "fz"
		fn := remoteexecution.DigestFunction_SHA256
		withRoot := flags&1 != 0
		batch := int(flags>>1&7)%5 + 1
		missingSel := int(flags >> 4 & 15)
		chunk := int(flags >> 8 & 31)

		universe := mapView{}
		td := &remoteexecution.Digest{Hash: hashHex(fn, tree), SizeBytes: int64(len(tree))}
		treeDigest := digest.MustNewDigest(instance, fn, td.Hash, td.SizeBytes)
		universe[treeDigest] = tree
		od := &remoteexecution.OutputDirectory{Path: "o", TreeDigest: td}
		if withRoot {
			od.RootDirectoryDigest = &remoteexecution.Digest{Hash: hashHex(fn, []byte("root")), SizeBytes: 4}
		}
		arBytes := mustMarshal(&remoteexecution.ActionResult{OutputDirectories: []*remoteexecution.OutputDirectory{od}})

		full, err := referenceWalk(instance, fn, arBytes, universe, nil)
		if err != nil {
			t.Fatalf("harness: %v", err)
		}
		mem := backends.NewMem("cas", digest.KeyWithoutInstance)
		mem.Set(treeDigest, tree)
		removed := -1
		if missingSel > 0 && len(full.refOrder) > 0 {
			removed = (missingSel - 1) % len(full.refOrder)
		}
		for i, d := range full.refOrder {
			if i != removed && d != treeDigest {
				mem.Set(d, []byte("stand-in"))
			}
		}
		if removed >= 0 && full.refOrder[removed] == treeDigest {
			mem.Delete(treeDigest)
		}
		streamed := map[digest.Digest]serveSpec{}
		if chunk > 0 {
			streamed[treeDigest] = serveSpec{chunks: []int{chunk}, failAfter: -1}
		}
		srv := &casServer{Mem: mem, streamed: streamed}
		if m := int(flags >> 13 & 3); m > 0 {
			srv.factory = blobstore.CASReadBufferFactory
			srv.via = map[digest.Digest]viaSpec{treeDigest: {method: []string{"slice", "reader", "readerat"}[m-1], sizeFromDigest: chunk&1 == 1, eofAtEnd: chunk&2 == 2}}
		}
		sp := newSpy(srv)
		acMem := backends.NewMem("ac", digest.KeyWithInstance)
		acDigest := digest.MustNewDigest(instance, fn, hashHex(fn, []byte("action")), 6)
		acMem.Set(acDigest, arBytes)
		ba := completenesschecking.NewCompletenessCheckingBlobAccess(&acStore{Mem: acMem, mode: 1}, sp, batch, maxMessageSize, 1<<30)
		got, gerr := ba.Get(context.Background(), acDigest).ToByteSlice(1 << 20)

		final, err := referenceWalk(instance, fn, arBytes, mem, nil)
		if err != nil {
			t.Fatalf("harness: %v", err)
		}
		outcome := judge(t, judgeInput{v: final, stored: arBytes, got: got, err: gerr, spy: sp, maxTotal: 1 << 30, mutated: true, describe: func() string {
			return fmt.Sprintf("  tree bytes=%x (%s)\n  with_root=%v batch=%d removed=%d\n  reference walker: refs=%v missing=%v malformed=%v tree_bad=%v\n  calls seen by the CAS:\n%s  outcome: err=%v\n",
				tree, renderTree(tree), withRoot, batch, removed, final.refOrder, final.missing, final.malformed, final.treeBad, renderLog(sp), gerr)
		}})
		c.Class("outcome_" + outcome)
		c.Class([]string{"serve_direct", "serve_factory_slice", "serve_factory_reader", "serve_factory_readerat"}[flags>>13&3])
		c.ClassIf(len(final.treeBad) == 0, "parses_as_tree")
		c.ClassIf(len(final.treeBad) == 0 && len(final.malformed) == 0 && len(final.missing) == 0 && gerr != nil, "reference_accepts_but_decorator_rejects")
		c.ClassIf(len(final.missing) == 1, "exactly_one_missing")
		c.End()
	})
}
