package c13

import (
	"fmt"
	"math"

	remoteexecution "github.com/bazelbuild/remote-apis/build/bazel/remote/execution/v2"
	"github.com/buildbarn/bb-storage/pkg/digest"
	"google.golang.org/protobuf/encoding/protowire"
	"google.golang.org/protobuf/proto"
	"google.golang.org/protobuf/types/known/timestamppb"
	"google.golang.org/protobuf/types/known/wrapperspb"
	"pgregory.net/rapid"
)

var digestFunctions = []remoteexecution.DigestFunction_Value{
	remoteexecution.DigestFunction_SHA256,
	remoteexecution.DigestFunction_SHA256,
	remoteexecution.DigestFunction_SHA256,
	remoteexecution.DigestFunction_MD5,
	remoteexecution.DigestFunction_SHA1,
	remoteexecution.DigestFunction_SHA384,
	remoteexecution.DigestFunction_SHA512,
}

var instances = []string{"", "a", "a/b"}

// gen builds one ActionResult together with the universe of CAS objects it
// could reference.
type gen struct {
	t        *rapid.T
	instance string
	fn       remoteexecution.DigestFunction_Value
	// clean: only shapes for which "everything present => returned" is
	// certain (no dangling references, no malformed digests).
	clean bool

	universe map[digest.Digest][]byte
	order    []digest.Digest
	isTree   map[digest.Digest]bool

	pos         int // running number of digest positions generated
	malformAt   int // position to malform, <0 none
	malformDone string
	ghost       int
}

func (g *gen) n(lo, hi int, label string) int {
	return rapid.IntRange(lo, hi).Draw(g.t, label)
}

func mustMarshal(m proto.Message) []byte {
	b, err := proto.Marshal(m)
	if err != nil {
		panic(err)
	}
	return b
}

func (g *gen) protoDigest(data []byte) *remoteexecution.Digest {
	return &remoteexecution.Digest{Hash: hashHex(g.fn, data), SizeBytes: int64(len(data))}
}

func (g *gen) toDigest(d *remoteexecution.Digest) digest.Digest {
	return digest.MustNewDigest(g.instance, g.fn, d.Hash, d.SizeBytes)
}

// register makes data an object of the universe and returns its digest.
func (g *gen) register(data []byte) *remoteexecution.Digest {
	pd := g.protoDigest(data)
	d := g.toDigest(pd)
	if _, ok := g.universe[d]; !ok {
		g.universe[d] = append([]byte(nil), data...)
		g.order = append(g.order, d)
	}
	return pd
}

var badChars = []byte{'g', 'A', 'F', 'G', 'z', ' ', '-', '/', 0, 'x'}

// position is called once for every digest field that is filled in; it
// applies the case's single malformation when its turn has come.
func (g *gen) position(d *remoteexecution.Digest, label string) *remoteexecution.Digest {
	me := g.pos
	g.pos++
	if d == nil || me != g.malformAt {
		return d
	}
	d = &remoteexecution.Digest{Hash: d.Hash, SizeBytes: d.SizeBytes}
	kind := g.n(0, 8, "malform/kind")
	switch kind {
	case 0:
		d.Hash = d.Hash[:len(d.Hash)-1]
	case 1:
		d.Hash += "0"
	case 2:
		d.Hash = ""
	case 3: // the length of some other digest function
		if len(d.Hash) > 32 {
			d.Hash = d.Hash[:32]
		} else {
			d.Hash += d.Hash[:8]
		}
	case 4:
		i := g.n(0, len(d.Hash)-1, "malform/index")
		c := badChars[g.n(0, len(badChars)-1, "malform/char")]
		d.Hash = d.Hash[:i] + string([]byte{c}) + d.Hash[i+1:]
	case 5: // same byte length, a two-byte rune inside
		i := g.n(0, len(d.Hash)-2, "malform/index")
		d.Hash = d.Hash[:i] + "é" + d.Hash[i+2:]
	case 6:
		d.SizeBytes = -1
	case 7:
		d.SizeBytes = math.MinInt64
	case 8:
		d.SizeBytes = -d.SizeBytes - 1
	}
	g.malformDone = fmt.Sprintf("%s:kind%d", label, kind)
	return d
}

func (g *gen) content(label string) []byte {
	k := g.n(-1, 9, label+"/content")
	if k < 0 {
		return nil
	}
	return []byte(fmt.Sprintf("content-%d", k))
}

// fileDigest draws the digest of a file-like reference (output file, file
// in a Tree, stdout, stderr).
func (g *gen) fileDigest(label string) *remoteexecution.Digest {
	data := g.content(label)
	how := g.n(0, 99, label+"/how")
	// rapid favours small values: the plain shape is 0.
	switch {
	case how >= 93 && how <= 96:
		return nil // absent
	case g.clean:
	case how == 97:
		// present but empty message: hash "" is malformed
		g.pos++
		return &remoteexecution.Digest{}
	case how == 98:
		// well-formed, names no stored object (size off by one)
		pd := g.register(data)
		return g.position(&remoteexecution.Digest{Hash: pd.Hash, SizeBytes: pd.SizeBytes + 1}, label)
	case how == 99:
		// well-formed, names an object nobody ever stored
		g.ghost++
		return g.position(g.protoDigest([]byte(fmt.Sprintf("ghost-%d", g.ghost))), label)
	}
	return g.position(g.register(data), label)
}

type treeBuild struct {
	root      *remoteexecution.Directory
	rootBytes []byte
	children  []*remoteexecution.Directory
	bytes     []byte
	digest    *remoteexecution.Digest
	fault     string
}

func (g *gen) nodeProperties(label string) *remoteexecution.NodeProperties {
	if g.n(0, 7, label+"/props") != 7 {
		return nil
	}
	return &remoteexecution.NodeProperties{
		Properties: []*remoteexecution.NodeProperty{{Name: "k", Value: "v"}},
		Mtime:      &timestamppb.Timestamp{Seconds: int64(g.n(0, 5, label+"/mtime"))},
		UnixMode:   wrapperspb.UInt32(0o644),
	}
}

func (g *gen) genDir(depth int, label string, tb *treeBuild) *remoteexecution.Directory {
	d := &remoteexecution.Directory{}
	nf := g.n(0, 3, label+"/nfiles")
	for j := 0; j < nf; j++ {
		d.Files = append(d.Files, &remoteexecution.FileNode{
			Name:           fmt.Sprintf("f%d", j),
			Digest:         g.fileDigest(fmt.Sprintf("%s/f%d", label, j)),
			IsExecutable:   g.n(0, 1, label+"/x") == 1,
			NodeProperties: g.nodeProperties(label + "/fp"),
		})
	}
	if g.n(0, 3, label+"/symlink") == 0 {
		d.Symlinks = append(d.Symlinks, &remoteexecution.SymlinkNode{Name: "s", Target: "../t", NodeProperties: g.nodeProperties(label + "/sp")})
	}
	d.NodeProperties = g.nodeProperties(label + "/dp")
	if depth > 0 {
		nd := g.n(0, 2, label+"/ndirs")
		for j := 0; j < nd; j++ {
			cl := fmt.Sprintf("%s/d%d", label, j)
			how := g.n(0, 11, cl+"/how")
			var child *remoteexecution.Directory
			switch {
			case how == 10 && len(tb.children) > 0:
				// shared: an already listed directory once more
				child = tb.children[g.n(0, len(tb.children)-1, cl+"/share")]
			case how == 11 && !g.clean:
				// names a directory that is not part of the Tree
				g.ghost++
				child = &remoteexecution.Directory{Symlinks: []*remoteexecution.SymlinkNode{{Name: fmt.Sprintf("ghost-%d", g.ghost), Target: "x"}}}
				if g.n(0, 1, cl+"/ghoststored") == 1 {
					g.register(mustMarshal(child))
				}
			default:
				child = g.genDir(depth-1, cl, tb)
				tb.children = append(tb.children, child)
			}
			node := &remoteexecution.DirectoryNode{Name: fmt.Sprintf("d%d", j)}
			cb := mustMarshal(child)
			var pd *remoteexecution.Digest
			if how == 11 && !g.clean {
				pd = g.protoDigest(cb)
			} else {
				pd = g.register(cb)
			}
			if g.n(0, 19, cl+"/nodigest") != 19 {
				node.Digest = g.position(pd, cl)
			}
			d.Directories = append(d.Directories, node)
		}
	}
	return d
}

func (g *gen) genTree(label string) *treeBuild {
	tb := &treeBuild{}
	depth := g.n(0, 3, label+"/depth")
	tb.root = g.genDir(depth, label+"/root", tb)
	tb.rootBytes = mustMarshal(tb.root)
	g.register(tb.rootBytes)
	tree := &remoteexecution.Tree{Root: tb.root}
	children := append([]*remoteexecution.Directory(nil), tb.children...)
	if len(children) > 1 && g.n(0, 1, label+"/reverse") == 1 {
		for i, j := 0, len(children)-1; i < j; i, j = i+1, j-1 {
			children[i], children[j] = children[j], children[i]
		}
	}
	if len(children) > 0 && g.n(0, 7, label+"/dup") == 7 {
		children = append(children, children[g.n(0, len(children)-1, label+"/dupwhich")])
	}
	if g.n(0, 7, label+"/orphan") == 7 {
		// a directory listed in the Tree that no other directory names
		o := g.genDir(0, label+"/orphan", tb)
		g.register(mustMarshal(o))
		children = append(children, o)
	}
	tree.Children = children
	if g.n(0, 15, label+"/noroot") == 15 {
		tree.Root = nil
	}
	tb.bytes = mustMarshal(tree)
	tb.digest = g.register(tb.bytes)
	g.isTree[g.toDigest(tb.digest)] = true
	return tb
}

var faultKinds = []string{"trunc_rehash", "trunc_boundary_rehash", "corrupt_rehash", "insert_rehash", "trunc_stale", "trunc_boundary_stale", "corrupt_stale", "replace_stale", "extend_stale", "not_a_tree", "read_error", "unknown_field", "unknown_field_trunc"}

// lastTopLevelField locates the last field of a marshalled message that
// uses the length-delimited wire type.
func lastTopLevelField(b []byte) (start, header int, payload []byte) {
	start = -1
	for off := 0; off < len(b); {
		_, typ, nt := protowire.ConsumeTag(b[off:])
		if nt < 0 {
			break
		}
		n := protowire.ConsumeFieldValue(0, typ, b[off+nt:])
		if n < 0 {
			break
		}
		if typ == protowire.BytesType {
			v, _ := protowire.ConsumeBytes(b[off+nt:])
			start, header, payload = off, nt+n-len(v), v
		}
		off += nt + n
	}
	return
}

// topLevelFieldStarts returns the offsets at which the top-level fields of a
// marshalled message start (every one of them is a cut that leaves a
// complete, shorter message).
func topLevelFieldStarts(b []byte) []int {
	var starts []int
	for off := 0; off < len(b); {
		starts = append(starts, off)
		_, _, n := protowire.ConsumeField(b[off:])
		if n < 0 {
			break
		}
		off += n
	}
	return starts
}

// sameSizeTree returns a marshalled Tree that differs from orig in one
// place (the object a file refers to, a file name, a symlink target, a
// directory name) and has exactly the same length, or nil if orig offers no
// such place.
func (g *gen) sameSizeTree(orig []byte) []byte {
	var tree remoteexecution.Tree
	if proto.Unmarshal(orig, &tree) != nil {
		return nil
	}
	var edits []func()
	flip := func(s *string) {
		if len(*s) > 0 {
			edits = append(edits, func() {
				c := byte('q')
				if (*s)[0] == c {
					c = 'r'
				}
				*s = string([]byte{c}) + (*s)[1:]
			})
		}
	}
	dirs := append([]*remoteexecution.Directory(nil), tree.Children...)
	if tree.Root != nil {
		dirs = append(dirs, tree.Root)
	}
	for _, d := range dirs {
		for _, f := range d.Files {
			flip(&f.Name)
			if f.Digest != nil && len(f.Digest.Hash) == hashHexLen[g.fn] {
				f := f
				edits = append(edits, func() {
					// another object: either one the universe may hold
					// ("content-k") or one nobody ever stored
					k := g.n(0, 11, "fault/other")
					h := hashHex(g.fn, []byte(fmt.Sprintf("content-%d", k)))
					if h == f.Digest.Hash {
						h = hashHex(g.fn, []byte("replaced"))
					}
					f.Digest.Hash = h
				})
			}
		}
		for _, l := range d.Symlinks {
			flip(&l.Target)
		}
		for _, c := range d.Directories {
			flip(&c.Name)
		}
	}
	if len(edits) == 0 {
		return nil
	}
	edits[g.n(0, len(edits)-1, "fault/edit")]()
	mut := mustMarshal(&tree)
	if len(mut) != len(orig) || string(mut) == string(orig) {
		return nil
	}
	return mut
}

// drawVia decides, for a case served through the real read-buffer factory,
// by which of its constructors every Tree object is handed out. An object
// whose stream is to fail cannot be a byte slice.
func (g *gen) drawVia(streamed map[digest.Digest]serveSpec) map[digest.Digest]viaSpec {
	via := map[digest.Digest]viaSpec{}
	for i, d := range g.order {
		if !g.isTree[d] {
			via[d] = viaSpec{method: "slice"}
			continue
		}
		l := fmt.Sprintf("via/%d", i)
		v := viaSpec{method: rapid.SampledFrom([]string{"readerat", "readerat", "reader", "slice"}).Draw(g.t, l)}
		if s, ok := streamed[d]; ok && s.failAfter >= 0 && v.method == "slice" {
			v.method = "readerat"
		}
		if v.method == "readerat" {
			v.sizeFromDigest = g.n(0, 1, l+"/size") == 1
			v.eofAtEnd = g.n(0, 1, l+"/eof") == 1
		}
		via[d] = v
	}
	return via
}

func appendVarint(b []byte, v uint64) []byte {
	for v >= 0x80 {
		b = append(b, byte(v)|0x80)
		v >>= 7
	}
	return append(b, byte(v))
}

// applyFault damages one Tree. Variants "*_rehash", "not_a_tree" and
// "unknown_field" / "unknown_field_trunc" store the damaged bytes under their own (valid) digest;
// "*_stale" leave the damaged bytes under the digest of the original
// ("trunc_boundary_stale": cut between two top-level fields, so that what
// is left is a complete, shorter Tree; "replace_stale": a different Tree of
// exactly the same size);
// "read_error" makes the CAS fail while streaming the object.
func (g *gen) applyFault(tb *treeBuild, kind string, streamed map[digest.Digest]serveSpec, unreadable map[digest.Digest]bool, failErr error) {
	orig := tb.bytes
	origDigest := g.toDigest(tb.digest)
	var mut []byte
	switch kind {
	case "trunc_rehash", "trunc_stale":
		if len(orig) == 0 {
			return
		}
		mut = append([]byte(nil), orig[:g.n(0, len(orig)-1, "fault/cut")]...)
	case "trunc_boundary_rehash":
		// Cut inside the last top-level field, right after one of its
		// inner fields: the remainder of that field parses on its own,
		// only the announced length gives the truncation away.
		start, header, payload := lastTopLevelField(orig)
		if start < 0 {
			return
		}
		var cuts []int
		for off := 0; off < len(payload); {
			cuts = append(cuts, off)
			_, _, n := protowire.ConsumeField(payload[off:])
			if n < 0 {
				break
			}
			off += n
		}
		if len(cuts) == 0 {
			return
		}
		mut = append([]byte(nil), orig[:start+header+cuts[g.n(0, len(cuts)-1, "fault/cut")]]...)
	case "trunc_boundary_stale":
		cuts := topLevelFieldStarts(orig)
		if len(cuts) == 0 {
			return
		}
		mut = append([]byte(nil), orig[:cuts[g.n(0, len(cuts)-1, "fault/cut")]]...)
	case "replace_stale":
		if mut = g.sameSizeTree(orig); mut == nil {
			return
		}
	case "corrupt_rehash", "corrupt_stale":
		if len(orig) == 0 {
			return
		}
		i := g.n(0, len(orig)-1, "fault/index")
		b := rapid.Byte().Draw(g.t, "fault/byte")
		if b == orig[i] {
			b++
		}
		mut = append([]byte(nil), orig...)
		mut[i] = b
	case "insert_rehash":
		i := g.n(0, len(orig), "fault/index")
		b := rapid.Byte().Draw(g.t, "fault/byte")
		mut = append(append(append([]byte(nil), orig[:i]...), b), orig[i:]...)
	case "extend_stale":
		extra := rapid.SliceOfN(rapid.Byte(), 1, 6).Draw(g.t, "fault/extra")
		mut = append(append([]byte(nil), orig...), extra...)
	case "not_a_tree":
		switch g.n(0, 4, "fault/what") {
		case 0:
			mut = rapid.SliceOfN(rapid.Byte(), 1, 40).Draw(g.t, "fault/bytes")
		case 1:
			mut = []byte("this is the output of a compiler, not a Tree\n")
		case 2: // a Directory: same field numbers, other nesting
			mut = append([]byte(nil), tb.rootBytes...)
			if len(mut) == 0 {
				mut = mustMarshal(&remoteexecution.Directory{Files: []*remoteexecution.FileNode{{Name: "f", Digest: g.protoDigest([]byte("q"))}}})
			}
		case 3:
			mut = mustMarshal(&remoteexecution.ActionResult{ExitCode: 3, StdoutRaw: []byte("hello"), OutputFiles: []*remoteexecution.OutputFile{{Path: "p", Digest: g.protoDigest([]byte("q"))}}})
		case 4:
			mut = mustMarshal(g.protoDigest([]byte("q")))
		}
	case "unknown_field":
		var f []byte
		switch g.n(0, 3, "fault/wire") {
		case 0: // field 3, varint
			f = appendVarint([]byte{3<<3 | 0}, uint64(g.n(0, 300, "fault/value")))
		case 1: // field 4, fixed32
			f = []byte{4<<3 | 5, 1, 2, 3, 4}
		case 2: // field 3, bytes
			f = []byte{3<<3 | 2, 3, 'a', 'b', 'c'}
		case 3: // field 1 (root), varint: right number, wrong type
			f = []byte{1<<3 | 0, 7}
		}
		if g.n(0, 1, "fault/front") == 0 {
			mut = append(append([]byte(nil), f...), orig...)
		} else {
			mut = append(append([]byte(nil), orig...), f...)
		}
	case "unknown_field_trunc":
		// A complete Tree followed by a top-level field the decorator does
		// not read, cut inside that field: only the announced length (or
		// the incomplete scalar) gives the truncation away.
		var f []byte
		switch g.n(0, 3, "fault/wire") {
		case 0: // field 3, bytes: announced length larger than what follows
			l := g.n(1, 40, "fault/len")
			f = appendVarint([]byte{3<<3 | 2}, uint64(l))
			f = append(f, make([]byte, g.n(0, l-1, "fault/have"))...)
		case 1: // field 4, fixed32 with fewer than 4 bytes
			f = append([]byte{4<<3 | 5}, make([]byte, g.n(0, 3, "fault/have"))...)
		case 2: // field 5, fixed64 with fewer than 8 bytes
			f = append([]byte{5<<3 | 1}, make([]byte, g.n(0, 7, "fault/have"))...)
		case 3: // field 3, varint without its final byte
			f = []byte{3<<3 | 0, 0x80, 0x80}[:g.n(1, 3, "fault/have")]
		}
		mut = append(append([]byte(nil), orig...), f...)
	case "read_error":
		spec := serveSpec{
			chunks:    []int{g.n(1, 40, "fault/chunk")},
			failAfter: g.n(0, len(orig), "fault/after"),
			failErr:   failErr,
		}
		streamed[origDigest] = spec
		unreadable[origDigest] = true
		tb.fault = fmt.Sprintf("read_error@%d", spec.failAfter)
		return
	}
	switch kind {
	case "trunc_stale", "trunc_boundary_stale", "corrupt_stale", "replace_stale", "extend_stale":
		g.universe[origDigest] = mut
	default:
		tb.bytes = mut
		tb.digest = g.register(mut)
		g.isTree[g.toDigest(tb.digest)] = true
	}
	tb.fault = kind
}

// genActionResult draws the top-level message over the given Trees.
func (g *gen) genActionResult(trees []*treeBuild, ndirs int) *remoteexecution.ActionResult {
	ar := &remoteexecution.ActionResult{ExitCode: int32(g.n(0, 2, "exit"))}
	nf := g.n(0, 4, "nfiles")
	for i := 0; i < nf; i++ {
		l := fmt.Sprintf("of%d", i)
		f := &remoteexecution.OutputFile{Path: fmt.Sprintf("out/%d", i), IsExecutable: g.n(0, 1, l+"/x") == 1, NodeProperties: g.nodeProperties(l + "/p")}
		switch g.n(0, 5, l+"/inline") {
		case 4: // inlined only
			f.Contents = []byte("inlined")
		case 5: // both
			f.Contents = []byte("content-1")
			f.Digest = g.fileDigest(l)
		default:
			f.Digest = g.fileDigest(l)
		}
		ar.OutputFiles = append(ar.OutputFiles, f)
	}
	for i := 0; i < ndirs; i++ {
		l := fmt.Sprintf("od%d", i)
		var tb *treeBuild
		if i < len(trees) {
			tb = trees[i]
		} else {
			tb = trees[g.n(0, len(trees)-1, l+"/tree")]
		}
		od := &remoteexecution.OutputDirectory{Path: fmt.Sprintf("dir/%d", i), IsTopologicallySorted: g.n(0, 1, l+"/sorted") == 1}
		how := g.n(0, 39, l+"/treehow")
		switch {
		case how == 38 && !g.clean:
			// no tree digest
		case how == 39 && !g.clean:
			od.TreeDigest = g.position(&remoteexecution.Digest{Hash: tb.digest.Hash, SizeBytes: tb.digest.SizeBytes + 1}, l+"/tree")
		default:
			od.TreeDigest = g.position(tb.digest, l+"/tree")
		}
		how = g.n(0, 9, l+"/roothow")
		switch {
		case how >= 5 && how <= 7:
			// no root directory digest
		case how == 8:
			// some other stored object
			od.RootDirectoryDigest = g.position(g.register([]byte("content-0")), l+"/root")
		case how == 9 && !g.clean:
			g.ghost++
			od.RootDirectoryDigest = g.position(g.protoDigest([]byte(fmt.Sprintf("ghost-%d", g.ghost))), l+"/root")
		default:
			od.RootDirectoryDigest = g.position(g.register(tb.rootBytes), l+"/root")
		}
		ar.OutputDirectories = append(ar.OutputDirectories, od)
	}
	std := func(l string) ([]byte, *remoteexecution.Digest) {
		switch g.n(0, 5, l+"/how") {
		case 2, 4:
			return nil, nil
		case 3:
			return []byte("raw output"), nil
		case 0, 1:
			return nil, g.fileDigest(l)
		}
		return []byte("content-2"), g.fileDigest(l)
	}
	ar.StdoutRaw, ar.StdoutDigest = std("stdout")
	ar.StderrRaw, ar.StderrDigest = std("stderr")
	if g.n(0, 3, "symlinks") == 0 {
		ar.OutputSymlinks = append(ar.OutputSymlinks, &remoteexecution.OutputSymlink{Path: "l", Target: "out/0"})
		ar.OutputFileSymlinks = append(ar.OutputFileSymlinks, &remoteexecution.OutputSymlink{Path: "l", Target: "out/0"})
		ar.OutputDirectorySymlinks = append(ar.OutputDirectorySymlinks, &remoteexecution.OutputSymlink{Path: "m", Target: "dir/0"})
	}
	if g.n(0, 3, "metadata") == 0 {
		ar.ExecutionMetadata = &remoteexecution.ExecutedActionMetadata{Worker: "w", QueuedTimestamp: &timestamppb.Timestamp{Seconds: 12}}
	}
	return ar
}
