package c13

import (
	"context"
	"fmt"
	"strings"
	"testing"

	remoteexecution "github.com/bazelbuild/remote-apis/build/bazel/remote/execution/v2"
	"github.com/buildbarn/bb-storage/pkg/blobstore/completenesschecking"
	"github.com/buildbarn/bb-storage/pkg/digest"
	"google.golang.org/grpc/codes"
	"google.golang.org/grpc/status"
	"google.golang.org/protobuf/proto"
	"pgregory.net/rapid"

	"verif/harness/backends"
	"verif/harness/vstats"
)

var recChanging = vstats.New("TestC13ChangingAC")

// TestC13ChangingAC: the Action Cache entry is replaced by another client
// (UpdateActionResult) while one read through the decorator is in progress.
// The replacement is driven deterministically from inside the model back
// ends: either right before the n-th read the Action Cache receives, or right
// before the k-th call the CAS receives. The CAS contents do not change.
//
// Oracle: whatever message the caller receives must be one the Action Cache
// held during the call, and that very message must satisfy every clause of
// C13 against the CAS (all references reported present during the call,
// nothing malformed, every Tree readable, within the size limit) - never a
// message that was not checked. An error is accepted if it is the correct
// answer for at least one of the versions the Action Cache held during the
// call (the property does not say at which moment the entry is read); if
// every version held is complete and well-formed, the result must be
// returned.
func TestC13ChangingAC(t *testing.T) {
	rapid.Check(t, func(t *rapid.T) {
		c := recChanging.Begin()
		g := &gen{
			t:         t,
			instance:  rapid.SampledFrom(instances).Draw(t, "instance"),
			fn:        rapid.SampledFrom(digestFunctions).Draw(t, "fn"),
			universe:  map[digest.Digest][]byte{},
			isTree:    map[digest.Digest]bool{},
			malformAt: -1,
		}
		// Mostly shapes whose outcome is certain; one case in six draws
		// from the full grammar (dangling references, a malformed digest).
		g.clean = g.n(0, 5, "dirty") != 5
		if !g.clean && g.n(0, 2, "malform") == 2 {
			g.malformAt = g.n(0, 29, "malformAt")
		}
		ntrees := rapid.SampledFrom([]int{0, 1, 1, 2, 2, 3}).Draw(t, "ntrees")
		var trees []*treeBuild
		for i := 0; i < ntrees; i++ {
			trees = append(trees, g.genTree(fmt.Sprintf("t%d", i)))
		}
		streamed := map[digest.Digest]serveSpec{}
		unreadable := map[digest.Digest]bool{}
		fault := ""
		if ntrees > 0 && g.n(0, 7, "fault") == 7 {
			kind := rapid.SampledFrom(faultKinds).Draw(t, "fault/kind")
			tb := trees[g.n(0, ntrees-1, "fault/tree")]
			g.applyFault(tb, kind, streamed, unreadable, status.Error(codes.Unavailable, "injected read failure"))
			fault = tb.fault
		}
		// Two versions of the entry over the same pool of Trees and file
		// contents (so that they share some references and differ in
		// others).
		var versions [2][]byte
		var ars [2]*remoteexecution.ActionResult
		for i := range versions {
			nd := 0
			if ntrees > 0 {
				nd = g.n(0, 2, "ndirs")
			}
			var pick []*treeBuild
			for j := 0; j < nd; j++ {
				pick = append(pick, trees[g.n(0, ntrees-1, "pick")])
			}
			ars[i] = g.genActionResult(pick, nd)
			versions[i] = mustMarshal(ars[i])
		}
		if proto.Equal(ars[0], ars[1]) {
			// Make the versions distinguishable.
			ars[1].ExitCode += 7
			versions[1] = mustMarshal(ars[1])
		}

		var full [2]*verdict
		for i := range versions {
			v, err := referenceWalk(g.instance, g.fn, versions[i], mapView(g.universe), unreadable)
			if err != nil {
				t.Fatalf("harness: generated ActionResult does not parse: %v", err)
			}
			full[i] = v
		}
		only := func(a, b *verdict) []digest.Digest {
			var out []digest.Digest
			for _, d := range a.refOrder {
				if _, shared := b.refs[d]; !shared {
					if _, ok := g.universe[d]; ok {
						out = append(out, d)
					}
				}
			}
			return out
		}
		var both []digest.Digest
		for i := range full {
			for _, d := range full[i].refOrder {
				if _, ok := g.universe[d]; ok && !containsDigest(both, d) {
					both = append(both, d)
				}
			}
		}
		absent := map[digest.Digest]bool{}
		missingMode := rapid.SampledFrom([]string{"only_second", "only_second", "only_second", "only_first", "only_first", "none", "any_one", "subset"}).Draw(t, "missing")
		pickOne := func(ds []digest.Digest) {
			if len(ds) > 0 {
				absent[ds[g.n(0, len(ds)-1, "missing/which")]] = true
			}
		}
		switch missingMode {
		case "only_second":
			pickOne(only(full[1], full[0]))
		case "only_first":
			pickOne(only(full[0], full[1]))
		case "any_one":
			pickOne(both)
		case "subset":
			for i, d := range both {
				if g.n(0, 2, fmt.Sprintf("missing/%d", i)) == 0 {
					absent[d] = true
				}
			}
		}
		mem := backends.NewMem("cas", digest.KeyWithoutInstance)
		for i, d := range g.order {
			c.Add(d.String(), !absent[d], g.universe[d])
			if !absent[d] {
				mem.Set(d, g.universe[d])
			}
			if _, done := streamed[d]; !done && g.isTree[d] && g.n(0, 1, fmt.Sprintf("stream/%d", i)) == 1 {
				streamed[d] = serveSpec{chunks: []int{g.n(1, 40, "stream/chunk")}, failAfter: -1}
			}
		}
		batch := g.n(1, 5, "batch")
		maxTotal := int64(1 << 20)
		if g.n(0, 7, "limit") == 7 {
			// between the two versions' totals, if they differ
			lo, hi := full[0].sumDup, full[1].sumDup
			if lo > hi {
				lo, hi = hi, lo
			}
			maxTotal = lo + int64(g.n(0, int(hi-lo), "limit/value"))
		}

		srv := &casServer{Mem: mem, streamed: streamed}
		sp := newSpy(srv)
		acMem := backends.NewMem("ac", digest.KeyWithInstance)
		acDigest := g.toDigest(g.protoDigest([]byte("action")))
		acMem.Set(acDigest, versions[0])
		ac := &acStore{Mem: acMem, mode: g.n(0, 2, "acmode")}

		// When does the other client's update land?
		trigger := rapid.SampledFrom([]string{"before_ac_read", "before_ac_read", "before_cas_call"}).Draw(t, "trigger")
		at := 1
		if trigger == "before_cas_call" {
			at = g.n(0, 4, "trigger/at")
		} else if g.n(0, 3, "trigger/late") == 3 {
			at = 2
		}
		replaced := false
		replace := func(n int) {
			if n == at && !replaced {
				replaced = true
				acMem.Set(acDigest, versions[1])
			}
		}
		if trigger == "before_ac_read" {
			ac.beforeRead = replace
		} else {
			sp.beforeCall = replace
		}
		readPath := drawReadPath(t)
		child := g.childOf(acDigest, readPath)
		c.Add(child.String())
		c.Add(g.instance, int(g.fn), versions[0], versions[1], batch, maxTotal, fault, ac.mode, trigger, at, readPath, missingMode)

		ba := completenesschecking.NewCompletenessCheckingBlobAccess(ac, sp, batch, maxMessageSize, maxTotal)
		rd := readThrough(context.Background(), ba, readPath, acDigest, child)

		// The versions the Action Cache held at some moment of the call.
		held := []int{0}
		if replaced {
			held = append(held, 1)
		}
		var final [2]*verdict
		for i := range versions {
			v, err := referenceWalk(g.instance, g.fn, versions[i], mem, unreadable)
			if err != nil {
				t.Fatalf("harness: %v", err)
			}
			final[i] = v
		}
		describe := func() string {
			var sb strings.Builder
			fmt.Fprintf(&sb, "  %s; the Action Cache entry is replaced %s number %d (replacement happened: %v; the Action Cache received %d reads)\n", rd, trigger, at, replaced, ac.gets)
			fmt.Fprintf(&sb, "  instance=%q fn=%s batch=%d max_total_tree_size=%d tree_fault=%q malformed=%q\n", g.instance, g.fn, batch, maxTotal, fault, g.malformDone)
			for i := range versions {
				fmt.Fprintf(&sb, "  version %d of the entry: %s\n    reference walker: missing=%v malformed=%v tree_bad=%v ambiguous=%v tree_bytes=%d\n", i+1, renderAR(versions[i]), final[i].missing, final[i].malformed, final[i].treeBad, final[i].ambiguous, final[i].sumDup)
			}
			for _, d := range g.order {
				state := "present"
				if absent[d] {
					state = "ABSENT"
				}
				what := ""
				if g.isTree[d] {
					what = " tree=" + renderTree(g.universe[d])
				}
				fmt.Fprintf(&sb, "  cas %s %s refs(v1)=%v refs(v2)=%v%s\n", d, state, final[0].refs[d], final[1].refs[d], what)
			}
			fmt.Fprintf(&sb, "  calls seen by the CAS:\n%s  outcome: err=%v\n", renderLog(sp), rd.err)
			if rd.err == nil {
				fmt.Fprintf(&sb, "  returned: %s\n", renderAR(rd.got))
			}
			return sb.String()
		}
		input := func(i int, got []byte, err error) judgeInput {
			return judgeInput{v: final[i], stored: versions[i], got: got, err: err, spy: sp, maxTotal: maxTotal, mutated: fault != "", describe: describe}
		}
		// which version is a returned message?
		identify := func(got []byte) int {
			var m remoteexecution.ActionResult
			if err := proto.Unmarshal(got, &m); err != nil {
				t.Fatalf("the caller received bytes that are no ActionResult: %v\n%s", err, describe())
			}
			for _, i := range held {
				if proto.Equal(&m, ars[i]) {
					return i
				}
			}
			t.Fatalf("the caller received an ActionResult that the Action Cache did not hold during the call\n%s", describe())
			return -1
		}
		for _, m := range rd.handed {
			judge(t, input(identify(m), m, nil))
		}
		outcome, judgedAs := "", 0
		if rd.err == nil {
			judgedAs = identify(rd.got)
			outcome = judge(t, input(judgedAs, rd.got, nil))
		} else {
			var complaints []string
			ok := false
			for _, i := range held {
				o, complaint := tryJudge(input(i, nil, rd.err))
				if complaint == "" {
					outcome, judgedAs, ok = o, i, true
					break
				}
				complaints = append(complaints, fmt.Sprintf("as an answer for version %d: %s", i+1, complaint))
			}
			if !ok {
				t.Fatalf("the error the caller received is the right answer for none of the versions the Action Cache held during the call:\n%s", strings.Join(complaints, "\n"))
			}
		}

		// Statistics.
		complete := func(v *verdict) bool {
			return len(v.missing) == 0 && len(v.malformed) == 0 && len(v.treeBad) == 0 && v.sumDup <= maxTotal
		}
		c.Class("outcome_" + outcome)
		c.Class(fmt.Sprintf("judged_as_version_%d", judgedAs+1))
		c.Class("read_" + readPath)
		c.Class("trigger_" + trigger)
		c.ClassIf(replaced, "entry_replaced_during_the_call")
		c.ClassIf(!replaced, "replacement_point_not_reached")
		c.ClassIf(ac.gets > 1, "action_cache_read_more_than_once")
		c1, c2 := complete(final[0]), complete(final[1])
		c.ClassIf(c1 && !c2, "first_complete_second_incomplete")
		c.ClassIf(!c1 && c2, "first_incomplete_second_complete")
		c.ClassIf(c1 && c2, "both_complete")
		c.ClassIf(!c1 && !c2, "both_incomplete")
		c.ClassIf(fault != "", "tree_fault_applied")
		c.ClassIf(maxTotal < 1<<20, "limit_between_the_versions")
		c.ClassIf(g.malformDone != "", "malformation_applied")
		if c1 != c2 {
			c.NonTrivial()
			c.ClassIf(replaced, "versions_differ_in_completeness_and_entry_replaced")
		}
		c.Sample(func() string {
			return fmt.Sprintf("v1=%s (complete=%v) v2=%s (complete=%v) replaced %s %d (happened=%v) %s -> %s (%v)", renderAR(versions[0]), c1, renderAR(versions[1]), c2, trigger, at, replaced, readPath, outcome, rd.err)
		})
		c.End()
	})
}
