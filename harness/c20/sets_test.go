package c20

import (
	"fmt"
	"math"
	"sort"
	"strings"
	"testing"

	"github.com/buildbarn/bb-storage/pkg/digest"
	"pgregory.net/rapid"

	"verif/harness/vstats"
)

var recSets = vstats.New("TestC20Sets")

// Small pools, so that sets of one family overlap and mix instance names.
// Sizes 5/10/123 and functions 3/10 make the order of keys differ from the
// numeric order.
var (
	setInstances = []string{"", "a", "b", "a/b", "ab", "a/b/c"}
	setSizes     = []int64{0, 0, 1, 5, 10, 123, math.MaxInt64}
	setFills     = []string{"0", "a", "f"}
)

// mset is the mathematical set: keys are KeyWithInstance strings.
type mset map[string]bool

func (m mset) union(o mset) mset {
	out := mset{}
	for k := range m {
		out[k] = true
	}
	for k := range o {
		out[k] = true
	}
	return out
}

func (m mset) minus(o mset) mset {
	out := mset{}
	for k := range m {
		if !o[k] {
			out[k] = true
		}
	}
	return out
}

func (m mset) intersect(o mset) mset {
	out := mset{}
	for k := range m {
		if o[k] {
			out[k] = true
		}
	}
	return out
}

func keysOf(items []digest.Digest) []string {
	out := make([]string, 0, len(items))
	for _, d := range items {
		out = append(out, d.GetKey(digest.KeyWithInstance))
	}
	return out
}

func sameStrings(a, b []string) bool {
	if len(a) != len(b) {
		return false
	}
	for i := range a {
		if a[i] != b[i] {
			return false
		}
	}
	return true
}

// ranks is the package's own total order over the digests of one case:
// the position of every digest of the universe in ONE set that holds them
// all. The property says "sorted" without naming the order (the unchanged
// code orders by the packed string, which is also the instance-aware key);
// what every merge-based operation relies on, and what is asserted, is that
// ALL sets of the package list their elements in one and the same strict
// order.
type ranks map[string]int

func mkRanks(t *rapid.T, universe []digest.Digest) ranks {
	sb := digest.NewSetBuilder(0)
	want := mset{}
	for _, d := range universe {
		sb = sb.Add(d)
		want[idOf(d)] = true
	}
	items := sb.Build().Items()
	r := ranks{}
	for i, d := range items {
		if _, dup := r[idOf(d)]; dup {
			t.Fatalf("set of the whole universe lists %q twice: %q", idOf(d), keysOf(items))
		}
		r[idOf(d)] = i
	}
	if len(r) != len(want) {
		t.Fatalf("set of the whole universe: got %q, want the set %q", keysOf(items), sortedKeys(want))
	}
	for k := range want {
		if _, ok := r[k]; !ok {
			t.Fatalf("set of the whole universe: got %q, want the set %q", keysOf(items), sortedKeys(want))
		}
	}
	return r
}

// idOf is the identity of a digest in the mathematical model: the
// instance-aware key (injective by the key clause of the property, which
// TestC20KeyPairs checks).
func idOf(d digest.Digest) string { return d.GetKey(digest.KeyWithInstance) }

// checkSet: got is exactly the mathematical set want, sorted (in the
// package's order, see ranks), duplicate-free, and its scalar accessors
// agree.
func checkSet(t *rapid.T, rk ranks, what string, got digest.Set, want mset) {
	items := got.Items()
	ks := keysOf(items)
	for i := 1; i < len(ks); i++ {
		a, aok := rk[ks[i-1]]
		b, bok := rk[ks[i]]
		if aok && bok && !(a < b) {
			t.Fatalf("%s: elements %d and %d out of order or duplicated: %q, %q (all: %q)", what, i-1, i, ks[i-1], ks[i], ks)
		}
	}
	gs := append([]string(nil), ks...)
	sort.Strings(gs)
	if w := sortedKeys(want); !sameStrings(gs, w) {
		t.Fatalf("%s: got %q, want the set %q", what, ks, w)
	}
	if got.Length() != len(want) || got.Empty() != (len(want) == 0) {
		t.Fatalf("%s: Length %d Empty %v for a set of %d elements", what, got.Length(), got.Empty(), len(want))
	}
	first, ok := got.First()
	if ok != (len(want) > 0) || (ok && first != items[0]) {
		t.Fatalf("%s: First() = %q, %v for %q", what, first.String(), ok, ks)
	}
}

type snapshot struct {
	name string
	set  digest.Set
	keys []string
}

// TestC20Sets: SetBuilder, GetUnion, GetDifferenceAndIntersection,
// PartitionByInstanceName, RemoveEmptyBlob and the scalar accessors against
// map-based sets, over families that share elements.
func TestC20Sets(t *testing.T) {
	rapid.Check(t, func(t *rapid.T) {
		c := recSets.Begin()
		// Universe of digests this family draws from (may repeat itself).
		n := rapid.IntRange(1, 10).Draw(t, "universe")
		universe := make([]digest.Digest, 0, n)
		info := map[string]spec{}
		for i := 0; i < n; i++ {
			f := rapid.SampledFrom(allFns).Draw(t, "fn")
			s := spec{
				fn:   f,
				hash: strings.Repeat(rapid.SampledFrom(setFills).Draw(t, "fill"), fnHexLen[f]),
				size: rapid.SampledFrom(setSizes).Draw(t, "size"),
			}
			if inst := rapid.SampledFrom(setInstances).Draw(t, "inst"); inst != "" {
				s.comps = strings.Split(inst, "/")
			}
			d := s.mk(t)
			universe = append(universe, d)
			info[idOf(d)] = s
			c.Add(int(s.fn), s.hash, s.size, s.inst())
		}

		rk := mkRanks(t, universe)
		keyOrder := true
		for a, ra := range rk {
			for b, rb := range rk {
				keyOrder = keyOrder && ((a < b) == (ra < rb))
			}
		}
		c.ClassIf(!keyOrder, "set_order_is_not_key_order")

		var snaps []snapshot
		track := func(name string, s digest.Set) {
			snaps = append(snaps, snapshot{name: name, set: s, keys: keysOf(s.Items())})
		}

		// The family: each set is built from a list with repetitions.
		k := rapid.SampledFrom([]int{0, 1, 2, 2, 3, 3, 4, 5}).Draw(t, "sets")
		family := make([]digest.Set, 0, k)
		models := make([]mset, 0, k)
		count := map[string]int{}
		for i := 0; i < k; i++ {
			idx := rapid.SliceOfN(rapid.IntRange(0, n-1), 0, 8).Draw(t, fmt.Sprintf("set%d", i))
			c.Add(i, fmt.Sprint(idx))
			sb := digest.NewSetBuilder(rapid.IntRange(0, 4).Draw(t, "capacity"))
			m := mset{}
			for _, j := range idx {
				sb = sb.Add(universe[j])
				m[idOf(universe[j])] = true
				if sb.Length() != len(m) {
					t.Fatalf("SetBuilder.Length() = %d after adding %d distinct digests", sb.Length(), len(m))
				}
			}
			s := sb.Build()
			checkSet(t, rk, fmt.Sprintf("Build of set %d", i), s, m)
			if again := sb.Build(); !sameStrings(keysOf(again.Items()), keysOf(s.Items())) {
				t.Fatalf("building the same SetBuilder twice gave %q then %q", keysOf(s.Items()), keysOf(again.Items()))
			}
			for key := range m {
				count[key]++
			}
			family = append(family, s)
			models = append(models, m)
			track(fmt.Sprintf("set %d", i), s)
		}
		// Adding to a builder after Build must not alter the set built before.
		if k > 0 {
			sb := digest.NewSetBuilder(0)
			for _, d := range family[0].Items() {
				sb = sb.Add(d)
			}
			before := sb.Build()
			track("set built before a further Add", before)
			sb = sb.Add(universe[rapid.IntRange(0, n-1).Draw(t, "late_add")])
			sb.Build()
		}
		checkSet(t, rk, "EmptySet", digest.EmptySet, mset{})
		checkSet(t, rk, "Build of nothing", digest.NewSetBuilder(0).Build(), mset{})
		checkSet(t, rk, "ToSingletonSet", universe[0].ToSingletonSet(), mset{idOf(universe[0]): true})

		// Union of the whole family, of a permutation, and with repeats.
		all := mset{}
		for _, m := range models {
			all = all.union(m)
		}
		u := digest.GetUnion(family)
		checkSet(t, rk, "GetUnion of the family", u, all)
		track("union", u)
		if k >= 2 {
			perm := rapid.Permutation(family).Draw(t, "perm")
			checkSet(t, rk, "GetUnion of the permuted family", digest.GetUnion(perm), all)
			checkSet(t, rk, "GetUnion of the family listed twice", digest.GetUnion(append(append([]digest.Set(nil), family...), perm...)), all)
		}
		checkSet(t, rk, "GetUnion of no sets", digest.GetUnion(nil), mset{})
		checkSet(t, rk, "GetUnion of empty sets", digest.GetUnion([]digest.Set{digest.EmptySet, {}}), mset{})

		// Difference / intersection of every ordered pair (incl. a set with itself).
		disjoint, subset := false, false
		for i := 0; i < k; i++ {
			for j := 0; j < k; j++ {
				onlyA, both, onlyB := digest.GetDifferenceAndIntersection(family[i], family[j])
				what := fmt.Sprintf("GetDifferenceAndIntersection(set %d, set %d)", i, j)
				checkSet(t, rk, what+" only-A", onlyA, models[i].minus(models[j]))
				checkSet(t, rk, what+" both", both, models[i].intersect(models[j]))
				checkSet(t, rk, what+" only-B", onlyB, models[j].minus(models[i]))
				checkSet(t, rk, what+" re-united", digest.GetUnion([]digest.Set{onlyB, both, onlyA}), models[i].union(models[j]))
				if i != j && len(models[i]) > 0 && len(models[j]) > 0 {
					disjoint = disjoint || both.Empty()
					subset = subset || (onlyA.Empty() && !onlyB.Empty())
				}
				if i == 0 && j == k-1 {
					track(what+" only-A", onlyA)
					track(what+" both", both)
					track(what+" only-B", onlyB)
				}
			}
			onlyA, both, onlyB := digest.GetDifferenceAndIntersection(family[i], digest.EmptySet)
			checkSet(t, rk, "difference with the empty set: only-A", onlyA, models[i])
			checkSet(t, rk, "difference with the empty set: both", both, mset{})
			checkSet(t, rk, "difference with the empty set: only-B", onlyB, mset{})
			onlyA, both, onlyB = digest.GetDifferenceAndIntersection(u, family[i])
			checkSet(t, rk, "union minus member", onlyA, all.minus(models[i]))
			checkSet(t, rk, "union intersected with member", both, models[i])
			checkSet(t, rk, "member minus union", onlyB, mset{})
		}

		// Partition and empty-blob filter of every set and of the union.
		multiInstance, manyInstances, emptyBlob, partsNotInKeyOrder := false, false, false, false
		subjects := append(append([]digest.Set(nil), family...), u)
		subjectModels := append(append([]mset(nil), models...), all)
		for i, s := range subjects {
			m := subjectModels[i]
			what := fmt.Sprintf("subject %d", i)
			// Reference partition: walk the sorted keys, group by instance
			// name in order of first occurrence.
			var order []string
			groups := map[string]mset{}
			nonEmpty := mset{}
			for _, key := range sortedKeys(m) {
				inst := info[key].inst()
				if groups[inst] == nil {
					groups[inst] = mset{}
					order = append(order, inst)
				}
				groups[inst][key] = true
				if info[key].size != 0 {
					nonEmpty[key] = true
				} else {
					emptyBlob = true
				}
			}
			parts := s.PartitionByInstanceName()
			if len(parts) != len(order) {
				t.Fatalf("PartitionByInstanceName of %s %q: %d parts, want %d (%q)", what, keysOf(s.Items()), len(parts), len(order), order)
			}
			// Which part holds which instance name is read off the parts
			// (the order of the parts is not part of the property); every
			// instance name must occur as exactly one part.
			partInst := make([]string, len(parts))
			seenInst := map[string]bool{}
			inOrder := true
			for pi, p := range parts {
				first, ok := p.First()
				if !ok {
					t.Fatalf("PartitionByInstanceName of %s: part %d is empty", what, pi)
				}
				inst := first.GetInstanceName().String()
				if groups[inst] == nil || seenInst[inst] {
					t.Fatalf("PartitionByInstanceName of %s %q: part %d is for instance name %q, which is absent or has another part already", what, keysOf(s.Items()), pi, inst)
				}
				seenInst[inst] = true
				partInst[pi] = inst
				inOrder = inOrder && inst == order[pi]
				checkSet(t, rk, fmt.Sprintf("PartitionByInstanceName of %s, part %d (instance name %q)", what, pi, inst), p, groups[inst])
				for _, d := range p.Items() {
					if d.GetInstanceName().String() != inst {
						t.Fatalf("PartitionByInstanceName of %s: part %d holds %q, want only instance name %q", what, pi, d.String(), inst)
					}
				}
			}
			partsNotInKeyOrder = partsNotInKeyOrder || !inOrder
			multiInstance = multiInstance || len(order) >= 2
			manyInstances = manyInstances || len(order) >= 3
			checkSet(t, rk, "GetUnion of the partition of "+what, digest.GetUnion(parts), m)
			// Appending to parts (as callers do through further set
			// operations) must not write into the partitioned set.
			for pi, p := range parts {
				checkSet(t, rk, "RemoveEmptyBlob of a part", p.RemoveEmptyBlob(), groups[partInst[pi]].intersect(nonEmpty))
				if pi+1 < len(parts) {
					a, b, cc := digest.GetDifferenceAndIntersection(p, parts[pi+1])
					checkSet(t, rk, "two parts are disjoint", b, mset{})
					checkSet(t, rk, "part minus next part", a, groups[partInst[pi]])
					checkSet(t, rk, "next part minus part", cc, groups[partInst[pi+1]])
				}
			}
			ne := s.RemoveEmptyBlob()
			checkSet(t, rk, "RemoveEmptyBlob of "+what, ne, nonEmpty)
			for _, d := range ne.Items() {
				if d.GetSizeBytes() == 0 {
					t.Fatalf("RemoveEmptyBlob of %s kept %q", what, d.String())
				}
			}
			checkSet(t, rk, "RemoveEmptyBlob twice", ne.RemoveEmptyBlob(), nonEmpty)
			if i == 0 {
				track("RemoveEmptyBlob of "+what, ne)
				for pi, p := range parts {
					track(fmt.Sprintf("part %d of %s", pi, what), p)
				}
			}
		}

		// No operation above may have altered a set it was given or returned.
		for _, sn := range snaps {
			if now := keysOf(sn.set.Items()); !sameStrings(now, sn.keys) {
				t.Fatalf("%s was mutated by later operations: was %q, now %q", sn.name, sn.keys, now)
			}
		}

		overlap, identical, emptyMember := false, false, false
		for _, v := range count {
			overlap = overlap || v >= 2
		}
		for i := range models {
			emptyMember = emptyMember || len(models[i]) == 0
			for j := i + 1; j < len(models); j++ {
				identical = identical || (len(models[i]) > 0 && sameStrings(sortedKeys(models[i]), sortedKeys(models[j])))
			}
		}
		if overlap {
			c.NonTrivial()
		}
		c.ClassIf(overlap, "overlap_across_sets")
		c.ClassIf(identical, "two_identical_sets")
		c.ClassIf(emptyMember, "empty_member")
		c.ClassIf(k == 0, "empty_family")
		c.ClassIf(k >= 3, "three_or_more_sets")
		c.ClassIf(multiInstance, "set_with_two_instance_names")
		c.ClassIf(manyInstances, "set_with_three_instance_names")
		c.ClassIf(emptyBlob, "has_empty_blob")
		c.ClassIf(partsNotInKeyOrder, "partition_parts_not_in_key_order")
		c.ClassIf(disjoint, "disjoint_pair")
		c.ClassIf(subset, "proper_subset_pair")
		c.ClassIf(len(all) >= 6, "union_of_six_or_more")
		c.Sample(func() string {
			var sb strings.Builder
			for i, m := range models {
				fmt.Fprintf(&sb, "set%d=%q ", i, sortedKeys(m))
			}
			return sb.String()
		})
		c.End()
	})
}
