package c20

import (
	"bytes"
	"encoding/binary"
	"encoding/hex"
	"fmt"
	"math"
	"strconv"
	"strings"
	"testing"

	remoteexecution "github.com/bazelbuild/remote-apis/build/bazel/remote/execution/v2"
	"github.com/buildbarn/bb-storage/pkg/digest"
	"google.golang.org/grpc/status"
	"pgregory.net/rapid"

	"verif/harness/vstats"
)

var recMal = vstats.New("TestC20Malformed")

// A valid input in one of the surfaces the package parses.
type surface string

const (
	sRead     surface = "read"
	sWrite    surface = "write"
	sProto    surface = "proto"
	sCompact  surface = "compact"
	sInstance surface = "instance"
)

var nonNumericSizes = []string{"12a", "a12", "0x1f", "1e3", "1.0", "1,0", " 1", "1 ", "1_0", "--1", "+-1", "NaN", "x", "-", "+", "٣", "1\x00", "0b1", "１２"}
var overflowSizes = []string{"9223372036854775808", "18446744073709551615", "18446744073709551616", "99999999999999999999", "100000000000000000000000000000", "-9223372036854775809"}
var unknownFnNames = []string{"blake2", "BLAKE3", "Blake3", "sha3", "md4", "murmur3", "vso", "sha256", "sha1", "md5", "sha384", "sha512", "SHA256TREE", "gitsha256", "unknown", "blake3 ", "sha256-tree"}
var unknownCompressors = []string{"gzip", "ZSTD", "Zstd", "zstd2", "identity", "IDENTITY", "lz4", "snappy", "zstd ", "br", "deflate64", "blobs"}
var unknownFnEnums = []int32{0, 4, 7, 11, 12, 100, 127, 128, 255, -1, 256 + 1, math.MaxInt32, math.MinInt32}

// nonHexChars are single bytes that are not lowercase hexadecimal digits
// and do not alter the structure of a path.
var nonHexChars = []byte{'g', 'z', 'G', 'Z', 'x', ' ', '-', '_', '.', ':', '+', 0, 0x7f, 0x80, 0xff, '`', '@', '\n'}

// rejected asserts that a parser returned an error.
func rejected(t *rapid.T, what, input string, d digest.Digest, err error) string {
	if err == nil {
		t.Fatalf("%s: malformed input %s was accepted as %s", what, input, describe(d))
	}
	return status.Code(err).String()
}

// TestC20Malformed: ONE mutation of a valid input, from the classes the
// property lists, must be rejected with an error by the surface it is
// given to (a panic fails the case as well).
func TestC20Malformed(t *testing.T) {
	rapid.Check(t, func(t *rapid.T) {
		c := recMal.Begin()
		// Instance name components shorter than 32 bytes: cannot be mistaken
		// for a hash after a mutation shifted the parser's split point.
		s := genSpec(t, "d", false, false)
		cmp := genCompressor(t, "compressor")
		kind := rapid.SampledFrom([]string{
			"hash_length", "hash_uppercase", "hash_nonhex", "size_negative", "size_nonnumeric", "size_overflow",
			"reserved_keyword", "redundant_slash", "unknown_function", "unknown_compressor", "truncated", "truncated",
		}).Draw(t, "mutation")
		c.Add(int(s.fn), s.hash, s.size, s.inst(), int(cmp), kind)

		in, err := digest.NewInstanceName(s.inst())
		if err != nil {
			t.Fatalf("NewInstanceName(%q): %v", s.inst(), err)
		}
		f, err := in.GetDigestFunction(s.fn, 0)
		if err != nil {
			t.Fatalf("GetDigestFunction(%s): %v", s.fn, err)
		}
		hb, _ := hex.DecodeString(s.hash)
		u := fixedUUID.String()
		var rendered, code string
		var surf surface
		// pickSurface draws the surface a mutation is applied to. Compact
		// binaries can only be malformed by hand while the package uses the
		// layout this check knows (see helpers_test.go).
		pickSurface := func(options ...surface) surface {
			sf := rapid.SampledFrom(options).Draw(t, "surface")
			if sf == sCompact && !compactIsReference() {
				c.Class("compact_layout_not_reference")
				return sRead
			}
			return sf
		}

		// parsePath feeds components to the read or write path parser.
		parsePath := func(sf surface, comps []string) (digest.Digest, error) {
			p := strings.Join(comps, "/")
			rendered = fmt.Sprintf("%q", p)
			if sf == sRead {
				d, _, err := digest.NewDigestFromByteStreamReadPath(p)
				return d, err
			}
			d, _, err := digest.NewDigestFromByteStreamWritePath(p)
			return d, err
		}
		// pathWith renders the valid path with hash and size replaced.
		pathWith := func(sf surface, hash, size string) []string {
			var out []string
			out = append(out, s.comps...)
			if sf == sWrite {
				out = append(out, "uploads", u)
			}
			out = append(out, compressorPath[cmp]...)
			if n, ok := fnPathName[s.fn]; ok {
				out = append(out, n)
			}
			return append(out, hash, size)
		}
		sizeStr := strconv.FormatInt(s.size, 10)

		switch kind {
		case "hash_length":
			surf = pickSurface(sRead, sWrite, sProto)
			want := len(s.hash)
			var l int
			switch rapid.IntRange(0, 3).Draw(t, "len/how") {
			case 0:
				l = want - 1
			case 1:
				l = want + 1
			case 2: // a length that is right for some other function
				l = rapid.SampledFrom([]int{32, 40, 64, 96, 128}).Filter(func(x int) bool { return x != want }).Draw(t, "len/other")
			default:
				l = rapid.IntRange(1, 140).Filter(func(x int) bool { return x != want }).Draw(t, "len/any")
			}
			h := s.hash
			for len(h) < l {
				h += s.hash
			}
			h = h[:l]
			_, named := fnPathName[s.fn]
			_, inferable := inferredByLen[l]
			if surf != sProto && !named && inferable {
				// Not malformed: without an explicit function name the
				// function is inferred from the hash length (documented
				// compatibility behaviour). It must then BE that function.
				d, err := parsePath(surf, pathWith(surf, h, sizeStr))
				want := spec{fn: inferredByLen[l], hash: h, size: s.size, comps: s.comps}
				if err != nil || !want.matches(d) {
					t.Fatalf("%s path %s: want %s inferred from the hash length, got %s, %v", surf, rendered, want, describe(d), err)
				}
				c.Class("hash_length_reinterpreted_not_malformed")
				code = "accepted-as-other-function"
			} else if surf == sProto {
				rendered = fmt.Sprintf("proto{%q,%d} for %s", h, s.size, s.fn)
				d, err := f.NewDigestFromProto(&remoteexecution.Digest{Hash: h, SizeBytes: s.size})
				code = rejected(t, "NewDigestFromProto", rendered, d, err)
				d, err = f.NewDigest(h, s.size)
				rejected(t, "NewDigest", rendered, d, err)
			} else {
				d, err := parsePath(surf, pathWith(surf, h, sizeStr))
				code = rejected(t, string(surf)+" path", rendered, d, err)
			}
			c.ClassIf(inferable, "hash_length_valid_for_other_function")

		case "hash_uppercase", "hash_nonhex":
			surf = pickSurface(sRead, sWrite, sProto, sProto)
			i := rapid.IntRange(0, len(s.hash)-1).Draw(t, "pos")
			var repl byte
			if kind == "hash_uppercase" {
				repl = rapid.SampledFrom([]byte("ABCDEF")).Draw(t, "char")
			} else {
				repl = rapid.SampledFrom(nonHexChars).Draw(t, "char")
			}
			h := s.hash[:i] + string([]byte{repl}) + s.hash[i+1:]
			if kind == "hash_uppercase" && rapid.IntRange(0, 3).Draw(t, "all_upper") == 0 {
				h = strings.ToUpper(s.hash)
				if h == s.hash { // all digits
					h = "A" + s.hash[1:]
				}
			}
			if surf == sProto {
				rendered = fmt.Sprintf("proto{%q,%d} for %s", h, s.size, s.fn)
				d, err := f.NewDigestFromProto(&remoteexecution.Digest{Hash: h, SizeBytes: s.size})
				code = rejected(t, "NewDigestFromProto", rendered, d, err)
				d, err = f.NewDigest(h, s.size)
				rejected(t, "NewDigest", rendered, d, err)
			} else {
				d, err := parsePath(surf, pathWith(surf, h, sizeStr))
				code = rejected(t, string(surf)+" path", rendered, d, err)
			}

		case "size_negative":
			surf = pickSurface(sRead, sWrite, sProto, sCompact)
			neg := -rapid.Int64Range(1, math.MaxInt64).Draw(t, "neg")
			switch rapid.IntRange(0, 3).Draw(t, "neg/how") {
			case 0:
				neg = -1
			case 1:
				neg = math.MinInt64
			case 2:
				if s.size > 0 {
					neg = -s.size
				}
			}
			switch surf {
			case sProto:
				rendered = fmt.Sprintf("proto{%q,%d} for %s", s.hash, neg, s.fn)
				d, err := f.NewDigestFromProto(&remoteexecution.Digest{Hash: s.hash, SizeBytes: neg})
				code = rejected(t, "NewDigestFromProto", rendered, d, err)
				d, err = f.NewDigest(s.hash, neg)
				rejected(t, "NewDigest", rendered, d, err)
			case sCompact:
				b := binary.AppendVarint(append([]byte{byte(s.fn)}, hb...), neg)
				rendered = fmt.Sprintf("compact %x", b)
				d, err := in.NewDigestFromCompactBinary(bytes.NewReader(b))
				code = rejected(t, "NewDigestFromCompactBinary", rendered, d, err)
			default:
				d, err := parsePath(surf, pathWith(surf, s.hash, strconv.FormatInt(neg, 10)))
				code = rejected(t, string(surf)+" path", rendered, d, err)
			}

		case "size_nonnumeric", "size_overflow":
			surf = pickSurface(sRead, sWrite)
			var sz string
			if kind == "size_nonnumeric" {
				sz = rapid.SampledFrom(nonNumericSizes).Draw(t, "size")
				if rapid.Bool().Draw(t, "size/embed") && s.size > 0 {
					// a letter inside the real size
					i := rapid.IntRange(0, len(sizeStr)).Draw(t, "size/pos")
					sz = sizeStr[:i] + rapid.SampledFrom([]string{"a", "e", "x", ".", " ", "_", "l", "O"}).Draw(t, "size/char") + sizeStr[i:]
				}
			} else {
				sz = rapid.SampledFrom(overflowSizes).Draw(t, "size")
				if rapid.Bool().Draw(t, "size/append") {
					sz = strconv.FormatInt(math.MaxInt64, 10) + strconv.Itoa(rapid.IntRange(0, 9).Draw(t, "size/digit"))
				}
			}
			if surf == sRead && rapid.IntRange(0, 4).Draw(t, "compact_overflow") == 0 && kind == "size_overflow" && compactIsReference() {
				// The binary form of an overflowing size: an 11 byte varint.
				surf = sCompact
				b := append(append([]byte{byte(s.fn)}, hb...), bytes.Repeat([]byte{0xff}, 10)...)
				b = append(b, 0x01)
				rendered = fmt.Sprintf("compact %x", b)
				d, err := in.NewDigestFromCompactBinary(bytes.NewReader(b))
				code = rejected(t, "NewDigestFromCompactBinary", rendered, d, err)
			} else {
				d, err := parsePath(surf, pathWith(surf, s.hash, sz))
				code = rejected(t, string(surf)+" path", rendered, d, err)
			}

		case "reserved_keyword":
			surf = pickSurface(sInstance, sInstance, sRead, sWrite)
			kw := rapid.SampledFrom(reservedKeywords).Draw(t, "keyword")
			i := rapid.IntRange(0, len(s.comps)).Draw(t, "pos")
			comps := append(append(append([]string(nil), s.comps[:i]...), kw), s.comps[i:]...)
			bad := s.withComps(comps)
			switch surf {
			case sInstance:
				rendered = fmt.Sprintf("instance name %q", bad.inst())
				in2, err := digest.NewInstanceName(bad.inst())
				if err == nil {
					t.Fatalf("NewInstanceName accepted %q containing reserved keyword %q", in2.String(), kw)
				}
				code = status.Code(err).String()
				if in3, err := digest.NewInstanceNameFromComponents(comps); err == nil {
					t.Fatalf("NewInstanceNameFromComponents accepted %q containing reserved keyword %q", in3.String(), kw)
				}
			case sRead:
				d, err := parsePath(sRead, bad.readComps(cmp))
				code = rejected(t, "read path with keyword "+kw+" in the instance name", rendered, d, err)
			case sWrite:
				d, err := parsePath(sWrite, bad.writeComps(u, cmp))
				code = rejected(t, "write path with keyword "+kw+" in the instance name", rendered, d, err)
			}
			c.Class("keyword_" + kw)

		case "redundant_slash":
			surf = sInstance
			comps := s.comps
			if len(comps) == 0 {
				comps = []string{}
			}
			var name string
			switch how := rapid.IntRange(0, 3).Draw(t, "slash/how"); {
			case how == 0 || len(comps) == 0 && how != 1:
				name = "/" + s.inst()
			case how == 1:
				name = s.inst() + "/"
			case how == 2 && len(comps) >= 2:
				i := rapid.IntRange(1, len(comps)-1).Draw(t, "slash/pos")
				name = strings.Join(comps[:i], "/") + "//" + strings.Join(comps[i:], "/")
			default:
				name = "/" + s.inst() + "/"
			}
			rendered = fmt.Sprintf("instance name %q", name)
			in2, err := digest.NewInstanceName(name)
			if err == nil {
				t.Fatalf("NewInstanceName accepted %q with redundant slashes as %q", name, in2.String())
			}
			code = status.Code(err).String()

		case "unknown_function":
			surf = pickSurface(sRead, sWrite, sProto, sCompact)
			switch surf {
			case sProto, sCompact:
				e := rapid.SampledFrom(unknownFnEnums).Draw(t, "enum")
				if surf == sProto {
					rendered = fmt.Sprintf("GetDigestFunction(%d)", e)
					f2, err := in.GetDigestFunction(fn(e), 0)
					if err == nil {
						t.Fatalf("GetDigestFunction accepted unknown enumeration value %d as %s", e, f2.GetEnumValue())
					}
					code = status.Code(err).String()
				} else {
					b := binary.AppendVarint(append([]byte{byte(e)}, hb...), s.size)
					if _, ok := fnHexLen[fn(byte(e))]; ok {
						b[0] = 0
					}
					rendered = fmt.Sprintf("compact %x", b)
					d, err := in.NewDigestFromCompactBinary(bytes.NewReader(b))
					code = rejected(t, "NewDigestFromCompactBinary", rendered, d, err)
				}
			default:
				name := rapid.SampledFrom(unknownFnNames).Draw(t, "name")
				var comps []string
				comps = append(comps, s.comps...)
				if surf == sWrite {
					comps = append(comps, "uploads", u)
				}
				comps = append(comps, compressorPath[cmp]...)
				comps = append(comps, name, s.hash, sizeStr)
				d, err := parsePath(surf, comps)
				code = rejected(t, string(surf)+" path naming function "+name, rendered, d, err)
			}

		case "unknown_compressor":
			surf = pickSurface(sRead, sWrite)
			name := rapid.SampledFrom(unknownCompressors).Draw(t, "name")
			var comps []string
			comps = append(comps, s.comps...)
			if surf == sWrite {
				comps = append(comps, "uploads", u)
			}
			comps = append(comps, "compressed-blobs", name)
			comps = append(comps, s.trailer()...)
			d, err := parsePath(surf, comps)
			code = rejected(t, string(surf)+" path naming compressor "+name, rendered, d, err)

		case "truncated":
			surf = pickSurface(sRead, sRead, sWrite, sWrite, sCompact)
			if surf == sCompact {
				full := binary.AppendVarint(append([]byte{byte(s.fn)}, hb...), s.size)
				n := rapid.IntRange(0, len(full)-1).Draw(t, "keep")
				rendered = fmt.Sprintf("compact %x (of %d bytes)", full[:n], len(full))
				d, err := in.NewDigestFromCompactBinary(bytes.NewReader(full[:n]))
				code = rejected(t, "NewDigestFromCompactBinary", rendered, d, err)
				break
			}
			var full []string
			if surf == sRead {
				full = s.readComps(cmp)
			} else {
				full = s.writeComps(u, cmp)
			}
			if rapid.Bool().Draw(t, "by_component") {
				// Drop 1..all trailing components.
				drop := rapid.IntRange(1, len(full)).Draw(t, "drop")
				if rapid.Bool().Draw(t, "drop_few") {
					drop = min(len(full), rapid.IntRange(1, 4).Draw(t, "drop/few"))
				}
				keep := len(full) - drop
				comps := full[:keep]
				if rapid.Bool().Draw(t, "trailing_slash") {
					comps = append(append([]string(nil), comps...), "")
				}
				d, err := parsePath(surf, comps)
				code = rejected(t, string(surf)+" path truncated to "+strconv.Itoa(keep)+" components", rendered, d, err)
				c.Class(fmt.Sprintf("truncated_dropped_%d", min(len(full)-keep, 5)))
			} else {
				// Cut the string anywhere before the first digit of the size.
				p := strings.Join(full, "/")
				cut := rapid.IntRange(0, strings.LastIndex(p, "/")+1).Draw(t, "cut")
				rendered = fmt.Sprintf("%q", p[:cut])
				var d digest.Digest
				var err error
				if surf == sRead {
					d, _, err = digest.NewDigestFromByteStreamReadPath(p[:cut])
				} else {
					d, _, err = digest.NewDigestFromByteStreamWritePath(p[:cut])
				}
				code = rejected(t, string(surf)+" path cut before its size", rendered, d, err)
				c.Class("truncated_by_bytes")
			}
		}

		// Control: the unmutated input is accepted by the same surface, so a
		// rejection above is due to the mutation.
		switch surf {
		case sRead:
			if d, _, err := digest.NewDigestFromByteStreamReadPath(strings.Join(s.readComps(cmp), "/")); err != nil || !s.matches(d) {
				t.Fatalf("control: valid read path of %s rejected: %v", s, err)
			}
		case sWrite:
			if d, _, err := digest.NewDigestFromByteStreamWritePath(strings.Join(s.writeComps(u, cmp), "/")); err != nil || !s.matches(d) {
				t.Fatalf("control: valid write path of %s rejected: %v", s, err)
			}
		case sProto:
			if d, err := f.NewDigestFromProto(&remoteexecution.Digest{Hash: s.hash, SizeBytes: s.size}); err != nil || !s.matches(d) {
				t.Fatalf("control: valid message of %s rejected: %v", s, err)
			}
		case sCompact:
			if d, err := in.NewDigestFromCompactBinary(bytes.NewReader(binary.AppendVarint(append([]byte{byte(s.fn)}, hb...), s.size))); err != nil || !s.matches(d) {
				t.Fatalf("control: valid compact binary of %s rejected: %v", s, err)
			}
		}

		if len(s.comps) >= 1 {
			c.NonTrivial()
		}
		c.Class("mutation_" + kind)
		c.Class("surface_" + string(surf))
		c.Class("code_" + code)
		c.ClassIf(cmp != remoteexecution.Compressor_IDENTITY, "compressed")
		_, named := fnPathName[s.fn]
		c.ClassIf(named, "function_named_in_path")
		c.Sample(func() string { return fmt.Sprintf("%s of %s (%s) on %s: %s -> %s", kind, s, cmp, surf, rendered, code) })
		c.End()
	})
}
