package c20

import (
	"testing"

	remoteexecution "github.com/bazelbuild/remote-apis/build/bazel/remote/execution/v2"
	"github.com/buildbarn/bb-storage/pkg/digest"
)

func TestScratch(t *testing.T) {
	for _, inst := range []string{".", "..", "a/..", "a/./b", "../x", "a"} {
		d := digest.MustNewDigest(inst, remoteexecution.DigestFunction_MD5, "8b1a9953c4611296a827abf8c47804d7", 5)
		p := d.GetByteStreamReadPath(remoteexecution.Compressor_IDENTITY)
		d2, _, err := digest.NewDigestFromByteStreamReadPath(p)
		t.Logf("inst=%q path=%q reparsed=%q err=%v same=%v", inst, p, d2.String(), err, d == d2)
	}
}
