package c20

import (
	"bytes"
	"encoding/hex"
	"fmt"
	"math"
	"sort"
	"strings"
	"testing"

	remoteexecution "github.com/bazelbuild/remote-apis/build/bazel/remote/execution/v2"
	"github.com/buildbarn/bb-storage/pkg/digest"
	"pgregory.net/rapid"

	"verif/harness/vstats"
)

var recTables = vstats.New("TestC20Tables")

// TestC20Tables pins the independent tables of helpers_test.go to what the
// package claims to support, so that "every supported digest function /
// compressor" is what the generators range over.
func TestC20Tables(t *testing.T) {
	c := recTables.Begin()
	if len(digest.SupportedDigestFunctions) != len(fnHexLen) {
		t.Fatalf("package supports %d digest functions, tables know %d", len(digest.SupportedDigestFunctions), len(fnHexLen))
	}
	seen := map[fn]bool{}
	for _, f := range digest.SupportedDigestFunctions {
		if _, ok := fnHexLen[f]; !ok || seen[f] {
			t.Fatalf("supported digest function %s missing from the tables or listed twice", f)
		}
		seen[f] = true
		if _, named := fnPathName[f]; named != (f > 7) {
			t.Fatalf("function %s: explicit path name expected iff enumeration value > 7", f)
		}
		c.Add(int(f))
	}
	for v := range remoteexecution.Compressor_Value_name {
		if _, ok := compressorPath[compressor(v)]; !ok {
			t.Fatalf("compressor %s of the protocol missing from the tables", compressor(v))
		}
	}
	if len(remoteexecution.Compressor_Value_name) != len(allCompressors) {
		t.Fatalf("protocol has %d compressors, tables know %d", len(remoteexecution.Compressor_Value_name), len(allCompressors))
	}
	// RemoveUnsupportedDigestFunctions: intersection, deduplicated.
	got := digest.RemoveUnsupportedDigestFunctions([]fn{
		remoteexecution.DigestFunction_VSO, remoteexecution.DigestFunction_SHA256, remoteexecution.DigestFunction_MURMUR3,
		remoteexecution.DigestFunction_SHA256, remoteexecution.DigestFunction_BLAKE3, remoteexecution.DigestFunction_UNKNOWN,
	})
	if len(got) != 2 || !((got[0] == remoteexecution.DigestFunction_BLAKE3 && got[1] == remoteexecution.DigestFunction_SHA256) ||
		(got[1] == remoteexecution.DigestFunction_BLAKE3 && got[0] == remoteexecution.DigestFunction_SHA256)) {
		t.Fatalf("RemoveUnsupportedDigestFunctions = %v", got)
	}
	c.End()
}

var recRegress = vstats.New("TestC20Regressions")

// TestC20Regressions replays shrunk inputs of defects this check found.
func TestC20Regressions(t *testing.T) {
	// Fixed by /repo e2c41f3: GetByteStreamReadPath/WritePath cleaned "."
	// and ".." instance name components (path.Join), so the formatted
	// resource name parsed back under a different instance name.
	for _, inst := range []string{"a/..", ".", "..", "a/./b", "../x", "a/../..", "./."} {
		for _, f := range allFns {
			c := recRegress.Begin()
			c.Add(inst, int(f))
			c.NonTrivial()
			s := spec{fn: f, hash: strings.Repeat("0", fnHexLen[f]), size: 0, comps: strings.Split(inst, "/")}
			d := s.mk(t)
			for _, cmp := range allCompressors {
				rp := d.GetByteStreamReadPath(cmp)
				if d2, c2, err := digest.NewDigestFromByteStreamReadPath(rp); err != nil || d2 != d || c2 != cmp {
					t.Fatalf("read path round trip: %s formats as %q which parses as %s, %s, %v", s, rp, describe(d2), c2, err)
				}
				wp := d.GetByteStreamWritePath(fixedUUID, cmp)
				if d2, c2, err := digest.NewDigestFromByteStreamWritePath(wp); err != nil || d2 != d || c2 != cmp {
					t.Fatalf("write path round trip: %s formats as %q which parses as %s, %s, %v", s, wp, describe(d2), c2, err)
				}
			}
			exerciseDigest(t, d, fixedUUID)
			c.Sample(func() string { return s.String() })
			c.End()
		}
	}
}

var recRT = vstats.New("TestC20RoundTrip")

// TestC20RoundTrip: every format of a valid digest parses back to it; a
// resource name / message / binary built by hand from the protocol's rules
// parses to the digest with exactly the intended attributes; ancestors are
// the chain of component prefixes.
func TestC20RoundTrip(t *testing.T) {
	rapid.Check(t, func(t *rapid.T) {
		c := recRT.Begin()
		s := genSpec(t, "d", true, true)
		cmp := genCompressor(t, "compressor")
		u := genUUID(t, "uuid")
		// The write path format is .../${size}/${path}: optional trailing path.
		extra := rapid.SliceOfN(rapid.SampledFrom([]string{"x", "foo.txt", "uploads", "blobs", "7", "..", "compressed-blobs", "zstd"}), 0, 3).Draw(t, "trailing")
		c.Add(int(s.fn), s.hash, s.size, s.inst(), int(cmp), u.String(), strings.Join(extra, "/"))

		d := s.mk(t)
		if !s.matches(d) {
			t.Fatalf("NewDigest(%s) has attributes %s", s, describe(d))
		}
		hb, _ := hex.DecodeString(s.hash)
		if !bytes.Equal(d.GetHashBytes(), hb) {
			t.Fatalf("GetHashBytes of %s = %x", s, d.GetHashBytes())
		}
		if got := d.GetInstanceName().GetComponents(); strings.Join(got, "\x00") != strings.Join(s.comps, "\x00") {
			t.Fatalf("GetComponents of %q = %q", s.inst(), got)
		}
		inc, err := digest.NewInstanceNameFromComponents(s.comps)
		if err != nil || inc != d.GetInstanceName() {
			t.Fatalf("NewInstanceNameFromComponents(%q) = %q, %v", s.comps, inc.String(), err)
		}
		in := d.GetInstanceName()
		f := d.GetDigestFunction()

		// (a) hand-built resource names parse to the intended digest.
		rp := strings.Join(s.readComps(cmp), "/")
		if d2, c2, err := digest.NewDigestFromByteStreamReadPath(rp); err != nil || d2 != d || c2 != cmp {
			t.Fatalf("read path %q parses as %s, %s, %v; want %s, %s", rp, describe(d2), c2, err, s, cmp)
		}
		wp := strings.Join(append(s.writeComps(u.String(), cmp), extra...), "/")
		if d2, c2, err := digest.NewDigestFromByteStreamWritePath(wp); err != nil || d2 != d || c2 != cmp {
			t.Fatalf("write path %q parses as %s, %s, %v; want %s, %s", wp, describe(d2), c2, err, s, cmp)
		}
		// (b) hand-built REv2 message.
		if d2, err := f.NewDigestFromProto(&remoteexecution.Digest{Hash: s.hash, SizeBytes: s.size}); err != nil || d2 != d {
			t.Fatalf("NewDigestFromProto(%s) = %s, %v", s, describe(d2), err)
		}
		// (c) hand-built compact binary: function, raw hash, signed varint size.
		// (only while the package uses the layout helpers_test.go knows)
		cb := d.GetCompactBinary()
		if compactIsReference() {
			ref := refCompact(s)
			rd := bytes.NewReader(ref)
			if d2, err := in.NewDigestFromCompactBinary(rd); err != nil || d2 != d || rd.Len() != 0 {
				t.Fatalf("compact binary %x parses as %s, %v (%d unread); want %s", ref, describe(d2), err, rd.Len(), s)
			}
			c.ClassIf(!bytes.Equal(cb, ref), "compact_binary_differs_from_reference")
		} else {
			c.Class("compact_layout_not_reference")
		}
		// What the package renders must parse back (whatever the layout).
		{
			rd := bytes.NewReader(cb)
			if d2, err := in.NewDigestFromCompactBinary(rd); err != nil || d2 != d || rd.Len() != 0 {
				t.Fatalf("GetCompactBinary %x of %s parses as %s, %v (%d unread)", cb, s, describe(d2), err, rd.Len())
			}
		}
		// A compact binary does not carry the instance name: parsing it under
		// another instance name yields the same function/hash/size there.
		other := genComps(t, "otherinst", true, true)
		oin, err := digest.NewInstanceNameFromComponents(other)
		if err != nil {
			t.Fatalf("NewInstanceNameFromComponents(%q): %v", other, err)
		}
		if d2, err := oin.NewDigestFromCompactBinary(bytes.NewReader(cb)); err != nil || !s.withComps(other).matches(d2) {
			t.Fatalf("compact binary of %s under %q parses as %s, %v", s, other, describe(d2), err)
		}

		// (d) every format the package renders parses back; all accessors;
		// ancestors = chain of prefixes (inside exerciseDigest, against comps).
		n := exerciseDigest(t, d, u)
		if n != len(s.comps) {
			t.Fatalf("instance name %q has %d components, want %d", s.inst(), n, len(s.comps))
		}
		parents := d.GetDigestsWithParentInstanceNames()
		for i := 0; i <= len(s.comps); i++ {
			if want := s.withComps(s.comps[:i]).mk(t); i >= len(parents) || parents[i] != want {
				t.Fatalf("ancestors of %s: element %d is not %s (got %d elements)", s, i, describe(want), len(parents))
			}
		}
		if len(parents) != len(s.comps)+1 {
			t.Fatalf("ancestors of %s: %d elements, want %d", s, len(parents), len(s.comps)+1)
		}
		// UsesDigestFunction distinguishes function and instance name.
		for _, of := range allFns {
			fo, _ := in.GetDigestFunction(of, 0)
			if d.UsesDigestFunction(fo) != (of == s.fn) {
				t.Fatalf("%s UsesDigestFunction(%s, same instance) = %v", s, of, d.UsesDigestFunction(fo))
			}
		}
		if fo, _ := oin.GetDigestFunction(s.fn, 0); d.UsesDigestFunction(fo) != (oin == in) {
			t.Fatalf("%s UsesDigestFunction(same function, instance %q) = %v", s, oin.String(), d.UsesDigestFunction(fo))
		}
		// The fallback-by-length function selection agrees with the table.
		if fb, err := in.GetDigestFunction(remoteexecution.DigestFunction_UNKNOWN, len(s.hash)); err != nil || fb.GetEnumValue() != inferredByLen[len(s.hash)] {
			t.Fatalf("GetDigestFunction(UNKNOWN, %d) = %v, %v", len(s.hash), fb.GetEnumValue(), err)
		}

		if len(s.comps) >= 1 {
			c.NonTrivial()
		}
		c.Class("fn_" + s.fn.String())
		c.Class("compressor_" + cmp.String())
		c.Class(fmt.Sprintf("components_%d", len(s.comps)))
		c.ClassIf(s.size == 0, "size_zero")
		c.ClassIf(s.size == math.MaxInt64, "size_max")
		c.ClassIf(hasDot(s.comps), "dot_component")
		c.ClassIf(len(extra) > 0, "write_trailing_path")
		tricky := false
		for _, x := range s.comps {
			for _, y := range trickyComps {
				tricky = tricky || x == y
			}
		}
		c.ClassIf(tricky, "lookalike_component")
		c.Sample(func() string { return fmt.Sprintf("%s %s read=%q write=%q", s, cmp, rp, wp) })
		c.End()
	})
}

var recKeys = vstats.New("TestC20KeyPairs")

// sameLenFns: functions that share a hash length, so that the function can
// be the ONLY differing attribute.
func sameLenFns(f fn) []fn {
	var out []fn
	for _, g := range allFns {
		if g != f && fnHexLen[g] == fnHexLen[f] {
			out = append(out, g)
		}
	}
	sort.Slice(out, func(i, j int) bool { return out[i] < out[j] })
	return out
}

// TestC20KeyPairs: keys (both formats) and Go equality of two digests agree
// exactly when the attributes the format covers agree.
func TestC20KeyPairs(t *testing.T) {
	rapid.Check(t, func(t *rapid.T) {
		c := recKeys.Begin()
		a := genSpec(t, "a", true, true)
		b := a.withComps(a.comps)
		kinds := []string{"equal", "hash", "size", "instance", "function", "independent"}
		kind := rapid.SampledFrom(kinds).Draw(t, "differ")
		if kind == "function" && len(sameLenFns(a.fn)) == 0 {
			kind = "instance"
		}
		switch kind {
		case "hash":
			if rapid.Bool().Draw(t, "hash/one_char") {
				i := rapid.IntRange(0, len(a.hash)-1).Draw(t, "hash/pos")
				repl := rapid.SampledFrom([]byte("0123456789abcdef")).Filter(func(x byte) bool { return x != a.hash[i] }).Draw(t, "hash/char")
				b.hash = a.hash[:i] + string(repl) + a.hash[i+1:]
			} else {
				b.hash = genHash(t, a.fn, "hash/other")
			}
		case "size":
			switch rapid.IntRange(0, 3).Draw(t, "size/how") {
			case 0: // neighbour
				if a.size == math.MaxInt64 {
					b.size = a.size - 1
				} else {
					b.size = a.size + 1
				}
			case 1: // decimal prefix / extension: 12 vs 120, 12 vs 1
				if a.size <= math.MaxInt64/10 && a.size > 0 {
					b.size = a.size * 10
				} else {
					b.size = a.size / 10
				}
				if b.size == a.size {
					b.size = a.size + 1
				}
			default:
				b.size = genSize(t, "size/other")
			}
		case "instance":
			switch rapid.IntRange(0, 3).Draw(t, "inst/how") {
			case 0: // child
				b.comps = append(b.comps, rapid.SampledFrom(benignComps).Draw(t, "inst/child"))
			case 1: // parent
				if len(b.comps) > 0 {
					b.comps = b.comps[:len(b.comps)-1]
				} else {
					b.comps = []string{"a"}
				}
			case 2: // same characters, different component boundary: a/b vs a-b, ab
				if len(b.comps) >= 2 {
					j := rapid.SampledFrom([]string{"", "-"}).Draw(t, "inst/glue")
					glued := b.comps[len(b.comps)-2] + j + b.comps[len(b.comps)-1]
					if isReserved(glued) {
						glued += "0"
					}
					b.comps = append(append([]string(nil), b.comps[:len(b.comps)-2]...), glued)
				} else {
					b.comps = append(b.comps, "0")
				}
			default:
				b.comps = genComps(t, "inst/other", true, true)
			}
		case "function":
			b.fn = rapid.SampledFrom(sameLenFns(a.fn)).Draw(t, "fn/other")
		case "independent":
			b = genSpec(t, "b", true, true)
		}
		c.Add(int(a.fn), a.hash, a.size, a.inst(), kind, int(b.fn), b.hash, b.size, b.inst())

		// The two digests are built through different constructors.
		da := a.mk(t)
		var db digest.Digest
		via := rapid.SampledFrom([]string{"NewDigest", "read", "write", "proto", "compact"}).Draw(t, "via")
		var err error
		switch via {
		case "NewDigest":
			db = b.mk(t)
		case "read":
			db, _, err = digest.NewDigestFromByteStreamReadPath(strings.Join(b.readComps(genCompressor(t, "via/c")), "/"))
		case "write":
			db, _, err = digest.NewDigestFromByteStreamWritePath(strings.Join(b.writeComps(fixedUUID.String(), genCompressor(t, "via/c")), "/"))
		case "proto":
			db, err = b.mk(t).GetDigestFunction().NewDigestFromProto(&remoteexecution.Digest{Hash: b.hash, SizeBytes: b.size})
		case "compact":
			bin := b.mk(t).GetCompactBinary()
			if compactIsReference() {
				bin = refCompact(b)
			}
			db, err = b.mk(t).GetInstanceName().NewDigestFromCompactBinary(bytes.NewReader(bin))
		}
		if err != nil || !b.matches(db) {
			t.Fatalf("constructing %s via %s gave %s, %v", b, via, describe(db), err)
		}

		bareEq := a.fn == b.fn && a.hash == b.hash && a.size == b.size
		fullEq := bareEq && a.inst() == b.inst()
		if got := da.GetKey(digest.KeyWithoutInstance) == db.GetKey(digest.KeyWithoutInstance); got != bareEq {
			t.Fatalf("KeyWithoutInstance: %q vs %q for %s and %s: equal=%v, attributes equal=%v",
				da.GetKey(digest.KeyWithoutInstance), db.GetKey(digest.KeyWithoutInstance), a, b, got, bareEq)
		}
		if got := da.GetKey(digest.KeyWithInstance) == db.GetKey(digest.KeyWithInstance); got != fullEq {
			t.Fatalf("KeyWithInstance: %q vs %q for %s and %s: equal=%v, attributes equal=%v",
				da.GetKey(digest.KeyWithInstance), db.GetKey(digest.KeyWithInstance), a, b, got, fullEq)
		}
		if (da == db) != fullEq {
			t.Fatalf("Go equality of %s and %s: %v, attributes equal=%v", a, b, da == db, fullEq)
		}
		c.ClassIf((da.String() == db.String()) != fullEq, "String_not_injective")
		if n := digest.NewSetBuilder(0).Add(da).Add(db).Build().Length(); (n == 1) != fullEq {
			t.Fatalf("set of %s and %s has %d elements, attributes equal=%v", a, b, n, fullEq)
		}
		// KeyFormat.Combine picks the more informative format.
		for _, x := range []digest.KeyFormat{digest.KeyWithoutInstance, digest.KeyWithInstance} {
			for _, y := range []digest.KeyFormat{digest.KeyWithoutInstance, digest.KeyWithInstance} {
				want := digest.KeyWithoutInstance
				if x == digest.KeyWithInstance || y == digest.KeyWithInstance {
					want = digest.KeyWithInstance
				}
				if x.Combine(y) != want {
					t.Fatalf("KeyFormat(%d).Combine(%d) = %d", x, y, x.Combine(y))
				}
			}
		}

		if len(a.comps) >= 1 || len(b.comps) >= 1 {
			c.NonTrivial()
		}
		c.Class("differ_" + kind)
		c.Class("via_" + via)
		c.ClassIf(fullEq, "pair_equal")
		c.ClassIf(bareEq && !fullEq, "pair_differs_in_instance_only")
		c.ClassIf(!bareEq && a.inst() == b.inst(), "pair_same_instance_other_attr")
		c.Sample(func() string { return fmt.Sprintf("%s vs %s (%s, via %s)", a, b, kind, via) })
		c.End()
	})
}
