package c20

import (
	"bytes"
	"encoding/binary"
	"encoding/hex"
	"fmt"
	"strconv"
	"strings"
	"testing"

	remoteexecution "github.com/bazelbuild/remote-apis/build/bazel/remote/execution/v2"
	"github.com/buildbarn/bb-storage/pkg/digest"
	"pgregory.net/rapid"

	"verif/harness/vstats"
)

// ---- oracles for ARBITRARY input (shared by the rapid test and the native
// fuzz targets): no panic; whatever is accepted is a well-formed digest that
// says what the input says, re-formats and re-parses to itself and supports
// every accessor. ----

// checkPathStructure: the accepted digest is literally what the resource
// name spells: instance name components, marker, compressor, function,
// hash, size, in that order (empty components ignored, trailing components
// ignored: both are leniencies of the parser that the property does not
// count as malformed).
func checkPathStructure(ft fataler, path string, write bool, d digest.Digest, c compressor) {
	marker, ok := compressorPath[c]
	if !ok {
		ft.Fatalf("path %q: unknown compressor %d returned", path, c)
	}
	fields := splitNonEmpty(path)
	comps := d.GetInstanceName().GetComponents()
	bad := func(why string) {
		ft.Fatalf("path %q was accepted as %s, %s, but %s", path, describe(d), c, why)
	}
	if len(fields) < len(comps) {
		bad("it has fewer components than the instance name")
	}
	for i, x := range comps {
		if fields[i] != x {
			bad(fmt.Sprintf("component %d is %q", i, fields[i]))
		}
	}
	rest := fields[len(comps):]
	if write {
		if len(rest) < 2 || rest[0] != "uploads" {
			bad("the instance name is not followed by uploads/${uuid}")
		}
		rest = rest[2:]
		if len(rest) > 0 && rest[0] != "blobs" && rest[0] != "compressed-blobs" {
			// Leniency of the write path parser: a missing "blobs" marker
			// is read as the identity compressor.
			if c != remoteexecution.Compressor_IDENTITY {
				bad("no compressor is named")
			}
			marker = nil
		}
	}
	if len(rest) < len(marker) {
		bad("the blobs / compressed-blobs marker is missing")
	}
	for i, m := range marker {
		if rest[i] != m {
			bad(fmt.Sprintf("expected %q where %q stands", m, rest[i]))
		}
	}
	rest = rest[len(marker):]
	e := d.GetDigestFunction().GetEnumValue()
	if name, named := fnPathName[e]; named {
		if len(rest) < 1 || rest[0] != name {
			bad("function " + name + " is not named in the path")
		}
		rest = rest[1:]
	} else if len(rest) >= 1 && inferredByLen[len(rest[0])] != e {
		bad(fmt.Sprintf("a hash of %d characters does not imply that function", len(rest[0])))
	}
	if len(rest) < 2 || rest[0] != d.GetHashString() {
		bad("the hash is not the component after the marker / function")
	}
	if v, err := strconv.ParseInt(rest[1], 10, 64); err != nil || v != d.GetSizeBytes() {
		bad(fmt.Sprintf("the size component is %q", rest[1]))
	}
}

// checkReadPath returns (accepted, number of instance name components).
func checkReadPath(ft fataler, path string) (bool, int) {
	d, c, err := digest.NewDigestFromByteStreamReadPath(path)
	if err != nil {
		return false, 0
	}
	checkPathStructure(ft, path, false, d, c)
	if d2, c2, err := digest.NewDigestFromByteStreamReadPath(d.GetByteStreamReadPath(c)); err != nil || d2 != d || c2 != c {
		ft.Fatalf("read path %q parsed as %s, %s; re-formatted %q parses as %s, %s, %v", path, describe(d), c, d.GetByteStreamReadPath(c), describe(d2), c2, err)
	}
	return true, exerciseDigest(ft, d, fixedUUID)
}

func checkWritePath(ft fataler, path string) (bool, int) {
	d, c, err := digest.NewDigestFromByteStreamWritePath(path)
	if err != nil {
		return false, 0
	}
	checkPathStructure(ft, path, true, d, c)
	if d2, c2, err := digest.NewDigestFromByteStreamWritePath(d.GetByteStreamWritePath(fixedUUID, c)); err != nil || d2 != d || c2 != c {
		ft.Fatalf("write path %q parsed as %s, %s; re-formatted %q parses as %s, %s, %v", path, describe(d), c, d.GetByteStreamWritePath(fixedUUID, c), describe(d2), c2, err)
	}
	return true, exerciseDigest(ft, d, fixedUUID)
}

// checkInstanceName: NewInstanceName accepts exactly the names without
// redundant slashes and reserved keywords.
func checkInstanceName(ft fataler, name string) (bool, int) {
	in, err := digest.NewInstanceName(name)
	if want := validInstanceName(name); (err == nil) != want {
		ft.Fatalf("NewInstanceName(%q): error %v, but reference says valid=%v", name, err, want)
	}
	if err != nil {
		return false, 0
	}
	if in.String() != name {
		ft.Fatalf("NewInstanceName(%q).String() = %q", name, in.String())
	}
	f, err := in.GetDigestFunction(remoteexecution.DigestFunction_SHA256, 0)
	if err != nil {
		ft.Fatalf("GetDigestFunction(SHA256): %v", err)
	}
	d, err := f.NewDigest("e3b0c44298fc1c149afbf4c8996fb92427ae41e4649b934ca495991b7852b855", 0)
	if err != nil {
		ft.Fatalf("NewDigest under instance name %q: %v", name, err)
	}
	return true, exerciseDigest(ft, d, fixedUUID)
}

// checkNewDigest: Function.NewDigest / NewDigestFromProto accept exactly
// lowercase hex of the function's length with a non-negative size.
func checkNewDigest(ft fataler, inst string, e int32, hash string, size int64) (bool, int) {
	in, err := digest.NewInstanceName(inst)
	if (err == nil) != validInstanceName(inst) {
		ft.Fatalf("NewInstanceName(%q): error %v, but reference says valid=%v", inst, err, validInstanceName(inst))
	}
	if err != nil {
		in = digest.EmptyInstanceName
		inst = ""
	}
	f, err := in.GetDigestFunction(fn(e), 0)
	l, known := fnHexLen[fn(e)]
	if (err == nil) != known {
		ft.Fatalf("GetDigestFunction(%d): error %v, but supported=%v", e, err, known)
	}
	if fb, err := in.GetDigestFunction(remoteexecution.DigestFunction_UNKNOWN, len(hash)); err == nil {
		if want, ok := inferredByLen[len(hash)]; !ok || fb.GetEnumValue() != want {
			ft.Fatalf("GetDigestFunction(UNKNOWN, %d) = %s", len(hash), fb.GetEnumValue())
		}
	} else if _, ok := inferredByLen[len(hash)]; ok {
		ft.Fatalf("GetDigestFunction(UNKNOWN, %d): %v", len(hash), err)
	}
	if !known {
		return false, 0
	}
	want := len(hash) == l && isLowerHex(hash) && size >= 0
	d, err := f.NewDigest(hash, size)
	if (err == nil) != want {
		ft.Fatalf("NewDigest(%s, %q, %d): error %v, but reference says valid=%v", fn(e), hash, size, err, want)
	}
	d2, err2 := f.NewDigestFromProto(&remoteexecution.Digest{Hash: hash, SizeBytes: size})
	if (err2 == nil) != want || d2 != d {
		ft.Fatalf("NewDigestFromProto(%s, %q, %d) = %s, %v; NewDigest = %s, %v", fn(e), hash, size, describe(d2), err2, describe(d), err)
	}
	if _, err := f.NewDigestFromProto(nil); err == nil {
		ft.Fatalf("NewDigestFromProto(nil) succeeded")
	}
	if !want {
		return false, 0
	}
	ws := spec{fn: fn(e), hash: hash, size: size, comps: splitNonEmpty(inst)}
	if !ws.matches(d) {
		ft.Fatalf("NewDigest(%s) has attributes %s", ws, describe(d))
	}
	return true, exerciseDigest(ft, d, fixedUUID)
}

// checkCompact: NewDigestFromCompactBinary accepts exactly: supported
// function byte, that function's raw hash, a complete non-overflowing
// signed varint that is not negative; and reads nothing beyond it.
func checkCompact(ft fataler, inst string, data []byte) (bool, int) {
	in, err := digest.NewInstanceName(inst)
	if err != nil {
		in = digest.EmptyInstanceName
		inst = ""
	}
	var ws spec
	want, consumed := false, 0
	if len(data) >= 1 {
		if l, ok := fnHexLen[fn(data[0])]; ok && len(data) >= 1+l/2 {
			if v, n := binary.Varint(data[1+l/2:]); n > 0 && v >= 0 {
				want, consumed = true, 1+l/2+n
				ws = spec{fn: fn(data[0]), hash: hex.EncodeToString(data[1 : 1+l/2]), size: v, comps: splitNonEmpty(inst)}
			}
		}
	}
	r := bytes.NewReader(data)
	d, err := in.NewDigestFromCompactBinary(r)
	if !compactIsReference() {
		// Unknown layout: totality, and whatever is accepted is a
		// well-formed digest that re-encodes and re-parses to itself.
		if err != nil {
			return false, 0
		}
		if d2, err := in.NewDigestFromCompactBinary(bytes.NewReader(d.GetCompactBinary())); err != nil || d2 != d {
			ft.Fatalf("compact binary %x parsed as %s; re-encoded %x parses as %s, %v", data, describe(d), d.GetCompactBinary(), describe(d2), err)
		}
		return true, exerciseDigest(ft, d, fixedUUID)
	}
	if (err == nil) != want {
		ft.Fatalf("NewDigestFromCompactBinary(%x): %s, error %v, but reference says valid=%v", data, describe(d), err, want)
	}
	if !want {
		return false, 0
	}
	if !ws.matches(d) || len(data)-r.Len() != consumed {
		ft.Fatalf("NewDigestFromCompactBinary(%x) = %s after %d bytes, want %s after %d bytes", data, describe(d), len(data)-r.Len(), ws, consumed)
	}
	if d2, err := in.NewDigestFromCompactBinary(bytes.NewReader(d.GetCompactBinary())); err != nil || d2 != d {
		ft.Fatalf("compact binary %x parsed as %s; re-encoded %x parses as %s, %v", data, describe(d), d.GetCompactBinary(), describe(d2), err)
	}
	return true, exerciseDigest(ft, d, fixedUUID)
}

// ---- rapid: near-valid strings (a valid input after 0..3 edits) ----

var soupTokens = []string{
	"blobs", "compressed-blobs", "uploads", "zstd", "deflate", "brotli", "identity", "blake3", "sha256tree", "gitsha1", "sha256",
	".", "..", "", "", "a", "b", "0", "5", "-1", "+7", "007", "-0", "9223372036854775807", "9223372036854775808",
	"36e3a1f4-5d4c-4f3b-8d9e-0123456789ab", "operations", "actions", "actionResults", "capabilities",
	"8b1a9953c4611296a827abf8c47804d7", "da39a3ee5e6b4b0d3255bfef95601890afd80709",
	"e3b0c44298fc1c149afbf4c8996fb92427ae41e4649b934ca495991b7852b855",
	"E3B0C44298FC1C149AFBF4C8996FB92427AE41E4649B934CA495991B7852B855",
	"38b060a751ac96384cd9327eb1b1e36a21fdb71114be07434c0cc7bf63f6e1da274edebfe76f65fbd51ad2f14898b95b",
	"cf83e1357eefb8bdf1542850d66d8007d620e4050b5715dc83f4a921d36ce9ce47d0d13c5d85f2b0ff8318d2877eec2f63b931bd47417a81a538327af927da3e",
}

func editComps(t *rapid.T, comps []string, edits int) []string {
	comps = append([]string(nil), comps...)
	for e := 0; e < edits; e++ {
		if len(comps) == 0 {
			comps = append(comps, rapid.SampledFrom(soupTokens).Draw(t, "edit/token"))
			continue
		}
		i := rapid.IntRange(0, len(comps)-1).Draw(t, "edit/pos")
		switch rapid.IntRange(0, 6).Draw(t, "edit/op") {
		case 0: // delete
			comps = append(comps[:i], comps[i+1:]...)
		case 1: // duplicate
			comps = append(comps[:i+1], comps[i:]...)
		case 2: // insert a token
			comps = append(comps[:i], append([]string{rapid.SampledFrom(soupTokens).Draw(t, "edit/token")}, comps[i:]...)...)
		case 3: // replace by a token
			comps[i] = rapid.SampledFrom(soupTokens).Draw(t, "edit/token")
		case 4: // swap with the next
			if i+1 < len(comps) {
				comps[i], comps[i+1] = comps[i+1], comps[i]
			}
		case 5: // cut the component short
			comps[i] = comps[i][:rapid.IntRange(0, len(comps[i])).Draw(t, "edit/cut")]
		case 6: // arbitrary text (may contain slashes)
			comps[i] = rapid.StringN(0, 8, 16).Draw(t, "edit/text")
		}
	}
	return comps
}

var recArb = vstats.New("TestC20Arbitrary")

// TestC20Arbitrary feeds strings that are 0..3 edits away from valid input
// to every parser with the arbitrary-input oracles above (the quick-tier
// counterpart of the native fuzz targets).
func TestC20Arbitrary(t *testing.T) {
	rapid.Check(t, func(t *rapid.T) {
		c := recArb.Begin()
		s := genSpec(t, "d", true, true)
		cmp := genCompressor(t, "compressor")
		edits := rapid.IntRange(0, 3).Draw(t, "edits")
		var base []string
		shape := rapid.SampledFrom([]string{"read", "write", "write_trailing", "instance"}).Draw(t, "shape")
		switch shape {
		case "read":
			base = s.readComps(cmp)
		case "write":
			base = s.writeComps(fixedUUID.String(), cmp)
		case "write_trailing":
			base = append(s.writeComps(fixedUUID.String(), cmp), "some", "file.txt")
		case "instance":
			base = s.comps
		}
		str := strings.Join(editComps(t, base, edits), "/")
		switch rapid.IntRange(0, 7).Draw(t, "slashes") {
		case 0:
			str = "/" + str
		case 1:
			str += "/"
		}
		c.Add(str)
		rok, rn := checkReadPath(t, str)
		wok, wn := checkWritePath(t, str)
		iok, in := checkInstanceName(t, str)

		// Structured surfaces: message and compact binary after edits.
		hash := s.hash
		size := s.size
		e := int32(s.fn)
		for i := 0; i < edits; i++ {
			switch rapid.IntRange(0, 4).Draw(t, "field/op") {
			case 0:
				hash = rapid.SampledFrom(soupTokens).Draw(t, "field/hash")
			case 1:
				p := rapid.IntRange(0, len(hash)).Draw(t, "field/pos")
				hash = hash[:p] + rapid.SampledFrom([]string{"", "A", "g", "0", "/", "-", "é"}).Draw(t, "field/ins") + hash[min(p+1, len(hash)):]
			case 2:
				size = rapid.SampledFrom([]int64{-1, 0, 1, -9223372036854775808, 9223372036854775807}).Draw(t, "field/size")
			case 3:
				e = rapid.Int32Range(-1, 12).Draw(t, "field/fn")
			case 4:
				e = int32(genFn(t, "field/otherfn"))
			}
		}
		c.Add(hash, size, int(e))
		dok, dn := checkNewDigest(t, str, e, hash, size)

		hb, _ := hex.DecodeString(s.hash)
		bin := binary.AppendVarint(append([]byte{byte(s.fn)}, hb...), s.size)
		if !compactIsReference() {
			bin = s.withComps(nil).mk(t).GetCompactBinary()
		}
		for i := 0; i < edits; i++ {
			switch rapid.IntRange(0, 4).Draw(t, "bin/op") {
			case 0:
				bin = bin[:rapid.IntRange(0, len(bin)).Draw(t, "bin/cut")]
			case 1:
				bin = append(bin, rapid.SliceOfN(rapid.Byte(), 1, 12).Draw(t, "bin/append")...)
			case 2:
				if len(bin) > 0 {
					bin[rapid.IntRange(0, len(bin)-1).Draw(t, "bin/pos")] = rapid.Byte().Draw(t, "bin/byte")
				}
			case 3:
				if len(bin) > 0 {
					bin[0] = byte(rapid.IntRange(0, 12).Draw(t, "bin/fn"))
				}
			case 4:
				if len(bin) > 0 {
					bin[len(bin)-1] |= 0x80
				}
			}
		}
		c.Add(bin)
		cok, cn := checkCompact(t, s.inst(), bin)

		if (rok && rn >= 1) || (wok && wn >= 1) || (iok && in >= 1) || (dok && dn >= 1) || (cok && cn >= 1) {
			c.NonTrivial()
		}
		c.Class(fmt.Sprintf("edits_%d", edits))
		c.Class("shape_" + shape)
		c.ClassIf(rok, "read_path_accepted")
		c.ClassIf(wok, "write_path_accepted")
		c.ClassIf(iok, "instance_name_accepted")
		c.ClassIf(dok, "message_accepted")
		c.ClassIf(cok, "compact_binary_accepted")
		c.ClassIf(!rok && !wok && !iok && !dok && !cok, "everything_rejected")
		c.Sample(func() string {
			return fmt.Sprintf("%q read=%v write=%v instance=%v; message{%d,%q,%d}=%v; compact %x=%v", str, rok, wok, iok, e, hash, size, dok, bin, cok)
		})
		c.End()
	})
}

// ---- native fuzz targets (thorough tier): arbitrary bytes ----

var (
	recFuzzRead    = vstats.New("FuzzC20ReadPath")
	recFuzzWrite   = vstats.New("FuzzC20WritePath")
	recFuzzInst    = vstats.New("FuzzC20InstanceName")
	recFuzzDigest  = vstats.New("FuzzC20NewDigest")
	recFuzzCompact = vstats.New("FuzzC20CompactBinary")
)

// fuzzCase records one execution; only counters (no per-case hashes: a fuzz
// worker executes millions of inputs).
func fuzzCase(rec *vstats.Recorder, ok bool, comps int) {
	c := rec.Begin()
	c.ClassIf(ok, "accepted")
	c.ClassIf(!ok, "rejected")
	c.ClassIf(ok && comps >= 1, "accepted_with_instance_name")
	c.End()
}

var pathSeeds = []string{
	"",
	"/",
	"blobs/8b1a9953c4611296a827abf8c47804d7/5",
	"a/b/blobs/e3b0c44298fc1c149afbf4c8996fb92427ae41e4649b934ca495991b7852b855/0",
	"a/compressed-blobs/zstd/blake3/e3b0c44298fc1c149afbf4c8996fb92427ae41e4649b934ca495991b7852b855/9223372036854775807",
	"x//y/compressed-blobs/deflate/gitsha1/da39a3ee5e6b4b0d3255bfef95601890afd80709/12/trailing",
	"uploads/36e3a1f4-5d4c-4f3b-8d9e-0123456789ab/blobs/8b1a9953c4611296a827abf8c47804d7/5",
	"a/uploads/36e3a1f4-5d4c-4f3b-8d9e-0123456789ab/compressed-blobs/brotli/sha256tree/e3b0c44298fc1c149afbf4c8996fb92427ae41e4649b934ca495991b7852b855/7/foo/bar",
	"./../uploads/u/blobs/da39a3ee5e6b4b0d3255bfef95601890afd80709/1/",
	"a/compressed-blobs/zstd",
	"a/blobs/blake3",
	"uploads/u/compressed-blobs/zstd/blake3",
	"a/blobs/8B1A9953C4611296A827ABF8C47804D7/5",
	"a/blobs/8b1a9953c4611296a827abf8c47804d7/-5",
	"operations/blobs/8b1a9953c4611296a827abf8c47804d7/5",
	"a/b/c",
}

func FuzzC20ReadPath(f *testing.F) {
	for _, s := range pathSeeds {
		f.Add(s)
	}
	f.Fuzz(func(t *testing.T, path string) {
		ok, n := checkReadPath(t, path)
		fuzzCase(recFuzzRead, ok, n)
	})
}

func FuzzC20WritePath(f *testing.F) {
	for _, s := range pathSeeds {
		f.Add(s)
	}
	f.Fuzz(func(t *testing.T, path string) {
		ok, n := checkWritePath(t, path)
		fuzzCase(recFuzzWrite, ok, n)
	})
}

func FuzzC20InstanceName(f *testing.F) {
	for _, s := range []string{"", "a", "a/b/c", "/a", "a/", "a//b", "a/blobs/b", "compressed-blobs", "uploads/x", ".", "a/../b", "actionResults", "Blobs", "é/ü", "operations", "capabilities", "actions"} {
		f.Add(s)
	}
	f.Fuzz(func(t *testing.T, name string) {
		ok, n := checkInstanceName(t, name)
		fuzzCase(recFuzzInst, ok, n)
	})
}

func FuzzC20NewDigest(f *testing.F) {
	f.Add("", int32(3), "8b1a9953c4611296a827abf8c47804d7", int64(5))
	f.Add("a/b", int32(1), "e3b0c44298fc1c149afbf4c8996fb92427ae41e4649b934ca495991b7852b855", int64(0))
	f.Add("a", int32(9), "e3b0c44298fc1c149afbf4c8996fb92427ae41e4649b934ca495991b7852b855", int64(9223372036854775807))
	f.Add("a", int32(10), "da39a3ee5e6b4b0d3255bfef95601890afd80709", int64(-1))
	f.Add("x/blobs", int32(2), "DA39A3EE5E6B4B0D3255BFEF95601890AFD80709", int64(1))
	f.Add("", int32(0), "", int64(0))
	f.Add("", int32(6), strings.Repeat("0f", 64), int64(10))
	f.Add("", int32(5), strings.Repeat("a", 96), int64(123))
	f.Add("", int32(8), strings.Repeat("é", 32), int64(1))
	f.Fuzz(func(t *testing.T, inst string, e int32, hash string, size int64) {
		ok, n := checkNewDigest(t, inst, e, hash, size)
		fuzzCase(recFuzzDigest, ok, n)
	})
}

func FuzzC20CompactBinary(f *testing.F) {
	for _, e := range allFns {
		hb := bytes.Repeat([]byte{0xab}, fnHexLen[e]/2)
		f.Add("a/b", binary.AppendVarint(append([]byte{byte(e)}, hb...), 12345))
		f.Add("", binary.AppendVarint(append([]byte{byte(e)}, hb...), 0))
	}
	f.Add("", []byte{})
	f.Add("a", []byte{3})
	f.Add("a", append(append([]byte{3}, bytes.Repeat([]byte{0}, 16)...), 0x01))                                                         // size -1
	f.Add("a", append(append([]byte{3}, bytes.Repeat([]byte{0}, 16)...), bytes.Repeat([]byte{0xff}, 11)...))                            // overflow
	f.Add("a", append(append([]byte{3}, bytes.Repeat([]byte{0}, 16)...), 0x80, 0x00, 0xde, 0xad))                                       // non-minimal varint + trailing
	f.Add("", append(append([]byte{1}, bytes.Repeat([]byte{0xff}, 32)...), 0xfe, 0xff, 0xff, 0xff, 0xff, 0xff, 0xff, 0xff, 0xff, 0x01)) // max size
	f.Fuzz(func(t *testing.T, inst string, data []byte) {
		ok, n := checkCompact(t, inst, data)
		fuzzCase(recFuzzCompact, ok, n)
	})
}
