// Package c20 checks property C20: digest / resource-name codecs round-trip
// and reject bad input; digest sets obey set algebra.
//
// Everything the oracles know about the wire formats is written down in
// this file, independently of /repo/pkg/digest: hash lengths per digest
// function, which functions are named explicitly in ByteStream paths (REv2:
// only those with enumeration value > 7), the path midfix of every
// compressor and the reserved instance-name keywords.
package c20

import (
	"bytes"
	"encoding/hex"
	"fmt"
	"math"
	"os"
	"sort"
	"strconv"
	"strings"
	"sync"
	"testing"

	"encoding/binary"

	remoteexecution "github.com/bazelbuild/remote-apis/build/bazel/remote/execution/v2"
	"github.com/buildbarn/bb-storage/pkg/digest"
	"github.com/google/uuid"
	"pgregory.net/rapid"

	"verif/harness/vstats"
)

func TestMain(m *testing.M) {
	rc := m.Run()
	vstats.Flush()
	os.Exit(rc)
}

type fn = remoteexecution.DigestFunction_Value

type compressor = remoteexecution.Compressor_Value

// fataler is implemented by *rapid.T and *testing.T.
type fataler interface {
	Fatalf(format string, args ...any)
}

// ---- independent tables ----

// fnHexLen: length of the lowercase hexadecimal hash per supported function.
var fnHexLen = map[fn]int{
	remoteexecution.DigestFunction_MD5:        32,
	remoteexecution.DigestFunction_SHA1:       40,
	remoteexecution.DigestFunction_GITSHA1:    40,
	remoteexecution.DigestFunction_SHA256:     64,
	remoteexecution.DigestFunction_SHA256TREE: 64,
	remoteexecution.DigestFunction_BLAKE3:     64,
	remoteexecution.DigestFunction_SHA384:     96,
	remoteexecution.DigestFunction_SHA512:     128,
}

// fnPathName: functions that are spelled out in ByteStream resource names
// (REv2: the component MUST be omitted for MD5, MURMUR3, SHA1, SHA256,
// SHA384, SHA512 and VSO, whose function is inferred from the hash length).
var fnPathName = map[fn]string{
	remoteexecution.DigestFunction_SHA256TREE: "sha256tree",
	remoteexecution.DigestFunction_BLAKE3:     "blake3",
	remoteexecution.DigestFunction_GITSHA1:    "gitsha1",
}

// inferredByLen: function inferred from the hash length when none is named.
var inferredByLen = map[int]fn{
	32:  remoteexecution.DigestFunction_MD5,
	40:  remoteexecution.DigestFunction_SHA1,
	64:  remoteexecution.DigestFunction_SHA256,
	96:  remoteexecution.DigestFunction_SHA384,
	128: remoteexecution.DigestFunction_SHA512,
}

var allFns = []fn{
	remoteexecution.DigestFunction_SHA256,
	remoteexecution.DigestFunction_SHA1,
	remoteexecution.DigestFunction_MD5,
	remoteexecution.DigestFunction_SHA384,
	remoteexecution.DigestFunction_SHA512,
	remoteexecution.DigestFunction_SHA256TREE,
	remoteexecution.DigestFunction_BLAKE3,
	remoteexecution.DigestFunction_GITSHA1,
}

// compressorPath: path components that introduce the digest for each
// compressor of the protocol.
var compressorPath = map[compressor][]string{
	remoteexecution.Compressor_IDENTITY: {"blobs"},
	remoteexecution.Compressor_ZSTD:     {"compressed-blobs", "zstd"},
	remoteexecution.Compressor_DEFLATE:  {"compressed-blobs", "deflate"},
	remoteexecution.Compressor_BROTLI:   {"compressed-blobs", "brotli"},
}

var allCompressors = []compressor{
	remoteexecution.Compressor_IDENTITY,
	remoteexecution.Compressor_ZSTD,
	remoteexecution.Compressor_DEFLATE,
	remoteexecution.Compressor_BROTLI,
}

var reservedKeywords = []string{"blobs", "uploads", "actions", "actionResults", "operations", "capabilities", "compressed-blobs"}

func isReserved(s string) bool {
	for _, k := range reservedKeywords {
		if s == k {
			return true
		}
	}
	return false
}

func isLowerHex(s string) bool {
	for i := 0; i < len(s); i++ {
		c := s[i]
		if !(c >= '0' && c <= '9') && !(c >= 'a' && c <= 'f') {
			return false
		}
	}
	return true
}

func splitNonEmpty(s string) []string {
	var out []string
	for _, p := range strings.Split(s, "/") {
		if p != "" {
			out = append(out, p)
		}
	}
	return out
}

func hasDot(comps []string) bool {
	for _, c := range comps {
		if c == "." || c == ".." {
			return true
		}
	}
	return false
}

// validInstanceName is the reference predicate for NewInstanceName.
func validInstanceName(s string) bool {
	if s == "" {
		return true
	}
	for _, c := range strings.Split(s, "/") {
		if c == "" || isReserved(c) {
			return false
		}
	}
	return true
}

// ---- the description of a digest, independent of the package ----

type spec struct {
	fn    fn
	hash  string
	size  int64
	comps []string
}

func (s spec) inst() string { return strings.Join(s.comps, "/") }

func (s spec) String() string {
	return fmt.Sprintf("{%s %s %d %q}", s.fn, s.hash, s.size, s.inst())
}

func (s spec) withComps(c []string) spec {
	s.comps = append([]string(nil), c...)
	return s
}

// trailer renders ${digestFunction}/${hash}/${size} as path components.
func (s spec) trailer() []string {
	var out []string
	if n, ok := fnPathName[s.fn]; ok {
		out = append(out, n)
	}
	return append(out, s.hash, strconv.FormatInt(s.size, 10))
}

func (s spec) readComps(c compressor) []string {
	out := append([]string(nil), s.comps...)
	out = append(out, compressorPath[c]...)
	return append(out, s.trailer()...)
}

func (s spec) writeComps(u string, c compressor) []string {
	out := append([]string(nil), s.comps...)
	out = append(out, "uploads", u)
	out = append(out, compressorPath[c]...)
	return append(out, s.trailer()...)
}

// mk builds the digest through the validating constructors.
func (s spec) mk(ft fataler) digest.Digest {
	in, err := digest.NewInstanceName(s.inst())
	if err != nil {
		ft.Fatalf("NewInstanceName(%q) rejected a valid instance name: %v", s.inst(), err)
	}
	f, err := in.GetDigestFunction(s.fn, 0)
	if err != nil {
		ft.Fatalf("GetDigestFunction(%s) failed for a supported function: %v", s.fn, err)
	}
	d, err := f.NewDigest(s.hash, s.size)
	if err != nil {
		ft.Fatalf("NewDigest rejected valid %s: %v", s, err)
	}
	return d
}

// matches reports whether d has exactly the attributes of s, observed
// through the accessors.
func (s spec) matches(d digest.Digest) bool {
	return d.GetHashString() == s.hash && d.GetSizeBytes() == s.size &&
		d.GetInstanceName().String() == s.inst() && d.GetDigestFunction().GetEnumValue() == s.fn
}

func describe(d digest.Digest) string {
	if d == digest.BadDigest {
		return "BadDigest"
	}
	return fmt.Sprintf("{%s %s %d %q}", d.GetDigestFunction().GetEnumValue(), d.GetHashString(), d.GetSizeBytes(), d.GetInstanceName().String())
}

// ---- the compact binary layout ----
//
// The compact binary form is only produced and consumed by this package (no
// other package of the repository, no protocol, depends on its layout), and
// the property only demands that it round-trips and that malformed input is
// rejected. The checks that need to BUILD compact binaries by hand (to state
// what "malformed" means) therefore apply only while the package renders
// the layout this file knows: function byte, raw hash, signed varint size.
// Under any other layout they fall back to format-agnostic statements
// (round trip, totality), and count "compact_layout_not_reference".

func refCompact(s spec) []byte {
	hb, _ := hex.DecodeString(s.hash)
	return binary.AppendVarint(append([]byte{byte(s.fn)}, hb...), s.size)
}

type panicFataler struct{}

func (panicFataler) Fatalf(format string, args ...any) { panic(fmt.Sprintf(format, args...)) }

var (
	compactRefOnce sync.Once
	compactRefIs   bool
)

func compactIsReference() bool {
	compactRefOnce.Do(func() {
		compactRefIs = true
		for _, f := range allFns {
			for _, size := range []int64{0, 1, 63, 64, 300, math.MaxInt64} {
				for _, comps := range [][]string{nil, {"a", "b"}} {
					s := spec{fn: f, hash: strings.Repeat("5a", fnHexLen[f]/2), size: size, comps: comps}
					if !bytes.Equal(s.mk(panicFataler{}).GetCompactBinary(), refCompact(s)) {
						compactRefIs = false
					}
				}
			}
		}
	})
	return compactRefIs
}

// ---- generators ----

// Components that cannot be mistaken for any other part of a path.
var benignComps = []string{"a", "b", "c", "ab", "a-b", "-", "0", "1-2", "x_y", "Blobs", "blobs2", "upload", "UPLOADS", "action", "é", "%2F", " ", "a b", "*", "main", "-5", "7-"}

// Valid components that look like other parts of a resource name.
var trickyComps = []string{
	"blake3", "sha256tree", "gitsha1", "sha256", "md5", "zstd", "deflate", "identity", "5", "0",
	"8b1a9953c4611296a827abf8c47804d7",
	"e3b0c44298fc1c149afbf4c8996fb92427ae41e4649b934ca495991b7852b855",
	"da39a3ee5e6b4b0d3255bfef95601890afd80709",
	"36e3a1f4-5d4c-4f3b-8d9e-0123456789ab",
}

var arbitraryComp = rapid.StringMatching(`[^/]{1,6}`).Filter(func(s string) bool {
	return s != "" && !strings.Contains(s, "/") && !isReserved(s) && s != "." && s != ".."
})

func genFn(t *rapid.T, label string) fn {
	return rapid.SampledFrom(digest.SupportedDigestFunctions).Draw(t, label)
}

func genHash(t *rapid.T, f fn, label string) string {
	n := fnHexLen[f] / 2
	if rapid.IntRange(0, 9).Draw(t, label+"/pattern") == 0 {
		c := rapid.SampledFrom([]string{"0", "f", "a", "9"}).Draw(t, label+"/fill")
		return strings.Repeat(c, 2*n)
	}
	return hex.EncodeToString(rapid.SliceOfN(rapid.Byte(), n, n).Draw(t, label))
}

func genSize(t *rapid.T, label string) int64 {
	switch rapid.IntRange(0, 9).Draw(t, label+"/kind") {
	case 0:
		return 0
	case 1:
		return math.MaxInt64
	case 2, 3, 4:
		return rapid.Int64Range(0, 1100).Draw(t, label)
	case 5:
		return math.MaxInt64 - rapid.Int64Range(0, 10).Draw(t, label)
	default:
		return rapid.Int64Range(0, math.MaxInt64).Draw(t, label)
	}
}

// genComps draws 0..4 instance name components.
func genComps(t *rapid.T, label string, tricky, dots bool) []string {
	n := rapid.SampledFrom([]int{0, 0, 1, 1, 1, 2, 2, 3, 4}).Draw(t, label+"/n")
	out := make([]string, 0, n)
	for i := 0; i < n; i++ {
		k := rapid.IntRange(0, 19).Draw(t, fmt.Sprintf("%s/%d/kind", label, i))
		switch {
		case k >= 18 && dots:
			out = append(out, rapid.SampledFrom([]string{".", ".."}).Draw(t, label+"/dot"))
		case k >= 14 && k < 18 && tricky:
			out = append(out, rapid.SampledFrom(trickyComps).Draw(t, label+"/tricky"))
		case k >= 10 && k < 14:
			out = append(out, arbitraryComp.Draw(t, label+"/arbitrary"))
		default:
			out = append(out, rapid.SampledFrom(benignComps).Draw(t, label+"/benign"))
		}
	}
	return out
}

func genSpec(t *rapid.T, label string, tricky, dots bool) spec {
	f := genFn(t, label+"/fn")
	return spec{fn: f, hash: genHash(t, f, label+"/hash"), size: genSize(t, label+"/size"), comps: genComps(t, label+"/inst", tricky, dots)}
}

func genCompressor(t *rapid.T, label string) compressor {
	return rapid.SampledFrom(allCompressors).Draw(t, label)
}

func genUUID(t *rapid.T, label string) uuid.UUID {
	var u uuid.UUID
	copy(u[:], rapid.SliceOfN(rapid.Byte(), 16, 16).Draw(t, label))
	return u
}

// ---- the accessor / re-format / re-parse oracle for one valid digest ----

var fixedUUID = uuid.MustParse("36e3a1f4-5d4c-4f3b-8d9e-0123456789ab")

// exerciseDigest calls every accessor of a digest that some constructor of
// the package returned without error, and checks that every format it can
// be rendered in parses back to the same digest. It only uses facts from
// the tables above. Returns the number of instance name components.
func exerciseDigest(ft fataler, d digest.Digest, u uuid.UUID) int {
	if d == digest.BadDigest {
		ft.Fatalf("constructor succeeded but returned BadDigest")
	}
	hash, size, in := d.GetHashString(), d.GetSizeBytes(), d.GetInstanceName()
	f := d.GetDigestFunction()
	e := f.GetEnumValue()
	l, ok := fnHexLen[e]
	if !ok {
		ft.Fatalf("digest %q uses unsupported function %d", d.String(), e)
	}
	if len(hash) != l || !isLowerHex(hash) || size < 0 {
		ft.Fatalf("degenerate digest accepted: function %s hash %q size %d", e, hash, size)
	}
	if got := hex.EncodeToString(d.GetHashBytes()); got != hash {
		ft.Fatalf("GetHashBytes %q disagrees with GetHashString %q", got, hash)
	}
	comps := in.GetComponents()
	if strings.Join(comps, "/") != in.String() || !validInstanceName(in.String()) {
		ft.Fatalf("digest carries invalid instance name %q (components %q)", in.String(), comps)
	}
	in2, err := digest.NewInstanceName(in.String())
	if err != nil || in2 != in {
		ft.Fatalf("instance name %q of an accepted digest does not re-parse: %v", in.String(), err)
	}
	in3, err := digest.NewInstanceNameFromComponents(comps)
	if err != nil || in3 != in {
		ft.Fatalf("components %q of an accepted digest do not re-assemble: %v", comps, err)
	}
	if f.GetInstanceName() != in || !d.UsesDigestFunction(f) {
		ft.Fatalf("GetDigestFunction of %q has instance name %q / UsesDigestFunction false", d.String(), f.GetInstanceName().String())
	}
	if d2, err := f.NewDigest(hash, size); err != nil || d2 != d {
		ft.Fatalf("NewDigest(GetHashString, GetSizeBytes) of %s = %s, %v", describe(d), describe(d2), err)
	}

	// REv2 message.
	p := d.GetProto()
	if p.GetHash() != hash || p.GetSizeBytes() != size {
		ft.Fatalf("GetProto of %s = %v", describe(d), p)
	}
	if d2, err := f.NewDigestFromProto(p); err != nil || d2 != d {
		ft.Fatalf("proto round trip of %s = %s, %v", describe(d), describe(d2), err)
	}

	// Keys.
	kw, kwo := d.GetKey(digest.KeyWithInstance), d.GetKey(digest.KeyWithoutInstance)
	// (String() is a rendering for humans; that it coincides with
	// GetKey(KeyWithInstance) is a detail the property does not state.)
	f0, err := digest.EmptyInstanceName.GetDigestFunction(e, 0)
	if err != nil {
		ft.Fatalf("GetDigestFunction(%s): %v", e, err)
	}
	d0, err := f0.NewDigest(hash, size)
	if err != nil {
		ft.Fatalf("NewDigest under the empty instance name: %v", err)
	}
	if d0.GetKey(digest.KeyWithoutInstance) != kwo {
		ft.Fatalf("KeyWithoutInstance depends on the instance name: %q vs %q", kwo, d0.GetKey(digest.KeyWithoutInstance))
	}
	if (d0.GetKey(digest.KeyWithInstance) == kw) != (len(comps) == 0) {
		ft.Fatalf("KeyWithInstance %q vs %q under the empty instance name", kw, d0.GetKey(digest.KeyWithInstance))
	}

	// Compact binary.
	cb := d.GetCompactBinary()
	r := bytes.NewReader(cb)
	if d2, err := in.NewDigestFromCompactBinary(r); err != nil || d2 != d || r.Len() != 0 {
		ft.Fatalf("compact binary round trip of %s = %s, %v (%d bytes unread)", describe(d), describe(d2), err, r.Len())
	}

	// Ancestors.
	parents := d.GetDigestsWithParentInstanceNames()
	if len(parents) != len(comps)+1 {
		ft.Fatalf("GetDigestsWithParentInstanceNames of %s returned %d digests, want %d", describe(d), len(parents), len(comps)+1)
	}
	for i, pd := range parents {
		want := spec{fn: e, hash: hash, size: size, comps: comps[:i]}
		if !want.matches(pd) {
			ft.Fatalf("ancestor %d of %s is %s, want %s", i, describe(d), describe(pd), want)
		}
	}
	if parents[len(comps)] != d {
		ft.Fatalf("last ancestor of %s is %s", describe(d), describe(parents[len(comps)]))
	}

	// ByteStream resource names, every compressor.
	for _, c := range allCompressors {
		rp := d.GetByteStreamReadPath(c)
		d2, c2, err := digest.NewDigestFromByteStreamReadPath(rp)
		if err != nil || d2 != d || c2 != c {
			ft.Fatalf("read path round trip: %s with %s formats as %q which parses as %s, %s, %v", describe(d), c, rp, describe(d2), c2, err)
		}
		wp := d.GetByteStreamWritePath(u, c)
		d2, c2, err = digest.NewDigestFromByteStreamWritePath(wp)
		if err != nil || d2 != d || c2 != c {
			ft.Fatalf("write path round trip: %s with %s formats as %q which parses as %s, %s, %v", describe(d), c, wp, describe(d2), c2, err)
		}
	}

	// Remaining accessors: must work on every accepted digest.
	if items := d.ToSingletonSet().Items(); len(items) != 1 || items[0] != d {
		ft.Fatalf("ToSingletonSet of %s = %v", describe(d), items)
	}
	if h := d.NewHasher(size); h == nil || 2*h.Size() != l {
		ft.Fatalf("NewHasher of %s has the wrong output size", describe(d))
	}
	if g := f.NewGenerator(0).Sum(); g.GetSizeBytes() != 0 || len(g.GetHashString()) != l || !g.UsesDigestFunction(f) {
		ft.Fatalf("generator of %s produced %s for the empty object", describe(d), describe(g))
	}
	return len(comps)
}

func sortedKeys(m map[string]bool) []string {
	out := make([]string, 0, len(m))
	for k := range m {
		out = append(out, k)
	}
	sort.Strings(out)
	return out
}
