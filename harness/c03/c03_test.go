package c03

import (
	"io"
	"log"
	"os"
	"testing"

	"pgregory.net/rapid"

	"verif/harness/lstore"
	"verif/harness/sim"
	"verif/harness/vstats"
)

func TestMain(m *testing.M) {
	log.SetOutput(io.Discard)
	rc := m.Run()
	vstats.Flush()
	os.Exit(rc)
}

var rec = vstats.New("TestC03Shutdown")

// TestC03Shutdown: graceful shutdown requested at a generated point of a
// generated history; after shutdown completed the store is restarted
// from what is DURABLE on the data device and in the state directory
// (index writes all present: the process exited, the OS did not crash)
// and every acknowledged, non-evicted upload must be readable.
func TestC03Shutdown(t *testing.T) {
	rapid.Check(t, func(t *rapid.T) {
		c := rec.Begin()
		cfg := lstore.GenConfig(t, lstore.GenOpts{Persistent: true, AllowAC: true, BigIndex: true, MinSpare: 2, Factories: []string{"raw", "cas", "cascache"}, MaxBlockBytes: 192})
		c.Add(cfg.String())
		w := lstore.NewWorld(t, cfg, nil, 0)
		var w2 *lstore.World
		defer func() {
			w.Close()
			if w2 != nil {
				w2.Close()
			}
		}()
		w.InstallDurableCheck()
		h := lstore.NewHist(t, w, c, lstore.HistOpts{BadUploads: true, Syncers: true, Faults: true, Shutdown: true})
		t.Repeat(h.Actions())

		parkedAtShutdown := 0
		if !w.ShutdownRequested() {
			parkedAtShutdown = len(w.Inflight())
			c.Add("shutdown-at-end")
			w.Shutdown()
		} else {
			parkedAtShutdown = h.InflightAtShutdown
		}
		// Some uploads stay parked while the shutdown proceeds.
		keepParked := rapid.Bool().Draw(t, "keepParked")
		if !keepParked {
			h.Quiesce()
		}
		w.Drain()
		if !w.ShutdownComplete() {
			t.Fatalf("harness: shutdown did not complete during drain\n%s", w.Render())
		}
		h.Quiesce() // parked uploads finish now: must be refused or covered
		w.Drain()
		must := w.MustSurvive(-1)

		// Power-loss-after-shutdown model for data device and state
		// directory, process-exit model for the index.
		var ch sim.Chooser = lstore.Selective{KeepData: false, KeepIndex: true, KeepDir: false}
		if rapid.IntRange(0, 3).Draw(t, "noneLost") == 0 {
			ch = sim.NoneLost{}
		}
		img := w.Crash(w.St.Media.Log.Len(), ch)
		w2 = w.Restart(img)
		w.CheckSurvivorsFresh("C03 graceful shutdown", img, must)
		postRestartUploads(t, w2, c, must)

		c.ClassIf(parkedAtShutdown > 0, "shutdown_with_upload_parked")
		c.ClassIf(keepParked && parkedAtShutdown > 0, "upload_parked_through_final_sync")
		c.ClassIf(len(must) > 0, "survivors_checked")
		c.ClassIf(w.St.BL.PopFronts > 0, "rotated")
		c.ClassIf(h.FaultsInjected > 0, "faults_injected")
		c.ClassIf(h.FinalSyncFaults > 0, "final_shutdown_sync_fails_after_upload_acked_during_first_shutdown_sync")
		c.ClassIf(cfg.Hierarchical, "hierarchical")
		c.ClassIf(cfg.Mutable, "ac_policy")
		if parkedAtShutdown > 0 && len(must) > 0 {
			c.NonTrivial()
		}
		c.Sample(func() string { return w2.Render() })
		c.End()
	})
}

var recCommit = vstats.New("TestC03Commit")

// TestC03Commit: abrupt PROCESS crash (the OS survives: everything
// issued reaches the medium) at a quiescent point after a completed
// commit; everything acknowledged before the start of that commit must
// be readable, no upload or refresh having happened since.
func TestC03Commit(t *testing.T) {
	rapid.Check(t, func(t *rapid.T) {
		c := recCommit.Begin()
		cfg := lstore.GenConfig(t, lstore.GenOpts{Persistent: true, AllowAC: true, BigIndex: true, MinSpare: 2, Factories: []string{"raw", "cas", "cascache"}, MaxBlockBytes: 192})
		c.Add(cfg.String())
		w := lstore.NewWorld(t, cfg, nil, 0)
		var w2 *lstore.World
		defer func() {
			w.Close()
			if w2 != nil {
				w2.Close()
			}
		}()
		h := lstore.NewHist(t, w, c, lstore.HistOpts{BadUploads: true, Syncers: true, Faults: true})
		t.Repeat(h.Actions())
		h.Quiesce()
		// Everything acknowledged so far precedes the commit(s) that
		// the drain performs; nothing is uploaded or refreshed any more.
		ackedBefore := w.St.Media.Log.Len()
		commitsBefore := w.StateWritesSucceeded()
		w.Drain()
		must := w.MustSurvive(ackedBefore)
		committed := w.StateWritesSucceeded() > commitsBefore
		// Crash anywhere from here on (there may be further
		// release-triggered state writes): cut at the end, or in the
		// middle of a later state write that we start now.
		cut := w.St.Media.Log.Len()
		img := w.Crash(cut, sim.NoneLost{})
		w2 = w.Restart(img)
		w.CheckSurvivorsFresh("C03 crash after a completed commit", img, must)
		postRestartUploads(t, w2, c, must)
		c.ClassIf(committed, "commit_in_final_drain")
		c.ClassIf(len(must) > 0, "survivors_checked")
		c.ClassIf(w.St.BL.PopFronts > 0, "rotated")
		c.ClassIf(w.StateWritesSucceeded() >= 2 && w.St.BL.PopFronts > 0, "two_commits_with_rotation")
		if w.StateWritesSucceeded() >= 2 && w.St.BL.PopFronts > 0 && len(must) > 0 {
			c.NonTrivial()
		}
		c.Sample(func() string { return w2.Render() })
		c.End()
	})
}

// postRestartUploads: uploads accepted after the restart must not
// overwrite space of surviving objects. As long as the restarted store
// has not rotated any block out, every survivor stays readable.
func postRestartUploads(t *rapid.T, w2 *lstore.World, c *vstats.Case, must []lstore.ObjInst) {
	if len(must) == 0 || !rapid.Bool().Draw(t, "postUploads") {
		return
	}
	k := rapid.IntRange(1, 4).Draw(t, "postUploadCount")
	for i := 0; i < k; i++ {
		size := rapid.IntRange(0, w2.Cfg.BlockSize()/4+1).Draw(t, "postSize")
		var u *lstore.Upload
		if w2.Cfg.Mutable {
			u = w2.StartPut(w2.NewACObject(), "", "good", w2.ACContent(size), nil, nil)
		} else {
			o := w2.NewObject(size, lstore.Functions[0])
			u = w2.StartPut(o, "", "good", o.Data, nil, nil)
		}
		w2.FinishPut(u)
	}
	checked := 0
	for _, it := range must {
		if w2.St.BL.PopFronts != 0 {
			break // rotation after the restart: eviction is legitimate from here on
		}
		r := w2.Get(it.Obj, it.Instance)
		if w2.St.BL.PopFronts != 0 || r.EnvError {
			break
		}
		if !r.Found {
			t.Fatalf("C03: object %d (inst %q) survived the restart but is gone after %d further uploads although no block was rotated out: %v\n%s", it.Obj.ID, it.Instance, k, r.Err, w2.Render())
		}
		checked++
	}
	c.ClassIf(checked > 0, "survivors_rechecked_after_post_restart_uploads")
}
