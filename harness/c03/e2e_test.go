package c03

import (
	"context"
	"fmt"
	"os"
	"path/filepath"
	"testing"
	"time"

	remoteexecution "github.com/bazelbuild/remote-apis/build/bazel/remote/execution/v2"
	"github.com/buildbarn/bb-storage/pkg/blobstore"
	"github.com/buildbarn/bb-storage/pkg/blobstore/buffer"
	"github.com/buildbarn/bb-storage/pkg/blobstore/configuration"
	"github.com/buildbarn/bb-storage/pkg/digest"
	"github.com/buildbarn/bb-storage/pkg/program"
	pb "github.com/buildbarn/bb-storage/pkg/proto/configuration/blobstore"
	bdpb "github.com/buildbarn/bb-storage/pkg/proto/configuration/blockdevice"
	"google.golang.org/grpc/codes"
	"google.golang.org/grpc/status"
	"google.golang.org/protobuf/types/known/durationpb"
	"pgregory.net/rapid"

	"verif/harness/hx"
	"verif/harness/vstats"
)

var recE2E = vstats.New("TestC03EndToEnd")

// withStore builds the store through the REAL configuration code
// (NewBlobAccessFromConfiguration: file-backed mmap'ed block devices,
// real state directory, system clock, syncer goroutines registered on
// the termination group), runs work, and then shuts down gracefully by
// returning from the routine (program.RunLocal cancels and waits for
// the dependencies, i.e. the syncer performs its two final syncs and
// the state write).
func withStore(cfg *pb.BlobAccessConfiguration, work func(ba blobstore.BlobAccess) error) error {
	return program.RunLocal(context.Background(), func(ctx context.Context, siblings, deps program.Group) error {
		info, err := configuration.NewBlobAccessFromConfiguration(deps, cfg, configuration.NewCASBlobAccessCreator(nil, 1<<20, nil))
		if err != nil {
			return err
		}
		return work(info.BlobAccess)
	})
}

type e2eObj struct {
	inst string
	data []byte
}

// TestC03EndToEnd: upload, graceful shutdown, start again with the same
// configuration, everything acknowledged is readable with identical
// bytes (volumes stay below one block, so rotation cannot evict).
func TestC03EndToEnd(t *testing.T) {
	rapid.Check(t, func(t *rapid.T) {
		c := recE2E.Begin()
		dir, err := os.MkdirTemp("", "verif-c03-e2e-")
		if err != nil {
			t.Fatalf("harness: %v", err)
		}
		defer os.RemoveAll(dir)
		if err := os.Mkdir(filepath.Join(dir, "state"), 0o755); err != nil {
			t.Fatalf("harness: %v", err)
		}
		old := rapid.IntRange(0, 3).Draw(t, "old")
		cur := rapid.IntRange(0, 3).Draw(t, "cur")
		nw := rapid.IntRange(1, 3).Draw(t, "new")
		spare := rapid.IntRange(1, 3).Draw(t, "spare")
		hier := rapid.Bool().Draw(t, "hier")
		blocks := old + cur + nw + spare
		sectorsPerBlock := rapid.IntRange(2, 6).Draw(t, "sectorsPerBlock")
		const sector = 4096 // page-sized sectors of the file-backed device
		cfg := &pb.BlobAccessConfiguration{Backend: &pb.BlobAccessConfiguration_Local{Local: &pb.LocalBlobAccessConfiguration{
			KeyLocationMapBackend: &pb.LocalBlobAccessConfiguration_KeyLocationMapOnBlockDevice{
				KeyLocationMapOnBlockDevice: &bdpb.Configuration{Source: &bdpb.Configuration_File{File: &bdpb.FileConfiguration{Path: filepath.Join(dir, "index"), SizeBytes: 16 * sector}}},
			},
			KeyLocationMapMaximumGetAttempts: 16,
			KeyLocationMapMaximumPutAttempts: 64,
			OldBlocks:                        int32(old),
			CurrentBlocks:                    int32(cur),
			NewBlocks:                        int32(nw),
			BlocksBackend: &pb.LocalBlobAccessConfiguration_BlocksOnBlockDevice_{BlocksOnBlockDevice: &pb.LocalBlobAccessConfiguration_BlocksOnBlockDevice{
				Source:      &bdpb.Configuration{Source: &bdpb.Configuration_File{File: &bdpb.FileConfiguration{Path: filepath.Join(dir, "blocks"), SizeBytes: int64(blocks * sectorsPerBlock * sector)}}},
				SpareBlocks: int32(spare),
			}},
			Persistent:                &pb.LocalBlobAccessConfiguration_Persistent{StateDirectoryPath: filepath.Join(dir, "state"), MinimumEpochInterval: durationpb.New(time.Millisecond)},
			HierarchicalInstanceNames: hier,
		}}}
		c.Add(old, cur, nw, spare, hier, sectorsPerBlock)

		// Total volume below one block: nothing can be evicted.
		// (A restart resumes writing at the next sector boundary, so the
		// space used is rounded up per round.)
		blockBytes := sectorsPerBlock * sector
		used := 0
		var objs []e2eObj
		rounds := rapid.IntRange(1, 3).Draw(t, "rounds")
		ctx := context.Background()
		for round := 0; round < rounds; round++ {
			n := rapid.IntRange(1, 5).Draw(t, "n")
			var batch []e2eObj
			for i := 0; i < n && used < blockBytes; i++ {
				size := rapid.IntRange(0, min(blockBytes-used, 6000)).Draw(t, "size")
				used += size
				data := make([]byte, size)
				for j := range data {
					data[j] = byte(len(objs)*37 + len(batch)*11 + j*3 + round)
				}
				batch = append(batch, e2eObj{inst: rapid.SampledFrom([]string{"", "a", "a/b"}).Draw(t, "inst"), data: data})
				c.Add("obj", size)
			}
			sleepBefore := rapid.IntRange(0, 3).Draw(t, "sleepMs")
			err := withStore(cfg, func(ba blobstore.BlobAccess) error {
				// Everything from earlier rounds survived the restart.
				for i, o := range objs {
					d := hx.Dig(o.inst, remoteexecution.DigestFunction_SHA256, o.data)
					got, err := ba.Get(ctx, d).ToByteSlice(1 << 20)
					if err != nil {
						return fmt.Errorf("C03 (end to end): object %d (%d bytes, instance %q) acknowledged before a graceful shutdown is not readable after restart %d with the same configuration: %v", i, len(o.data), o.inst, round, err)
					}
					if string(got) != string(o.data) {
						return fmt.Errorf("C03 (end to end): object %d has different bytes after restart", i)
					}
				}
				for _, o := range batch {
					d := hx.Dig(o.inst, remoteexecution.DigestFunction_SHA256, o.data)
					if err := ba.Put(ctx, d, buffer.NewCASBufferFromReader(d, hx.NewCRC(o.data), buffer.UserProvided)); err != nil {
						if status.Code(err) == codes.Unavailable {
							return fmt.Errorf("harness: upload refused: %v", err)
						}
						return err
					}
				}
				time.Sleep(time.Duration(sleepBefore) * time.Millisecond) // let a regular epoch pass (or not)
				return nil
			})
			if err != nil {
				t.Fatalf("%v (old=%d cur=%d new=%d spare=%d hier=%v blockBytes=%d)", err, old, cur, nw, spare, hier, sectorsPerBlock*sector)
			}
			objs = append(objs, batch...)
			used = (used + sector - 1) / sector * sector
		}
		// Final restart: read everything.
		err = withStore(cfg, func(ba blobstore.BlobAccess) error {
			sb := digest.NewSetBuilder(0)
			for _, o := range objs {
				sb.Add(hx.Dig(o.inst, remoteexecution.DigestFunction_SHA256, o.data))
			}
			missing, err := ba.FindMissing(ctx, sb.Build())
			if err != nil {
				return err
			}
			if !missing.Empty() {
				return fmt.Errorf("C03 (end to end): after the final restart FindMissing reports %d acknowledged object(s) missing", missing.Length())
			}
			for i, o := range objs {
				d := hx.Dig(o.inst, remoteexecution.DigestFunction_SHA256, o.data)
				got, err := ba.Get(ctx, d).ToByteSlice(1 << 20)
				if err != nil || string(got) != string(o.data) {
					return fmt.Errorf("C03 (end to end): object %d not readable with identical bytes after the final restart: %v", i, err)
				}
			}
			return nil
		})
		if err != nil {
			t.Fatalf("%v (old=%d cur=%d new=%d spare=%d hier=%v)", err, old, cur, nw, spare, hier)
		}
		c.ClassIf(rounds >= 2, "two_or_more_restarts")
		c.ClassIf(hier, "hierarchical")
		if rounds >= 2 && len(objs) >= 2 {
			c.NonTrivial()
		}
		c.Sample(func() string {
			return fmt.Sprintf("old=%d cur=%d new=%d spare=%d hier=%v blockBytes=%d rounds=%d objects=%d", old, cur, nw, spare, hier, sectorsPerBlock*sector, rounds, len(objs))
		})
		c.End()
	})
}
