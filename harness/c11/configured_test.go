package c11

// TestC11Configured: the mirrored pair as the REAL configuration code
// assembles it (configuration.NewBlobAccessFromConfiguration: which
// replica is A, which replicator copies in which direction, which sink's
// key format the replicators' caches use). Both replicas are real
// in-memory `local` CAS back ends declared once under with_labels, each
// either flat (instance names ignored) or hierarchical (an object is
// visible under the instance names it was stored under and their
// children); a demultiplexer makes the mirrored composite reachable under
// instance name prefix "m" and the two leaves directly under "la" and
// "lb", so that initial placements can be made and the contents of both
// replicas can be inspected afterwards through the same configured stack.
//
// Replica failures come from the configuration too: a replica may be a
// demultiplexer that sends one instance name ("fa" for A, "fb" for B) to
// an `error` back end, and one replica may have blocks too small for the
// one big object of the case (its Put of that object fails), so that
// replications fail and later ones must still work.
//
// The whole case runs inside a testing/synctest bubble: every operation on
// the pair gets a deadline on the bubble's virtual clock, which only
// advances when every goroutine is blocked. A blocked operation (e.g. a
// replication slot that a failed replication never gave back) therefore
// returns at once with an expired context and is reported; wall-clock time
// influences nothing.

import (
	"context"
	"fmt"
	"strings"
	"testing"
	"testing/synctest"
	"time"

	remoteexecution "github.com/bazelbuild/remote-apis/build/bazel/remote/execution/v2"
	"github.com/buildbarn/bb-storage/pkg/blobstore"
	"github.com/buildbarn/bb-storage/pkg/blobstore/buffer"
	"github.com/buildbarn/bb-storage/pkg/blobstore/configuration"
	"github.com/buildbarn/bb-storage/pkg/digest"
	"github.com/buildbarn/bb-storage/pkg/program"
	pb "github.com/buildbarn/bb-storage/pkg/proto/configuration/blobstore"
	digestpb "github.com/buildbarn/bb-storage/pkg/proto/configuration/digest"
	evictionpb "github.com/buildbarn/bb-storage/pkg/proto/configuration/eviction"
	"google.golang.org/grpc/codes"
	"google.golang.org/grpc/status"
	"google.golang.org/protobuf/proto"
	"google.golang.org/protobuf/types/known/durationpb"
	"google.golang.org/protobuf/types/known/emptypb"
	"pgregory.net/rapid"

	"verif/harness/hx"
	"verif/harness/vstats"
)

var recConfigured = vstats.New("TestC11Configured")

// cfgOpDeadline is the (virtual) deadline of one operation on the pair.
const cfgOpDeadline = time.Hour

// Block sizes of the leaves. Per case far less than one block is written
// to a leaf, so no block ever rotates: leaves never evict and never need
// to refresh.
const (
	cfgBlockNormal = 16384
	cfgBlockSmall  = 4096  // the replica that cannot store the big object
	cfgBlockLarge  = 65536 // the other replica of such a case
	cfgBigObject   = 5000
)

type cfgLeaf struct {
	hierarchical bool
	blockSize    int64
}

func (l cfgLeaf) String() string {
	k := "flat"
	if l.hierarchical {
		k = "hierarchical"
	}
	return fmt.Sprintf("%s/%d", k, l.blockSize)
}

func cfgLocalLeaf(l cfgLeaf) *pb.BlobAccessConfiguration {
	return &pb.BlobAccessConfiguration{Backend: &pb.BlobAccessConfiguration_Local{Local: &pb.LocalBlobAccessConfiguration{
		KeyLocationMapBackend:            &pb.LocalBlobAccessConfiguration_KeyLocationMapInMemory_{KeyLocationMapInMemory: &pb.LocalBlobAccessConfiguration_KeyLocationMapInMemory{Entries: 1021}},
		KeyLocationMapMaximumGetAttempts: 16,
		KeyLocationMapMaximumPutAttempts: 64,
		OldBlocks:                        2,
		CurrentBlocks:                    2,
		NewBlocks:                        2,
		BlocksBackend:                    &pb.LocalBlobAccessConfiguration_BlocksInMemory_{BlocksInMemory: &pb.LocalBlobAccessConfiguration_BlocksInMemory{BlockSizeBytes: l.blockSize}},
		HierarchicalInstanceNames:        l.hierarchical,
	}}}
}

func cfgLabelRef(l string) *pb.BlobAccessConfiguration {
	return &pb.BlobAccessConfiguration{Backend: &pb.BlobAccessConfiguration_Label{Label: l}}
}

// cfgFailingText is the message of the `error` back ends. It must not
// name a replica.
const cfgFailingText = "injected: the storage behind this instance name is down"

// cfgReplica is one replica of the pair: the leaf itself, or (failCode !=
// OK) a demultiplexer that sends instance name failInst to an `error` back
// end and everything else to the leaf.
func cfgReplica(leafLabel, failInst string, failCode codes.Code) *pb.BlobAccessConfiguration {
	if failCode == codes.OK {
		return cfgLabelRef(leafLabel)
	}
	return &pb.BlobAccessConfiguration{Backend: &pb.BlobAccessConfiguration_Demultiplexing{Demultiplexing: &pb.DemultiplexingBlobAccessConfiguration{InstanceNamePrefixes: map[string]*pb.DemultiplexedBlobAccessConfiguration{
		"":       {Backend: cfgLabelRef(leafLabel)},
		failInst: {Backend: &pb.BlobAccessConfiguration{Backend: &pb.BlobAccessConfiguration_Error{Error: status.New(failCode, cfgFailingText).Proto()}}},
	}}}}
}

// cfgWrap is one decorator of a replicator configuration.
type cfgWrap struct {
	kind      string
	n         int64 // concurrency_limiting: maximum_concurrency
	cacheSize int64 // queued: existence cache size
}

func (w cfgWrap) String() string {
	switch w.kind {
	case "concurrency_limiting":
		return fmt.Sprintf("concurrency_limiting[%d]", w.n)
	case "queued":
		return fmt.Sprintf("queued[%d]", w.cacheSize)
	}
	return w.kind
}

// cfgRepl is a replicator configuration: a chain of wrappers around
// `local` or `noop`.
type cfgRepl struct {
	wrappers []cfgWrap
	noop     bool
}

func (r cfgRepl) String() string {
	parts := []string{}
	for _, w := range r.wrappers {
		parts = append(parts, w.String())
	}
	base := "local"
	if r.noop {
		base = "noop"
	}
	return strings.Join(append(parts, base), ">")
}

func (r cfgRepl) has(kind string) bool {
	for _, w := range r.wrappers {
		if w.kind == kind {
			return true
		}
	}
	return false
}

func (r cfgRepl) config() *pb.BlobReplicatorConfiguration {
	var out *pb.BlobReplicatorConfiguration
	if r.noop {
		out = &pb.BlobReplicatorConfiguration{Mode: &pb.BlobReplicatorConfiguration_Noop{Noop: &emptypb.Empty{}}}
	} else {
		out = &pb.BlobReplicatorConfiguration{Mode: &pb.BlobReplicatorConfiguration_Local{Local: &emptypb.Empty{}}}
	}
	for i := len(r.wrappers) - 1; i >= 0; i-- {
		w := r.wrappers[i]
		switch w.kind {
		case "deduplicating":
			out = &pb.BlobReplicatorConfiguration{Mode: &pb.BlobReplicatorConfiguration_Deduplicating{Deduplicating: out}}
		case "concurrency_limiting":
			out = &pb.BlobReplicatorConfiguration{Mode: &pb.BlobReplicatorConfiguration_ConcurrencyLimiting{ConcurrencyLimiting: &pb.ConcurrencyLimitingBlobReplicatorConfiguration{Base: out, MaximumConcurrency: w.n}}}
		case "queued":
			out = &pb.BlobReplicatorConfiguration{Mode: &pb.BlobReplicatorConfiguration_Queued{Queued: &pb.QueuedBlobReplicatorConfiguration{Base: out, ExistenceCache: &digestpb.ExistenceCacheConfiguration{
				CacheSize:              w.cacheSize,
				CacheDuration:          durationpb.New(24 * time.Hour),
				CacheReplacementPolicy: evictionpb.CacheReplacementPolicy_LEAST_RECENTLY_USED,
			}}}}
		}
	}
	return out
}

func genCfgRepl(t *rapid.T, label string) cfgRepl {
	var r cfgRepl
	if rapid.IntRange(0, 5).Draw(t, label+"/noop") == 0 {
		r.noop = true
		return r
	}
	n := rapid.IntRange(0, 3).Draw(t, label+"/depth")
	for i := 0; i < n; i++ {
		w := cfgWrap{kind: rapid.SampledFrom([]string{"deduplicating", "concurrency_limiting", "queued", "queued"}).Draw(t, label+"/wrapper")}
		switch w.kind {
		case "concurrency_limiting":
			w.n = int64(rapid.IntRange(1, 2).Draw(t, label+"/maximum_concurrency"))
		case "queued":
			w.cacheSize = int64(rapid.SampledFrom([]int{1, 2, 3, 16}).Draw(t, label+"/cache_size"))
		}
		r.wrappers = append(r.wrappers, w)
	}
	return r
}

// cfgObject is one blob of a configured case.
type cfgObject struct {
	data []byte
	msg  proto.Message // != nil: data is the serialization of msg
	big  bool
}

func genCfgObject(t *rapid.T, o int, big bool) cfgObject {
	asProto := rapid.Bool().Draw(t, fmt.Sprintf("obj%d/proto", o))
	switch {
	case big && asProto:
		m := &remoteexecution.Directory{Files: []*remoteexecution.FileNode{{Name: fmt.Sprintf("big %d ", o) + strings.Repeat("n", cfgBigObject)}}}
		data, err := proto.MarshalOptions{Deterministic: true}.Marshal(m)
		if err != nil {
			panic(err)
		}
		return cfgObject{data: data, msg: m, big: true}
	case big:
		return cfgObject{data: []byte(fmt.Sprintf("big mirrored object %d ", o) + strings.Repeat("b", cfgBigObject)), big: true}
	case asProto:
		m, data := protoObject(o, 5+o)
		return cfgObject{data: data, msg: m}
	}
	return cfgObject{data: []byte(fmt.Sprintf("mirrored object %d", o))}
}

// cfgRead is one read of an object through the pair: how the result is
// consumed.
type cfgRead struct {
	method  int
	chunk   int
	off, ln int // partial ReadAt
}

func genCfgRead(t *rapid.T, obj cfgObject) cfgRead {
	r := cfgRead{method: rapid.SampledFrom(methodChoices).Draw(t, "method"), chunk: rapid.IntRange(1, 9).Draw(t, "readchunk")}
	if r.method == methodToProto && obj.msg == nil {
		r.method = 0
	}
	if r.method == methodReadAtPartial {
		r.off = rapid.IntRange(0, len(obj.data)).Draw(t, "readat_off")
		r.ln = rapid.IntRange(0, len(obj.data)-r.off+2).Draw(t, "readat_len")
	}
	return r
}

// cfgRef is one (object, instance name) pair.
type cfgRef struct {
	o    int
	inst string
}

func (r cfgRef) String() string { return fmt.Sprintf("o%d@%q", r.o, r.inst) }

type cfgOp struct {
	kind  string // get, get2, put, find, place
	refs  []cfgRef
	reads []cfgRead
	leaf  int // place: the leaf the blob is put into directly
}

func (o cfgOp) String() string {
	parts := []string{}
	for _, r := range o.refs {
		parts = append(parts, r.String())
	}
	s := o.kind + "(" + strings.Join(parts, " ") + ")"
	if o.kind == "place" {
		s += fmt.Sprintf("->leaf%d", o.leaf)
	}
	for _, r := range o.reads {
		s += "/" + methodNames[r.method]
	}
	return s
}

func TestC11Configured(outer *testing.T) {
	rapid.Check(outer, func(t *rapid.T) {
		c := recConfigured.Begin()
		replAB := genCfgRepl(t, "AtoB")
		replBA := genCfgRepl(t, "BtoA")
		c.Add(replAB.String(), replBA.String())
		repls := [2]cfgRepl{replBA, replAB} // repls[x]: the replicator INTO replica x
		// copies[x]: the replicator INTO replica x (0 = A, 1 = B) copies.
		copies := [2]bool{!replBA.noop, !replAB.noop}
		names := [2]string{"A", "B"}

		// The leaves.
		var leaves [2]cfgLeaf
		for x := range leaves {
			leaves[x] = cfgLeaf{hierarchical: rapid.IntRange(0, 2).Draw(t, "leaf"+names[x]+"/hierarchical") != 0, blockSize: cfgBlockNormal}
		}
		// small: the replica whose blocks cannot hold the big object (-1:
		// no big object in this case).
		small := rapid.SampledFrom([]int{-1, -1, -1, 0, 1}).Draw(t, "small_replica")
		if small >= 0 {
			leaves[small].blockSize = cfgBlockSmall
			leaves[1-small].blockSize = cfgBlockLarge
		}
		// failCode[x] != OK: replica x fails every call for instance name
		// failInst[x] with that code.
		failInst := [2]string{"fa", "fb"}
		var failCode [2]codes.Code
		for x := range failCode {
			failCode[x] = rapid.SampledFrom([]codes.Code{codes.OK, codes.OK, codes.Unavailable, codes.Internal, codes.PermissionDenied, codes.ResourceExhausted}).Draw(t, "replica"+names[x]+"/failure")
		}
		c.Add(leaves[0].String(), leaves[1].String(), small, int(failCode[0]), int(failCode[1]))

		nobj := rapid.IntRange(1, 3).Draw(t, "nobjects")
		objs := make([]cfgObject, nobj)
		for o := range objs {
			objs[o] = genCfgObject(t, o, small >= 0 && o == 0)
			c.Add(objs[o].data)
		}
		// Instance names: prefix-related ones ("", x, x/y), an unrelated
		// one (r) and the two that a replica may fail for.
		insts := []string{"", "x", "x/y", "r", "r", "fa", "fb"}
		genRef := func() cfgRef {
			return cfgRef{o: rapid.IntRange(0, nobj-1).Draw(t, "obj"), inst: rapid.SampledFrom(insts).Draw(t, "instance")}
		}
		// Initial placements, made directly on the leaves.
		type placement struct {
			ref  cfgRef
			leaf int
		}
		var places []placement
		for i, n := 0, rapid.IntRange(0, 6).Draw(t, "nplacements"); i < n; i++ {
			p := placement{ref: genRef(), leaf: rapid.IntRange(0, 1).Draw(t, "leaf")}
			if objs[p.ref.o].big && p.leaf == small {
				p.leaf = 1 - small
			}
			places = append(places, p)
			c.Add(p.ref.o, p.ref.inst, p.leaf)
		}
		nops := rapid.IntRange(1, 10).Draw(t, "nops")
		ops := make([]cfgOp, nops)
		for i := range ops {
			o := cfgOp{kind: rapid.SampledFrom([]string{"get", "get2", "get2", "put", "find", "find", "find", "place"}).Draw(t, "op")}
			k := 1
			if o.kind == "find" {
				k = rapid.IntRange(1, 4).Draw(t, "k")
			}
			for x := 0; x < k; x++ {
				o.refs = append(o.refs, genRef())
			}
			switch o.kind {
			case "get":
				o.reads = []cfgRead{genCfgRead(t, objs[o.refs[0].o])}
			case "get2":
				o.reads = []cfgRead{genCfgRead(t, objs[o.refs[0].o]), genCfgRead(t, objs[o.refs[0].o])}
			case "place":
				// the object appears on one replica behind the pair's back
				// (e.g. uploaded while the other replica was unreachable)
				o.leaf = rapid.IntRange(0, 1).Draw(t, "leaf")
				if objs[o.refs[0].o].big && o.leaf == small {
					o.leaf = 1 - small
				}
			}
			ops[i] = o
			c.Add(o.String(), fmt.Sprint(o.reads))
		}

		cfg := &pb.BlobAccessConfiguration{Backend: &pb.BlobAccessConfiguration_WithLabels{WithLabels: &pb.WithLabelsBlobAccessConfiguration{
			Labels: map[string]*pb.BlobAccessConfiguration{"leafA": cfgLocalLeaf(leaves[0]), "leafB": cfgLocalLeaf(leaves[1])},
			Backend: &pb.BlobAccessConfiguration{Backend: &pb.BlobAccessConfiguration_Demultiplexing{Demultiplexing: &pb.DemultiplexingBlobAccessConfiguration{InstanceNamePrefixes: map[string]*pb.DemultiplexedBlobAccessConfiguration{
				"la": {Backend: cfgLabelRef("leafA")},
				"lb": {Backend: cfgLabelRef("leafB")},
				"m": {Backend: &pb.BlobAccessConfiguration{Backend: &pb.BlobAccessConfiguration_Mirrored{Mirrored: &pb.MirroredBlobAccessConfiguration{
					BackendA:       cfgReplica("leafA", failInst[0], failCode[0]),
					BackendB:       cfgReplica("leafB", failInst[1], failCode[1]),
					ReplicatorAToB: replAB.config(),
					ReplicatorBToA: replBA.config(),
				}}}},
			}}}},
		}}}

		desc := fmt.Sprintf("replicators A->B %s, B->A %s; replica A %s, B %s", replAB, replBA, leaves[0], leaves[1])
		for x := range failCode {
			if failCode[x] != codes.OK {
				desc += fmt.Sprintf("; replica %s fails with %s for instance name %q", names[x], failCode[x], failInst[x])
			}
		}

		// fails: replica x cannot answer for that instance name.
		fails := func(x int, inst string) bool { return failCode[x] != codes.OK && inst == failInst[x] }
		// fits: replica x can store the object.
		fits := func(x, o int) bool { return !(objs[o].big && x == small) }

		var (
			oneSidedRead, repairObserved, syncObserved, oneSidedFind, absentRead     int
			failedRepl, opsAfterFailedRepl, repairAfterFailedRepl                    int
			readFailingReplica, putFailing, findFailing, unsyncable, oversizedRepair int
			sameHashOtherInstanceSync, sameHashPrefixSync                            int
			placedLater                                                              int
			methodsUsed                                                              = map[string]bool{}
		)
		var verdict error
		synctest.Test(outer, func(st *testing.T) {
			verdict = program.RunLocal(context.Background(), func(ctx context.Context, siblings, deps program.Group) error {
				info, err := configuration.NewBlobAccessFromConfiguration(deps, cfg, configuration.NewCASBlobAccessCreator(nil, 1<<20, nil))
				if err != nil {
					return fmt.Errorf("harness/C11: NewBlobAccessFromConfiguration failed: %v", err)
				}
				var ba blobstore.BlobAccess = info.BlobAccess
				dig := func(prefix string, r cfgRef) digest.Digest {
					n := prefix
					if r.inst != "" {
						n += "/" + r.inst
					}
					return hx.Sha(n, objs[r.o].data)
				}
				leafPrefix := [2]string{"la", "lb"}
				// stored: the leaf of replica x holds the object visibly
				// under that instance name, asked directly.
				stored := func(x int, r cfgRef) (bool, error) {
					missing, err := ba.FindMissing(ctx, dig(leafPrefix[x], r).ToSingletonSet())
					if err != nil {
						return false, fmt.Errorf("harness/C11: direct FindMissing on the leaf of replica %s failed: %v", names[x], err)
					}
					return missing.Empty(), nil
				}
				// holds: bit x set = replica x holds the object under that
				// instance name as seen through the pair (a replica that
				// fails for the instance name holds nothing there).
				holds := func(r cfgRef) (int, error) {
					h := 0
					for x := range names {
						s, err := stored(x, r)
						if err != nil {
							return 0, err
						}
						if s && !fails(x, r.inst) {
							h |= 1 << x
						}
					}
					return h, nil
				}
				// heldAnywhere: some leaf stores the blob under some instance
				// name. (Storing a blob under one instance name makes it
				// visible under others: under all of them in a flat leaf,
				// under the children in a hierarchical one. Only a blob that
				// is nowhere cannot legitimately appear.)
				heldAnywhere := func(o int) (bool, error) {
					for x := range names {
						for _, inst := range []string{"", "x", "x/y", "r", "fa", "fb"} {
							s, err := stored(x, cfgRef{o, inst})
							if err != nil || s {
								return s, err
							}
						}
					}
					return false, nil
				}
				// everything ever seen on a leaf must stay there (leaves
				// never evict in this test).
				seen := map[string]bool{}
				note := func(r cfgRef) error {
					for x := range names {
						s, err := stored(x, r)
						if err != nil {
							return err
						}
						if s {
							seen[fmt.Sprintf("%d|%d|%s", x, r.o, r.inst)] = true
						}
					}
					return nil
				}
				checkNothingLost := func(after string) error {
					for k := range seen {
						var x, o int
						var inst string
						parts := strings.SplitN(k, "|", 3)
						fmt.Sscan(parts[0], &x)
						fmt.Sscan(parts[1], &o)
						inst = parts[2]
						s, err := stored(x, cfgRef{o, inst})
						if err != nil {
							return err
						}
						if !s {
							return fmt.Errorf("C11 (configured, %s): after %s replica %s no longer holds object %d under instance name %q, which it held before (nothing is ever evicted in this test)", desc, after, names[x], o, inst)
						}
					}
					return nil
				}
				for _, p := range places {
					d := dig(leafPrefix[p.leaf], p.ref)
					if err := ba.Put(ctx, d, buffer.NewCASBufferFromByteSlice(d, objs[p.ref.o].data, buffer.UserProvided)); err != nil {
						return fmt.Errorf("harness/C11: direct Put into the leaf of replica %s failed: %v", names[p.leaf], err)
					}
					if err := note(p.ref); err != nil {
						return err
					}
				}
				// run: one operation on the pair under the virtual deadline.
				// Returns blocked = the deadline expired.
				run := func(f func(ctx context.Context)) (blocked bool) {
					opCtx, cancel := context.WithTimeout(ctx, cfgOpDeadline)
					defer cancel()
					f(opCtx)
					return opCtx.Err() != nil
				}
				blockedErr := func(what string, err error) error {
					return fmt.Errorf("C11 (configured, %s): %s did not complete although both replicas answer every call at once: it stayed blocked until its deadline on the virtual clock expired, i.e. until every goroutine was blocked (then: %v). No replication is running, so every replication slot has to be free (%d operation(s) failed earlier in this case: a failed replication has to give its slot back)", desc, what, err, failedRepl)
				}
				// nonNotFoundNaming checks the shape of an error that reports
				// the failure of one of the replicas in `failed`.
				replicaError := func(what string, err error, failed [2]bool) error {
					if status.Code(err) == codes.NotFound {
						return fmt.Errorf("C11 (configured, %s): %s: a replica failure other than NOT_FOUND must not be surfaced as NOT_FOUND, got: %v", desc, what, err)
					}
					if !((failed[0] && namesReplica(err, 0)) || (failed[1] && namesReplica(err, 1))) {
						return fmt.Errorf("C11 (configured, %s): %s: a replica failure is surfaced as an error naming the replica (failing: A=%v B=%v), got: %v", desc, what, failed[0], failed[1], err)
					}
					return nil
				}

				for _, o := range ops {
					if failedRepl > 0 {
						opsAfterFailedRepl++
					}
					switch o.kind {
					case "place":
						r := o.refs[0]
						d := dig(leafPrefix[o.leaf], r)
						if err := ba.Put(ctx, d, buffer.NewCASBufferFromByteSlice(d, objs[r.o].data, buffer.UserProvided)); err != nil {
							return fmt.Errorf("harness/C11: direct Put into the leaf of replica %s failed: %v", names[o.leaf], err)
						}
						placedLater++
						if err := note(r); err != nil {
							return err
						}
					case "put":
						r := o.refs[0]
						obj := objs[r.o]
						d := dig("m", r)
						var err error
						if run(func(ctx context.Context) {
							err = ba.Put(ctx, d, buffer.NewCASBufferFromByteSlice(d, obj.data, buffer.UserProvided))
						}) {
							return blockedErr(fmt.Sprintf("the upload of %s", r), err)
						}
						cannot := [2]bool{fails(0, r.inst) || !fits(0, r.o), fails(1, r.inst) || !fits(1, r.o)}
						if cannot[0] || cannot[1] {
							putFailing++
							if err == nil {
								return fmt.Errorf("C11 (configured, %s): a successful upload through a mirrored pair is present in both replicas, but the upload of %s was acknowledged although replica A cannot store it: %v, replica B cannot store it: %v", desc, r, cannot[0], cannot[1])
							}
							if err := replicaError(fmt.Sprintf("upload of %s", r), err, cannot); err != nil {
								return err
							}
						} else {
							if err != nil {
								return fmt.Errorf("C11 (configured, %s): upload of %s through the mirrored pair failed without any replica failure: %v", desc, r, err)
							}
							h, err := holds(r)
							if err != nil {
								return err
							}
							if h != 3 {
								return fmt.Errorf("C11 (configured, %s): a successful upload through a mirrored pair is present in both replicas, but after the upload of %s replica A holds it: %v, replica B holds it: %v", desc, r, h&1 != 0, h&2 != 0)
							}
						}
						if err := note(r); err != nil {
							return err
						}
					case "get", "get2":
						r := o.refs[0]
						obj := objs[r.o]
						before, err := holds(r)
						if err != nil {
							return err
						}
						existed, err := heldAnywhere(r.o)
						if err != nil {
							return err
						}
						failing := [2]bool{fails(0, r.inst), fails(1, r.inst)}
						anyFailing := failing[0] || failing[1]
						oneSided := !anyFailing && (before == 1 || before == 2)
						lacking := 0 // index of the replica that lacked it
						if before == 1 {
							lacking = 1
						}
						succeeded, partials := 0, 0
						for _, rd := range o.reads {
							ra := readArgs{msg: obj.msg, full: obj.data, off: rd.off, ln: rd.ln}
							methodsUsed[methodNames[rd.method]] = true
							if rd.method == methodReadAtPartial {
								partials++
							}
							var data []byte
							var err error
							what := fmt.Sprintf("Get of %s consumed with %s (A holds it: %v, B holds it: %v)", r, methodNames[rd.method], before&1 != 0, before&2 != 0)
							if run(func(ctx context.Context) {
								data, err = consume(ba.Get(ctx, dig("m", r)), rd.method, rd.chunk, ra)
							}) {
								return blockedErr(what, err)
							}
							if err == nil {
								succeeded++
								if before == 0 {
									return fmt.Errorf("C11 (configured, %s): %s returned %q although no replica holds it", desc, what, data)
								}
								if want := ra.wanted(rd.method); string(data) != string(want) {
									return fmt.Errorf("C11 (configured, %s): %s returned %d bytes %.60q, want %d bytes %.60q", desc, what, len(data), data, len(want), want)
								}
								continue
							}
							// The read failed.
							failedRepl++ // (every failing read below went through a replicator, or may have)
							switch {
							case anyFailing:
								// A replica that fails for this instance name:
								// the read may fail whenever that replica is
								// consulted (first, or as the source of the
								// repair), with an error naming it.
								readFailingReplica++
								if err := replicaError(what, err, failing); err != nil {
									return err
								}
							case before == 0:
								absentRead++
							case oneSided && copies[lacking] && !fits(lacking, r.o):
								// The repair copy cannot be stored: a replica
								// failure, which may fail the read - never as
								// NOT_FOUND.
								oversizedRepair++
								if status.Code(err) == codes.NotFound {
									return fmt.Errorf("C11 (configured, %s): %s: the failure of replica %s to store the repair copy must not be surfaced as NOT_FOUND, got: %v", desc, what, names[lacking], err)
								}
							default:
								return fmt.Errorf("C11 (configured, %s): a read returns the object whenever at least one replica holds it, but %s failed: %v", desc, what, err)
							}
						}
						after, err := holds(r)
						if err != nil {
							return err
						}
						if anyFailing && before == 0 && succeeded > 0 {
							return fmt.Errorf("C11 (configured, %s): Get of %s succeeded although the only replica that can answer for this instance name does not hold it", desc, r)
						}
						if after&before != before {
							return fmt.Errorf("C11 (configured, %s): reading %s removed it from a replica (held before: %02b, after: %02b; bit 0 = A)", desc, r, before, after)
						}
						if !existed && after != 0 {
							return fmt.Errorf("C11 (configured, %s): a failed read of %s, a blob that no replica held under any instance name, left it on a replica (%02b; bit 0 = A)", desc, r, after)
						}
						if oneSided {
							oneSidedRead++
							if after == 3 {
								repairObserved++
								if failedRepl > 0 {
									repairAfterFailedRepl++
								}
							}
							// Two consecutive reads start at different
							// replicas (the replica consulted first
							// alternates), so one of them consulted the
							// lacking replica first and must have copied the
							// object into it (if that copy cannot be stored,
							// that read must have failed). Not demanded of
							// partial ReadAts, see verif.json.
							if len(o.reads) == 2 && succeeded == 2 && partials == 0 && copies[lacking] && after != 3 {
								return fmt.Errorf("C11 (configured, %s): a read copies the object to the replica consulted first if that one lacked it: %s was held only by replica %s, two consecutive reads through the pair succeeded (they start at different replicas), but replica %s still lacks it (replica %s is able to store it: %v)", desc, r, names[1-lacking], names[lacking], names[lacking], fits(lacking, r.o))
							}
						}
						if err := note(r); err != nil {
							return err
						}
					case "find":
						sb := digest.NewSetBuilder(0)
						before := map[cfgRef]int{}
						var failing, cannotStore [2]bool
						existed := map[int]bool{}
						for _, r := range o.refs {
							e, err := heldAnywhere(r.o)
							if err != nil {
								return err
							}
							existed[r.o] = e
							sb.Add(dig("m", r))
							h, err := holds(r)
							if err != nil {
								return err
							}
							before[r] = h
							for x := range names {
								failing[x] = failing[x] || fails(x, r.inst)
							}
						}
						for r, h := range before {
							if h == 1 || h == 2 {
								lacking := 0
								if h == 1 {
									lacking = 1
								}
								if copies[lacking] && !fits(lacking, r.o) && !failing[0] && !failing[1] {
									cannotStore[lacking] = true
								}
							}
						}
						var missing digest.Set
						var err error
						if run(func(ctx context.Context) { missing, err = ba.FindMissing(ctx, sb.Build()) }) {
							return blockedErr(fmt.Sprintf("FindMissing over %v", o.refs), err)
						}
						what := fmt.Sprintf("FindMissing over %v (held before, bit 0 = A: %v)", o.refs, before)
						switch {
						case failing[0] || failing[1]:
							findFailing++
							if err == nil {
								return fmt.Errorf("C11 (configured, %s): %s succeeded although a replica cannot answer for one of the instance names (A: %v, B: %v): a replica failure is surfaced as an error, never as a successful but incomplete answer", desc, what, failing[0], failing[1])
							}
							if err := replicaError(what, err, failing); err != nil {
								return err
							}
						case cannotStore[0] || cannotStore[1]:
							unsyncable++
							failedRepl++
							if err == nil {
								return fmt.Errorf("C11 (configured, %s): a successful existence check has copied every object held by exactly one replica to the other, but %s succeeded although the big object cannot be stored by the replica that lacks it", desc, what)
							}
							if err := replicaError(what, err, cannotStore); err != nil {
								return err
							}
						default:
							if err != nil {
								return fmt.Errorf("C11 (configured, %s): %s failed although both replicas are healthy and consistent: %v", desc, what, err)
							}
							got := map[string]bool{}
							for _, d := range missing.Items() {
								got[d.GetKey(digest.KeyWithInstance)] = true
							}
							for r, h := range before {
								k := dig("m", r).GetKey(digest.KeyWithInstance)
								if got[k] != (h == 0) {
									return fmt.Errorf("C11 (configured, %s): an existence check reports an object missing only if (and, with healthy replicas, whenever) both replicas lack it: %s: %s (A holds: %v, B holds: %v) reported missing: %v", desc, what, r, h&1 != 0, h&2 != 0, got[k])
								}
								delete(got, k)
							}
							if len(got) != 0 {
								return fmt.Errorf("C11 (configured, %s): %s reported digests that were not asked about: %v", desc, what, got)
							}
						}
						for r, b := range before {
							after, aerr := holds(r)
							if aerr != nil {
								return aerr
							}
							if after&b != b {
								return fmt.Errorf("C11 (configured, %s): %s removed %s from a replica (%02b -> %02b)", desc, what, r, b, after)
							}
							if !existed[r.o] && after != 0 {
								return fmt.Errorf("C11 (configured, %s): %s created %s, a blob that no replica held under any instance name (%02b)", desc, what, r, after)
							}
							if err != nil || !(b == 1 || b == 2) {
								continue
							}
							oneSidedFind++
							lacking := 0
							if b == 1 {
								lacking = 1
							}
							if after == 3 {
								syncObserved++
								if failedRepl > 0 {
									repairAfterFailedRepl++
								}
							}
							if copies[lacking] && after != 3 {
								return fmt.Errorf("C11 (configured, %s): a successful existence check has copied every object held by exactly one replica to the other, but after %s %s, held only by replica %s, is still missing from replica %s", desc, what, r, names[1-lacking], names[lacking])
							}
							// Was the same blob copied into that replica
							// before under another instance name?
							if after == 3 {
								for k := range seen {
									var x, so int
									parts := strings.SplitN(k, "|", 3)
									fmt.Sscan(parts[0], &x)
									fmt.Sscan(parts[1], &so)
									if x == lacking && so == r.o && parts[2] != r.inst {
										if strings.HasPrefix(parts[2], r.inst) || strings.HasPrefix(r.inst, parts[2]) {
											sameHashPrefixSync++
										} else {
											sameHashOtherInstanceSync++
										}
										break
									}
								}
							}
						}
						for _, r := range o.refs {
							if err := note(r); err != nil {
								return err
							}
						}
					}
					if err := checkNothingLost(o.String()); err != nil {
						return err
					}
				}
				return nil
			})
		})
		if verdict != nil {
			t.Fatalf("%v", verdict)
		}
		c.ClassIf(replAB.noop || replBA.noop, "a_noop_replicator")
		c.ClassIf(len(replAB.wrappers)+len(replBA.wrappers) > 0, "wrapped_replicator")
		for _, k := range []string{"deduplicating", "concurrency_limiting", "queued"} {
			c.ClassIf(repls[0].has(k) || repls[1].has(k), "replicator_"+k)
		}
		c.ClassIf(len(replAB.wrappers) > 1 || len(replBA.wrappers) > 1, "nested_replicator")
		c.ClassIf(replAB.String() != replBA.String(), "replicators_differ_per_direction")
		c.ClassIf(leaves[0].hierarchical || leaves[1].hierarchical, "a_hierarchical_replica")
		c.ClassIf(leaves[0].hierarchical != leaves[1].hierarchical, "one_flat_one_hierarchical_replica")
		c.ClassIf(failCode[0] != codes.OK || failCode[1] != codes.OK, "replica_failing_for_an_instance_name")
		c.ClassIf(small >= 0, "replica_too_small_for_the_big_object")
		c.ClassIf(oneSidedRead > 0, "read_of_object_held_by_one_replica")
		c.ClassIf(repairObserved > 0, "read_repair_observed")
		c.ClassIf(oneSidedFind > 0, "findmissing_over_object_held_by_one_replica")
		c.ClassIf(syncObserved > 0, "findmissing_synchronisation_observed")
		c.ClassIf(absentRead > 0, "read_of_absent_object")
		c.ClassIf(readFailingReplica > 0, "read_failed_at_failing_replica")
		c.ClassIf(putFailing > 0, "upload_a_replica_cannot_store")
		c.ClassIf(findFailing > 0, "findmissing_with_failing_replica")
		c.ClassIf(unsyncable > 0, "findmissing_cannot_synchronise_big_object")
		c.ClassIf(oversizedRepair > 0, "read_failed_because_repair_copy_too_big")
		c.ClassIf(placedLater > 0, "blob_placed_on_one_replica_between_operations")
		c.ClassIf(failedRepl > 0 && opsAfterFailedRepl > 0, "operations_after_a_failed_replication")
		c.ClassIf(repairAfterFailedRepl > 0, "repair_or_synchronisation_after_a_failed_replication")
		c.ClassIf(sameHashOtherInstanceSync > 0, "synchronised_blob_already_there_under_unrelated_instance_name")
		c.ClassIf(sameHashPrefixSync > 0, "synchronised_blob_already_there_under_prefix_related_instance_name")
		for m := range methodsUsed {
			c.Class("consume_" + m)
		}
		if repairObserved > 0 || syncObserved > 0 {
			c.NonTrivial()
		}
		c.Sample(func() string {
			parts := []string{}
			for _, o := range ops {
				parts = append(parts, o.String())
			}
			return fmt.Sprintf("%s, placements %v, ops %v, repairs %d, syncs %d", desc, places, parts, repairObserved, syncObserved)
		})
		c.End()
	})
}
