package c11

// TestC11Configured: the mirrored pair as the REAL configuration code
// assembles it (configuration.NewBlobAccessFromConfiguration: which
// replica is A, which replicator copies in which direction, which sink's
// key format the replicators' caches use). Both replicas are real
// in-memory `local` CAS back ends declared once under with_labels; a
// demultiplexer makes the mirrored composite reachable under instance name
// prefix "m" and the two replicas directly under "a" and "b", so that
// initial placements can be made and the contents of both replicas can be
// inspected afterwards through the same configured stack.

import (
	"context"
	"fmt"
	"strings"
	"testing"
	"time"

	"github.com/buildbarn/bb-storage/pkg/blobstore"
	"github.com/buildbarn/bb-storage/pkg/blobstore/buffer"
	"github.com/buildbarn/bb-storage/pkg/blobstore/configuration"
	"github.com/buildbarn/bb-storage/pkg/digest"
	"github.com/buildbarn/bb-storage/pkg/program"
	pb "github.com/buildbarn/bb-storage/pkg/proto/configuration/blobstore"
	digestpb "github.com/buildbarn/bb-storage/pkg/proto/configuration/digest"
	evictionpb "github.com/buildbarn/bb-storage/pkg/proto/configuration/eviction"
	"google.golang.org/protobuf/types/known/durationpb"
	"google.golang.org/protobuf/types/known/emptypb"
	"pgregory.net/rapid"

	"verif/harness/hx"
	"verif/harness/vstats"
)

var recConfigured = vstats.New("TestC11Configured")

func cfgLocalLeaf() *pb.BlobAccessConfiguration {
	return &pb.BlobAccessConfiguration{Backend: &pb.BlobAccessConfiguration_Local{Local: &pb.LocalBlobAccessConfiguration{
		KeyLocationMapBackend:            &pb.LocalBlobAccessConfiguration_KeyLocationMapInMemory_{KeyLocationMapInMemory: &pb.LocalBlobAccessConfiguration_KeyLocationMapInMemory{Entries: 1021}},
		KeyLocationMapMaximumGetAttempts: 16,
		KeyLocationMapMaximumPutAttempts: 64,
		OldBlocks:                        2,
		CurrentBlocks:                    2,
		NewBlocks:                        2,
		BlocksBackend:                    &pb.LocalBlobAccessConfiguration_BlocksInMemory_{BlocksInMemory: &pb.LocalBlobAccessConfiguration_BlocksInMemory{BlockSizeBytes: 16384}},
	}}}
}

func cfgLabelRef(l string) *pb.BlobAccessConfiguration {
	return &pb.BlobAccessConfiguration{Backend: &pb.BlobAccessConfiguration_Label{Label: l}}
}

// cfgRepl is a replicator configuration: a chain of wrappers around
// `local` or `noop`.
type cfgRepl struct {
	wrappers []string
	noop     bool
}

func (r cfgRepl) String() string {
	base := "local"
	if r.noop {
		base = "noop"
	}
	return strings.Join(append(append([]string{}, r.wrappers...), base), ">")
}

func (r cfgRepl) config() *pb.BlobReplicatorConfiguration {
	var out *pb.BlobReplicatorConfiguration
	if r.noop {
		out = &pb.BlobReplicatorConfiguration{Mode: &pb.BlobReplicatorConfiguration_Noop{Noop: &emptypb.Empty{}}}
	} else {
		out = &pb.BlobReplicatorConfiguration{Mode: &pb.BlobReplicatorConfiguration_Local{Local: &emptypb.Empty{}}}
	}
	for i := len(r.wrappers) - 1; i >= 0; i-- {
		switch r.wrappers[i] {
		case "deduplicating":
			out = &pb.BlobReplicatorConfiguration{Mode: &pb.BlobReplicatorConfiguration_Deduplicating{Deduplicating: out}}
		case "concurrency_limiting":
			out = &pb.BlobReplicatorConfiguration{Mode: &pb.BlobReplicatorConfiguration_ConcurrencyLimiting{ConcurrencyLimiting: &pb.ConcurrencyLimitingBlobReplicatorConfiguration{Base: out, MaximumConcurrency: 2}}}
		case "queued":
			out = &pb.BlobReplicatorConfiguration{Mode: &pb.BlobReplicatorConfiguration_Queued{Queued: &pb.QueuedBlobReplicatorConfiguration{Base: out, ExistenceCache: &digestpb.ExistenceCacheConfiguration{
				CacheSize:              16,
				CacheDuration:          durationpb.New(time.Hour),
				CacheReplacementPolicy: evictionpb.CacheReplacementPolicy_LEAST_RECENTLY_USED,
			}}}}
		}
	}
	return out
}

func genCfgRepl(t *rapid.T, label string) cfgRepl {
	var r cfgRepl
	if rapid.IntRange(0, 4).Draw(t, label+"/noop") == 0 {
		r.noop = true
		return r
	}
	n := rapid.IntRange(0, 2).Draw(t, label+"/depth")
	for i := 0; i < n; i++ {
		r.wrappers = append(r.wrappers, rapid.SampledFrom([]string{"deduplicating", "concurrency_limiting", "queued"}).Draw(t, label+"/wrapper"))
	}
	return r
}

func TestC11Configured(t *testing.T) {
	rapid.Check(t, func(t *rapid.T) {
		c := recConfigured.Begin()
		replAB := genCfgRepl(t, "AtoB")
		replBA := genCfgRepl(t, "BtoA")
		c.Add(replAB.String(), replBA.String())
		// copies[x]: the replicator INTO replica x (0 = A, 1 = B) copies.
		copies := [2]bool{!replBA.noop, !replAB.noop}

		nobj := rapid.IntRange(1, 5).Draw(t, "nobjects")
		payload := func(o int) []byte { return []byte(fmt.Sprintf("mirrored object %d", o)) }
		// Initial placement: bit 0 = on A, bit 1 = on B.
		place := make([]int, nobj)
		for o := range place {
			place[o] = rapid.IntRange(0, 3).Draw(t, "placement")
			c.Add(place[o])
		}
		type op struct {
			kind string
			objs []int
			inst []string
		}
		insts := []string{"", "x", "x/y"}
		nops := rapid.IntRange(1, 8).Draw(t, "nops")
		ops := make([]op, nops)
		for i := range ops {
			o := op{kind: rapid.SampledFrom([]string{"get", "get2", "put", "find", "find"}).Draw(t, "op")}
			k := 1
			if o.kind == "find" {
				k = rapid.IntRange(1, nobj).Draw(t, "k")
			}
			for x := 0; x < k; x++ {
				o.objs = append(o.objs, rapid.IntRange(0, nobj-1).Draw(t, "obj"))
				o.inst = append(o.inst, rapid.SampledFrom(insts).Draw(t, "instance"))
			}
			ops[i] = o
			c.Add(o.kind, o.objs, strings.Join(o.inst, ","))
		}

		cfg := &pb.BlobAccessConfiguration{Backend: &pb.BlobAccessConfiguration_WithLabels{WithLabels: &pb.WithLabelsBlobAccessConfiguration{
			Labels: map[string]*pb.BlobAccessConfiguration{"replicaA": cfgLocalLeaf(), "replicaB": cfgLocalLeaf()},
			Backend: &pb.BlobAccessConfiguration{Backend: &pb.BlobAccessConfiguration_Demultiplexing{Demultiplexing: &pb.DemultiplexingBlobAccessConfiguration{InstanceNamePrefixes: map[string]*pb.DemultiplexedBlobAccessConfiguration{
				"a": {Backend: cfgLabelRef("replicaA")},
				"b": {Backend: cfgLabelRef("replicaB")},
				"m": {Backend: &pb.BlobAccessConfiguration{Backend: &pb.BlobAccessConfiguration_Mirrored{Mirrored: &pb.MirroredBlobAccessConfiguration{
					BackendA:       cfgLabelRef("replicaA"),
					BackendB:       cfgLabelRef("replicaB"),
					ReplicatorAToB: replAB.config(),
					ReplicatorBToA: replBA.config(),
				}}}},
			}}}},
		}}}

		var oneSidedRead, repairObserved, syncObserved, oneSidedFind, absentRead int
		ctx := context.Background()
		err := program.RunLocal(ctx, func(ctx context.Context, siblings, deps program.Group) error {
			info, err := configuration.NewBlobAccessFromConfiguration(deps, cfg, configuration.NewCASBlobAccessCreator(nil, 1<<20, nil))
			if err != nil {
				return fmt.Errorf("harness/C11: NewBlobAccessFromConfiguration failed: %v", err)
			}
			var ba blobstore.BlobAccess = info.BlobAccess
			dig := func(prefix, inst string, o int) digest.Digest {
				n := prefix
				if inst != "" {
					n += "/" + inst
				}
				return hx.Sha(n, payload(o))
			}
			// holds: which replicas hold o right now (bit 0 = A, 1 = B),
			// read directly from the replicas.
			holds := func(o int) (int, error) {
				h := 0
				for x, p := range []string{"a", "b"} {
					missing, err := ba.FindMissing(ctx, dig(p, "", o).ToSingletonSet())
					if err != nil {
						return 0, fmt.Errorf("harness/C11: direct FindMissing on replica %s failed: %v", p, err)
					}
					if missing.Empty() {
						h |= 1 << x
					}
				}
				return h, nil
			}
			for o, pl := range place {
				for x, p := range []string{"a", "b"} {
					if pl&(1<<x) != 0 {
						d := dig(p, "", o)
						if err := ba.Put(ctx, d, buffer.NewCASBufferFromByteSlice(d, payload(o), buffer.UserProvided)); err != nil {
							return fmt.Errorf("harness/C11: direct Put into replica %s failed: %v", p, err)
						}
					}
				}
			}
			desc := func() string { return fmt.Sprintf("replicators A->B %s, B->A %s", replAB, replBA) }
			for _, o := range ops {
				switch o.kind {
				case "put":
					d := dig("m", o.inst[0], o.objs[0])
					if err := ba.Put(ctx, d, buffer.NewCASBufferFromByteSlice(d, payload(o.objs[0]), buffer.UserProvided)); err != nil {
						return fmt.Errorf("C11 (configured, %s): upload of object %d through the mirrored pair failed without any replica failure: %v", desc(), o.objs[0], err)
					}
					h, err := holds(o.objs[0])
					if err != nil {
						return err
					}
					if h != 3 {
						return fmt.Errorf("C11 (configured, %s): a successful upload through a mirrored pair is present in both replicas, but after the upload of object %d replica A holds it: %v, replica B holds it: %v", desc(), o.objs[0], h&1 != 0, h&2 != 0)
					}
				case "get", "get2":
					ob := o.objs[0]
					before, err := holds(ob)
					if err != nil {
						return err
					}
					reads := 1
					if o.kind == "get2" {
						reads = 2
					}
					for r := 0; r < reads; r++ {
						data, err := ba.Get(ctx, dig("m", o.inst[0], ob)).ToByteSlice(1 << 16)
						if before == 0 {
							if err == nil {
								return fmt.Errorf("C11 (configured, %s): Get of object %d returned %q although neither replica holds it", desc(), ob, data)
							}
							continue
						}
						if err != nil {
							return fmt.Errorf("C11 (configured, %s): a read returns the object whenever at least one replica holds it, but Get of object %d (A holds: %v, B holds: %v) failed: %v", desc(), ob, before&1 != 0, before&2 != 0, err)
						}
						if string(data) != string(payload(ob)) {
							return fmt.Errorf("C11 (configured, %s): Get of object %d returned %q", desc(), ob, data)
						}
					}
					after, err := holds(ob)
					if err != nil {
						return err
					}
					if after&before != before {
						return fmt.Errorf("C11 (configured, %s): reading object %d removed it from a replica (held before: %02b, after: %02b; bit 0 = A)", desc(), ob, before, after)
					}
					if before == 0 {
						absentRead++
						if after != 0 {
							return fmt.Errorf("C11 (configured, %s): a failed read of object %d, which no replica held, left it on a replica (%02b)", desc(), ob, after)
						}
					}
					if before == 1 || before == 2 {
						oneSidedRead++
						lacking := 0 // index of the replica that lacked it
						if before == 1 {
							lacking = 1
						}
						if after == 3 {
							repairObserved++
						}
						// Two consecutive reads start at different replicas
						// (the replica consulted first alternates), so one
						// of them consulted the lacking replica first and
						// must have copied the object into it.
						if reads == 2 && copies[lacking] && after != 3 {
							return fmt.Errorf("C11 (configured, %s): a read copies the object to the replica consulted first if that one lacked it: object %d was held only by replica %s, two consecutive reads through the pair succeeded (they start at different replicas), but replica %s still lacks it", desc(), ob, "AB"[1-lacking:2-lacking], "AB"[lacking:lacking+1])
						}
					}
				case "find":
					sb := digest.NewSetBuilder(0)
					before := map[int]int{}
					for x, ob := range o.objs {
						sb.Add(dig("m", o.inst[x], ob))
						h, err := holds(ob)
						if err != nil {
							return err
						}
						before[ob] = h
					}
					missing, err := ba.FindMissing(ctx, sb.Build())
					if err != nil {
						return fmt.Errorf("C11 (configured, %s): FindMissing over %v failed although both replicas are healthy and consistent (held before, per object: %v): %v", desc(), sb.Build().Items(), before, err)
					}
					got := map[string]bool{}
					for _, d := range missing.Items() {
						got[d.GetKey(digest.KeyWithInstance)] = true
					}
					for x, ob := range o.objs {
						k := dig("m", o.inst[x], ob).GetKey(digest.KeyWithInstance)
						if got[k] != (before[ob] == 0) {
							return fmt.Errorf("C11 (configured, %s): an existence check reports an object missing only if (and, with healthy replicas, whenever) both replicas lack it: object %d (A holds: %v, B holds: %v) reported missing: %v", desc(), ob, before[ob]&1 != 0, before[ob]&2 != 0, got[k])
						}
					}
					for ob, b := range before {
						after, err := holds(ob)
						if err != nil {
							return err
						}
						if after&b != b {
							return fmt.Errorf("C11 (configured, %s): FindMissing removed object %d from a replica (%02b -> %02b)", desc(), ob, b, after)
						}
						if b == 1 || b == 2 {
							oneSidedFind++
							lacking := 0
							if b == 1 {
								lacking = 1
							}
							if after == 3 {
								syncObserved++
							}
							if copies[lacking] && after != 3 {
								return fmt.Errorf("C11 (configured, %s): a successful existence check has copied every object held by exactly one replica to the other, but object %d, held only by replica %s, is still missing from replica %s", desc(), ob, "AB"[1-lacking:2-lacking], "AB"[lacking:lacking+1])
							}
						}
						if b == 0 && after != 0 {
							return fmt.Errorf("C11 (configured, %s): FindMissing created object %d, which no replica held (%02b)", desc(), ob, after)
						}
					}
				}
			}
			return nil
		})
		if err != nil {
			t.Fatalf("%v", err)
		}
		c.ClassIf(replAB.noop || replBA.noop, "a_noop_replicator")
		c.ClassIf(len(replAB.wrappers)+len(replBA.wrappers) > 0, "wrapped_replicator")
		c.ClassIf(replAB.String() != replBA.String(), "replicators_differ_per_direction")
		c.ClassIf(oneSidedRead > 0, "read_of_object_held_by_one_replica")
		c.ClassIf(repairObserved > 0, "read_repair_observed")
		c.ClassIf(oneSidedFind > 0, "findmissing_over_object_held_by_one_replica")
		c.ClassIf(syncObserved > 0, "findmissing_synchronisation_observed")
		c.ClassIf(absentRead > 0, "read_of_absent_object")
		if repairObserved > 0 || syncObserved > 0 {
			c.NonTrivial()
		}
		c.Sample(func() string {
			return fmt.Sprintf("A->B %s, B->A %s, placements %v, %d ops, repairs %d, syncs %d", replAB, replBA, place, nops, repairObserved, syncObserved)
		})
		c.End()
	})
}
