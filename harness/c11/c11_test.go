package c11

import (
	"bytes"
	"context"
	"fmt"
	"io"
	"os"
	"regexp"
	"runtime/debug"
	"sort"
	"strings"
	"sync"
	"testing"
	"time"

	remoteexecution "github.com/bazelbuild/remote-apis/build/bazel/remote/execution/v2"
	"github.com/buildbarn/bb-storage/pkg/blobstore"
	"github.com/buildbarn/bb-storage/pkg/blobstore/buffer"
	"github.com/buildbarn/bb-storage/pkg/blobstore/mirrored"
	"github.com/buildbarn/bb-storage/pkg/blobstore/slicing"
	"github.com/buildbarn/bb-storage/pkg/digest"
	"google.golang.org/grpc/codes"
	"google.golang.org/grpc/status"
	"google.golang.org/protobuf/encoding/prototext"
	"google.golang.org/protobuf/proto"
	"pgregory.net/rapid"

	"verif/harness/backends"
	"verif/harness/hx"
	"verif/harness/vstats"
)

func TestMain(m *testing.M) {
	rc := m.Run()
	vstats.Flush()
	os.Exit(rc)
}

// ---------------------------------------------------------------------
// shaper: decides what KIND of buffer a replica's Get returns. A real
// replica is not a byte-slice store: a local store returns reader-backed
// buffers and, when the object sits in an "old" block, a buffer with an
// attached background task that copies a clone of the stream
// (flat_blob_access.go Get). Mid-stream read failures are produced here
// too.
// ---------------------------------------------------------------------

type shape struct {
	Stream    bool // reader-backed CAS buffer instead of a validated byte slice
	Refresh   bool // b1.WithTask(consume b2) with b1,b2 := b.CloneStream()
	FailAfter int  // >=0: the reader fails after that many bytes (mod len+1)
	Code      codes.Code
	Chunk     int
}

func (s shape) String() string {
	switch {
	case s.FailAfter >= 0:
		return fmt.Sprintf("midfail(%d,%s,refresh=%v)", s.FailAfter, s.Code, s.Refresh)
	case s.Refresh:
		return "refresh"
	case s.Stream:
		return "stream"
	}
	return "slice"
}

type shaper struct {
	*backends.Mem
	name   string
	shapes []shape

	// Inconsistent-replica behaviour (see inconsCfg). stale: keys that this
	// replica's FindMissing reports present no matter what it stores (the
	// replica sits behind a stale existence cache). evictAt: the object
	// disappears from the replica at the moment its n-th Get (counted per
	// key, over the Gets that reach the replica) arrives: evicted between
	// an existence check and the copy.
	stale   map[string]bool
	evictAt map[string]int

	mu       sync.Mutex
	gets     int
	midFired []int // Get call numbers whose stream returned the injected error
	keyGets  map[string]int
	events   []inconsEvent   // Gets answered NOT_FOUND for an object the replica vouched for
	evicted  map[string]bool // keys the harness evicted from this replica so far
}

// inconsEvent: a Get at this replica was answered NOT_FOUND although the
// replica's own existence check vouches (stale) or vouched until this very
// moment (evicted) for the object.
type inconsEvent struct {
	key     string
	evicted bool // the object was removed at this Get; false: a stale-cache ghost
}

type failingReader struct {
	data      []byte
	off       int
	chunk     int
	failAfter int
	err       error
	onFire    func()
	fired     bool
}

func (r *failingReader) Read(p []byte) (int, error) {
	if r.failAfter >= 0 && r.off >= r.failAfter {
		if !r.fired {
			r.fired = true
			r.onFire()
		}
		return 0, r.err
	}
	if r.off >= len(r.data) {
		return 0, io.EOF
	}
	n := len(p)
	if r.chunk > 0 && r.chunk < n {
		n = r.chunk
	}
	if rem := len(r.data) - r.off; n > rem {
		n = rem
	}
	if r.failAfter >= 0 && r.off+n > r.failAfter {
		n = r.failAfter - r.off
	}
	copy(p, r.data[r.off:r.off+n])
	r.off += n
	return n, nil
}

func (r *failingReader) Close() error { return nil }

func (s *shaper) midText() string { return "injected mid-stream fault at " + s.name }

func (s *shaper) Get(ctx context.Context, d digest.Digest) buffer.Buffer {
	key := d.GetKey(s.Mem.KeyFormat)
	s.mu.Lock()
	no := s.gets
	s.gets++
	kn := s.keyGets[key]
	s.keyGets[key] = kn + 1
	at, scheduled := s.evictAt[key]
	if scheduled && at == kn && s.Mem.Has(d) {
		s.Mem.Delete(d)
		s.evicted[key] = true
		s.events = append(s.events, inconsEvent{key: key, evicted: true})
	} else if s.stale[key] && !s.Mem.Has(d) {
		s.events = append(s.events, inconsEvent{key: key})
	}
	s.mu.Unlock()
	data, ok := s.Mem.Peek(d)
	if !ok || len(s.shapes) == 0 {
		return s.Mem.Get(ctx, d)
	}
	sh := s.shapes[no%len(s.shapes)]
	if !sh.Stream && !sh.Refresh && sh.FailAfter < 0 {
		return s.Mem.Get(ctx, d)
	}
	r := &failingReader{data: data, chunk: sh.Chunk, failAfter: -1}
	if sh.FailAfter >= 0 {
		r.failAfter = sh.FailAfter % (len(data) + 1)
		r.err = status.Error(sh.Code, s.midText())
		r.onFire = func() {
			s.mu.Lock()
			s.midFired = append(s.midFired, no)
			s.mu.Unlock()
		}
	}
	b := buffer.NewCASBufferFromReader(d, r, buffer.BackendProvided(buffer.Irreparable(d)))
	if !sh.Refresh {
		return b
	}
	// What a local store does for an object that needs refreshing.
	b1, b2 := b.CloneStream()
	return b1.WithTask(func() error {
		return b2.IntoWriter(io.Discard)
	})
}

func (s *shaper) GetFromComposite(ctx context.Context, parent, child digest.Digest, slicer slicing.BlobSlicer) buffer.Buffer {
	b, _ := slicer.Slice(s.Get(ctx, parent), child)
	return b
}

// FindMissing: what the replica really lacks, minus what its stale
// existence cache vouches for.
func (s *shaper) FindMissing(ctx context.Context, ds digest.Set) (digest.Set, error) {
	missing, err := s.Mem.FindMissing(ctx, ds)
	if err != nil || len(s.stale) == 0 {
		return missing, err
	}
	sb := digest.NewSetBuilder(0)
	for _, d := range missing.Items() {
		if !s.stale[d.GetKey(s.Mem.KeyFormat)] {
			sb.Add(d)
		}
	}
	return sb.Build(), nil
}

func (s *shaper) counts() (gets, mid, events int) {
	s.mu.Lock()
	defer s.mu.Unlock()
	return s.gets, len(s.midFired), len(s.events)
}

func (s *shaper) wasEvicted(key string) bool {
	s.mu.Lock()
	defer s.mu.Unlock()
	return s.evicted[key]
}

// inconsCfg is the generated inconsistency of one replica, per pool index.
type inconsCfg struct {
	Stale   []int       // pool indices vouched for by the stale existence cache
	EvictAt map[int]int // pool index -> ordinal of the Get of that object at which it disappears
}

func (c inconsCfg) empty() bool { return len(c.Stale) == 0 && len(c.EvictAt) == 0 }

func (c inconsCfg) String() string {
	if c.empty() {
		return "consistent"
	}
	var ev []string
	for j, n := range c.EvictAt {
		ev = append(ev, fmt.Sprintf("o%d@get%d", j, n))
	}
	sort.Strings(ev)
	return fmt.Sprintf("{stale=%v evict=%v}", c.Stale, ev)
}

// genIncons draws which replicas are inconsistent in this case and how.
// 2 of 5 cases have two consistent replicas (the original domain).
func genIncons(t *rapid.T, npool int) [2]inconsCfg {
	var out [2]inconsCfg
	who := rapid.IntRange(0, 4).Draw(t, "incons/who") // 0,1: nobody; 2: A; 3: B; 4: both
	for i, label := range []string{"A", "B"} {
		out[i].EvictAt = map[int]int{}
		if !(who == 4 || who == 2+i) {
			continue
		}
		for j := 0; j < npool; j++ {
			k := rapid.IntRange(0, 3).Draw(t, fmt.Sprintf("incons/%s/o%d", label, j))
			if k == 1 || k == 3 {
				out[i].Stale = append(out[i].Stale, j)
			}
			if k == 2 || k == 3 {
				out[i].EvictAt[j] = rapid.SampledFrom([]int{0, 0, 0, 0, 1, 1, 2, 3}).Draw(t, fmt.Sprintf("incons/%s/o%d/at", label, j))
			}
		}
	}
	return out
}

// rangeSlicer extracts [off, off+ln) of the parent as the child object.
type rangeSlicer struct{ off, ln int }

func (s rangeSlicer) Slice(b buffer.Buffer, child digest.Digest) (buffer.Buffer, []slicing.BlobSlice) {
	data, err := b.ToByteSlice(1 << 20)
	if err != nil {
		return buffer.NewBufferFromError(err), nil
	}
	return buffer.NewCASBufferFromByteSlice(child, data[s.off:s.off+s.ln], buffer.BackendProvided(buffer.Irreparable(child))), nil
}

// ---------------------------------------------------------------------
// generators
// ---------------------------------------------------------------------

var faultCodes = []codes.Code{codes.Unavailable, codes.Internal, codes.DeadlineExceeded, codes.ResourceExhausted, codes.PermissionDenied, codes.Unknown, codes.Aborted}

func genRepl(t *rapid.T, label string, depth int, allowNoop bool) *backends.ReplCfg {
	max := 4
	if depth <= 0 {
		max = 1
	}
	k := rapid.IntRange(0, max).Draw(t, label+"/kind")
	switch k {
	case 0:
		return &backends.ReplCfg{Kind: "local"}
	case 1:
		if allowNoop && rapid.IntRange(0, 2).Draw(t, label+"/noop") == 0 {
			return &backends.ReplCfg{Kind: "noop"}
		}
		return &backends.ReplCfg{Kind: "local"}
	case 2:
		return &backends.ReplCfg{Kind: "deduplicating", Base: genRepl(t, label+".b", depth-1, false)}
	case 3:
		return &backends.ReplCfg{Kind: "concurrency_limiting", N: int64(rapid.IntRange(1, 3).Draw(t, label+"/n")),
			Base: genRepl(t, label+".b", depth-1, false)}
	default:
		return &backends.ReplCfg{Kind: "queued",
			CacheSize:     rapid.IntRange(1, 4).Draw(t, label+"/cachesize"),
			CacheDuration: time.Duration(rapid.IntRange(0, 3).Draw(t, label+"/cachedur")) * time.Second,
			Policy:        rapid.SampledFrom([]string{"fifo", "lru"}).Draw(t, label+"/policy"),
			Base:          genRepl(t, label+".b", depth-1, false)}
	}
}

func genShapes(t *rapid.T, label string) []shape {
	n := rapid.IntRange(0, 4).Draw(t, label+"/nshapes")
	out := make([]shape, 0, n)
	for i := 0; i < n; i++ {
		k := rapid.IntRange(0, 6).Draw(t, fmt.Sprintf("%s/shape%d", label, i))
		sh := shape{FailAfter: -1, Chunk: rapid.IntRange(0, 9).Draw(t, fmt.Sprintf("%s/chunk%d", label, i))}
		switch k {
		case 0, 1:
		case 2, 3:
			sh.Stream = true
		case 4, 5:
			sh.Stream, sh.Refresh = true, true
		default:
			sh.Stream = true
			sh.Refresh = rapid.Bool().Draw(t, fmt.Sprintf("%s/midrefresh%d", label, i))
			sh.FailAfter = rapid.IntRange(0, 70).Draw(t, fmt.Sprintf("%s/failafter%d", label, i))
			sh.Code = rapid.SampledFrom(faultCodes).Draw(t, fmt.Sprintf("%s/midcode%d", label, i))
		}
		out = append(out, sh)
	}
	return out
}

// faultKey addresses the N-th call of one operation kind at one replica.
// Numbering per operation kind (not per replica) keeps a case
// deterministic: during FindMissing the two replication directions run in
// parallel, so a replica sees Gets from one goroutine and
// FindMissing/Puts from another, but calls of one kind arrive in order.
type faultKey struct {
	Op string
	N  int
}

type faultScript map[faultKey]codes.Code

func genScript(t *rapid.T, label string) faultScript {
	n := rapid.IntRange(0, 3).Draw(t, label+"/nfaults")
	out := faultScript{}
	for i := 0; i < n; i++ {
		op := rapid.SampledFrom([]string{"Get", "Get", "GetFromComposite", "Put", "FindMissing"}).Draw(t, fmt.Sprintf("%s/op%d", label, i))
		at := rapid.IntRange(0, 6).Draw(t, fmt.Sprintf("%s/at%d", label, i))
		out[faultKey{op, at}] = rapid.SampledFrom(faultCodes).Draw(t, fmt.Sprintf("%s/code%d", label, i))
		// Bursts: the next call of the same kind (a repetition of the
		// failed one, for instance) fails as well, in 1 of 4 cases.
		for j := 1; j <= rapid.SampledFrom([]int{0, 0, 0, 0, 0, 0, 1, 2}).Draw(t, fmt.Sprintf("%s/burst%d", label, i)); j++ {
			out[faultKey{op, at + j}] = rapid.SampledFrom(faultCodes).Draw(t, fmt.Sprintf("%s/code%d+%d", label, i, j))
		}
	}
	return out
}

func scriptString(m faultScript) string {
	ks := make([]string, 0, len(m))
	for k, c := range m {
		ks = append(ks, fmt.Sprintf("%s#%d:%s", k.Op, k.N, c))
	}
	sort.Strings(ks)
	return "{" + strings.Join(ks, " ") + "}"
}

// scripted fails the calls named by its script with the scripted code
// (never NOT_FOUND) before they reach the replica, and remembers which
// faults fired.
type scripted struct {
	blobstore.BlobAccess
	name   string
	script faultScript

	mu     sync.Mutex
	counts map[string]int
	fired  []faultKey
}

func (f *scripted) next(op string) error {
	f.mu.Lock()
	defer f.mu.Unlock()
	k := faultKey{op, f.counts[op]}
	f.counts[op]++
	if code, ok := f.script[k]; ok {
		f.fired = append(f.fired, k)
		return status.Error(code, "injected fault at "+f.name)
	}
	return nil
}

func (f *scripted) snapshot() (map[string]int, int) {
	f.mu.Lock()
	defer f.mu.Unlock()
	c := map[string]int{}
	for k, v := range f.counts {
		c[k] = v
	}
	return c, len(f.fired)
}

func (f *scripted) Get(ctx context.Context, d digest.Digest) buffer.Buffer {
	if err := f.next("Get"); err != nil {
		return buffer.NewBufferFromError(err)
	}
	return f.BlobAccess.Get(ctx, d)
}

func (f *scripted) GetFromComposite(ctx context.Context, p, c digest.Digest, s slicing.BlobSlicer) buffer.Buffer {
	if err := f.next("GetFromComposite"); err != nil {
		return buffer.NewBufferFromError(err)
	}
	return f.BlobAccess.GetFromComposite(ctx, p, c, s)
}

func (f *scripted) Put(ctx context.Context, d digest.Digest, b buffer.Buffer) error {
	if err := f.next("Put"); err != nil {
		b.Discard()
		return err
	}
	return f.BlobAccess.Put(ctx, d, b)
}

func (f *scripted) FindMissing(ctx context.Context, ds digest.Set) (digest.Set, error) {
	if err := f.next("FindMissing"); err != nil {
		return digest.EmptySet, err
	}
	return f.BlobAccess.FindMissing(ctx, ds)
}

type object struct {
	inst string
	data []byte
	d    digest.Digest
	// msg != nil: data is the serialization of this message (a Directory,
	// Action or ActionResult stored as a CAS blob), so that a read of the
	// object can be consumed with Buffer.ToProto.
	msg proto.Message
}

// protoObject returns the i-th message of ln "units" and its
// serialization. The messages of different pool indices differ.
func protoObject(i, ln int) (proto.Message, []byte) {
	name := fmt.Sprintf("o%d-%s", i, strings.Repeat("n", ln))
	var m proto.Message
	switch i % 3 {
	case 0:
		m = &remoteexecution.Directory{Files: []*remoteexecution.FileNode{{Name: name, IsExecutable: ln%2 == 1}}}
	case 1:
		m = &remoteexecution.Action{DoNotCache: true, Salt: []byte(name)}
	default:
		m = &remoteexecution.ActionResult{ExitCode: int32(ln + 1), StdoutRaw: []byte(name)}
	}
	data, err := proto.MarshalOptions{Deterministic: true}.Marshal(m)
	if err != nil {
		panic(err)
	}
	return m, data
}

var lengths = []int{0, 1, 2, 5, 8, 9, 31, 64}

func genPool(t *rapid.T, kf digest.KeyFormat) []object {
	n := rapid.IntRange(1, 5).Draw(t, "nobj")
	pool := make([]object, 0, n)
	for i := 0; i < n; i++ {
		// Instance-name-aware replicas: sometimes the same blob under the
		// other instance name (a different object for such replicas, placed
		// independently, but equal in hash and size).
		if kf == digest.KeyWithInstance && i > 0 && rapid.IntRange(0, 3).Draw(t, fmt.Sprintf("obj%d/twin", i)) == 0 {
			src := pool[rapid.IntRange(0, i-1).Draw(t, fmt.Sprintf("obj%d/twinof", i))]
			inst := "x"
			if src.inst == "x" {
				inst = ""
			}
			d := hx.Sha(inst, src.data)
			dup := false
			for _, o := range pool {
				dup = dup || o.d == d
			}
			if !dup {
				pool = append(pool, object{inst: inst, data: src.data, d: d, msg: src.msg})
				continue
			}
		}
		ln := rapid.SampledFrom(lengths).Draw(t, fmt.Sprintf("obj%d/len", i))
		var data []byte
		var msg proto.Message
		switch {
		case i == 0 && ln == 0:
			// the empty blob, which is also the serialization of any
			// message without fields set
			msg = &remoteexecution.Directory{}
		case rapid.IntRange(0, 2).Draw(t, fmt.Sprintf("obj%d/proto", i)) == 0:
			msg, data = protoObject(i, ln)
		default:
			// distinct per index, so that every object has its own key
			data = []byte(fmt.Sprintf("o%d:", i))
			for j := 0; j < ln; j++ {
				data = append(data, byte('a'+(i*7+j)%26))
			}
		}
		inst := rapid.SampledFrom([]string{"", "x"}).Draw(t, fmt.Sprintf("obj%d/inst", i))
		pool = append(pool, object{inst: inst, data: data, d: hx.Sha(inst, data), msg: msg})
	}
	return pool
}

// readArgs are the additional arguments of the consumption methods ToProto
// and ReadAt.
type readArgs struct {
	msg     proto.Message // ToProto: the message the object is the serialization of
	full    []byte        // the complete contents the read is expected to have
	off, ln int           // partial ReadAt: range (may extend past the end)
}

// wanted is what a successful consumption with that method returns.
func (a readArgs) wanted(method int) []byte {
	if method != methodReadAtPartial {
		return a.full
	}
	end := a.off + a.ln
	if end > len(a.full) {
		end = len(a.full)
	}
	return a.full[a.off:end]
}

const (
	methodToProto       = 4
	methodReadAtFull    = 5
	methodReadAtPartial = 6
)

// methodChoices: the distribution consumption methods are drawn from.
var methodChoices = []int{0, 1, 2, 3, methodToProto, methodToProto, methodReadAtFull, methodReadAtPartial}

// consume reads a buffer with the given method: to the end, except for
// the partial ReadAt.
func consume(b buffer.Buffer, method, chunk int, a readArgs) ([]byte, error) {
	if chunk <= 0 {
		chunk = 1
	}
	switch method {
	case methodToProto:
		m, err := b.ToProto(a.msg.ProtoReflect().New().Interface(), 1<<20)
		if err != nil {
			return nil, err
		}
		if m == nil {
			return []byte("ToProto returned a nil message and no error"), nil
		}
		if !proto.Equal(m, a.msg) {
			return []byte("ToProto returned " + prototext.MarshalOptions{}.Format(m)), nil
		}
		return a.full, nil
	case methodReadAtFull, methodReadAtPartial:
		// Full range: a slice of exactly the object's size, or one byte
		// more (the read then runs into the end of the object).
		off, p := 0, make([]byte, len(a.full)+chunk%2)
		if method == methodReadAtPartial {
			off, p = a.off, make([]byte, a.ln)
		}
		n, err := b.ReadAt(p, int64(off))
		if err != nil && err != io.EOF {
			return nil, err
		}
		return p[:n], nil
	}
	switch method {
	case 0:
		return b.ToByteSlice(1 << 20)
	case 1:
		r := b.ToReader()
		var out []byte
		p := make([]byte, chunk)
		var rerr error
		for {
			n, err := r.Read(p)
			out = append(out, p[:n]...)
			if err == io.EOF {
				break
			}
			if err != nil {
				rerr = err
				break
			}
		}
		cerr := r.Close()
		if rerr != nil {
			return nil, rerr
		}
		if cerr != nil {
			return nil, cerr
		}
		return out, nil
	case 2:
		var w bytes.Buffer
		if err := b.IntoWriter(&w); err != nil {
			return nil, err
		}
		return w.Bytes(), nil
	default:
		r := b.ToChunkReader(0, chunk)
		var out []byte
		for {
			c, err := r.Read()
			if err == io.EOF {
				break
			}
			if err != nil {
				r.Close()
				return nil, err
			}
			out = append(out, c...)
		}
		r.Close()
		return out, nil
	}
}

var methodNames = []string{"ToByteSlice", "ToReader", "IntoWriter", "ToChunkReader", "ToProto", "ReadAt(all)", "ReadAt(part)"}

// opDeadline bounds one operation on the pair (wall clock). The model
// replicas never block, so an operation that is still running after this
// long is blocked inside the code under test (e.g. waiting for a replication
// slot that an earlier, failed replication never gave back).
const opDeadline = 20 * time.Second

// noPanic runs one operation of the code under test and turns a panic
// in the calling goroutine into a reported violation (no draws happen
// inside f, so rapid's own control-flow panics cannot be swallowed).
func noPanic(t *rapid.T, what func() string, f func()) {
	defer func() {
		if r := recover(); r != nil {
			var frames []string
			for _, l := range strings.Split(string(debug.Stack()), "\n") {
				if strings.Contains(l, "/pkg/") && strings.Contains(l, ".go:") && !strings.Contains(l, "/src/runtime/") {
					frames = append(frames, strings.TrimSpace(l))
				}
			}
			if len(frames) > 8 {
				frames = frames[:8]
			}
			t.Fatalf("%s PANICKED: %v\n    at %s", what(), r, strings.Join(frames, "\n    at "))
		}
	}()
	f()
}

// ---------------------------------------------------------------------
// the replica pair and per-operation observation
// ---------------------------------------------------------------------

type replica struct {
	label  string // "A" / "B": name in the call log and in "Backend A"
	mem    *backends.Mem
	shaper *shaper
	faulty *scripted
	rec    *backends.Recorder
}

func newReplica(label string, kf digest.KeyFormat, shapes []shape, script faultScript, log *backends.Log, pool []object, inc inconsCfg) *replica {
	r := &replica{label: label}
	lower := "r" + strings.ToLower(label) // must not contain "Backend A"
	r.mem = backends.NewMem(lower, kf)
	r.shaper = &shaper{Mem: r.mem, name: lower, shapes: shapes,
		stale: map[string]bool{}, evictAt: map[string]int{}, keyGets: map[string]int{}, evicted: map[string]bool{}}
	for _, j := range inc.Stale {
		r.shaper.stale[pool[j].d.GetKey(kf)] = true
	}
	for j, n := range inc.EvictAt {
		r.shaper.evictAt[pool[j].d.GetKey(kf)] = n
	}
	r.faulty = &scripted{BlobAccess: r.shaper, name: lower, script: script, counts: map[string]int{}}
	r.rec = backends.NewRecorder(label, r.faulty, log)
	return r
}

// mark is the state of the observation counters at the start of an op.
type mark struct {
	logLen int
	counts [2]map[string]int // per replica: calls so far per operation kind
	fired  [2]int            // per replica: len(fired)
	gets   [2]int            // per replica: shaper Get number
	mid    [2]int            // per replica: len(midFired)
	events [2]int            // per replica: len(shaper.events)
}

// observed is what happened at the replicas during one op.
type observed struct {
	calls      []backends.Call
	firstFault [2]bool // the replica's first call of this op failed (up front), or its first Get failed mid-stream
	anyFault   [2]bool
	codes      map[codes.Code]bool
	contacted  [2]bool
	midFired   int
	// incons[i]: Gets of this op that replica i answered NOT_FOUND for an
	// object it vouched for (stale ghost, or evicted at that very Get)
	incons [2][]inconsEvent
}

type pair struct {
	r   [2]*replica
	log *backends.Log
}

func (p *pair) mark() mark {
	var m mark
	m.logLen = len(p.log.Snapshot())
	for i, r := range p.r {
		m.counts[i], m.fired[i] = r.faulty.snapshot()
		m.gets[i], m.mid[i], m.events[i] = r.shaper.counts()
	}
	return m
}

// observe collects what happened since m. midFirst: a mid-stream failure
// of a replica's first Get of this op counts as "its first call failed"
// (reads only).
func (p *pair) observe(m mark, midFirst bool) observed {
	o := observed{codes: map[codes.Code]bool{}}
	snap := p.log.Snapshot()
	o.calls = snap[m.logLen:]
	for i, r := range p.r {
		// the replica's first call in this op (always issued before any
		// concurrency starts at that replica)
		firstOp := ""
		for _, c := range o.calls {
			if c.Backend == r.label && c.Op != "GetCapabilities" {
				firstOp = c.Op
				break
			}
		}
		o.contacted[i] = firstOp != ""
		r.faulty.mu.Lock()
		for _, k := range r.faulty.fired[m.fired[i]:] {
			o.anyFault[i] = true
			o.codes[r.faulty.script[k]] = true
			if k.Op == firstOp && k.N == m.counts[i][firstOp] {
				o.firstFault[i] = true
			}
		}
		r.faulty.mu.Unlock()
		r.shaper.mu.Lock()
		for _, getNo := range r.shaper.midFired[m.mid[i]:] {
			o.anyFault[i] = true
			o.midFired++
			o.codes[r.shaper.shapes[getNo%len(r.shaper.shapes)].Code] = true
			if midFirst && getNo == m.gets[i] {
				o.firstFault[i] = true
			}
		}
		o.incons[i] = append([]inconsEvent(nil), r.shaper.events[m.events[i]:]...)
		r.shaper.mu.Unlock()
	}
	return o
}

func (o observed) any() bool { return o.anyFault[0] || o.anyFault[1] }

// inconsistent: some replica answered NOT_FOUND during this op for an
// object it vouched for.
func (o observed) inconsistent() bool { return len(o.incons[0])+len(o.incons[1]) > 0 }

// evictedNow: the harness evicted that key from replica i during this op.
func (o observed) evictedNow(i int, key string) bool {
	for _, e := range o.incons[i] {
		if e.evicted && e.key == key {
			return true
		}
	}
	return false
}

// namesReplica: the message names the replica somewhere ("Backend A: ...",
// "Backend A returned inconsistent results ...", "... from backend A to
// ...", "replica A ..."). The property demands an error NAMING the replica;
// the wording and the position of the name are the implementation's.
var replicaNameRE = [2]*regexp.Regexp{
	regexp.MustCompile(`(?i)\b(backend|replica)[\s_-]*a\b`),
	regexp.MustCompile(`(?i)\b(backend|replica)[\s_-]*b\b`),
}

func namesReplica(err error, i int) bool {
	return replicaNameRE[i].MatchString(status.Convert(err).Message())
}

func (o observed) String() string {
	parts := make([]string, 0, len(o.calls))
	for _, c := range o.calls {
		parts = append(parts, c.Backend+"."+c.Op)
	}
	return fmt.Sprintf("calls=%v faultAtFirstCall=%v anyFault=%v vouchedButNotFound=[A:%d B:%d]", parts, o.firstFault, o.anyFault, len(o.incons[0]), len(o.incons[1]))
}

// carriesInjected: the error is recognisably (a wrapping of) one of the
// faults that fired during this op. Never demanded (the property fixes
// neither the code nor the text of the surfaced error); only used to tell
// an injected failure from an inconsistency report when both happened.
func carriesInjected(err error, o observed) bool {
	return o.codes[status.Code(err)] && strings.Contains(status.Convert(err).Message(), "injected ")
}

var recMirrored = vstats.New("TestC11Mirrored")

// TestC11Mirrored drives NewMirroredBlobAccess, wired like
// configuration/new_blob_access.go does, over two model replicas.
func TestC11Mirrored(t *testing.T) { mirroredProperty(t, recMirrored) }

var recMirroredRace = vstats.New("TestC11MirroredRace")

// TestC11MirroredRace is the same property; the driver runs it from a -race
// binary (thorough tier): Put, FindMissing and read repair run replica
// calls and buffer clones in parallel goroutines.
func TestC11MirroredRace(t *testing.T) { mirroredProperty(t, recMirroredRace) }

func mirroredProperty(t *testing.T, rec *vstats.Recorder) {
	rapid.Check(t, func(t *rapid.T) {
		c := rec.Begin()
		kf := digest.KeyWithoutInstance
		if rapid.Bool().Draw(t, "keyWithInstance") {
			kf = digest.KeyWithInstance
		}
		cfgAB := genRepl(t, "AtoB", 2, true)
		cfgBA := genRepl(t, "BtoA", 2, true)
		pool := genPool(t, kf)
		log := &backends.Log{}
		shapesA, shapesB := genShapes(t, "A"), genShapes(t, "B")
		scriptA, scriptB := genScript(t, "A"), genScript(t, "B")
		incons := genIncons(t, len(pool))
		p := &pair{log: log}
		p.r[0] = newReplica("A", kf, shapesA, scriptA, log, pool, incons[0])
		p.r[1] = newReplica("B", kf, shapesB, scriptB, log, pool, incons[1])
		clk := hx.NewVClock()
		replAB := cfgAB.Build(p.r[0].rec, p.r[1].rec, kf, clk)
		replBA := cfgBA.Build(p.r[1].rec, p.r[0].rec, kf, clk)
		// copies[i]: the replicator that copies INTO replica i really copies
		copies := [2]bool{!cfgBA.IsNoop(), !cfgAB.IsNoop()}
		// remembers[i]: the replicator stack into replica i contains a
		// queued replicator, which remembers (frozen clock: forever) what
		// it copied and does not copy it again.
		remembers := [2]bool{strings.Contains(cfgBA.String(), "queued"), strings.Contains(cfgAB.String(), "queued")}
		ba := mirrored.NewMirroredBlobAccess(p.r[0].rec, p.r[1].rec, replAB, replBA)
		ctx := context.Background()

		poolKeys := map[string]int{}
		placement := make([]int, len(pool))
		for i, o := range pool {
			poolKeys[o.d.GetKey(kf)] = i
			placement[i] = rapid.IntRange(0, 3).Draw(t, fmt.Sprintf("obj%d/placement", i)) // bit0: A, bit1: B
			if placement[i]&1 != 0 {
				p.r[0].mem.Set(o.d, o.data)
			}
			if placement[i]&2 != 0 {
				p.r[1].mem.Set(o.d, o.data)
			}
			c.Add(o.inst, o.data, placement[i])
		}
		c.Add(int(kf), cfgAB.String(), cfgBA.String(), fmt.Sprint(shapesA), fmt.Sprint(shapesB), scriptString(scriptA), scriptString(scriptB))
		c.Add(incons[0].String(), incons[1].String())
		c.Class("repl_" + cfgAB.Kind)
		c.Class("repl_" + cfgBA.Kind)
		for i, o := range pool {
			for _, o2 := range pool[:i] {
				if bytes.Equal(o.data, o2.data) && o.inst != o2.inst {
					c.Class("same_blob_under_two_instance_names")
				}
			}
		}
		for i, r := range p.r {
			if !incons[i].empty() {
				c.Class("inconsistent_replica_" + r.label)
			}
		}

		has := func(i int, o object) bool { return p.r[i].mem.Has(o.d) }
		key := func(o object) string { return o.d.GetKey(kf) }
		// vouches: replica i's own existence check reports the object
		// present (it holds it, or its stale cache says so).
		vouches := func(i int, o object) bool { return has(i, o) || p.r[i].shaper.stale[key(o)] }
		// copiesInto: a repair / synchronisation of o into replica i can be
		// expected to store o there. Not when the replicator is noop, and
		// not when a queued replicator may remember having copied o before
		// the replica lost it again.
		copiesInto := func(i int, o object) bool {
			return copies[i] && !(remembers[i] && p.r[i].shaper.wasEvicted(key(o)))
		}

		// invariants over the replicas' contents, checked after every op
		checkContents := func(what string, before [][2]bool, obs observed) {
			for i, r := range p.r {
				for _, k := range r.mem.Keys() {
					if _, ok := poolKeys[k]; !ok {
						t.Fatalf("after %s: replica %s holds key %q that was never uploaded", what, r.label, k)
					}
				}
				for j, o := range pool {
					data, ok := r.mem.Peek(o.d)
					if ok && !bytes.Equal(data, o.data) {
						t.Fatalf("after %s: replica %s holds %q under the digest of %q", what, r.label, data, o.data)
					}
					if before[j][i] && !ok && !obs.evictedNow(i, key(o)) {
						t.Fatalf("after %s: replica %s lost object %d", what, r.label, j)
					}
				}
			}
		}
		snapshot := func() [][2]bool {
			s := make([][2]bool, len(pool))
			for j, o := range pool {
				s[j] = [2]bool{has(0, o), has(1, o)}
			}
			return s
		}

		// "the replica consulted first alternates": asserted between two
		// reads (Get / GetFromComposite) with no other operation between
		// them. Whether GetCapabilities, Put or FindMissing take part in the
		// rotation is not fixed by the property; after one of those the
		// next read may start anywhere.
		prevFirst := -1 // replica consulted first by the directly preceding read
		alternate := func(what string, first int) {
			if prevFirst >= 0 && first == prevFirst {
				t.Fatalf("%s consulted replica %s first, and so did the directly preceding read: the replica consulted first does not alternate", what, p.r[first].label)
			}
			prevFirst = first
		}

		nops := rapid.IntRange(1, 8).Draw(t, "nops")
		var rendered []string
		for op := 0; op < nops; op++ {
			kind := rapid.SampledFrom([]string{"Get", "Get", "Get", "GetFromComposite", "Put", "FindMissing", "FindMissing", "GetCapabilities"}).Draw(t, "op")
			before := snapshot()
			// vouched[j][i]: replica i's existence check reports object j
			// present at the start of this op
			vouched := make([][2]bool, len(pool))
			for j, o := range pool {
				vouched[j] = [2]bool{vouches(0, o), vouches(1, o)}
			}
			m := p.mark()
			var obs observed
			// "No operation blocks forever": every operation runs under a
			// generous deadline; the model replicas answer immediately, so
			// a deadline that expires means the operation was blocked in
			// the code under test.
			opCtx, opCancel := context.WithTimeout(ctx, opDeadline)
			notBlocked := func(what string, err error) {
				if opCtx.Err() != nil {
					t.Fatalf("%s was still running after %v although no replica call was pending (it returned %v once its context expired): the operation blocks, e.g. on a replication slot that an earlier (failed) replication did not give back", what, opDeadline, err)
				}
			}
			switch kind {
			case "GetCapabilities":
				c.Add(kind)
				// Not part of the property (only generated because it may
				// take part in the rotation): nothing is asserted but the
				// absence of a panic.
				var err error
				noPanic(t, func() string { return "GetCapabilities" }, func() {
					_, err = ba.GetCapabilities(opCtx, digest.EmptyInstanceName)
				})
				o := p.observe(m, false)
				obs = o
				notBlocked("GetCapabilities", err)
				prevFirst = -1
				if err != nil {
					c.Class("getcapabilities_error")
				}
				rendered = append(rendered, fmt.Sprintf("GetCapabilities->%v", err))

			case "Get", "GetFromComposite":
				j := rapid.IntRange(0, len(pool)-1).Draw(t, "obj")
				obj := pool[j]
				method := rapid.SampledFrom(methodChoices).Draw(t, "method")
				chunk := rapid.IntRange(1, 9).Draw(t, "readchunk")
				want := obj.data
				off, ln := 0, len(obj.data)
				if kind == "GetFromComposite" {
					off = rapid.IntRange(0, len(obj.data)).Draw(t, "sliceoff")
					ln = rapid.IntRange(0, len(obj.data)-off).Draw(t, "slicelen")
					want = obj.data[off : off+ln]
				}
				// ToProto only on complete objects that are serialized
				// messages (anything else fails to unmarshal, which is no
				// statement about the replicas).
				if method == methodToProto && (kind != "Get" || obj.msg == nil) {
					method = 0
				}
				ra := readArgs{msg: obj.msg, full: want}
				if method == methodReadAtPartial {
					ra.off = rapid.IntRange(0, len(want)).Draw(t, "readat_off")
					ra.ln = rapid.IntRange(0, len(want)-ra.off+2).Draw(t, "readat_len")
				}
				// A partial ReadAt does not consume the object; what it
				// promises about work attached to the buffer (the repair
				// copy) is less clear than for the other methods.
				partial := method == methodReadAtPartial
				c.Add(kind, j, method, chunk, off, ln, ra.off, ra.ln)
				c.Class("consume_" + methodNames[method])
				want = ra.wanted(method)
				var got []byte
				var err error
				noPanic(t, func() string {
					return fmt.Sprintf("%s(object %d of %d bytes, %s) with A->B %s, B->A %s, object held by A=%v B=%v, buffer kinds returned by A %v by B %v",
						kind, j, len(obj.data), methodNames[method], cfgAB, cfgBA, before[j][0], before[j][1], shapesA, shapesB)
				}, func() {
					var b buffer.Buffer
					if kind == "Get" {
						b = ba.Get(opCtx, obj.d)
					} else {
						b = ba.GetFromComposite(opCtx, obj.d, hx.Sha(obj.inst, ra.full), rangeSlicer{off, ln})
					}
					got, err = consume(b, method, chunk, ra)
				})
				o := p.observe(m, true)
				obs = o
				notBlocked(fmt.Sprintf("%s(object %d, %s) with A->B %s, B->A %s", kind, j, methodNames[method], cfgAB, cfgBA), err)
				what := fmt.Sprintf("%s(object %d, %s) placement before A=%v B=%v -> %d bytes, %v; %s; A->B %s, B->A %s; A %s, B %s",
					kind, j, methodNames[method], before[j][0], before[j][1], len(got), err, o, cfgAB, cfgBA, incons[0], incons[1])
				// The replica consulted first is the one that saw the first
				// call of this read (whatever call the implementation uses
				// to consult it).
				F, consulted := 0, false
				for _, cl := range o.calls {
					if cl.Op != "GetCapabilities" {
						consulted = true
						if cl.Backend == "B" {
							F = 1
						}
						break
					}
				}
				S := 1 - F
				if consulted {
					alternate(what, F)
				} else {
					c.Class("get_without_replica_call")
					prevFirst = -1
				}
				held := before[j][0] || before[j][1]
				// heldThroughout: some replica held the object when the
				// read started and did not evict it while the read ran
				heldThroughout := (before[j][0] && !o.evictedNow(0, key(obj))) || (before[j][1] && !o.evictedNow(1, key(obj)))
				code := status.Code(err)
				switch {
				case err == nil:
					if !held {
						t.Fatalf("%s: returned data although neither replica holds the object", what)
					}
					if !bytes.Equal(got, want) {
						t.Fatalf("%s: returned %q, want %q", what, got, want)
					}
					// (a partial ReadAt may legitimately return its bytes
					// without running into a failure further down the
					// stream)
					if !(partial && o.midFired > 0) {
						if o.firstFault[F] {
							t.Fatalf("%s: the replica consulted first (%s) failed with a non-NOT_FOUND error, yet the read succeeded: failure masked", what, p.r[F].label)
						}
						if o.contacted[S] && o.firstFault[S] {
							t.Fatalf("%s: the replica consulted second (%s) failed, yet the read succeeded", what, p.r[S].label)
						}
					}
					// (a first replica whose stale existence cache vouches
					// for the object tells a double-checking replicator that
					// nothing needs to be copied: repair cannot be demanded.
					// Nor is it demanded of a partial ReadAt: the Buffer
					// documentation ties the attached task to the buffer
					// "being read", which a partial read does only in part;
					// today it waits for the copy like every other method.)
					if consulted && copiesInto(F, obj) && !p.r[F].shaper.stale[key(obj)] && !has(F, obj) {
						if !partial {
							t.Fatalf("%s: read succeeded but the replica consulted first (%s) still lacks the object: no read repair", what, p.r[F].label)
						}
						c.Class("partial_readat_ok_without_repair")
					}
				case code == codes.NotFound:
					// A read performs no existence check: NOT_FOUND from
					// both replicas is the truthful answer even when one of
					// them is a ghost (vouches for the object but cannot
					// deliver it) or evicted its copy during this read.
					if heldThroughout {
						t.Fatalf("%s: NOT_FOUND although a replica holds the object", what)
					}
					if o.firstFault[F] || (o.contacted[S] && o.firstFault[S]) {
						t.Fatalf("%s: a replica failed with a non-NOT_FOUND error but the caller got NOT_FOUND: failure masked", what)
					}
				default:
					// An inconsistent replica (answers NOT_FOUND for an
					// object its own existence check vouches for, or loses
					// the repaired copy before it is read back) is a replica
					// failure: a non-NOT_FOUND error is a legitimate outcome
					// of such a read (e.g. "Blob absent from sink after
					// replication"), never required.
					// The same holds when the first replica lost the object
					// in an earlier call and a queued replicator still
					// remembers having copied it there: it declines to copy
					// again and the read-back from the first replica fails.
					excused := o.inconsistent() || (remembers[F] && p.r[F].shaper.wasEvicted(key(obj)))
					if !o.any() && !excused {
						// "A read returns the object whenever at least one
						// replica holds it". What a read of an object that
						// neither replica holds fails with is not fixed by
						// the property (NOT_FOUND today): only counted.
						if heldThroughout {
							t.Fatalf("%s: error although a replica holds the object, no failure was injected during this call and both replicas behaved consistently", what)
						}
						c.Class("get_absent_other_error")
					}
					// Which error: the property demands "an error naming the
					// replica", never NOT_FOUND (this branch), never success.
					// Code and text of the surfaced error are the
					// implementation's (today: the replica's own error behind
					// a "Backend X: " prefix), so neither is asserted. When
					// the replicas were also inconsistent during this read
					// the error may be the report of that instead; the naming
					// clause is then asserted only if the error is
					// recognisably the injected one.
					injected := carriesInjected(err, o)
					if excused && !injected {
						switch {
						case namesReplica(err, F):
							c.Class("get_inconsistency_error_named_first")
						case namesReplica(err, S):
							c.Class("get_inconsistency_error_named_second")
						default:
							c.Class("get_inconsistency_error_unnamed")
						}
					}
					ffF, ffS := o.firstFault[F], o.contacted[S] && o.firstFault[S]
					switch {
					case excused && !injected:
					case ffF || ffS:
						// (today the second replica is not consulted after a
						// failure of the first; a version that consults both
						// may report either failure)
						if !((ffF && namesReplica(err, F)) || (ffS && namesReplica(err, S))) {
							t.Fatalf("%s: the error does not name the replica that failed (consulted first: %s, its first contact failed: %v; second replica's first contact failed: %v)", what, p.r[F].label, ffF, ffS)
						}
						if ffF && o.contacted[S] {
							c.Class("get_second_consulted_after_first_failed")
						}
					case o.any():
						// Failure while writing the repaired copy (or a
						// later redundant call). The code attributes
						// these to the source replica, and when the
						// reader is consumed through ToReader the task's
						// error comes out of Close() unprefixed; only
						// counted, see verif.json.
						switch {
						case namesReplica(err, F):
							c.Class("repair_failure_named_sink")
						case namesReplica(err, S):
							c.Class("repair_failure_named_source")
						default:
							c.Class("repair_failure_unnamed")
						}
					}
				}
				// classes
				switch {
				case o.firstFault[F]:
					c.Class("get_first_replica_fault")
				case o.contacted[S] && o.anyFault[S]:
					c.Class("get_second_replica_fault")
					c.NonTrivial()
				case o.any():
					c.Class("get_repair_sink_fault")
				case err == nil && before[j][F]:
					c.Class("get_hit_first")
				case err == nil:
					c.Class("get_repaired")
				default:
					c.Class("get_not_found")
				}
				for i, r := range p.r {
					for _, e := range o.incons[i] {
						role := "second"
						if i == F {
							role = "first"
						}
						if e.evicted {
							c.Class("get_" + role + "_replica_" + r.label + "_evicts_during_read")
						} else {
							c.Class("get_" + role + "_replica_" + r.label + "_ghost")
						}
					}
				}
				if before[j][S] && !before[j][F] {
					c.NonTrivial()
					c.Class("get_one_sided_other_first")
					if n := len(p.r[S].shaper.shapes); n > 0 && p.r[S].shaper.shapes[m.gets[S]%n].Refresh {
						c.Class("get_repair_from_refreshing_buffer")
					}
				}
				rendered = append(rendered, fmt.Sprintf("%s(o%d,%s)@%s->%v", kind, j, methodNames[method], p.r[F].label, err))

			case "Put":
				j := rapid.IntRange(0, len(pool)-1).Draw(t, "obj")
				obj := pool[j]
				wrong := rapid.IntRange(0, 3).Draw(t, "wrong") == 0
				asReader := rapid.Bool().Draw(t, "putreader")
				chunk := rapid.IntRange(0, 9).Draw(t, "putchunk")
				c.Add(kind, j, wrong, asReader, chunk)
				data := obj.data
				if wrong {
					if len(data) > 0 && rapid.Bool().Draw(t, "flip") {
						data = append([]byte(nil), data...)
						data[len(data)/2] ^= 0x20
					} else {
						data = append(append([]byte(nil), data...), '!')
					}
				}
				var b buffer.Buffer
				if asReader {
					src := hx.NewCRC(data)
					if chunk > 0 {
						src.Chunks = []int{chunk}
					}
					b = buffer.NewCASBufferFromReader(obj.d, src, buffer.UserProvided)
				} else {
					b = buffer.NewCASBufferFromByteSlice(obj.d, data, buffer.UserProvided)
				}
				var err error
				noPanic(t, func() string { return fmt.Sprintf("Put(object %d, wrong=%v)", j, wrong) }, func() {
					err = ba.Put(opCtx, obj.d, b)
				})
				o := p.observe(m, false)
				obs = o
				notBlocked(fmt.Sprintf("Put(object %d) with A->B %s, B->A %s", j, cfgAB, cfgBA), err)
				what := fmt.Sprintf("Put(object %d, wrong=%v) -> %v; %s", j, wrong, err, o)
				if err == nil {
					// (an acknowledged upload of mismatching content is caught
					// by checkContents if it was stored; if both replicas
					// already held the object, skipping the upload is
					// legitimate)
					c.ClassIf(wrong, "put_wrong_content_acknowledged")
					if o.any() {
						t.Fatalf("%s: a replica failed but the upload was acknowledged", what)
					}
					for i, r := range p.r {
						if !has(i, obj) {
							t.Fatalf("%s: acknowledged, but replica %s does not hold the object", what, r.label)
						}
					}
					c.Class("put_ok")
				} else {
					if status.Code(err) == codes.NotFound {
						t.Fatalf("%s: upload failed with NOT_FOUND", what)
					}
					if !wrong {
						if !o.any() {
							t.Fatalf("%s: error although no failure was injected", what)
						}
						// (code and text of the surfaced error are not fixed by
						// the property: only counted)
						if !carriesInjected(err, o) {
							c.Class("put_fault_error_recoded")
						}
						if !((o.anyFault[0] && namesReplica(err, 0)) || (o.anyFault[1] && namesReplica(err, 1))) {
							t.Fatalf("%s: the error does not name the replica that failed", what)
						}
						c.Class("put_replica_fault")
					} else {
						c.Class("put_wrong_data")
					}
				}
				rendered = append(rendered, fmt.Sprintf("Put(o%d,wrong=%v)->%v", j, wrong, err))

			case "FindMissing":
				sb := digest.NewSetBuilder(0)
				var members []int
				for j := range pool {
					if rapid.Bool().Draw(t, fmt.Sprintf("in%d", j)) {
						sb.Add(pool[j].d)
						members = append(members, j)
					}
				}
				c.Add(kind, fmt.Sprint(members))
				var missing digest.Set
				var err error
				noPanic(t, func() string { return fmt.Sprintf("FindMissing(%v) with A->B %s, B->A %s", members, cfgAB, cfgBA) }, func() {
					missing, err = ba.FindMissing(opCtx, sb.Build())
				})
				o := p.observe(m, false)
				obs = o
				notBlocked(fmt.Sprintf("FindMissing(%v) with A->B %s, B->A %s", members, cfgAB, cfgBA), err)
				what := fmt.Sprintf("FindMissing(%v) -> %v, %v; %s; A->B %s, B->A %s; A %s, B %s", members, missing.Items(), err, o, cfgAB, cfgBA, incons[0], incons[1])
				oneSided := 0
				// ghostSync[i]: objects that must be synchronised FROM replica
				// i (it vouches for them, the other replica does not, and the
				// replicator into the other replica really copies) but that
				// replica i cannot deliver: it does not hold them.
				var ghostSync [2][]int
				for _, j := range members {
					for i := range p.r {
						if vouched[j][i] && !vouched[j][1-i] && !before[j][i] && copiesInto(1-i, pool[j]) {
							ghostSync[i] = append(ghostSync[i], j)
						}
					}
				}
				for i, r := range p.r {
					evicted := 0
					for _, e := range o.incons[i] {
						if e.evicted {
							evicted++
						}
					}
					if len(ghostSync[i]) > 0 {
						c.Class("find_sync_from_ghost_replica_" + r.label)
					}
					if evicted > 0 {
						c.Class("find_sync_source_" + r.label + "_evicts_before_copy")
					}
					if len(o.incons[i]) > 0 {
						c.Class("find_sync_from_inconsistent_replica_" + r.label)
						c.NonTrivial()
					}
				}
				if err == nil {
					if o.firstFault[0] || o.firstFault[1] {
						t.Fatalf("%s: a replica's FindMissing failed but the call succeeded", what)
					}
					for i, r := range p.r {
						if len(o.incons[i]) > 0 {
							t.Fatalf("%s: while synchronising, replica %s answered NOT_FOUND for %d object(s) its own existence check reported present, yet FindMissing succeeded: an inconsistent replica is a replica failure and must be surfaced", what, r.label, len(o.incons[i]))
						}
						if len(ghostSync[i]) > 0 {
							t.Fatalf("%s: succeeded although objects %v, reported present by replica %s only, cannot be copied from it (it does not hold them): successful but incomplete answer", what, ghostSync[i], r.label)
						}
					}
					// The verdict is computed from what the replicas'
					// existence checks report.
					var want []string
					for _, j := range members {
						if !vouched[j][0] && !vouched[j][1] {
							want = append(want, pool[j].d.String())
						}
					}
					sort.Strings(want)
					var got []string
					for _, d := range missing.Items() {
						got = append(got, d.String())
					}
					sort.Strings(got)
					if fmt.Sprint(got) != fmt.Sprint(want) {
						t.Fatalf("%s: reported missing %v, but absent from both replicas are %v", what, got, want)
					}
					for _, j := range members {
						for i := range p.r {
							if vouched[j][1-i] && !vouched[j][i] {
								oneSided++
								if copiesInto(i, pool[j]) && !has(i, pool[j]) {
									t.Fatalf("%s: succeeded, but object %d (held by %s only) was not copied to %s", what, j, p.r[1-i].label, p.r[i].label)
								}
							}
						}
					}
					if oneSided > 0 {
						c.Class("find_ok_synchronized")
					} else {
						c.Class("find_ok")
					}
				} else {
					if status.Code(err) == codes.NotFound {
						if o.inconsistent() {
							t.Fatalf("%s: a replica answered NOT_FOUND while synchronising an object it had reported present (vouchedButNotFound above); that replica failure must not reach the caller as NOT_FOUND", what)
						}
						t.Fatalf("%s: FindMissing failed with NOT_FOUND", what)
					}
					if !o.any() && !o.inconsistent() {
						t.Fatalf("%s: error although no failure was injected and both replicas behaved consistently", what)
					}
					// The error must name a replica that failed during this
					// call: one whose call failed with an injected error, or
					// one that answered NOT_FOUND for an object it had
					// reported present. Code (other than NOT_FOUND), wording
					// and position of the name are the implementation's.
					failed := [2]bool{o.anyFault[0] || len(o.incons[0]) > 0, o.anyFault[1] || len(o.incons[1]) > 0}
					if !((failed[0] && namesReplica(err, 0)) || (failed[1] && namesReplica(err, 1))) {
						t.Fatalf("%s: the error does not name the replica that failed (failed during this call: A=%v B=%v)", what, failed[0], failed[1])
					}
					switch {
					case !carriesInjected(err, o) && o.inconsistent():
						for i, r := range p.r {
							if len(o.incons[i]) > 0 && namesReplica(err, i) {
								c.Class("find_inconsistency_reported_" + r.label)
							}
						}
					case o.firstFault[0] || o.firstFault[1]:
						c.Class("find_verdict_fault")
					default:
						c.Class("find_sync_fault")
					}
				}
				rendered = append(rendered, fmt.Sprintf("FindMissing(%v)->%v,%v", members, len(missing.Items()), err))
			}
			opCancel()
			checkContents(kind, before, obs)
		}
		c.Sample(func() string {
			return fmt.Sprintf("A->B=%s B->A=%s placement=%v inconsistencyA=%s inconsistencyB=%s shapesA=%v shapesB=%v faultsA=%s faultsB=%s ops=%v",
				cfgAB, cfgBA, placement, incons[0], incons[1], shapesA, shapesB, scriptString(scriptA), scriptString(scriptB), rendered)
		})
		c.End()
	})
}

var _ blobstore.BlobAccess = (*shaper)(nil)
