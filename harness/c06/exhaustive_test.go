package c06

import (
	"fmt"
	"os"
	"strconv"
	"testing"

	"github.com/buildbarn/bb-storage/pkg/blobstore/local"

	"verif/harness/vstats"
)

// Small-scope exhaustive unit. The enumerated sub-space is
//
//	every operation sequence of length 1..n over the 13 operations
//	  put(key, location)  key in {A,B,C}, location in
//	                      {oldest block, newest block} x {offset 0, offset 8}
//	  rotate              release the oldest block, then allocate a new one
//	                      (two live blocks at all times, so that the four
//	                      locations stay meaningful)
//	x table size {2,3} x maximumPutAttempts {2,3} x {in-memory, block device}
//	with maximumGetAttempts = 2 and one hash initialisation per table size
//	(derived from VERIF_SEED; chosen such that at least two keys collide on
//	their first slot).
//
// n = VERIF_CHECKS (quick 5, thorough 7). Every prefix is checked with the
// same transition oracle as the generated sequences, i.e. every node of the
// 13-ary tree of depth n is one evaluation.

func envInt(name string, def int) int {
	if v, err := strconv.Atoi(os.Getenv(name)); err == nil {
		return v
	}
	return def
}

func splitmix64(x uint64) uint64 {
	x += 0x9e3779b97f4a7c15
	x = (x ^ (x >> 30)) * 0xbf58476d1ce4e5b9
	x = (x ^ (x >> 27)) * 0x94d049bb133111eb
	return x ^ (x >> 31)
}

func slotOf(k local.Key, attempt uint32, hashInit uint64, size int) int {
	rk := local.LocationRecordKey{Key: k, Attempt: attempt}
	return int(rk.Hash(hashInit) % uint64(size))
}

// exhaustiveHashInit picks, deterministically from the seed, a hash
// initialisation under which at least two of the keys share their first slot
// and not all probe slots of all keys coincide.
func exhaustiveHashInit(seed uint64, size int, keys []local.Key) uint64 {
	for j := uint64(0); ; j++ {
		hi := splitmix64(seed*0x100000001b3 + uint64(size)*7919 + j)
		first := map[int]int{}
		all := map[int]bool{}
		for _, k := range keys {
			first[slotOf(k, 0, hi, size)]++
			all[slotOf(k, 0, hi, size)] = true
			all[slotOf(k, 1, hi, size)] = true
		}
		if len(first) < len(keys) && len(all) > 1 {
			return hi
		}
	}
}

const exhaustiveOps = 13 // 12 puts + rotate

func exhaustiveSeed(seed uint64, blk int) uint64 { return splitmix64(seed ^ uint64(blk)*0x51ed270b) }

type exhaustive struct {
	h           *harness
	storageType string
	seed        uint64
	n           int
	path        []int
	cfgIndex    int
	rec         *vstats.Recorder

	nodes, nontrivial, exactRuns                                  int64
	displacing, discards, earlyStops, fallbackOlder, fallbackNone int64
	ownLost, removing, mech                                       int64
}

type snapshot struct {
	lens [3]int
	best [3]res
	cur  [3]res
	hist int
}

func (e *exhaustive) snap() snapshot {
	h := e.h
	var s snapshot
	for i := range h.stored {
		s.lens[i] = len(h.stored[i])
	}
	copy(s.best[:], h.best)
	copy(s.cur[:], h.cur)
	s.hist = len(h.hist)
	return s
}

// restore brings the harness back to the state after path[:depth]. Nothing
// is assumed about where the index keeps its state (record array object,
// device image, the map object itself): a fresh device image, record array
// and map are built and the prefix is silently re-executed on them. The
// metrics this moves do not matter: in this unit they are read immediately
// before and after the one Put whose discards are judged (lazyMetrics).
func (e *exhaustive) restore(s *snapshot, depth int) {
	h := e.h
	h.blocks.released = 0
	h.blocks.seeds = append(h.blocks.seeds[:0], exhaustiveSeed(e.seed, 0), exhaustiveSeed(e.seed, 1))
	if h.dev != nil {
		clear(h.dev.data)
	}
	h.probe.inner = newArray(h.cfg, h.blocks, h.dev)
	clear(h.probe.written)
	h.probe.begin(1 << 30)
	h.klm = local.NewHashingKeyLocationMap(h.probe, h.cfg.size, h.cfg.hashInit, h.cfg.getAttempts, h.cfg.putAttempts, e.storageType)
	for _, op := range e.path[:depth] {
		if op == exhaustiveOps-1 {
			h.blocks.release()
			h.blocks.alloc(exhaustiveSeed(e.seed, h.blocks.released+1))
		} else {
			ki, rel := e.decode(op)
			if err := h.klm.Put(h.keys[ki], rel); err != nil {
				h.fail("Put failed during re-execution: %v", err)
			}
		}
	}
	for i := range h.stored {
		h.stored[i] = h.stored[i][:s.lens[i]]
	}
	copy(h.best, s.best[:])
	copy(h.cur, s.cur[:])
	h.hist = h.hist[:s.hist]
}

func (e *exhaustive) decode(op int) (int, local.Location) {
	ki, li := op/4, op%4
	off := int64(li%2) * 8
	return ki, local.Location{BlockIndex: li / 2, OffsetBytes: off, SizeBytes: 100 + off}
}

func (e *exhaustive) apply(op int) (retryExact bool) {
	h := e.h
	if op == exhaustiveOps-1 {
		h.release()
		h.alloc(exhaustiveSeed(e.seed, h.blocks.released+1))
		return false
	}
	ki, rel := e.decode(op)
	return h.put(ki, rel)
}

func (e *exhaustive) visit(depth int, nt bool) {
	if depth == e.n {
		return
	}
	h := e.h
	s := e.snap()
	for op := 0; op < exhaustiveOps; op++ {
		if depth == 0 && len(e.path) > 0 {
			// the unit fixes the first operation
			op = e.path[0]
		}
		e.path = append(e.path[:depth], op)
		e.restore(&s, depth)
		h.st = caseStats{}
		if e.apply(op) {
			// A lookup result changed: repeat the operation from
			// the same state with the metrics read immediately
			// before and after it.
			e.restore(&s, depth)
			h.st = caseStats{}
			h.exactNext = true
			e.exactRuns++
			if e.apply(op) {
				h.fail("harness: exact repetition asked for another repetition")
			}
		}
		st := &h.st
		childNT := nt || st.nonTrivial()
		e.nodes++
		e.displacing += int64(st.displacingPuts)
		e.discards += int64(st.discards)
		e.earlyStops += int64(st.earlyStops)
		e.fallbackOlder += int64(st.fallbackOlder)
		e.fallbackNone += int64(st.fallbackNothing)
		e.ownLost += int64(st.ownPutLost)
		e.removing += int64(st.releasesRemoving)
		e.mech += int64(st.mech())
		c := e.rec.Begin()
		if childNT {
			e.nontrivial++
			// The hashes of non-trivial sequences are kept only up
			// to length 5; longer ones are counted, not remembered
			// (hundreds of millions of them).
			if depth+1 <= 5 {
				c.Add(e.cfgIndex)
				for _, o := range e.path {
					c.Add(o)
				}
				c.NonTrivial()
				if e.nontrivial < 4096 {
					cfg, hist := h.cfg, append([]opRec(nil), h.hist...)
					c.Sample(func() string { return fmt.Sprintf("%s: %v", cfg, hist) })
				}
			}
		}
		c.End()
		e.visit(depth+1, childNT)
		if depth == 0 {
			break
		}
	}
	e.path = e.path[:depth]
}

var recExh = vstats.New("TestC06Exhaustive")

// TestC06Exhaustive: see the comment at the top of this file.
func TestC06Exhaustive(t *testing.T) {
	n := envInt("VERIF_CHECKS", 4)
	shard, shards := envInt("VERIF_SHARD", 0), envInt("VERIF_SHARDS", 1)
	seed := uint64(envInt("VERIF_SEED", 1))
	keys := []local.Key{local.NewKeyFromString("A"), local.NewKeyFromString("B"), local.NewKeyFromString("C")}

	var total exhaustive
	unit := 0
	cfgIndex := 0
	for _, size := range []int{2, 3} {
		hashInit := exhaustiveHashInit(seed, size, keys)
		pattern := ""
		for i, k := range keys {
			pattern += fmt.Sprintf(" %c:%d,%d", 'A'+i, slotOf(k, 0, hashInit, size), slotOf(k, 1, hashInit, size))
		}
		recExh.Note(fmt.Sprintf("exhaustive sub-space, table size %d: hash initialisation %#x, probe slots (attempt 0, attempt 1)%s", size, hashInit, pattern))
		for _, putAttempts := range []int{2, 3} {
			for _, backend := range []string{"mem", "blockdev"} {
				cfgIndex++
				cfg := config{backend: backend, size: size, hashInit: hashInit, getAttempts: 2, putAttempts: putAttempts}
				for first := 0; first < exhaustiveOps; first++ {
					mine := unit%shards == shard
					unit++
					if !mine {
						continue
					}
					storageType := "c06-exhaustive-" + backend
					h := newHarness(t, cfg, keys, []uint64{exhaustiveSeed(seed, 0), exhaustiveSeed(seed, 1)}, storageType)
					h.auditEvery = true
					h.mr.light = true
					h.lazyMetrics = true
					e := &exhaustive{h: h, storageType: storageType, seed: seed, n: n, path: []int{first}, cfgIndex: cfgIndex, rec: recExh}
					e.visit(0, false)
					total.nodes += e.nodes
					total.nontrivial += e.nontrivial
					total.exactRuns += e.exactRuns
					total.displacing += e.displacing
					total.discards += e.discards
					total.earlyStops += e.earlyStops
					total.fallbackOlder += e.fallbackOlder
					total.fallbackNone += e.fallbackNone
					total.ownLost += e.ownLost
					total.removing += e.removing
					total.mech += e.mech
				}
			}
		}
	}
	recExh.Count("sequences_nontrivial_all_lengths", total.nontrivial)
	recExh.Count("ops_put_displaced_a_record", total.displacing)
	recExh.Count("ops_discard_reported_with_visible_change", total.discards)
	recExh.Count("ops_repeated_with_metrics_read", total.exactRuns)
	recExh.Count("ops_lookup_stopped_early_on_invalid", total.earlyStops)
	recExh.Count("ops_other_key_fell_back_to_older", total.fallbackOlder)
	recExh.Count("ops_other_key_fell_back_to_nothing", total.fallbackNone)
	recExh.Count("ops_stored_key_not_max_after_discard", total.ownLost)
	recExh.Count("ops_release_removed_visible_entries", total.removing)
	recExh.Count("mech_deviations_from_documented_mechanism", total.mech)
	recExh.Note(fmt.Sprintf("exhaustive sub-space: all operation sequences of length 1..%d over 13 operations (3 keys x 4 locations puts, rotate) x table size {2,3} x put attempts {2,3} x both record arrays, get attempts 2; non-trivial hashes are recorded for lengths <= 5 only", n))
	recExh.Exhaustive()
}
