package c06

// The index over the REAL block lists as BlockReferenceResolver.
//
// The other units of this package hand the record arrays a harness resolver
// (blockWindow). Here the record arrays (both back ends) resolve block
// references through local.NewVolatileBlockList or
// local.NewPersistentBlockList, over local.NewInMemoryBlockAllocator or
// local.NewBlockDeviceBackedBlockAllocator (byte-slice device), exactly the
// components pkg/blobstore/configuration/new_blob_access.go combines. The
// oracle is the unchanged one of sut_test.go (clauses (1)-(6)): the harness
// keeps its own count of released and live blocks (blockWindow, whose resolver
// methods are not used here), translates every returned BlockIndex into an
// absolute block number and compares with what was stored.
//
// Operations (see genRealOps):
//
//   - write+store: space for the entry is allocated in ANY live block that
//     has room, through BlockList.Put -> BlockListPutWriter ->
//     BlockListPutFinalizer (the sequence every caller in pkg/blobstore/local
//     follows; the persistent list starts its epochs in the finalizer), then
//     KeyLocationMap.Put(key, {block index, offset returned by the finalizer,
//     size});
//   - store of a location used before (the same entry again, or under another
//     key), or of a made-up offset inside a live block into which data has
//     been written before (an older-than-visible location);
//   - lookup;
//   - PopFront (release of the oldest block), PushBack;
//   - persistent list only: NotifySyncStarting(false), NotifySyncCompleted()
//     (only while a sync is in progress), GetPersistentState() +
//     NotifyPersistentStateWritten() (at any time, as ProcessBlockRelease
//     does). Entries stored after NotifySyncStarting belong to a new epoch.
//
// The block list operations other than PopFront are neither stores nor
// releases, so the property demands that they change no lookup result
// (harness.neutral).

import (
	"fmt"
	"testing"

	"github.com/buildbarn/bb-storage/pkg/blobstore"
	"github.com/buildbarn/bb-storage/pkg/blobstore/buffer"
	"github.com/buildbarn/bb-storage/pkg/blobstore/local"
	"pgregory.net/rapid"

	"verif/harness/vstats"
)

// realBlockCount is the number of blocks of the block device backed
// allocator: maxLiveBlocks live ones plus three that may wait for the
// persistent state to be written before they can be handed out again.
const realBlockCount = maxLiveBlocks + 3

type realList struct {
	kind       string // "volatile" or "persistent"
	allocKind  string // "inmem" or "blockdev"
	blockSize  int64
	firstEpoch uint32

	list local.BlockList
	pers *local.PersistentBlockList // nil for the volatile list

	syncing bool // NotifySyncStarting has been called, NotifySyncCompleted not yet

	// statistics
	syncsStarted, syncsCompleted, stateWrites, pushBackAfterStateWrite int
	storesDuringSync, storesAfterSync                                  int
}

func (r *realList) String() string {
	s := fmt.Sprintf("%s list over %s allocator, blocks of %d bytes", r.kind, r.allocKind, r.blockSize)
	if r.pers != nil {
		s += fmt.Sprintf(", first epoch %d", r.firstEpoch)
	}
	return s
}

func newRealList(kind, allocKind string, sectorSize int, sectors int64, firstEpoch uint32, storageType string) *realList {
	r := &realList{kind: kind, allocKind: allocKind, blockSize: int64(sectorSize) * sectors, firstEpoch: firstEpoch}
	var allocator local.BlockAllocator
	if allocKind == "blockdev" {
		dev := &memDevice{data: make([]byte, r.blockSize*realBlockCount)}
		allocator = local.NewBlockDeviceBackedBlockAllocator(dev, blobstore.CASReadBufferFactory, sectorSize, sectors, realBlockCount, storageType)
	} else {
		allocator = local.NewInMemoryBlockAllocator(int(r.blockSize))
	}
	if kind == "persistent" {
		r.pers, _ = local.NewPersistentBlockList(allocator, firstEpoch, nil)
		r.list = r.pers
	} else {
		r.list = local.NewVolatileBlockList(allocator)
	}
	return r
}

// tryPushBack appends a block. A block device backed allocator under a
// persistent list only gets a popped block back once the persistent state
// that no longer lists it has been written; if it has run out, that is done
// first (PeriodicSyncer.ProcessBlockRelease does it as soon as a block is
// popped).
func (r *realList) tryPushBack() error {
	err := r.list.PushBack()
	if err != nil && r.pers != nil {
		r.writeState()
		r.pushBackAfterStateWrite++
		err = r.list.PushBack()
	}
	return err
}

func (r *realList) pushBack(h *harness) {
	if err := r.tryPushBack(); err != nil {
		h.fail("harness: PushBack of the %s failed with %v (%d live blocks, allocator of %d blocks)", r, err, h.blocks.live()-1, realBlockCount)
	}
}

func (r *realList) popFront() { r.list.PopFront() }

func (r *realList) writeState() {
	r.pers.GetPersistentState()
	r.pers.NotifyPersistentStateWritten()
	r.stateWrites++
}

// write allocates size bytes in live block rel and writes them, as
// FlatBlobAccess.Put / HierarchicalCASBlobAccess.Put do; it returns the
// offset the finalizer reports.
func (r *realList) write(rel int, size int64) (int64, error) {
	w := r.list.Put(rel, size)
	fin := w(buffer.NewValidatedBufferFromByteSlice(make([]byte, size)))
	off, err := fin()
	if err == nil {
		if r.syncing {
			r.storesDuringSync++
		} else if r.syncsCompleted > 0 {
			r.storesAfterSync++
		}
	}
	return off, err
}

// neutral runs an operation that is neither a store nor a release of a
// block; by the property it changes no lookup result.
func (h *harness) neutral(kind string, fn func()) {
	h.hist = append(h.hist, opRec{kind: kind})
	before := h.cur
	fn()
	after := h.nxt
	h.observe(after)
	for kx := range h.keys {
		if after[kx] != before[kx] {
			h.fail("%s (neither a store nor the release of a block) changed Get(k%d) from %s to %s", kind, kx, before[kx], after[kx])
		}
	}
	h.checkModel(after, kind)
	h.swap()
}

func genRealSize(t *rapid.T, blockSize int64) int64 {
	switch m := rapid.IntRange(0, 15).Draw(t, "sizeClass"); {
	case m == 0:
		return 0
	case m == 1:
		return rapid.Int64Range(1, blockSize).Draw(t, "sizeUpToBlock")
	default:
		return rapid.Int64Range(1, 40).Draw(t, "sizeSmall")
	}
}

type realStats struct {
	writes, blockFull, noRoomAnywhere, zeroSizeCollision, madeUp, reused int
	intoNewest, intoOlder, intoOldest                                    int
	// entries whose block was released while the block that was the newest
	// when they were stored is still live (their reference then names a live
	// epoch but a released block)
	lateRelease int
}

// genRealOps draws nops operations against h (which runs over h.real).
func genRealOps(t *rapid.T, c *vstats.Case, h *harness, g *locGen, nops int, rs *realStats) {
	r := h.real
	nkeys := len(h.keys)
	// newestAtStore[blk] = the highest absolute number of a block that was the
	// newest live block when some entry was stored in blk (statistics only)
	newestAtStore := map[int]int{}
	rotate := func(release bool) {
		if h.blocks.live() < 2 {
			release = false
		} else if h.blocks.live() >= maxLiveBlocks {
			release = true
		}
		if release {
			c.Add("release")
			gone := h.blocks.released
			if n, ok := newestAtStore[gone]; ok && n > gone && n < gone+h.blocks.live() {
				rs.lateRelease++
			}
			h.release()
		} else {
			c.Add("alloc")
			h.alloc(0)
		}
	}
	store := func(ki, blk int, off, size int64) {
		if s, ok := g.sizes[keyBlkOff{ki, blkOff{blk, off}}]; ok && s != size {
			// this key already has an entry of another size at this very
			// (block, offset) (a zero-sized allocation, or a made-up
			// offset, coincides with a later allocation): "newest" would
			// be ambiguous; store the same entry again instead
			size = s
			rs.zeroSizeCollision++
		}
		g.note(ki, blk, off, size)
		c.Add("put", ki, blk, off, size)
		newest := h.blocks.released + h.blocks.live() - 1
		if n, ok := newestAtStore[blk]; !ok || newest > n {
			newestAtStore[blk] = newest
		}
		switch {
		case blk == newest:
			rs.intoNewest++
		case blk == h.blocks.released:
			rs.intoOldest++
		default:
			rs.intoOlder++
		}
		h.put(ki, local.Location{BlockIndex: blk - h.blocks.released, OffsetBytes: off, SizeBytes: size})
	}
	for i := 0; i < nops; i++ {
		kind := rapid.IntRange(0, 99).Draw(t, "op")
		switch {
		case kind < 44: // write + store
			ki := rapid.IntRange(0, nkeys-1).Draw(t, "key")
			size := genRealSize(t, r.blockSize)
			live := h.blocks.live()
			first := rapid.IntRange(0, live-1).Draw(t, "block")
			rel := -1
			for j := 0; j < live; j++ {
				if x := (first + j) % live; r.list.HasSpace(x, size) {
					rel = x
					break
				}
				rs.blockFull++
			}
			if rel < 0 {
				rs.noRoomAnywhere++
				rotate(false)
				continue
			}
			var off int64
			var err error
			h.neutral(fmt.Sprintf("write(b%d,%d)", rel+h.blocks.released, size), func() { off, err = r.write(rel, size) })
			if err != nil {
				h.fail("harness: writing %d bytes into live block %d of the %s failed with %v", size, rel, r, err)
			}
			if off < 0 || off+size > r.blockSize {
				h.fail("harness: the %s placed %d bytes at offset %d of a block", r, size, off)
			}
			rs.writes++
			store(ki, rel+h.blocks.released, off, size)
		case kind < 62: // a location used before, or a made-up one in a block that holds data
			ki := rapid.IntRange(0, nkeys-1).Draw(t, "key")
			var live []blkOff
			for _, bo := range g.all {
				if h.isLive(bo.blk) {
					live = append(live, bo)
				}
			}
			if len(live) == 0 {
				continue
			}
			bo := live[rapid.IntRange(0, len(live)-1).Draw(t, "reuse")]
			if kind < 56 {
				rs.reused++
				size, ok := g.sizes[keyBlkOff{ki, bo}]
				if !ok {
					size = genRealSize(t, r.blockSize)
				}
				store(ki, bo.blk, bo.off, size)
			} else {
				// made-up offset in the block of bo (data has been
				// written into it, so the newest epoch of a
				// persistent list covers it)
				off := rapid.Int64Range(0, r.blockSize-1).Draw(t, "offsetMadeUp")
				for {
					if _, taken := g.used[blkOff{bo.blk, off}]; !taken {
						break
					}
					off = (off + 1) % r.blockSize
				}
				rs.madeUp++
				store(ki, bo.blk, off, rapid.Int64Range(0, 40).Draw(t, "sizeMadeUp"))
			}
		case kind < 70:
			ki := rapid.IntRange(0, nkeys-1).Draw(t, "key")
			c.Add("get", ki)
			h.get(ki)
		case kind < 88 || r.pers == nil:
			rotate(rapid.IntRange(0, 99).Draw(t, "rotation") < 52)
		default: // persistent list: epochs and persistent state
			switch m := rapid.IntRange(0, 9).Draw(t, "syncOp"); {
			case m < 7 && !r.syncing:
				c.Add("syncStarting")
				h.neutral("syncStarting", func() { r.pers.NotifySyncStarting(false) })
				r.syncing = true
				r.syncsStarted++
			case m < 7:
				c.Add("syncCompleted")
				h.neutral("syncCompleted", func() { r.pers.NotifySyncCompleted() })
				r.syncing = false
				r.syncsCompleted++
			default:
				c.Add("stateWritten")
				h.neutral("stateWritten", r.writeState)
			}
		}
	}
}

var firstEpochs = []uint32{1, 1, 1, 2, 7, 1000, 1 << 31, 0xffff0000}

func realProperty(t *rapid.T, rec *vstats.Recorder, kind string) {
	c := rec.Begin()
	cfg, keys, seeds := genSetup(t, c)
	cfg.backend = rapid.SampledFrom([]string{"mem", "blockdev"}).Draw(t, "recordArray")
	allocKind := rapid.SampledFrom([]string{"inmem", "blockdev"}).Draw(t, "blockAllocator")
	sectorSize := rapid.SampledFrom([]int{1, 8, 16, 32, 64}).Draw(t, "sectorSize")
	sectors := int64(rapid.IntRange(2, 12).Draw(t, "blockSectors"))
	if int64(sectorSize)*sectors < 48 {
		sectors = (48 + int64(sectorSize) - 1) / int64(sectorSize)
	}
	firstEpoch := uint32(1)
	if kind == "persistent" {
		firstEpoch = rapid.SampledFrom(firstEpochs).Draw(t, "initialOldestEpochID")
	}
	storageType := "c06-real-" + kind + "-" + cfg.backend
	c.Add(kind, cfg.backend, allocKind, sectorSize, sectors, firstEpoch)
	nkeys, nblocks := len(keys), len(seeds)

	r := newRealList(kind, allocKind, sectorSize, sectors, firstEpoch, storageType)
	for range seeds {
		if err := r.tryPushBack(); err != nil {
			t.Fatalf("VERIF-FAIL C06 harness: PushBack on a fresh %s failed with %v", r, err)
		}
	}
	cfg.list = r.String()
	h := newHarnessOver(t, cfg, keys, seeds, storageType, r)
	h.strictMetrics = true
	h.auditEvery = cfg.size <= 16
	g := &locGen{used: map[blkOff]struct{}{}, maxOff: map[int]int64{}, sizes: map[keyBlkOff]int64{}}

	nops := rapid.IntRange(1, 80).Draw(t, "operations")
	var rs realStats
	genRealOps(t, c, h, g, nops, &rs)
	finishHarness(t, rec, h)

	s := &h.st
	classes(c, rec, s, cfg)
	c.ClassIf(cfg.backend == "mem", "real_record_array_in_memory")
	c.ClassIf(cfg.backend == "blockdev", "real_record_array_block_device")
	c.ClassIf(allocKind == "blockdev", "real_block_device_allocator")
	c.ClassIf(rs.intoOlder+rs.intoOldest > 0, "real_stored_into_block_other_than_newest")
	c.ClassIf(rs.intoOldest > 0, "real_stored_into_oldest_of_several_blocks")
	c.ClassIf(rs.lateRelease > 0, "real_released_block_with_entries_stored_when_a_still_live_block_was_newest")
	c.ClassIf(s.releases >= 3, "real_three_or_more_releases")
	c.ClassIf(h.blocks.released >= nblocks, "real_all_initial_blocks_released")
	c.ClassIf(rs.blockFull > 0, "real_chosen_block_was_full")
	c.ClassIf(rs.noRoomAnywhere > 0, "real_no_live_block_had_room")
	c.ClassIf(rs.zeroSizeCollision > 0, "real_same_key_same_offset_size_kept")
	c.ClassIf(rs.madeUp > 0, "real_made_up_offset")
	c.ClassIf(rs.reused > 0, "real_location_reused")
	if r.pers != nil {
		c.ClassIf(r.syncsStarted > 0, "real_sync_started")
		c.ClassIf(r.syncsCompleted > 0, "real_sync_completed")
		c.ClassIf(r.storesDuringSync > 0, "real_stored_while_sync_in_progress")
		c.ClassIf(r.storesAfterSync > 0, "real_stored_after_completed_sync")
		c.ClassIf(r.stateWrites > 0, "real_persistent_state_written")
		c.ClassIf(r.pushBackAfterStateWrite > 0, "real_push_back_needed_state_write")
		c.ClassIf(firstEpoch != 1, "real_first_epoch_not_1")
	}
	rec.Count("real_writes", int64(rs.writes))
	// non-trivial: an entry was stored into a block other than the newest
	// one and at least one block was released afterwards or before (the
	// reference of such an entry carries BlocksFromLast > 0), or the rule of
	// the other units holds
	if (rs.intoOlder+rs.intoOldest > 0 && s.releases > 0) || s.nonTrivial() {
		c.NonTrivial()
	}
	c.Sample(func() string {
		return fmt.Sprintf("%s keys=%d blocks=%d: %s", cfg, nkeys, nblocks, renderHist(h.hist))
	})
	c.End()
}

var recVolatile = vstats.New("TestC06VolatileBlockList")

// TestC06VolatileBlockList: the index (record array back end drawn per case)
// over local.NewVolatileBlockList as block reference resolver.
func TestC06VolatileBlockList(t *testing.T) {
	rapid.Check(t, func(t *rapid.T) { realProperty(t, recVolatile, "volatile") })
}

var recPersistent = vstats.New("TestC06PersistentBlockList")

// TestC06PersistentBlockList: the same over local.NewPersistentBlockList,
// with epochs advancing (NotifySyncStarting/NotifySyncCompleted) and the
// persistent state being written.
func TestC06PersistentBlockList(t *testing.T) {
	rapid.Check(t, func(t *rapid.T) { realProperty(t, recPersistent, "persistent") })
}
