package c06

import (
	"errors"
	"fmt"
	"io"
	"os"
	"strings"
	"sync"
	"syscall"
	"testing"

	"github.com/buildbarn/bb-storage/pkg/blobstore/local"
	"github.com/prometheus/client_golang/prometheus"
	"github.com/prometheus/client_golang/prometheus/collectors"
	"google.golang.org/grpc/codes"
	"google.golang.org/grpc/status"
	"pgregory.net/rapid"

	"verif/harness/vstats"
)

func TestMain(m *testing.M) {
	// The Go runtime and process collectors make every Gather() of the
	// default registry cost milliseconds; this check only needs the
	// collectors of the code under test.
	prometheus.Unregister(collectors.NewGoCollector())
	prometheus.Unregister(collectors.NewProcessCollector(collectors.ProcessCollectorOpts{}))
	rc := m.Run()
	vstats.Flush()
	os.Exit(rc)
}

// primes above the tiny range, up to 251.
var primes = []int{37, 41, 43, 47, 53, 59, 61, 67, 71, 73, 79, 83, 89, 97, 101, 103, 107, 109, 113, 127,
	131, 137, 139, 149, 151, 157, 163, 167, 173, 179, 181, 191, 193, 197, 199, 211, 223, 227, 229, 233, 239, 241, 251}

const maxLiveBlocks = 5

var noteSlowMetrics sync.Once

type blkOff struct {
	blk int
	off int64
}

type keyBlkOff struct {
	key int
	blkOff
}

// generator state for locations: (block, offset) pairs are unique across
// different fresh Put calls; an "equal location" Put deliberately reuses one.
type locGen struct {
	used   map[blkOff]struct{}
	maxOff map[int]int64
	all    []blkOff
	sizes  map[keyBlkOff]int64
}

// maxExtent bounds generated offsets and sizes: 64 TiB, far beyond any block a
// real block list hands out (and beyond 32 bits, so that a truncating record
// layout is noticed), while offset+size stays representable. Locations come
// from a block allocator (offset and offset+size within one block), never
// from the whole int64 range.
const maxExtent = int64(1) << 46

func genSize(t *rapid.T) int64 {
	if rapid.IntRange(0, 3).Draw(t, "sizeClass") == 0 {
		return rapid.Int64Range(0, maxExtent).Draw(t, "sizeAny")
	}
	return rapid.Int64Range(0, 100).Draw(t, "sizeSmall")
}

func (g *locGen) fresh(t *rapid.T, h *harness) (int, int64) {
	rel := rapid.IntRange(0, h.blocks.live()-1).Draw(t, "block")
	blk := rel + h.blocks.released
	var off int64
	switch m := rapid.IntRange(0, 19).Draw(t, "offsetMode"); {
	case m < 8: // append behind everything in the block, as an allocator would
		if mo, ok := g.maxOff[blk]; ok && mo < maxExtent {
			off = mo + 1 + int64(rapid.IntRange(0, 3).Draw(t, "gap"))
		}
	case m < 17: // small, anywhere: older than existing entries of the block is likely
		off = int64(rapid.IntRange(0, 23).Draw(t, "offsetSmall"))
	default:
		off = rapid.Int64Range(0, maxExtent).Draw(t, "offsetAny")
	}
	for {
		if _, taken := g.used[blkOff{blk, off}]; !taken {
			break
		}
		off++
	}
	return blk, off
}

func (g *locGen) note(ki, blk int, off, size int64) {
	bo := blkOff{blk, off}
	if _, ok := g.used[bo]; !ok {
		g.used[bo] = struct{}{}
		g.all = append(g.all, bo)
	}
	if mo, ok := g.maxOff[blk]; !ok || off > mo {
		g.maxOff[blk] = off
	}
	g.sizes[keyBlkOff{ki, bo}] = size
}

// genSetup draws a configuration (without back end), the keys and the hash
// seeds of the initially live blocks.
func genSetup(t *rapid.T, c *vstats.Case) (config, []local.Key, []uint64) {
	var cfg config
	if rapid.IntRange(0, 3).Draw(t, "tableClass") == 0 {
		cfg.size = rapid.SampledFrom(primes).Draw(t, "tableSizePrime")
	} else {
		cfg.size = rapid.IntRange(1, 31).Draw(t, "tableSize")
	}
	cfg.hashInit = rapid.Uint64().Draw(t, "hashInit")
	cfg.getAttempts = uint32(rapid.IntRange(1, 8).Draw(t, "maximumGetAttempts"))
	cfg.putAttempts = rapid.IntRange(1, 16).Draw(t, "maximumPutAttempts")
	nkeys := rapid.IntRange(3, 12).Draw(t, "keys")
	keys := make([]local.Key, nkeys)
	for i := range keys {
		keys[i] = local.NewKeyFromString(fmt.Sprintf("key-%d", i))
	}
	nblocks := rapid.IntRange(1, 4).Draw(t, "initialBlocks")
	seeds := make([]uint64, nblocks)
	for i := range seeds {
		seeds[i] = rapid.Uint64().Draw(t, "seed")
	}
	c.Add(cfg.size, cfg.hashInit, int(cfg.getAttempts), cfg.putAttempts, nkeys, nblocks)
	return cfg, keys, seeds
}

// Error values a failing device call returns. ErrLocationRecordInvalid is
// not among them: it is the record array's own verdict about a record it has
// read, never the outcome of a device call.
var deviceErrors = []error{
	syscall.EIO,
	io.ErrUnexpectedEOF,
	status.Error(codes.Internal, "harness: injected device fault"),
	status.Error(codes.Unavailable, "harness: injected device fault"),
	errors.New("harness: injected device fault"),
}

// genFault draws the device fault of one operation, or none. Call numbers
// are small: a Put of the unchanged code issues one read per iteration and
// at most one write per iteration.
func genFault(t *rapid.T, c *vstats.Case, percent int, allowWrite bool) *faultPlan {
	if rapid.IntRange(0, 99).Draw(t, "faultChance") >= percent {
		return nil
	}
	f := &faultPlan{}
	if allowWrite {
		f.write = rapid.IntRange(0, 3).Draw(t, "faultOnWrite") == 0
	}
	f.n = rapid.SampledFrom([]int{1, 1, 1, 2, 2, 3, 4, 6}).Draw(t, "faultCall")
	ei := rapid.IntRange(0, len(deviceErrors)-1).Draw(t, "faultError")
	f.err = deviceErrors[ei]
	c.Add("fault", f.write, f.n, ei)
	return f
}

// genOps draws nops operations and applies every one of them to ALL
// harnesses in hs (which share configuration, keys and block history, so that
// their live windows agree; hs[0] is consulted for it). Device faults are
// drawn only if faults is set and then apply to hs[0], which must be block
// device backed.
func genOps(t *rapid.T, c *vstats.Case, hs []*harness, g *locGen, nops int, faults bool) {
	h := hs[0]
	nkeys := len(h.keys)
	for i := 0; i < nops; i++ {
		kind := rapid.IntRange(0, 99).Draw(t, "op")
		switch {
		case kind < 62:
			ki := rapid.IntRange(0, nkeys-1).Draw(t, "key")
			var blk int
			var off, size int64
			reuse := kind >= 50
			var live []blkOff
			if reuse {
				for _, bo := range g.all {
					if h.isLive(bo.blk) {
						live = append(live, bo)
					}
				}
			}
			if len(live) > 0 {
				bo := live[rapid.IntRange(0, len(live)-1).Draw(t, "reuse")]
				blk, off = bo.blk, bo.off
				if s, ok := g.sizes[keyBlkOff{ki, bo}]; ok {
					size = s // the very same entry again
				} else {
					size = genSize(t) // another key at an equal (block, offset): a composite's slice
				}
			} else {
				blk, off = g.fresh(t, h)
				size = genSize(t)
			}
			g.note(ki, blk, off, size)
			c.Add("put", ki, blk, off, size)
			var f *faultPlan
			if faults {
				f = genFault(t, c, 30, true)
			}
			for _, hx := range hs {
				hx.putF(ki, local.Location{BlockIndex: blk - hx.blocks.released, OffsetBytes: off, SizeBytes: size}, f)
			}
		case kind < 72:
			ki := rapid.IntRange(0, nkeys-1).Draw(t, "key")
			c.Add("get", ki)
			var f *faultPlan
			if faults {
				f = genFault(t, c, 60, false)
			}
			for _, hx := range hs {
				hx.getF(ki, f)
			}
		default:
			release := kind < 87
			if h.blocks.live() < 2 {
				release = false
			} else if h.blocks.live() >= maxLiveBlocks {
				release = true
			}
			if release {
				c.Add("release")
				for _, hx := range hs {
					hx.release()
				}
			} else {
				seed := rapid.Uint64().Draw(t, "seed")
				c.Add("alloc", seed)
				for _, hx := range hs {
					hx.alloc(seed)
				}
			}
		}
	}
}

// finishHarness runs the final audit and the metrics cross-check.
func finishHarness(t *rapid.T, rec *vstats.Recorder, h *harness) {
	h.audit()
	if !h.mr.fast {
		noteSlowMetrics.Do(func() {
			rec.Note("discard metrics were read through prometheus.DefaultGatherer.Gather(); direct access to the registered collectors was not available")
		})
	}
	if h.mr.fast {
		if a, b := h.mr.read(), h.mr.gather(); a != b {
			t.Fatalf("harness: collectors read directly (%+v) disagree with prometheus.DefaultGatherer (%+v)", a, b)
		}
	}
}

func renderHist(hist []opRec) string {
	var sb strings.Builder
	for i, o := range hist {
		if i > 0 {
			sb.WriteString(" ")
		}
		sb.WriteString(o.String())
	}
	return sb.String()
}

func property(t *rapid.T, rec *vstats.Recorder, backend, storageType string, faults bool) {
	c := rec.Begin()
	cfg, keys, seeds := genSetup(t, c)
	cfg.backend = backend
	nkeys, nblocks := len(keys), len(seeds)

	h := newHarness(t, cfg, keys, seeds, storageType)
	h.strictMetrics = true
	h.auditEvery = cfg.size <= 16
	g := &locGen{used: map[blkOff]struct{}{}, maxOff: map[int]int64{}, sizes: map[keyBlkOff]int64{}}

	nops := rapid.IntRange(1, 60).Draw(t, "operations")
	genOps(t, c, []*harness{h}, g, nops, faults)
	finishHarness(t, rec, h)

	s := &h.st
	classes(c, rec, s, cfg)
	if faults {
		c.ClassIf(s.faultPutRead > 0, "fault_put_read_failed")
		c.ClassIf(s.faultPutWrite > 0, "fault_put_write_failed")
		c.ClassIf(s.faultPutNotReached > 0, "fault_put_not_reached")
		c.ClassIf(s.faultPutSwallowed > 0, "fault_put_returned_nil_despite_failed_device_call")
		c.ClassIf(s.faultPutReadOnLiveOtherKey > 0, "fault_put_read_failed_on_live_entry_of_other_key")
		c.ClassIf(s.faultPutFailedKeptPrevious > 0, "fault_put_failed_key_kept_previous_result")
		c.ClassIf(s.faultPutFailedStoredNew > 0, "fault_put_failed_key_stored_nevertheless")
		c.ClassIf(s.faultPutFailedLostOther > 0, "fault_put_failed_and_lost_one_other_key_unreported")
		c.ClassIf(s.faultGetError > 0, "fault_get_answered_error")
		c.ClassIf(s.faultGetAnswered > 0, "fault_get_answered_result")
		c.ClassIf(s.faultGetNotReached > 0, "fault_get_not_reached")
		rec.Count("sum_faults_reached", int64(s.faultPutRead+s.faultPutWrite+s.faultGetError+s.faultGetAnswered))
	}
	if s.nonTrivial() {
		c.NonTrivial()
	}
	c.Sample(func() string {
		return fmt.Sprintf("%s keys=%d blocks=%d: %s", cfg, nkeys, nblocks, renderHist(h.hist))
	})
	c.End()
}

// classes records the generator-health classes of one sequential history.
func classes(c *vstats.Case, rec *vstats.Recorder, s *caseStats, cfg config) {
	c.ClassIf(s.displacingPuts > 0, "put_displaced_a_record")
	c.ClassIf(s.discards > 0, "discard_reported")
	c.ClassIf(s.tooManyAttempts > 0, "discard_too_many_attempts")
	c.ClassIf(s.tooManyIterations > 0, "discard_too_many_iterations")
	c.ClassIf(s.earlyStops > 0, "lookup_stopped_early_on_invalid")
	c.ClassIf(s.earlyStopsAfterProbe > 0, "lookup_stopped_on_invalid_after_probing")
	c.ClassIf(s.earlyStopsOnReleased > 0, "lookup_stopped_on_released_record")
	c.ClassIf(s.foundAtLaterAttempt > 0, "lookup_found_at_later_attempt")
	c.ClassIf(s.updated > 0, "put_updated")
	c.ClassIf(s.ignoredOlder > 0, "put_ignored_older")
	c.ClassIf(s.equalLocOtherKey > 0, "equal_location_other_key")
	c.ClassIf(s.samePutAgain > 0, "same_entry_put_again")
	c.ClassIf(s.olderThanVisible > 0, "put_older_than_visible")
	c.ClassIf(s.fallbackOlder > 0, "other_key_fell_back_to_older")
	c.ClassIf(s.fallbackNothing > 0, "other_key_fell_back_to_nothing")
	c.ClassIf(s.ownPutLost > 0, "stored_key_not_max_after_discard")
	c.ClassIf(s.hiddenDiscard > 0, "discard_without_visible_change")
	c.ClassIf(s.releasesRemoving > 0, "release_removed_visible_entries")
	c.ClassIf(s.releases > 0, "has_release")
	c.ClassIf(s.mechGetOverLimit > 0, "mech_get_read_more_than_get_attempts")
	c.ClassIf(s.mechGetReadAfterInvalid > 0, "mech_get_read_past_invalid_record")
	c.ClassIf(s.mechGetWrote > 0, "mech_get_wrote")
	c.ClassIf(s.mechGetNoRead > 0, "mech_get_not_found_without_read")
	c.ClassIf(s.mechPutOverLimit > 0, "mech_put_accessed_more_than_put_attempts")
	c.ClassIf(s.mechPutReadAfterInvalid > 0, "mech_put_read_past_invalid_record")
	c.ClassIf(s.mechPutNotNewer > 0, "mech_put_overwrote_by_not_newer")
	c.ClassIf(s.mechAudit > 0, "mech_table_layout_differs")
	c.ClassIf(cfg.size > 31, "prime_table")
	c.ClassIf(cfg.size <= 4, "table_le_4")
	rec.Count("ops_put", int64(s.puts))
	rec.Count("ops_release", int64(s.releases))
	rec.Count("ops_alloc", int64(s.allocs))
	rec.Count("ops_get", int64(s.gets))
	rec.Count("sum_discards", int64(s.discards))
	rec.Count("sum_displaced_records", int64(s.displacedRecords))
	rec.Count("sum_early_stops", int64(s.earlyStops))
}

// concurrentProperty: a generated sequential history (same generator, applied
// in lockstep to one index per back end, fully checked), then 4..16
// goroutines doing nothing but lookups, first against the in-memory backed,
// then against the block device backed index. See harness.concurrentLookups.
func concurrentProperty(t *rapid.T, rec *vstats.Recorder, storagePrefix string) {
	c := rec.Begin()
	cfg, keys, seeds := genSetup(t, c)
	nkeys, nblocks := len(keys), len(seeds)
	var hs []*harness
	for _, backend := range []string{"mem", "blockdev"} {
		bc := cfg
		bc.backend = backend
		h := newHarness(t, bc, keys, seeds, storagePrefix+backend)
		// the two indices share no series, but the reader of either is
		// only refreshed by its own Puts
		h.strictMetrics = true
		hs = append(hs, h)
	}
	g := &locGen{used: map[blkOff]struct{}{}, maxOff: map[int]int64{}, sizes: map[keyBlkOff]int64{}}
	nops := rapid.IntRange(1, 60).Draw(t, "operations")
	genOps(t, c, hs, g, nops, false)

	ng := rapid.IntRange(4, 16).Draw(t, "goroutines")
	patterns := make([][]int, ng)
	repeats := make([]int, ng)
	for i := range patterns {
		patterns[i] = rapid.SliceOfN(rapid.IntRange(0, nkeys-1), 1, 24).Draw(t, "lookupKeys")
		repeats[i] = rapid.IntRange(32, 160).Draw(t, "repeats")
		c.Add("goroutine", repeats[i])
		for _, ki := range patterns[i] {
			c.Add(ki)
		}
	}
	lookups := 0
	for _, h := range hs {
		lookups += h.concurrentLookups(patterns, repeats)
		finishHarness(t, rec, h)
	}

	// distinct found answers that goroutines other than one ask for
	found := map[res]struct{}{}
	askers := map[int]map[int]struct{}{}
	for gi, p := range patterns {
		for _, ki := range p {
			if hs[1].cur[ki].ok {
				found[hs[1].cur[ki]] = struct{}{}
				if askers[ki] == nil {
					askers[ki] = map[int]struct{}{}
				}
				askers[ki][gi] = struct{}{}
			}
		}
	}
	differ := false
	for ki := range keys {
		if hs[0].cur[ki] != hs[1].cur[ki] {
			differ = true
		}
	}
	s := &hs[1].st
	classes(c, rec, s, cfg)
	c.ClassIf(len(found) >= 2, "conc_two_or_more_distinct_entries_looked_up")
	c.ClassIf(len(found) == 0, "conc_only_absent_keys_looked_up")
	c.ClassIf(ng >= 8, "conc_goroutines_ge_8")
	c.ClassIf(differ, "conc_back_ends_answer_differently")
	rec.Count("conc_lookups", int64(lookups))
	rec.Count("conc_goroutines", int64(2*ng))
	// non-trivial: the goroutines look up at least two distinct present
	// entries (so that simultaneous lookups touch different records)
	if len(found) >= 2 {
		c.NonTrivial()
	}
	c.Sample(func() string {
		return fmt.Sprintf("%s keys=%d blocks=%d: %s || %d goroutines, lookups %v x %v", cfg, nkeys, nblocks, renderHist(hs[1].hist), ng, patterns, repeats)
	})
	c.End()
}

var recMem = vstats.New("TestC06InMemory")

// TestC06InMemory: generated sequences over NewInMemoryLocationRecordArray.
func TestC06InMemory(t *testing.T) {
	rapid.Check(t, func(t *rapid.T) { property(t, recMem, "mem", "c06-rapid-mem", false) })
}

var recDev = vstats.New("TestC06BlockDevice")

// TestC06BlockDevice: generated sequences over
// NewBlockDeviceBackedLocationRecordArray on a byte-slice block device.
func TestC06BlockDevice(t *testing.T) {
	rapid.Check(t, func(t *rapid.T) { property(t, recDev, "blockdev", "c06-rapid-blockdev", false) })
}

var recFault = vstats.New("TestC06BlockDeviceFaults")

// TestC06BlockDeviceFaults: as TestC06BlockDevice, and about every third Put
// and every second explicit Get runs with ONE failing device call (the n-th
// ReadAt or WriteAt of that call, generated error value). See harness.putF
// and harness.getF for what is demanded then.
func TestC06BlockDeviceFaults(t *testing.T) {
	rapid.Check(t, func(t *rapid.T) { property(t, recFault, "blockdev", "c06-rapid-blockdev-faults", true) })
}

var recConc = vstats.New("TestC06ConcurrentLookups")

// TestC06ConcurrentLookups: see concurrentProperty.
func TestC06ConcurrentLookups(t *testing.T) {
	rapid.Check(t, func(t *rapid.T) { concurrentProperty(t, recConc, "c06-conc-") })
}

var recConcRace = vstats.New("TestC06ConcurrentLookupsRace")

// TestC06ConcurrentLookupsRace: the same property; the driver runs this unit
// with a binary built with -race (a reported data race is a violation).
func TestC06ConcurrentLookupsRace(t *testing.T) {
	rapid.Check(t, func(t *rapid.T) { concurrentProperty(t, recConcRace, "c06-concrace-") })
}
