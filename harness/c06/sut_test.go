package c06

// System under test for C06: the real local.NewHashingKeyLocationMap over
// the real record arrays, driven through
//   - a harness BlockReferenceResolver (absolute block ids, oldest-first
//     release, one epoch and one hash seed per block, like volatileBlockList)
//     or, in the units of reallist_test.go, the real volatile / persistent
//     block list,
//   - a byte-slice blockdevice.BlockDevice for the persistent record array,
//     which can be told to fail one chosen ReadAt/WriteAt call,
//   - a pass-through LocationRecordArray decorator that observes slot
//     reads/writes (it never alters them),
//   - the Prometheus collectors of the map (discard reports).
//
// The reference model is a perfect map "key -> newest location ever stored"
// that is only ever reset, for at most one key per reported discard, to
// whatever that key visibly fell back to.
//
// Clauses (numbers as in verif.json / the final report). Before and after
// every operation Get is evaluated for ALL keys; metric deltas are taken
// around the Put call only.
//
//	(1) lookup soundness: Get(K) is NOT_FOUND or a (block, offset, size)
//	    that was passed to Put for exactly K and lies in a live block.
//	(2) Put(K,L): afterwards Get(K) = max(previous Get(K), L) in age order
//	    (block, then offset), unless a discard was reported for this call.
//	(3) Put(K,L): #(other keys whose result changed) + (1 if (2) deviates)
//	    <= discards reported for this call; a changed other key had an
//	    entry before, falls back to an OLDER location stored for it or to
//	    nothing, and its lost entry is not newer than L.
//	(4) release of the oldest block: results that pointed into it become
//	    NOT_FOUND, all other results are unchanged; allocation of a block
//	    and lookups change nothing.
//	(5) at every point Get(K) == newest candidate of the reference model
//	    if that lies in a live block, else NOT_FOUND (candidates of K: every
//	    location stored for K since the last reported discard that visibly
//	    changed K's result, plus what K fell back to at that discard).
//	(6) every call terminates: the decorator only enforces a generous
//	    slot-access budget (a hang guard, far above anything the attempt
//	    limits allow) and that only slots inside the table are touched.
//	(7) device faults (block device only; one failing ReadAt/WriteAt per
//	    operation, see faultPlan, putF, getF): a device error is never
//	    taken for a free slot - a Put that returns nil obeys (2) and (3)
//	    unchanged; a Put that returns an error (only allowed when a device
//	    call failed) leaves the stored key at its previous or at the new
//	    result and obeys (3) with ONE more key allowed to fall back (the
//	    record the unchanged code had displaced and was carrying to its
//	    next slot); a Get with a failed read answers with an error or
//	    soundly as in (1), and changes nothing.
//	(8) concurrent lookups (callers hold a read lock only): every answer
//	    given while 4..16 goroutines look keys up at once equals the
//	    sequential answer (see concurrentLookups).
//
// NOT asserted (the property does not state them; they are how the unchanged
// code happens to work and a refactoring may change them freely): the number
// and order of slot reads/writes of a call, that a lookup stops at the first
// invalid record, that a lookup writes nothing (the KeyLocationMap interface
// explicitly permits clean-up during lookups), that a slot is only
// overwritten by a strictly newer record, and the layout of the table (which
// slot a record sits in, the probe-sequence invariant). Deviations from that
// documented mechanism are observed through the decorator and a table audit
// and are only COUNTED (classes mech_*), as generator-health information.

import (
	"fmt"
	"runtime"
	"strings"
	"sync"
	"sync/atomic"

	"github.com/buildbarn/bb-storage/pkg/blobstore/local"
	"github.com/prometheus/client_golang/prometheus"
	dto "github.com/prometheus/client_model/go"
	"google.golang.org/grpc/codes"
	"google.golang.org/grpc/status"
)

// ---------------------------------------------------------------- device

// faultPlan makes ONE device call of ONE operation fail: the n-th ReadAt
// (or WriteAt) the index issues during that operation returns err and
// transfers nothing. A failed write leaves the medium untouched (torn writes
// are outside the property: they belong to the crash properties).
type faultPlan struct {
	write bool
	n     int // 1-based call number within the operation
	err   error
}

func (f *faultPlan) String() string {
	if f == nil {
		return ""
	}
	if f.write {
		return fmt.Sprintf("~w%d", f.n)
	}
	return fmt.Sprintf("~r%d", f.n)
}

// memDevice is a byte-slice block device. The fault fields are only written
// by the (single-threaded) harness around one call into the index; while
// lookups run concurrently they are only read (armed == false).
type memDevice struct {
	data []byte

	armed     bool
	suspended bool // a read of the harness itself (decorator statistics)
	plan      faultPlan
	reads     int // ReadAt calls of the index since arm()
	writes    int
	fired     bool
}

func (d *memDevice) arm(f *faultPlan) {
	d.armed, d.suspended, d.plan, d.reads, d.writes, d.fired = true, false, *f, 0, 0, false
}

func (d *memDevice) disarm() { d.armed = false }

func (d *memDevice) ReadAt(p []byte, off int64) (int, error) {
	if off < 0 || off+int64(len(p)) > int64(len(d.data)) {
		return 0, fmt.Errorf("memDevice: read [%d,%d) outside device of %d bytes", off, off+int64(len(p)), len(d.data))
	}
	if d.armed && !d.suspended {
		d.reads++
		if !d.plan.write && d.reads == d.plan.n {
			d.fired = true
			return 0, d.plan.err
		}
	}
	return copy(p, d.data[off:]), nil
}

func (d *memDevice) WriteAt(p []byte, off int64) (int, error) {
	if off < 0 || off+int64(len(p)) > int64(len(d.data)) {
		return 0, fmt.Errorf("memDevice: write [%d,%d) outside device of %d bytes", off, off+int64(len(p)), len(d.data))
	}
	if d.armed && !d.suspended {
		d.writes++
		if d.plan.write && d.writes == d.plan.n {
			d.fired = true
			return 0, d.plan.err
		}
	}
	return copy(d.data[off:], p), nil
}

func (d *memDevice) Sync() error  { return nil }
func (d *memDevice) Close() error { return nil }

// -------------------------------------------------------------- resolver

// blockWindow is the harness BlockReferenceResolver. Blocks have absolute
// ids 0,1,2,...; the live window is [released, released+len(seeds)); the
// block INDEX used by Location is absolute id - released. Exactly like
// volatileBlockList every block is one epoch (epoch id = absolute id + 1,
// so that the all-zero reference of a never written record resolves to
// nothing) and has its own hash seed.
type blockWindow struct {
	released int
	seeds    []uint64
}

func (b *blockWindow) live() int { return len(b.seeds) }

func (b *blockWindow) BlockReferenceToBlockIndex(ref local.BlockReference) (int, uint64, bool) {
	oldestEpochID := uint32(b.released + 1)
	epochIndex := ref.EpochID - oldestEpochID
	if epochIndex >= uint32(len(b.seeds)) {
		return 0, 0, false
	}
	blocksFromLast := uint32(ref.BlocksFromLast)
	if blocksFromLast > epochIndex {
		return 0, 0, false
	}
	return int(epochIndex - blocksFromLast), b.seeds[epochIndex], true
}

func (b *blockWindow) BlockIndexToBlockReference(blockIndex int) (local.BlockReference, uint64) {
	last := len(b.seeds) - 1
	if blockIndex < 0 || blockIndex > last {
		panic(fmt.Sprintf("BlockIndexToBlockReference(%d) with %d live blocks: the index calls it out of bounds", blockIndex, len(b.seeds)))
	}
	return local.BlockReference{
		EpochID:        uint32(b.released+1) + uint32(last),
		BlocksFromLast: uint16(last - blockIndex),
	}, b.seeds[last]
}

func (b *blockWindow) release() {
	b.seeds = b.seeds[1:]
	b.released++
}

func (b *blockWindow) alloc(seed uint64) {
	b.seeds = append(b.seeds, seed)
}

// ----------------------------------------------------------------- probe

type budgetExceeded struct{ reads, writes, budget int }

// probe is the pass-through decorator around the record array.
type probe struct {
	inner   local.LocationRecordArray
	size    int
	written []bool     // slot has been written at least once (statistics only)
	dev     *memDevice // nil for the in-memory array

	// passthrough: forward without touching any counter (set while lookups
	// run concurrently; the counters are not safe for concurrent use).
	passthrough bool

	// what the slot held whose read was made to fail (statistics only)
	faultOnValid bool
	faultKey     local.Key

	budget           int
	reads, writes    int
	invalidSeen      bool
	invalidAt        int  // number of slot reads before the invalid one
	invalidReleased  bool // the invalid slot had been written before
	readAfterInvalid bool
	displaced        int // writes over a valid record with another record key
	updated          int // writes over a valid record with the same record key
	inserted         int // writes over an invalid record
	nonMonotonic     string
	outOfRange       string
}

func (p *probe) begin(budget int) {
	p.budget = budget
	p.reads, p.writes = 0, 0
	p.invalidSeen, p.invalidAt, p.invalidReleased, p.readAfterInvalid = false, 0, false, false
	p.displaced, p.updated, p.inserted = 0, 0, 0
	p.nonMonotonic, p.outOfRange = "", ""
	p.faultOnValid = false
}

// peek reads a slot for the decorator's own statistics: never faulted, never
// counted as a device call of the index.
func (p *probe) peek(index int) (local.LocationRecord, error) {
	if p.dev != nil && p.dev.armed {
		p.dev.suspended = true
		defer func() { p.dev.suspended = false }()
	}
	return p.inner.Get(index)
}

func relOlder(a, b local.Location) bool {
	return a.BlockIndex < b.BlockIndex || (a.BlockIndex == b.BlockIndex && a.OffsetBytes < b.OffsetBytes)
}

func (p *probe) Get(index int) (local.LocationRecord, error) {
	if p.passthrough {
		return p.inner.Get(index)
	}
	p.reads++
	if p.reads > p.budget {
		panic(budgetExceeded{p.reads, p.writes, p.budget})
	}
	if index < 0 || index >= p.size {
		p.outOfRange = fmt.Sprintf("slot %d read in a table of %d slots", index, p.size)
		return local.LocationRecord{}, local.ErrLocationRecordInvalid
	}
	if p.invalidSeen {
		p.readAfterInvalid = true
	}
	firedBefore := p.dev != nil && p.dev.fired
	r, err := p.inner.Get(index)
	if err == local.ErrLocationRecordInvalid && !p.invalidSeen {
		p.invalidSeen = true
		p.invalidAt = p.reads - 1
		p.invalidReleased = p.written[index]
	}
	if p.dev != nil && p.dev.fired && !firedBefore {
		if held, herr := p.peek(index); herr == nil {
			p.faultOnValid, p.faultKey = true, held.RecordKey.Key
		}
	}
	return r, err
}

func (p *probe) Put(index int, r local.LocationRecord) error {
	p.writes++
	if p.writes > p.budget {
		panic(budgetExceeded{p.reads, p.writes, p.budget})
	}
	if index < 0 || index >= p.size {
		p.outOfRange = fmt.Sprintf("slot %d written in a table of %d slots", index, p.size)
		return nil
	}
	old, err := p.peek(index)
	if err == nil {
		if old.RecordKey != r.RecordKey {
			p.displaced++
		} else {
			p.updated++
		}
		if !relOlder(old.Location, r.Location) && p.nonMonotonic == "" {
			p.nonMonotonic = fmt.Sprintf("slot %d: record (attempt %d, block index %d, offset %d) overwritten by (attempt %d, block index %d, offset %d)",
				index, old.RecordKey.Attempt, old.Location.BlockIndex, old.Location.OffsetBytes,
				r.RecordKey.Attempt, r.Location.BlockIndex, r.Location.OffsetBytes)
		}
	} else {
		p.inserted++
	}
	p.written[index] = true
	return p.inner.Put(index, r)
}

// --------------------------------------------------------------- metrics

const (
	famPutIterations = "buildbarn_blobstore_hashing_key_location_map_put_iterations"
	famPutTooMany    = "buildbarn_blobstore_hashing_key_location_map_put_too_many_iterations_total"
)

type putMetrics struct {
	inserted, updated, ignoredOlder, tooManyAttempts, tooManyIterations uint64
}

func (a putMetrics) sub(b putMetrics) putMetrics {
	return putMetrics{a.inserted - b.inserted, a.updated - b.updated, a.ignoredOlder - b.ignoredOlder,
		a.tooManyAttempts - b.tooManyAttempts, a.tooManyIterations - b.tooManyIterations}
}

func (a putMetrics) discards() uint64 { return a.tooManyAttempts + a.tooManyIterations }

// existingCollector returns the collector that is registered at the default
// registry under the given family name. It learns help text and label names
// from the default gatherer and re-registers an identical descriptor: the
// registry answers with AlreadyRegisteredError, which carries the collector
// the code under test registered. Reading a single series of it costs well
// under a microsecond, a full Gather() tens of microseconds to milliseconds.
func existingCollector(name string, histogram bool) prometheus.Collector {
	mfs, err := prometheus.DefaultGatherer.Gather()
	if err != nil {
		return nil
	}
	for _, mf := range mfs {
		if mf.GetName() != name || len(mf.Metric) == 0 {
			continue
		}
		var labels []string
		for _, lp := range mf.Metric[0].Label {
			labels = append(labels, lp.GetName())
		}
		var c prometheus.Collector
		if histogram {
			c = prometheus.NewHistogramVec(prometheus.HistogramOpts{Name: name, Help: mf.GetHelp()}, labels)
		} else {
			c = prometheus.NewCounterVec(prometheus.CounterOpts{Name: name, Help: mf.GetHelp()}, labels)
		}
		err := prometheus.Register(c)
		if are, ok := err.(prometheus.AlreadyRegisteredError); ok {
			return are.ExistingCollector
		}
		if err == nil {
			prometheus.Unregister(c)
		}
		return nil
	}
	return nil
}

// metricsReader reads the Put outcome series of one storage_type label.
type metricsReader struct {
	storageType string
	fast        bool
	// light: read only the two discard series (the exhaustive unit reads
	// them hundreds of millions of times; Histogram.Write costs ~1 us).
	light bool
	hist  [4]prometheus.Metric // Inserted, Updated, IgnoredOlder, TooManyAttempts
	ctr   prometheus.Metric
	last  putMetrics
}

var putOutcomes = [4]string{"Inserted", "Updated", "IgnoredOlder", "TooManyAttempts"}

// newMetricsReader must be called after a map with this storage type exists.
func newMetricsReader(storageType string) *metricsReader {
	mr := &metricsReader{storageType: storageType}
	hv, _ := existingCollector(famPutIterations, true).(*prometheus.HistogramVec)
	cv, _ := existingCollector(famPutTooMany, false).(*prometheus.CounterVec)
	if hv != nil && cv != nil {
		mr.fast = true
		for i, o := range putOutcomes {
			obs, err := hv.GetMetricWith(prometheus.Labels{"storage_type": storageType, "outcome": o})
			m, ok := obs.(prometheus.Metric)
			if err != nil || !ok {
				mr.fast = false
				break
			}
			mr.hist[i] = m
		}
		c, err := cv.GetMetricWith(prometheus.Labels{"storage_type": storageType})
		if err != nil {
			mr.fast = false
		}
		mr.ctr = c
	}
	mr.last = mr.read()
	return mr
}

func (mr *metricsReader) read() putMetrics {
	if !mr.fast {
		return mr.gather()
	}
	var v [4]uint64
	for i := range mr.hist {
		if mr.light && i != 3 {
			continue
		}
		var m dto.Metric
		if err := mr.hist[i].Write(&m); err != nil {
			panic(err)
		}
		v[i] = m.GetHistogram().GetSampleCount()
	}
	var m dto.Metric
	if err := mr.ctr.Write(&m); err != nil {
		panic(err)
	}
	return putMetrics{v[0], v[1], v[2], v[3], uint64(m.GetCounter().GetValue())}
}

// gather reads the same numbers through prometheus.DefaultGatherer.
func (mr *metricsReader) gather() putMetrics {
	var out putMetrics
	mfs, err := prometheus.DefaultGatherer.Gather()
	if err != nil {
		panic(err)
	}
	for _, mf := range mfs {
		if mf.GetName() != famPutIterations && mf.GetName() != famPutTooMany {
			continue
		}
		for _, m := range mf.Metric {
			st, outcome := "", ""
			for _, lp := range m.Label {
				switch lp.GetName() {
				case "storage_type":
					st = lp.GetValue()
				case "outcome":
					outcome = lp.GetValue()
				}
			}
			if st != mr.storageType {
				continue
			}
			if mf.GetName() == famPutTooMany {
				out.tooManyIterations = uint64(m.GetCounter().GetValue())
				continue
			}
			n := m.GetHistogram().GetSampleCount()
			switch outcome {
			case "Inserted":
				out.inserted = n
			case "Updated":
				out.updated = n
			case "IgnoredOlder":
				out.ignoredOlder = n
			case "TooManyAttempts":
				out.tooManyAttempts = n
			}
		}
	}
	return out
}

// ----------------------------------------------------------------- model

// loc is a location with an ABSOLUTE block id.
type loc struct {
	blk       int
	off, size int64
}

func (l loc) String() string { return fmt.Sprintf("b%d+%d/%d", l.blk, l.off, l.size) }

// older is the harness' own age order (block, then offset).
func older(a, b loc) bool { return a.blk < b.blk || (a.blk == b.blk && a.off < b.off) }

// res is the result of a lookup.
type res struct {
	ok bool
	l  loc
}

func (r res) String() string {
	if !r.ok {
		return "NOT_FOUND"
	}
	return r.l.String()
}

type fataler interface {
	Fatalf(format string, args ...any)
}

type config struct {
	backend     string // "mem" or "blockdev"
	size        int
	hashInit    uint64
	getAttempts uint32
	putAttempts int
	list        string // description of the real block list, "" = harness resolver
}

func (c config) String() string {
	s := fmt.Sprintf("%s size=%d hashInit=%#x get=%d put=%d", c.backend, c.size, c.hashInit, c.getAttempts, c.putAttempts)
	if c.list != "" {
		s += " [" + c.list + "]"
	}
	return s
}

type opRec struct {
	kind  string // put, get, release, alloc
	key   int
	l     loc
	d     uint64
	fault *faultPlan // injected device fault (block device only)
	fired bool       // the fault was reached
	err   error      // what the call returned
}

func (o opRec) String() string {
	tail := ""
	if o.fault != nil {
		tail = o.fault.String()
		if !o.fired {
			tail += "(not reached)"
		} else if o.err != nil {
			tail += "=err"
		} else {
			tail += "=ok"
		}
	}
	switch o.kind {
	case "put":
		if o.d > 0 {
			return fmt.Sprintf("put(k%d,%s)!%d%s", o.key, o.l, o.d, tail)
		}
		return fmt.Sprintf("put(k%d,%s)%s", o.key, o.l, tail)
	case "get":
		return fmt.Sprintf("get(k%d)%s", o.key, tail)
	}
	return o.kind
}

// counters of one case (class statistics and the non-triviality rule).
type caseStats struct {
	puts, displacingPuts, displacedRecords, discards, tooManyAttempts, tooManyIterations int
	earlyStops, earlyStopsAfterProbe, earlyStopsOnReleased                               int
	inserted, updated, ignoredOlder                                                      int
	releases, releasesRemoving, allocs, gets                                             int
	equalLocOtherKey, samePutAgain, olderThanVisible                                     int
	fallbackOlder, fallbackNothing, ownPutLost, hiddenDiscard                            int
	foundAtLaterAttempt                                                                  int
	// device faults
	faultPutRead, faultPutWrite, faultPutNotReached, faultPutSwallowed int
	faultPutFailedKeptPrevious, faultPutFailedStoredNew                int
	faultPutFailedLostOther, faultPutReadOnLiveOtherKey                int
	faultGetError, faultGetAnswered, faultGetNotReached                int
	// deviations from the documented mechanism (counted, never asserted)
	mechGetOverLimit, mechGetReadAfterInvalid, mechGetWrote, mechGetNoRead int
	mechPutOverLimit, mechPutReadAfterInvalid, mechPutNotNewer, mechAudit  int
}

func (s *caseStats) mech() int {
	return s.mechGetOverLimit + s.mechGetReadAfterInvalid + s.mechGetWrote + s.mechGetNoRead +
		s.mechPutOverLimit + s.mechPutReadAfterInvalid + s.mechPutNotNewer + s.mechAudit
}

func (s *caseStats) nonTrivial() bool {
	return s.displacingPuts > 0 || s.discards > 0 || s.earlyStops > 0
}

type harness struct {
	f      fataler
	cfg    config
	keys   []local.Key
	keyIdx map[local.Key]int
	blocks *blockWindow
	real   *realList // non-nil: the index resolves through a real block list (reallist_test.go)
	dev    *memDevice
	probe  *probe
	klm    local.KeyLocationMap
	mr     *metricsReader

	// strictMetrics: read the metrics immediately before every Put and
	// demand that nothing moved since the previous read.
	strictMetrics bool
	// lazyMetrics: do not read the metrics around a Put unless exactNext
	// is set (see put); used by the exhaustive unit, where reading a
	// histogram series dominates the cost of a node.
	lazyMetrics, exactNext bool
	// auditEvery: run the table audit after every mutating operation.
	auditEvery bool

	stored [][]loc // per key: every location ever passed to Put (append-only)
	best   []res   // per key: newest candidate of the reference model
	cur    []res   // lookup results of all keys in the current state
	nxt    []res

	st   caseStats
	hist []opRec
}

func newArray(cfg config, resolver local.BlockReferenceResolver, dev *memDevice) local.LocationRecordArray {
	if cfg.backend == "blockdev" {
		return local.NewBlockDeviceBackedLocationRecordArray(dev, resolver)
	}
	return local.NewInMemoryLocationRecordArray(cfg.size, resolver)
}

func newHarness(f fataler, cfg config, keys []local.Key, initialSeeds []uint64, storageType string) *harness {
	return newHarnessOver(f, cfg, keys, initialSeeds, storageType, nil)
}

// newHarnessOver: with real == nil the record array resolves block references
// through the harness blockWindow; otherwise through the REAL block list
// real.list, which then holds len(initialSeeds) blocks already. In that case
// blockWindow is nothing but the harness' own count of released and live
// blocks (its seeds are never used) and release/alloc forward to
// PopFront/PushBack of the real list.
func newHarnessOver(f fataler, cfg config, keys []local.Key, initialSeeds []uint64, storageType string, real *realList) *harness {
	h := &harness{f: f, cfg: cfg, keys: keys, keyIdx: map[local.Key]int{}, real: real}
	for i, k := range keys {
		h.keyIdx[k] = i
	}
	h.blocks = &blockWindow{seeds: append([]uint64(nil), initialSeeds...)}
	if cfg.backend == "blockdev" {
		h.dev = &memDevice{data: make([]byte, cfg.size*local.BlockDeviceBackedLocationRecordSize)}
	}
	var resolver local.BlockReferenceResolver = h.blocks
	if real != nil {
		resolver = real.list
	}
	h.probe = &probe{inner: newArray(cfg, resolver, h.dev), size: cfg.size, written: make([]bool, cfg.size), dev: h.dev}
	h.klm = local.NewHashingKeyLocationMap(h.probe, cfg.size, cfg.hashInit, cfg.getAttempts, cfg.putAttempts, storageType)
	h.mr = readerFor(storageType)
	h.mr.last = h.mr.read() // an earlier, failed case may have left it stale
	h.stored = make([][]loc, len(keys))
	h.best = make([]res, len(keys))
	h.cur = make([]res, len(keys))
	h.nxt = make([]res, len(keys))
	h.observe(h.cur)
	for ki, r := range h.cur {
		if r.ok {
			h.fail("lookup soundness: fresh index returns %s for key k%d", r, ki)
		}
	}
	return h
}

var readers = map[string]*metricsReader{}

// readerFor returns the (cached) metrics reader of a storage type; it is
// called after a map with that storage type has been constructed.
func readerFor(storageType string) *metricsReader {
	if mr, ok := readers[storageType]; ok {
		return mr
	}
	mr := newMetricsReader(storageType)
	readers[storageType] = mr
	return mr
}

func (h *harness) fail(format string, args ...any) {
	var sb strings.Builder
	for i, o := range h.hist {
		if i > 0 {
			sb.WriteString(" ")
		}
		sb.WriteString(o.String())
	}
	h.f.Fatalf("VERIF-FAIL C06 %s\n  config: %s keys=%d live=[%d,%d)\n  history: %s", fmt.Sprintf(format, args...),
		h.cfg, len(h.keys), h.blocks.released, h.blocks.released+h.blocks.live(), sb.String())
}

func (h *harness) isStored(ki int, l loc) bool {
	for _, s := range h.stored[ki] {
		if s == l {
			return true
		}
	}
	return false
}

func (h *harness) storedForOther(ki int, l loc) int {
	for kj := range h.stored {
		if kj != ki && h.isStored(kj, l) {
			return kj
		}
	}
	return -1
}

func (h *harness) sameBlockOffsetUnderOtherKey(ki int, l loc) bool {
	for kj := range h.stored {
		if kj == ki {
			continue
		}
		for _, s := range h.stored[kj] {
			if s.blk == l.blk && s.off == l.off {
				return true
			}
		}
	}
	return false
}

func (h *harness) isLive(blk int) bool {
	return blk >= h.blocks.released && blk < h.blocks.released+h.blocks.live()
}

// hangGuard is the slot-access budget of one call into the index. It is not
// an iteration bound of the property (the property states none): it is far
// above anything the attempt limits explain (the unchanged code needs at most
// maximumGetAttempts resp. maximumPutAttempts reads) and only turns a call
// that would never return (e.g. probing a full table for ever) into a failure
// instead of a driver timeout.
func (h *harness) hangGuard() int {
	return 256 + 16*(int(h.cfg.getAttempts)+h.cfg.putAttempts)
}

// guarded runs one call into the index and converts a blown hang guard into
// a failure.
func (h *harness) guarded(what func() string, fn func()) {
	defer func() {
		if r := recover(); r != nil {
			if b, ok := r.(budgetExceeded); ok {
				h.fail("termination: %s performed %d slot reads and %d slot writes and was still going (attempt limits get=%d put=%d); the call does not terminate",
					what(), b.reads, b.writes, h.cfg.getAttempts, h.cfg.putAttempts)
			}
			panic(r)
		}
	}()
	fn()
}

// lookup performs one observed, fault-free Get and applies the soundness
// clauses.
func (h *harness) lookup(ki int) res {
	r, _, _ := h.lookupF(ki, nil)
	return r
}

// lookupF is lookup with an optional device fault. When the fault was reached
// and the call answered with an error (ANY error), errored is true and
// nothing else is asserted; an answer without error is held to the soundness
// clauses whether or not a fault was injected.
func (h *harness) lookupF(ki int, f *faultPlan) (r res, fired, errored bool) {
	p := h.probe
	p.begin(h.hangGuard())
	var rl local.Location
	var err error
	if f != nil {
		h.dev.arm(f)
	}
	h.guarded(func() string { return fmt.Sprintf("Get(k%d)%s", ki, f) }, func() { rl, err = h.klm.Get(h.keys[ki]) })
	if f != nil {
		h.dev.disarm()
		fired = h.dev.fired
		if fired && err != nil {
			if p.outOfRange != "" {
				h.fail("Get(k%d): %s", ki, p.outOfRange)
			}
			return res{}, true, true
		}
	}
	if p.outOfRange != "" {
		h.fail("Get(k%d): %s", ki, p.outOfRange)
	}
	// mechanism of the unchanged code, counted only (see the file comment)
	if p.writes != 0 {
		h.st.mechGetWrote++
	}
	if p.reads > int(h.cfg.getAttempts) {
		h.st.mechGetOverLimit++
	}
	if p.readAfterInvalid {
		h.st.mechGetReadAfterInvalid++
	}
	if p.invalidSeen {
		early := false
		if p.invalidAt >= 1 {
			h.st.earlyStopsAfterProbe++
			early = true
		}
		if p.invalidReleased {
			h.st.earlyStopsOnReleased++
			early = true
		}
		if early {
			h.st.earlyStops++
		}
	}
	if err != nil {
		if status.Code(err) != codes.NotFound {
			h.fail("Get(k%d) failed with %v", ki, err)
		}
		if p.reads == 0 {
			h.st.mechGetNoRead++
		}
		return res{}, fired, false
	}
	if p.reads >= 2 {
		h.st.foundAtLaterAttempt++
	}
	if rl.BlockIndex < 0 || rl.BlockIndex >= h.blocks.live() {
		h.fail("lookup soundness: Get(k%d)%s returned block index %d with %d live blocks", ki, f, rl.BlockIndex, h.blocks.live())
	}
	l := loc{blk: rl.BlockIndex + h.blocks.released, off: rl.OffsetBytes, size: rl.SizeBytes}
	if !h.isStored(ki, l) {
		if kj := h.storedForOther(ki, l); kj >= 0 {
			h.fail("lookup soundness: Get(k%d)%s returned %s, which was stored for key k%d and never for k%d (stored for k%d: %v)", ki, f, l, kj, ki, ki, h.stored[ki])
		}
		h.fail("lookup soundness: Get(k%d)%s returned %s, which was never stored for it (stored: %v)", ki, f, l, h.stored[ki])
	}
	return res{ok: true, l: l}, fired, false
}

func (h *harness) observe(into []res) {
	for ki := range h.keys {
		into[ki] = h.lookup(ki)
	}
}

// checkModel is clause (5): every key's lookup equals the newest candidate
// of the reference model if that lies in a live block, else NOT_FOUND.
func (h *harness) checkModel(after []res, when string) {
	for ki := range h.keys {
		want := h.best[ki]
		if want.ok && !h.isLive(want.l.blk) {
			want = res{}
		}
		if after[ki] != want {
			h.fail("newest location: after %s Get(k%d) = %s, but the newest location stored for it that no reported discard took away is %s (model %s; stored %v)",
				when, ki, after[ki], want, h.best[ki], h.stored[ki])
		}
	}
}

func (h *harness) swap() { h.cur, h.nxt = h.nxt, h.cur }

// put performs Put(key ki, location rel) with rel.BlockIndex relative to the
// current live window.
//
// With lazyMetrics set it returns true, having asserted nothing about
// discards, when some lookup result changed in a way only a discard explains
// and the metrics were not read around this very call; the caller then
// restores the previous state and repeats the call with exactNext set.
func (h *harness) put(ki int, rel local.Location) (retryExact bool) {
	return h.putF(ki, rel, nil)
}

// putF is put with an optional device fault (block device only). Clauses
// under a fault (the lookups that judge the call run without faults):
//
//   - other keys: exactly as without a fault (changed keys had an entry, fall
//     back to an older location or nothing, the lost entry is not newer than
//     the entry being stored), and their number is bounded by the discards
//     reported for this call, plus ONE if Put returned an error (see
//     errorAllowance);
//   - the stored key: max(previous, stored) as always or, if Put returned an
//     error, alternatively the previous result; anything else counts against
//     the discard bound like a changed other key;
//   - Put may only return an error when a fault was reached.
//
// The reference model of the stored key follows whichever of the accepted
// outcomes is observed.
func (h *harness) putF(ki int, rel local.Location, f *faultPlan) (retryExact bool) {
	if rel.BlockIndex < 0 || rel.BlockIndex >= h.blocks.live() {
		panic("harness: generated a location outside the live window")
	}
	l := loc{blk: rel.BlockIndex + h.blocks.released, off: rel.OffsetBytes, size: rel.SizeBytes}
	h.hist = append(h.hist, opRec{kind: "put", key: ki, l: l, fault: f})
	before := h.cur
	h.st.puts++

	// generator-health classes
	if h.isStored(ki, l) {
		h.st.samePutAgain++
	} else if h.sameBlockOffsetUnderOtherKey(ki, l) {
		h.st.equalLocOtherKey++
	}
	if before[ki].ok && older(l, before[ki].l) {
		h.st.olderThanVisible++
	}

	exact := !h.lazyMetrics || h.exactNext
	h.exactNext = false
	if h.strictMetrics || (exact && h.lazyMetrics) {
		m := h.mr.read()
		if h.strictMetrics && m != h.mr.last {
			h.fail("harness: Put metrics moved outside a Put call (%+v -> %+v)", h.mr.last, m)
		}
		h.mr.last = m
	}
	m0 := h.mr.last
	p := h.probe
	p.begin(h.hangGuard())
	var err error
	fired := false
	if f != nil {
		h.dev.arm(f)
	}
	h.guarded(func() string { return fmt.Sprintf("Put(k%d,%s)%s", ki, l, f) }, func() { err = h.klm.Put(h.keys[ki], rel) })
	if f != nil {
		h.dev.disarm()
		fired = h.dev.fired
		h.hist[len(h.hist)-1].fired, h.hist[len(h.hist)-1].err = fired, err
	}
	m1 := m0
	if exact {
		m1 = h.mr.read()
		h.mr.last = m1
	}
	d := m1.sub(m0)
	discards := d.discards()
	h.hist[len(h.hist)-1].d = discards
	if err != nil && !fired {
		h.fail("Put(k%d,%s) failed with %v although no device call failed", ki, l, err)
	}
	if p.outOfRange != "" {
		h.fail("Put(k%d,%s): %s", ki, l, p.outOfRange)
	}
	failed := err != nil
	if f != nil {
		switch {
		case !fired:
			h.st.faultPutNotReached++
		case f.write:
			h.st.faultPutWrite++
		default:
			h.st.faultPutRead++
			if p.faultOnValid && p.faultKey != h.keys[ki] {
				h.st.faultPutReadOnLiveOtherKey++
			}
		}
		if fired && !failed {
			h.st.faultPutSwallowed++
		}
	}
	// mechanism of the unchanged code, counted only (see the file comment);
	// the property-level form of oldest-first displacement is asserted
	// below on the lookup results ("discarded the entry ... NEWER").
	if p.reads > h.cfg.putAttempts || p.writes > h.cfg.putAttempts {
		h.st.mechPutOverLimit++
	}
	if p.readAfterInvalid {
		h.st.mechPutReadAfterInvalid++
	}
	if p.nonMonotonic != "" {
		h.st.mechPutNotNewer++
	}
	if p.displaced > 0 {
		h.st.displacingPuts++
		h.st.displacedRecords += p.displaced
	}
	h.st.inserted += int(d.inserted)
	h.st.updated += int(d.updated)
	h.st.ignoredOlder += int(d.ignoredOlder)
	h.st.tooManyAttempts += int(d.tooManyAttempts)
	h.st.tooManyIterations += int(d.tooManyIterations)
	h.st.discards += int(discards)

	if !h.isStored(ki, l) {
		h.stored[ki] = append(h.stored[ki], l)
	}
	after := h.nxt
	h.observe(after)

	// (2) the key being stored
	want := before[ki]
	if !want.ok || older(want.l, l) {
		want = res{ok: true, l: l}
	}
	affected, affectedOthers := 0, 0
	ownDeviates := after[ki] != want
	if ownDeviates && failed && after[ki] == before[ki] {
		// Put reported failure and the key still resolves to what it
		// resolved to before: the entry was not stored.
		ownDeviates = false
		h.st.faultPutFailedKeptPrevious++
	} else if failed && !ownDeviates {
		h.st.faultPutFailedStoredNew++
	}
	if ownDeviates {
		affected++
		h.st.ownPutLost++
	}
	// (3) all other keys
	for kx := range h.keys {
		if kx == ki || after[kx] == before[kx] {
			continue
		}
		affected++
		affectedOthers++
		if !before[kx].ok {
			h.fail("Put(k%d,%s) made Get(k%d) change from NOT_FOUND to %s", ki, l, kx, after[kx])
		}
		if after[kx].ok {
			if !older(after[kx].l, before[kx].l) {
				h.fail("Put(k%d,%s) changed Get(k%d) from %s to %s, which is not an older location", ki, l, kx, before[kx], after[kx])
			}
			h.st.fallbackOlder++
		} else {
			h.st.fallbackNothing++
		}
		if older(l, before[kx].l) {
			h.fail("oldest-first displacement: Put(k%d,%s) discarded the entry k%d -> %s, which is NEWER than the entry being stored (reported discards %d)", ki, l, kx, before[kx], discards)
		}
	}
	if !exact && affected > 0 {
		return true
	}
	// errorAllowance: a Put that RETURNS AN ERROR has told its caller that
	// the operation was cut short; the unchanged code then loses the one
	// record it had displaced and was carrying to its next slot (it is
	// older than the entry being stored) without counting a discard. That
	// one key is tolerated; a Put that returns nil gets no allowance.
	// It covers another key only: the stored key itself must resolve to
	// one of the two accepted outcomes (or a discard must be reported).
	allowance := uint64(0)
	if failed && affectedOthers > 0 {
		allowance = 1
		if uint64(affected) > discards {
			h.st.faultPutFailedLostOther++
		}
	}
	if uint64(affected) > discards+allowance {
		var sb strings.Builder
		for kx := range h.keys {
			if kx == ki && ownDeviates {
				fmt.Fprintf(&sb, " k%d(stored key): %s -> %s, expected %s;", kx, before[kx], after[kx], want)
			} else if kx != ki && after[kx] != before[kx] {
				fmt.Fprintf(&sb, " k%d: %s -> %s;", kx, before[kx], after[kx])
			}
		}
		h.fail("silent loss: Put(k%d,%s)%s (returned %v) changed the lookup result of %d key(s) in a way only a discard explains, but the metrics report %d discard(s) for this call (outcome deltas %+v):%s",
			ki, l, f, err, affected, discards, d, sb.String())
	}
	if discards > 0 && affected == 0 {
		h.st.hiddenDiscard++
	}

	// reference model
	if ownDeviates || failed {
		// after a failed Put either accepted outcome becomes the model
		h.best[ki] = after[ki]
	} else if !h.best[ki].ok || older(h.best[ki].l, l) {
		h.best[ki] = res{ok: true, l: l}
	}
	for kx := range h.keys {
		if kx != ki && after[kx] != before[kx] {
			h.best[kx] = after[kx]
		}
	}
	h.checkModel(after, "Put")
	h.swap()
	if h.auditEvery {
		h.audit()
	}
	return false
}

// release drops the oldest live block.
func (h *harness) release() {
	if h.blocks.live() < 2 {
		panic("harness: release with fewer than two live blocks")
	}
	h.hist = append(h.hist, opRec{kind: "release"})
	h.st.releases++
	before := h.cur
	gone := h.blocks.released
	h.blocks.release()
	if h.real != nil {
		h.real.popFront()
	}
	after := h.nxt
	h.observe(after)
	removed := false
	for kx := range h.keys {
		if before[kx].ok && before[kx].l.blk == gone {
			removed = true
			if after[kx].ok {
				h.fail("release of block %d: Get(k%d) pointed into it (%s) and now returns %s instead of NOT_FOUND", gone, kx, before[kx], after[kx])
			}
		} else if after[kx] != before[kx] {
			h.fail("release of block %d: Get(k%d) did not point into it but changed from %s to %s", gone, kx, before[kx], after[kx])
		}
	}
	if removed {
		h.st.releasesRemoving++
	}
	h.checkModel(after, "release")
	h.swap()
	if h.auditEvery {
		h.audit()
	}
}

// alloc appends a new, empty block.
func (h *harness) alloc(seed uint64) {
	h.hist = append(h.hist, opRec{kind: "alloc"})
	h.st.allocs++
	before := h.cur
	h.blocks.alloc(seed)
	if h.real != nil {
		h.real.pushBack(h)
	}
	after := h.nxt
	h.observe(after)
	for kx := range h.keys {
		if after[kx] != before[kx] {
			h.fail("allocation of a new block changed Get(k%d) from %s to %s", kx, before[kx], after[kx])
		}
	}
	h.swap()
}

// get is an explicit lookup operation of the generated sequence.
func (h *harness) get(ki int) { h.getF(ki, nil) }

// getF is get with an optional device read fault: a lookup during which a
// device read failed must answer with an error (any) or with a sound result
// (clause (1): a location stored for exactly that key in a live block);
// either way it changes no lookup result.
func (h *harness) getF(ki int, f *faultPlan) {
	h.hist = append(h.hist, opRec{kind: "get", key: ki, fault: f})
	h.st.gets++
	before := h.cur
	r, fired, errored := h.lookupF(ki, f)
	if f != nil {
		h.hist[len(h.hist)-1].fired = fired
		switch {
		case !fired:
			h.st.faultGetNotReached++
		case errored:
			h.st.faultGetError++
			h.hist[len(h.hist)-1].err = fmt.Errorf("error")
		default:
			h.st.faultGetAnswered++
		}
	}
	if !fired && r != before[ki] {
		h.fail("Get(k%d) = %s, the previous Get (no operation in between) said %s", ki, r, before[ki])
	}
	after := h.nxt
	h.observe(after)
	for kx := range h.keys {
		if after[kx] != before[kx] {
			h.fail("a lookup changed Get(k%d) from %s to %s", kx, before[kx], after[kx])
		}
	}
	h.swap()
}

// audit compares the table with the layout the unchanged code documents: a
// valid record (K, attempt a, L) sits in the slot its record key hashes to, a
// is below the get limit, L was stored for K, and every earlier slot of K's
// probe sequence holds a valid record that is not older than L. None of this
// is part of the property (it is the internal data layout); a deviation is
// only counted (class mech_table_layout_differs). It reads the slots below
// the decorator's counters and never writes.
func (h *harness) audit() {
	if h.auditDeviates() {
		h.st.mechAudit++
	}
}

func (h *harness) auditDeviates() bool {
	in := h.probe.inner
	for s := 0; s < h.cfg.size; s++ {
		rec, err := in.Get(s)
		if err == local.ErrLocationRecordInvalid {
			continue
		}
		if err != nil {
			return true
		}
		ki, ok := h.keyIdx[rec.RecordKey.Key]
		if !ok {
			return true
		}
		a := rec.RecordKey.Attempt
		if a >= h.cfg.getAttempts {
			return true
		}
		rk := rec.RecordKey
		if want := int(rk.Hash(h.cfg.hashInit) % uint64(h.cfg.size)); want != s {
			return true
		}
		if rec.Location.BlockIndex < 0 || rec.Location.BlockIndex >= h.blocks.live() {
			return true
		}
		l := loc{blk: rec.Location.BlockIndex + h.blocks.released, off: rec.Location.OffsetBytes, size: rec.Location.SizeBytes}
		if !h.isStored(ki, l) {
			return true
		}
		for b := uint32(0); b < a; b++ {
			pk := local.LocationRecordKey{Key: rk.Key, Attempt: b}
			ps := int(pk.Hash(h.cfg.hashInit) % uint64(h.cfg.size))
			prev, err := in.Get(ps)
			if err != nil || relOlder(prev.Location, rec.Location) {
				return true
			}
		}
	}
	return false
}

// ------------------------------------------------------ concurrent lookups

// concMismatch is the first deviation one goroutine saw.
type concMismatch struct {
	seen  bool
	step  int
	ki    int
	got   res
	err   error // an answer that is neither a location nor NOT_FOUND
	count int
}

// concurrentLookups runs len(patterns) goroutines that do nothing but
// lookups (goroutine g looks up patterns[g] repeats[g] times over) against
// the current state and demands of EVERY answer that it equals the answer the
// sequential lookup of that key gave (h.cur). Callers of KeyLocationMap.Get
// hold a read lock only (FlatBlobAccess.Get/FindMissing,
// HierarchicalCASBlobAccess.Get), so any number of lookups may run at once.
//
// Why this is sound: the property defines the result of a lookup as a
// function of the stores, releases and reported discards that happened; a
// lookup is none of these, so no lookup, in whatever interleaving, may change
// a result. The clean-up the KeyLocationMap interface permits during lookups
// concerns entries of released blocks, which are never a result. (The
// sequential units assert the same for single lookups: "a lookup changed
// Get(k)".) Afterwards all keys are looked up sequentially once more.
//
// The goroutines start behind a gate (all have been scheduled before the
// first lookup is made) and are joined before the function returns; the
// verdict does not depend on the interleaving for a correct index.
func (h *harness) concurrentLookups(patterns [][]int, repeats []int) (lookups int) {
	expected := append([]res(nil), h.cur...)
	released := h.blocks.released
	n := len(patterns)
	bad := make([]concMismatch, n)
	var ready atomic.Int32
	var wg sync.WaitGroup
	h.probe.passthrough = true
	for g := 0; g < n; g++ {
		lookups += len(patterns[g]) * repeats[g]
		wg.Add(1)
		go func(g int) {
			defer wg.Done()
			ready.Add(1)
			for ready.Load() < int32(n) {
				runtime.Gosched()
			}
			m := &bad[g]
			step := 0
			for r := 0; r < repeats[g]; r++ {
				for _, ki := range patterns[g] {
					rl, err := h.klm.Get(h.keys[ki])
					var got res
					var other error
					if err == nil {
						got = res{ok: true, l: loc{blk: rl.BlockIndex + released, off: rl.OffsetBytes, size: rl.SizeBytes}}
					} else if status.Code(err) != codes.NotFound {
						other = err
					}
					if other != nil || got != expected[ki] {
						if !m.seen {
							*m = concMismatch{seen: true, step: step, ki: ki, got: got, err: other}
						}
						m.count++
					}
					step++
				}
			}
		}(g)
	}
	wg.Wait()
	h.probe.passthrough = false
	total := 0
	for g := range bad {
		total += bad[g].count
	}
	for g, m := range bad {
		if !m.seen {
			continue
		}
		what := fmt.Sprintf("%d of %d lookups made by %d goroutines at once deviate from the sequential answers; first in goroutine %d, its lookup #%d:", total, lookups, n, g, m.step)
		switch {
		case m.err != nil:
			h.fail("concurrent lookups: %s Get(k%d) failed with %v (sequential answer %s)", what, m.ki, m.err, expected[m.ki])
		case !m.got.ok:
			h.fail("concurrent lookups: %s Get(k%d) = NOT_FOUND although nothing was stored, released or discarded since the sequential answer %s", what, m.ki, expected[m.ki])
		case !h.isStored(m.ki, m.got.l) && h.storedForOther(m.ki, m.got.l) >= 0:
			h.fail("concurrent lookups / lookup soundness: %s Get(k%d) = %s, which was stored for key k%d and never for k%d (sequential answer %s)", what, m.ki, m.got, h.storedForOther(m.ki, m.got.l), m.ki, expected[m.ki])
		default:
			h.fail("concurrent lookups: %s Get(k%d) = %s, the sequential answer is %s (stored for it: %v)", what, m.ki, m.got, expected[m.ki], h.stored[m.ki])
		}
	}
	h.observe(h.nxt)
	for kx := range h.keys {
		if h.nxt[kx] != expected[kx] {
			h.fail("concurrent lookups changed the sequential answer Get(k%d) from %s to %s", kx, expected[kx], h.nxt[kx])
		}
	}
	return lookups
}
