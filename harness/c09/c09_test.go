// Package c09 checks property C09: CAS buffers never complete a read of
// content that mismatches its digest.
package c09

import (
	"bytes"
	"fmt"
	"os"
	"strings"
	"testing"

	remoteexecution "github.com/bazelbuild/remote-apis/build/bazel/remote/execution/v2"
	"github.com/buildbarn/bb-storage/pkg/digest"
	"google.golang.org/grpc/codes"
	"google.golang.org/grpc/status"
	"google.golang.org/protobuf/proto"
	"google.golang.org/protobuf/types/known/wrapperspb"
	"pgregory.net/rapid"

	"verif/harness/bufzoo"
	"verif/harness/vstats"
)

func TestMain(m *testing.M) {
	rc := m.Run()
	vstats.Flush()
	os.Exit(rc)
}

// class is the verdict of the reference model for a source that is read
// completely: what a consumer that needs the whole object must observe.
type class int

const (
	clsOK   class = iota // content has exactly the stated size and hash
	clsIO                // the source fails at or before the stated size: its error, unchanged
	clsSize              // size differs (short, long, or trailing data)
	clsHash              // size right, hash wrong
)

var classNames = [...]string{"ok", "ioerr", "size", "hash"}

// boundary sizes: hash block sizes, SHA256TREE's 1024-byte chunks.
var sizePool = []int{0, 0, 1, 1, 2, 3, 5, 8, 31, 32, 33, 55, 56, 63, 64, 65, 119, 127, 128, 129, 255, 256, 300, 1023, 1024, 1025, 2049}

type caseSpec struct {
	fn      remoteexecution.DigestFunction_Value
	content []byte
	variant string
	src     *bufzoo.SourceSpec
	con     *bufzoo.ConsumeSpec

	stream []byte
	stated digest.Digest
	n      int64
	match  bool
	cls    class
	code   codes.Code // expected code of a mismatch error
}

func (cs *caseSpec) String() string {
	return fmt.Sprintf("fn=%s content=%dB variant=%s src=%s use=%s => model=%s match=%v",
		cs.fn, len(cs.content), cs.variant, cs.src, cs.con, classNames[cs.cls], cs.match)
}

func genCase(t *rapid.T) *caseSpec {
	cs := &caseSpec{}
	fns := digest.SupportedDigestFunctions
	cs.fn = fns[rapid.IntRange(0, len(fns)-1).Draw(t, "fn")]
	var size int
	if rapid.IntRange(0, 2).Draw(t, "sizeKind") == 0 {
		size = sizePool[rapid.IntRange(0, len(sizePool)-1).Draw(t, "sizePool")]
	} else {
		size = rapid.IntRange(0, 40).Draw(t, "size")
	}
	if rapid.IntRange(0, 5).Draw(t, "protoShaped") == 0 {
		payload := rapid.SliceOfN(rapid.Byte(), 0, 40).Draw(t, "payload")
		cs.content = bufzoo.MarshalPayload(payload)
	} else {
		// one seed byte + index pattern keeps shrinking cheap for big sizes
		seed := rapid.Byte().Draw(t, "seed")
		cs.content = make([]byte, size)
		for i := range cs.content {
			cs.content[i] = seed + byte(i*7) + byte(i>>8)
		}
		if size > 0 && size <= 40 {
			cs.content = rapid.SliceOfN(rapid.Byte(), size, size).Draw(t, "content")
		}
	}
	cs.src = bufzoo.GenSourceWith(t, "src", cs.content, bufzoo.SourceOpts{Kinds: bufzoo.CASKinds})
	cs.stream = cs.src.Stream()

	trueHash := bufzoo.RefHash(cs.fn, cs.content)
	v := rapid.IntRange(0, 11).Draw(t, "variant")
	switch {
	case v <= 4:
		cs.variant = "true"
		cs.stated = bufzoo.MkDigest("c09", cs.fn, trueHash, int64(len(cs.content)))
	case v <= 6:
		cs.variant = "of-stream" // states what the source really delivers
		cs.stated = bufzoo.RefDigest("c09", cs.fn, cs.stream)
	case v == 7:
		cs.variant = "size+"
		cs.stated = bufzoo.MkDigest("c09", cs.fn, trueHash, int64(len(cs.content)+rapid.IntRange(1, 3).Draw(t, "plus")))
	case v == 8 && len(cs.content) > 0:
		cs.variant = "size-"
		cs.stated = bufzoo.MkDigest("c09", cs.fn, trueHash, int64(len(cs.content)-rapid.IntRange(1, min(3, len(cs.content))).Draw(t, "minus")))
	case v == 9:
		cs.variant = "hash-bitflip"
		h := append([]byte(nil), trueHash...)
		h[rapid.IntRange(0, len(h)-1).Draw(t, "hashbyte")] ^= 1 << uint(rapid.IntRange(0, 7).Draw(t, "hashbit"))
		cs.stated = bufzoo.MkDigest("c09", cs.fn, h, int64(len(cs.content)))
	case v == 10 && len(cs.content) > 0:
		cs.variant = "hash-of-sibling" // digest of same-size content differing in its last byte
		sib := append([]byte(nil), cs.content...)
		sib[len(sib)-1] ^= 0x80
		cs.stated = bufzoo.RefDigest("c09", cs.fn, sib)
	default:
		cs.variant = "size-of-stream-hash-of-content"
		cs.stated = bufzoo.MkDigest("c09", cs.fn, trueHash, int64(len(cs.stream)))
	}
	cs.src.Digest = cs.stated
	cs.n = cs.stated.GetSizeBytes()
	// A failure position must stay within the stream; GenSource drew it
	// for the stream already.
	cs.con = bufzoo.GenConsume(t, "use", int(cs.n))

	// ---- reference model (independent of pkg/digest and pkg/blobstore) ----
	cs.match = bufzoo.Matches(cs.stated, cs.stream)
	cs.code = codes.InvalidArgument
	if cs.src.Backend {
		cs.code = codes.Internal
	}
	switch {
	case cs.src.Kind != bufzoo.CASByteSlice && cs.src.FailAt >= 0 && int64(cs.src.FailAt) <= cs.n:
		cs.cls = clsIO
	case int64(len(cs.stream)) != cs.n:
		cs.cls = clsSize
	case !cs.match:
		cs.cls = clsHash
	default:
		cs.cls = clsOK
	}
	return cs
}

// mismatchKind classifies the text of a data-integrity error ("size" /
// "hash" / ""). Statistics only: the property fixes the CODE of a mismatch
// error, not its wording nor which of two simultaneous mismatches (size and
// hash) is reported, so no assertion depends on this.
func mismatchKind(err error) string {
	msg := status.Convert(err).Message()
	switch {
	case strings.Contains(msg, "bytes were expected"):
		return "size"
	case strings.Contains(msg, "checksum"):
		return "hash"
	}
	return ""
}

type ctx struct {
	taskFails    bool // below a WithTask whose task fails
	copyTooSmall bool // below a CloneCopy whose maximum size is below the stated size
	underCopy    bool // below a CloneCopy: leaves see an already validated copy
	underHandler bool // below a WithErrorHandler
	path         string
}

type checker struct {
	t  *rapid.T
	cs *caseSpec
	c  *vstats.Case
	pr *bufzoo.Probe
	// lastChunkStart: stream offset at which the source read that handed
	// out stated byte n-1 began (-1: the source was never read that far).
	lastChunkStart int
}

func (k *checker) protoParses() bool {
	var m wrapperspb.BytesValue
	return proto.Unmarshal(k.cs.stream, &m) == nil
}

func (k *checker) fail(format string, args ...interface{}) {
	k.t.Fatalf("C09 violated: %s\n  case: %s", fmt.Sprintf(format, args...), k.cs)
}

// expectedData: what a completed leaf must have yielded.
func (k *checker) expectedData(l *bufzoo.ConsumeSpec) []byte {
	s := k.cs.stream
	switch l.Method {
	case bufzoo.ToChunkReader:
		if l.Off < 0 || l.Off > int64(len(s)) {
			return nil
		}
		return s[l.Off:]
	case bufzoo.ReadAt:
		if l.Off < 0 || l.Off > int64(len(s)) {
			return nil
		}
		end := l.Off + int64(l.Len)
		if end > int64(len(s)) {
			end = int64(len(s))
		}
		return s[l.Off:end]
	}
	return s
}

func (k *checker) leaf(x ctx, r *bufzoo.Result) {
	cs, l := k.cs, r.Spec
	where := x.path + l.String()
	if r.Stuck {
		k.fail("%s: consumer made no progress / impossible byte count: %v", where, r.Err)
	}
	k.c.Class("leaf_" + l.Method.String())
	seen := r.BytesSeenBeforeError

	// (1) soundness: successful completion only for matching content, with the right bytes.
	if r.Complete {
		if !cs.match {
			k.fail("%s observed successful completion (%d bytes) although the content does not have the stated size and hash", where, len(r.Data))
		}
		if l.Method == bufzoo.ToProto {
			var m wrapperspb.BytesValue
			want, _ := proto.MarshalOptions{Deterministic: true}.Marshal(&m)
			if err := proto.Unmarshal(cs.stream, &m); err == nil {
				want, _ = proto.MarshalOptions{Deterministic: true}.Marshal(&m)
			}
			if !k.protoParses() || !bytes.Equal(want, r.Data) {
				k.fail("%s returned a message that is not the content", where)
			}
		} else if l.ArgsValid(cs.n) && !bytes.Equal(r.Data, k.expectedData(l)) {
			// (with arguments outside the documented domain only clause (2)
			// below constrains the bytes)
			k.fail("%s completed with wrong bytes: got %x want %x", where, r.Data, k.expectedData(l))
		}
	}
	// (2) whatever was handed out is a prefix of the requested range of the stream.
	if l.Method != bufzoo.ToProto && len(seen) > 0 {
		lo := r.Off
		if lo < 0 || lo > int64(len(cs.stream)) || !bytes.HasPrefix(cs.stream[lo:], seen) {
			k.fail("%s handed out bytes that are not a prefix of the content at offset %d: %x", where, lo, seen)
		}
	}
	// (3) the final portion is withheld from mismatching content: the
	// consumer never holds all stated bytes of it. (Exception: the source
	// fails right after handing out exactly the stated number of bytes and
	// those bytes do have the stated hash - what the consumer can then
	// observe is valid data followed by the source's I/O error; whether the
	// never-delivered rest would have been surplus is unobservable.)
	if !cs.match && !(cs.cls == clsIO && k.prefixMatches()) {
		if need := cs.n - r.Off; need > 0 && r.Off >= 0 && int64(len(seen)) >= need {
			k.fail("%s received all %d stated bytes (from offset %d) of mismatching content before the error %v", where, cs.n, r.Off, r.Err)
		}
		// How MUCH more than the last byte is held back (today: nothing at
		// all of an eagerly rejected byte slice; the whole source read /
		// chunk that carries the last stated byte when the validator sits
		// directly on the source) is a layout decision of the
		// implementation, not part of the property: counted only.
		k.c.ClassIf(cs.src.Kind == bufzoo.CASByteSlice && len(seen) > 0, "impl_byteslice_not_rejected_eagerly")
		k.c.ClassIf(!x.underHandler && cs.cls != clsIO && k.lastChunkStart >= 0 && len(seen) > 0 && r.Off+int64(len(seen)) > int64(k.lastChunkStart),
			"impl_part_of_last_source_chunk_handed_out")
	}

	if l.Method == bufzoo.Discard {
		return
	}
	if x.copyTooSmall && !r.Complete && r.Err != nil {
		// CloneCopy with a maximum below the stated size refused to copy
		// (buffers that need no copy may ignore the maximum). Which error
		// that is, is not C09's business.
		k.c.Class("clonecopy_max_rejected")
		return
	}
	argsOK := l.ArgsValid(cs.n)
	writerLimited := l.Method == bufzoo.IntoWriter && l.WriterLimit >= 0 && int64(l.WriterLimit) < cs.n
	if !l.ReadsToEnd() {
		// closed early: no completion claim; an error may or may not have
		// been reached. Whatever error shows up must be a legitimate one.
		if r.Err != nil {
			k.legitError(x, where, r, argsOK)
		}
		return
	}

	// (4) arguments outside the documented domain (negative offset, offset
	// beyond the stated size, maximum size below the stated size): the
	// property does not say how they are answered. Clauses (1)-(3) above
	// still hold (no completion on mismatching content, only content bytes
	// handed out, final portion withheld); rejection vs. an empty / the
	// regular result is counted only.
	if !argsOK {
		switch {
		case r.Complete && l.Method == bufzoo.ReadAt && l.Off > cs.n && len(r.Data) == 0:
			k.c.Class("readat_beyond_end_eof")
		case r.Complete && l.Method == bufzoo.ToChunkReader && l.Off > cs.n && len(r.Data) == 0:
			k.c.Class("chunkreader_beyond_end_eof")
		case r.Complete:
			k.c.Class("invalid_args_completed")
		case r.Err != nil:
			k.c.Class("invalid_args_rejected")
		default:
			k.fail("%s reported neither completion nor an error", where)
		}
		return
	}

	// (5) completeness and error identity.
	if !r.Complete && r.Err == nil {
		k.fail("%s reported neither completion nor an error", where)
	}
	switch cs.cls {
	case clsOK:
		// Content is fine and the source never fails (before the end):
		// the only legitimate reasons for not completing are created by
		// the consumer itself (a writer that fills up, a failing task, a
		// ToProto of content that is not a message). Which error those
		// produce is not part of C09.
		protoBad := l.Method == bufzoo.ToProto && !k.protoParses()
		switch {
		case r.Complete:
			if writerLimited {
				k.fail("%s: writer accepts only %d of %d bytes yet IntoWriter reported success", where, l.WriterLimit, cs.n)
			}
			if protoBad {
				k.fail("%s returned a message although the content is not a valid message", where)
			}
			// Below a failing task a completion is tolerated here:
			// how task errors surface is property C15's business.
		case writerLimited:
			k.c.Class("writer_full_error")
		case x.taskFails:
			k.c.Class("task_error_instead_of_completion")
		case protoBad:
			k.c.Class("proto_unparsable_error")
		default:
			k.fail("%s: content has exactly the stated size and hash, source never fails, arguments valid, yet no successful completion: err=%v", where, r.Err)
		}
	case clsIO:
		if r.Complete {
			k.fail("%s completed although the source fails after %d of %d stated bytes", where, cs.src.FailAt, cs.n)
		}
		switch {
		case bufzoo.SameError(r.Err, cs.src.FailErr()):
		case writerLimited:
			k.c.Class("writer_full_error")
		case k.taskErrorInstead(x, r):
		case k.mismatchKnownBeforeFailure() && status.Code(r.Err) == cs.code:
			// all stated bytes were delivered before the source failed and
			// they do not have the stated hash: both "mismatch" and "source
			// I/O error" describe this stream.
			k.c.Class("mismatch_reported_before_io_error")
		default:
			k.fail("%s: source read error not passed through unchanged: got %v want %v", where, r.Err, cs.src.FailErr())
		}
	case clsSize, clsHash:
		if r.Complete {
			k.fail("%s completed on mismatching content", where)
		}
		switch {
		case writerLimited:
			k.c.Class("writer_full_error")
		case k.taskErrorInstead(x, r):
		case cs.src.FailAt >= 0 && bufzoo.SameError(r.Err, cs.src.FailErr()):
			// the source also fails (beyond the stated size): an
			// implementation that reads ahead may meet that error first.
			k.c.Class("io_error_reported_before_mismatch")
		default:
			k.mismatchError(where, r.Err)
		}
	}
}

// prefixMatches: the first n (= stated size) bytes of the stream exist and
// have the stated hash.
func (k *checker) prefixMatches() bool {
	cs := k.cs
	return int64(len(cs.stream)) >= cs.n && bufzoo.Matches(cs.stated, cs.stream[:cs.n])
}

// mismatchKnownBeforeFailure: the source fails only after it has handed out
// all stated bytes, and those do not have the stated hash.
func (k *checker) mismatchKnownBeforeFailure() bool {
	cs := k.cs
	return cs.src.FailAt >= 0 && int64(cs.src.FailAt) >= cs.n && int64(len(cs.stream)) >= cs.n && !k.prefixMatches()
}

// taskErrorInstead: below a failing task, the task's error may surface in
// place of the buffer's own error: the task's error is injected where the
// unvalidated stream ends, i.e. before a validator layered above it (error
// handler on top of a task) gets to compare the checksum. Either way the
// consumer does not complete; which error wins is property C15's business.
func (k *checker) taskErrorInstead(x ctx, r *bufzoo.Result) bool {
	if x.taskFails && r.Err != nil {
		k.c.ClassIf(bufzoo.SameError(r.Err, bufzoo.TaskErr()), "task_error_preempts_buffer_error")
		return true
	}
	return false
}

// mismatchError: err must carry the code the property states for a size or
// hash mismatch (INVALID_ARGUMENT for client-supplied, INTERNAL for backend
// data). Its wording, and whether a stream that is both too long and has the
// wrong hash is called a size or a hash mismatch, are not asserted.
func (k *checker) mismatchError(where string, err error) {
	cs := k.cs
	if err == nil {
		k.fail("%s: mismatching content but no error", where)
	}
	if status.Code(err) != cs.code {
		k.fail("%s: mismatch reported with code %s, want %s (backend=%v): %v", where, status.Code(err), cs.code, cs.src.Backend, err)
	}
	k.c.ClassIf(mismatchKind(err) != classNames[cs.cls], "mismatch_text_differs_from_model_kind")
}

// legitError: an error seen by a leaf that did not (have to) read to the
// end must have a cause: invalid arguments, a failing task, a writer that
// fills up, unparsable content for ToProto, the source's own error, or a
// mismatch (with the stated code). In particular matching content from a
// source that never fails, read with valid arguments, must not yield one.
func (k *checker) legitError(x ctx, where string, r *bufzoo.Result, argsOK bool) {
	cs, err := k.cs, r.Err
	switch {
	case !argsOK:
	case x.taskFails:
	case r.Spec.Method == bufzoo.ToProto && !k.protoParses():
	case r.Spec.Method == bufzoo.IntoWriter && r.Spec.WriterLimit >= 0:
	case cs.src.FailAt >= 0 && bufzoo.SameError(err, cs.src.FailErr()):
	case (cs.cls == clsSize || cs.cls == clsHash || k.mismatchKnownBeforeFailure()) && status.Code(err) == cs.code:
	default:
		k.fail("%s: unexpected error %v (model %s, argsValid=%v, taskFails=%v)", where, err, classNames[cs.cls], argsOK, x.taskFails)
	}
}

func (k *checker) walk(x ctx, r *bufzoo.Result) {
	if r.Panic != nil {
		k.fail("%s%s panicked: %v", x.path, r.Spec.Method, r.Panic)
	}
	s := r.Spec
	if s.Method.IsLeaf() {
		k.leaf(x, r)
		return
	}
	k.c.Class("wrap_" + s.Method.String())
	x.path += s.Method.String() + "."
	switch s.Method {
	case bufzoo.CloneCopy:
		if int64(s.MaxSize) < k.cs.n {
			x.copyTooSmall = true
		}
		x.underCopy = true
	case bufzoo.WithTask:
		// how often / whether the task runs is C15's business
		k.c.ClassIf(r.TaskRan != 1, "impl_task_not_run_exactly_once")
		if s.TaskFails {
			x.taskFails = true
		}
	case bufzoo.WithErrorHandler:
		x.underHandler = true
		// the handler protocol (Done exactly once, ...) is C16's business
		h := r.Handler
		k.c.ClassIf(h.DoneCalls() != 1 || h.OnErrorAfterDone() != 0, "impl_handler_done_not_exactly_once")
	}
	k.walk(x, r.Next)
	if r.Next2 != nil {
		k.walk(x, r.Next2)
	}
}

func prop(rec *vstats.Recorder) func(t *rapid.T) {
	return func(t *rapid.T) {
		c := rec.Begin()
		cs := genCase(t)
		cs.src.Hash(c.Add)
		cs.con.Hash(c.Add)
		c.Add(int(cs.fn), cs.variant)

		b, pr := bufzoo.Build(cs.src)
		res := bufzoo.Consume(b, cs.con)

		k := &checker{t: t, cs: cs, c: c, pr: pr, lastChunkStart: -1}
		if cs.n > 0 {
			for _, e := range pr.Reads() {
				if e.N > 0 && int64(e.Off+e.N) >= cs.n {
					k.lastChunkStart = e.Off
					break
				}
			}
		}
		k.walk(ctx{}, res)

		// (6) release of the source (closed exactly once, never read
		// afterwards) is asserted by C15/C16/C04, not here: counted only.
		if cs.src.Kind.HasCloser() {
			c.ClassIf(pr.Closes() != 1, "impl_source_not_closed_exactly_once")
			c.ClassIf(pr.ReadAfterClose() != 0, "impl_source_read_after_close")
		}
		// (7) integrity callback.
		verdicts := pr.Integrity()
		nTrue, nFalse := 0, 0
		for _, v := range verdicts {
			if v {
				nTrue++
			} else {
				nFalse++
			}
		}
		if nTrue > 0 && !cs.match {
			k.fail("integrity callback received a positive verdict for mismatching content (verdicts %v)", verdicts)
		}
		if nFalse > 0 && cs.match {
			k.fail("integrity callback received a negative verdict for matching content (verdicts %v)", verdicts)
		}
		if cs.src.Backend {
			// The property constrains the verdicts the callback receives,
			// not that it is invoked: missing verdicts are counted only.
			for _, lr := range res.Leaves() {
				c.ClassIf(lr.Complete && nTrue == 0, "impl_completed_without_positive_verdict")
				c.ClassIf(lr.Err != nil && status.Code(lr.Err) == cs.code && mismatchKind(lr.Err) != "" && (cs.cls == clsSize || cs.cls == clsHash) && nFalse == 0,
					"impl_mismatch_error_without_negative_verdict")
			}
			c.ClassIf(len(verdicts) > 1, "callback_more_than_once")
			c.ClassIf(nTrue > 0, "callback_true")
			c.ClassIf(nFalse > 0, "callback_false")
		}

		// ---- statistics ----
		c.Class("model_" + classNames[cs.cls])
		c.Class("kind_" + cs.src.Kind.String())
		c.Class("variant_" + cs.variant)
		c.Class("fn_" + cs.fn.String())
		c.ClassIf(cs.n == 0, "stated_size_0")
		c.ClassIf(cs.src.Mut != bufzoo.MutNone, "mut_"+cs.src.Mut.String())
		c.ClassIf(cs.src.FailAt >= 0, "source_fails")
		c.ClassIf(cs.src.Backend, "backend_provided")
		anyComplete, anyErr := false, false
		for _, lr := range res.Leaves() {
			anyComplete = anyComplete || lr.Complete
			anyErr = anyErr || lr.Err != nil
			c.ClassIf(lr.ClosedEarly, "closed_early")
		}
		c.ClassIf(anyComplete, "some_leaf_completed")
		c.ClassIf(anyErr, "some_leaf_error")
		if nt := nonTrivial(cs); nt != "" {
			c.Class(nt)
			c.NonTrivial()
		}
		c.Sample(func() string { return cs.String() + " -> " + res.String() })
		c.End()
	}
}

// nonTrivial implements the NT rule of DESIGN.md section 4/C09: mismatching
// content whose first divergence lies in the last chunk the source hands
// out, or matching content delivered with an empty or short final read.
func nonTrivial(cs *caseSpec) string {
	src := cs.src
	if src.Kind != bufzoo.CASReader && src.Kind != bufzoo.CASChunkReader {
		return ""
	}
	layout := src.Layout()
	nonEmpty := 0
	lastStart, lastLen, prevLen, pos := 0, 0, 0, 0
	for _, c := range layout {
		if c > 0 {
			nonEmpty++
			prevLen = lastLen
			lastStart, lastLen = pos, c
		}
		pos += c
	}
	switch cs.cls {
	case clsSize, clsHash:
		if nonEmpty < 2 {
			return ""
		}
		dv := -1
		switch {
		case int64(len(cs.stream)) < cs.n:
			dv = len(cs.stream) // the first missing byte
		case int64(len(cs.stream)) > cs.n:
			dv = int(cs.n) // the first surplus byte
		case src.Mut == bufzoo.MutFlip && (cs.variant == "true" || cs.variant == "size-of-stream-hash-of-content"):
			dv = src.MutArg
		case cs.variant == "hash-of-sibling":
			dv = len(cs.stream) - 1
		}
		if dv >= lastStart && dv >= 0 {
			return "nt_divergence_in_last_chunk"
		}
	case clsOK:
		if cs.n == 0 {
			return "" // nothing is delivered at all
		}
		emptyFinal := false
		if src.Kind == bufzoo.CASReader {
			emptyFinal = !src.EOFWithData // (n, nil) then (0, io.EOF)
		} else {
			emptyFinal = src.TrailingEmpty > 0 || (len(layout) > 0 && layout[len(layout)-1] == 0)
		}
		if emptyFinal {
			return "nt_matching_empty_final_read"
		}
		if nonEmpty >= 2 && lastLen < prevLen {
			return "nt_matching_short_final_read"
		}
	}
	return ""
}

var recProp = vstats.New("TestC09Property")

// TestC09Property: generated content x stated digest x source behaviour x
// consumption tree against the reference model.
func TestC09Property(t *testing.T) {
	rapid.Check(t, prop(recProp))
}

var recFuzz = vstats.New("FuzzC09")

// FuzzC09 feeds the fuzzer's bytes through the same generators (the bytes
// are rapid's draw stream, so they decode into content, stated-digest
// variant, chunking and consumption) and applies the same oracle.
func FuzzC09(f *testing.F) {
	f.Add([]byte{})
	f.Add([]byte{1, 2, 3, 4, 5, 6, 7, 8, 9, 10, 11, 12, 13, 14, 15, 16, 17, 18, 19, 20, 21, 22, 23, 24, 25, 26, 27, 28, 29, 30, 31, 32})
	f.Add(bytes.Repeat([]byte{0xff, 0x00, 0x7f, 0x80}, 64))
	f.Add(bytes.Repeat([]byte{0x55}, 512))
	f.Fuzz(rapid.MakeFuzz(prop(recFuzz)))
}
