package c09

// Read buffer factories (pkg/blobstore): the place where storage backends
// decide, per read, whether the stored bytes are checked against the digest
// (CASReadBufferFactory) or handed out as they are
// (NewValidationCachingReadBufferFactory after an earlier positive verdict).
// The unit drives SEQUENCES of reads of the same and of different digests
// over stored bytes that change between reads.

import (
	"bytes"
	"fmt"
	"io"
	"strings"
	"sync"
	"testing"
	"time"

	remoteexecution "github.com/bazelbuild/remote-apis/build/bazel/remote/execution/v2"
	"github.com/buildbarn/bb-storage/pkg/blobstore"
	"github.com/buildbarn/bb-storage/pkg/blobstore/buffer"
	"github.com/buildbarn/bb-storage/pkg/blobstore/local"
	"github.com/buildbarn/bb-storage/pkg/digest"
	"github.com/buildbarn/bb-storage/pkg/eviction"
	evictionpb "github.com/buildbarn/bb-storage/pkg/proto/configuration/eviction"
	digestpb "github.com/buildbarn/bb-storage/pkg/proto/configuration/digest"
	"google.golang.org/grpc/codes"
	"google.golang.org/grpc/status"
	"google.golang.org/protobuf/types/known/durationpb"
	"pgregory.net/rapid"

	"verif/harness/bufzoo"
	"verif/harness/hx"
	"verif/harness/vstats"
)

// ---------------------------------------------------------------------
// storage fakes (what a backend hands to the factory)

// fDevice is a blockdevice.BlockDevice over a byte slice. failAt >= 0: a
// ReadAt that needs the byte at that absolute position returns the bytes
// before it together with failErr.
type fDevice struct {
	mu      sync.Mutex
	data    []byte
	failAt  int
	failErr error
}

func (d *fDevice) ReadAt(p []byte, off int64) (int, error) {
	d.mu.Lock()
	defer d.mu.Unlock()
	if off < 0 || off > int64(len(d.data)) {
		return 0, fmt.Errorf("fDevice: read at %d outside %d bytes", off, len(d.data))
	}
	want := len(p)
	if d.failAt >= 0 && off <= int64(d.failAt) && off+int64(want) > int64(d.failAt) {
		n := copy(p[:int64(d.failAt)-off], d.data[off:])
		return n, d.failErr
	}
	n := copy(p, d.data[off:])
	if n < want {
		return n, io.EOF
	}
	return n, nil
}

func (d *fDevice) WriteAt(p []byte, off int64) (int, error) {
	d.mu.Lock()
	defer d.mu.Unlock()
	return copy(d.data[off:], p), nil
}
func (d *fDevice) Sync() error  { return nil }
func (d *fDevice) Close() error { return nil }

// fReaderAt is a buffer.ReadAtCloser over exactly the stored bytes, the way
// every caller of NewBufferFromReaderAt builds one (an io.SectionReader of
// sizeBytes over the medium).
type fReaderAt struct {
	io.SectionReader
	mu     sync.Mutex
	closes int
}

func (r *fReaderAt) Close() error { r.mu.Lock(); r.closes++; r.mu.Unlock(); return nil }

// fReader is a sequential io.ReadCloser over the stored bytes: every Read
// returns at most chunk bytes; at failAt it returns failErr.
type fReader struct {
	data    []byte
	pos     int
	chunk   int
	failAt  int
	failErr error
}

func (r *fReader) Read(p []byte) (int, error) {
	if len(p) == 0 {
		return 0, nil
	}
	end := len(r.data)
	if r.failAt >= 0 && r.failAt < end {
		end = r.failAt
	}
	if r.pos >= end {
		if r.failAt >= 0 {
			return 0, r.failErr
		}
		return 0, io.EOF
	}
	n := min(len(p), r.chunk, end-r.pos)
	copy(p, r.data[r.pos:r.pos+n])
	r.pos += n
	return n, nil
}
func (r *fReader) Close() error { return nil }

func fFailErr() error { return bufzoo.MkErr(codes.Unavailable, "c09-medium-read-failed") }

// ---------------------------------------------------------------------
// case

type fSrcKind int

const (
	fSlice fSrcKind = iota
	fReaderKind
	fReaderAtKind
	fBlock // local.NewBlockDeviceBackedBlockAllocator(...).Get over a device
)

var fSrcNames = [...]string{"ByteSlice", "Reader", "ReaderAt", "BlockDevice"}

type fMut int

const (
	fKeep fMut = iota
	fFlip
	fTruncate
	fAppend
	fRepair
	fOther // the content of another object of the case
)

var fMutNames = [...]string{"keep", "flip", "truncate", "append", "repair", "other"}

// fObject is one digest the case reads.
type fObject struct {
	d     digest.Digest
	fn    remoteexecution.DigestFunction_Value
	inst  string
	right []byte // content the object was created from (nil for a foreign-function alias)
	how   string
	key   string // model's cache/storage key
	slot  int    // storage slot (objects with equal keys share one)
}

type fRead struct {
	advance time.Duration
	mut     fMut
	mutArg  int
	mutData []byte
	obj     int
	src     fSrcKind
	chunk   int
	failAt  int
	con     *bufzoo.ConsumeSpec
}

type fCase struct {
	withInstance bool
	wiring       string // "none", "vclock", "configuration"
	cacheSize    int
	duration     time.Duration
	policy       string
	objects      []*fObject
	slots        [][]byte // stored bytes per slot
	reads        []*fRead
}

func (cs *fCase) String() string {
	var sb strings.Builder
	fmt.Fprintf(&sb, "keyWithInstance=%v cache=%s", cs.withInstance, cs.wiring)
	if cs.wiring != "none" {
		fmt.Fprintf(&sb, "(size=%d,duration=%s,%s)", cs.cacheSize, cs.duration, cs.policy)
	}
	for i, o := range cs.objects {
		h := o.d.GetHashString()
		fmt.Fprintf(&sb, " obj%d=%s:%s:%s../%d(%s)", i, o.inst, o.fn, h[:6], o.d.GetSizeBytes(), o.how)
	}
	for i, r := range cs.reads {
		fmt.Fprintf(&sb, " | #%d", i)
		if r.advance > 0 {
			fmt.Fprintf(&sb, " +%s", r.advance)
		}
		if r.mut != fKeep {
			fmt.Fprintf(&sb, " %s(%d)", fMutNames[r.mut], r.mutArg)
		}
		fmt.Fprintf(&sb, " read obj%d via %s", r.obj, fSrcNames[r.src])
		if r.failAt >= 0 {
			fmt.Fprintf(&sb, " failAt=%d", r.failAt)
		}
		fmt.Fprintf(&sb, " %s", r.con)
	}
	return sb.String()
}

var fSizes = []int{0, 1, 2, 5, 31, 32, 33, 64, 65, 127, 200, 300}

var f32ByteFunctions = []remoteexecution.DigestFunction_Value{
	remoteexecution.DigestFunction_SHA256, remoteexecution.DigestFunction_BLAKE3, remoteexecution.DigestFunction_SHA256TREE,
}

func fModelKey(fn remoteexecution.DigestFunction_Value, hash []byte, size int64, inst string, withInstance bool) string {
	k := fmt.Sprintf("%d/%x/%d", int(fn), hash, size)
	if withInstance {
		k += "/" + inst
	}
	return k
}

func genFactoryCase(t *rapid.T) *fCase {
	cs := &fCase{}
	cs.withInstance = rapid.Bool().Draw(t, "keyWithInstance")
	switch w := rapid.IntRange(0, 9).Draw(t, "wiring"); {
	case w == 0:
		cs.wiring = "none"
	case w == 1:
		cs.wiring = "configuration"
	default:
		cs.wiring = "vclock"
	}
	cs.cacheSize = []int{1, 2, 3, 100}[rapid.IntRange(0, 3).Draw(t, "cacheSize")]
	cs.duration = []time.Duration{time.Second, time.Minute, time.Hour}[rapid.IntRange(0, 2).Draw(t, "duration")]
	cs.policy = []string{"LRU", "FIFO"}[rapid.IntRange(0, 1).Draw(t, "policy")]
	if cs.wiring == "configuration" {
		// the real clock: nothing may depend on it, so no expiry.
		cs.duration = time.Hour
	}

	// ---- objects ----
	fns := digest.SupportedDigestFunctions
	slotOf := map[string]int{}
	add := func(o *fObject, hash []byte, size int64, initial []byte) {
		o.key = fModelKey(o.fn, hash, size, o.inst, cs.withInstance)
		if s, ok := slotOf[o.key]; ok {
			o.slot = s
		} else {
			o.slot = len(cs.slots)
			slotOf[o.key] = o.slot
			cs.slots = append(cs.slots, append([]byte(nil), initial...))
		}
		cs.objects = append(cs.objects, o)
	}
	nBase := rapid.IntRange(1, 3).Draw(t, "nObjects")
	for i := 0; i < nBase; i++ {
		lbl := fmt.Sprintf("obj%d", i)
		fn := fns[rapid.IntRange(0, len(fns)-1).Draw(t, lbl+"/fn")]
		inst := []string{"a", "b"}[rapid.IntRange(0, 1).Draw(t, lbl+"/inst")]
		var content []byte
		how := "fresh"
		if i > 0 && len(cs.objects[0].right) > 0 && rapid.IntRange(0, 2).Draw(t, lbl+"/sibling?") == 0 {
			// same size as object 0, last byte differs
			content = append([]byte(nil), cs.objects[0].right...)
			content[len(content)-1] ^= 0x80
			how = "sibling-of-0"
		} else if rapid.Bool().Draw(t, lbl+"/pooled") {
			size := fSizes[rapid.IntRange(0, len(fSizes)-1).Draw(t, lbl+"/size")]
			seed := rapid.Byte().Draw(t, lbl+"/seed")
			content = make([]byte, size)
			for j := range content {
				content[j] = seed + byte(j*7) + byte(j>>8)
			}
		} else {
			content = rapid.SliceOfN(rapid.Byte(), 0, 24).Draw(t, lbl+"/content")
		}
		hash := bufzoo.RefHash(fn, content)
		o := &fObject{fn: fn, inst: inst, right: content, how: how,
			d: bufzoo.MkDigest(inst, fn, hash, int64(len(content)))}
		add(o, hash, int64(len(content)), content)
	}
	for i := 0; i < nBase; i++ {
		base := cs.objects[i]
		lbl := fmt.Sprintf("obj%d", i)
		hash := bufzoo.RefHash(base.fn, base.right)
		switch rapid.IntRange(0, 5).Draw(t, lbl+"/alias") {
		case 0:
			// the same object addressed through another instance name
			inst := "a"
			if base.inst == "a" {
				inst = "b"
			}
			o := &fObject{fn: base.fn, inst: inst, right: base.right, how: fmt.Sprintf("instance-alias-of-%d", i),
				d: bufzoo.MkDigest(inst, base.fn, hash, int64(len(base.right)))}
			add(o, hash, int64(len(base.right)), base.right)
		case 1:
			// the same hash and size stated under another digest function:
			// the stored bytes (initially those of the base object) do not
			// match it.
			if len(hash) == 32 {
				var others []remoteexecution.DigestFunction_Value
				for _, f := range f32ByteFunctions {
					if f != base.fn {
						others = append(others, f)
					}
				}
				fn := others[rapid.IntRange(0, len(others)-1).Draw(t, lbl+"/aliasfn")]
				o := &fObject{fn: fn, inst: base.inst, how: fmt.Sprintf("function-alias-of-%d", i),
					d: bufzoo.MkDigest(base.inst, fn, hash, int64(len(base.right)))}
				add(o, hash, int64(len(base.right)), base.right)
			}
		}
	}
	// initially corrupted slots
	for s := range cs.slots {
		if len(cs.slots[s]) > 0 && rapid.IntRange(0, 3).Draw(t, fmt.Sprintf("slot%d/initiallyCorrupt", s)) == 0 {
			p := rapid.IntRange(0, len(cs.slots[s])-1).Draw(t, fmt.Sprintf("slot%d/pos", s))
			cs.slots[s][p] ^= 0x01
		}
	}

	// ---- reads ----
	nReads := rapid.IntRange(2, 6).Draw(t, "nReads")
	// shadow of the slots, to draw positions within the current content
	cur := make([][]byte, len(cs.slots))
	for s := range cs.slots {
		cur[s] = append([]byte(nil), cs.slots[s]...)
	}
	prev := -1
	for i := 0; i < nReads; i++ {
		lbl := fmt.Sprintf("r%d", i)
		r := &fRead{failAt: -1}
		if cs.wiring == "vclock" {
			switch rapid.IntRange(0, 9).Draw(t, lbl+"/advance") {
			case 0:
				r.advance = cs.duration / 3
			case 1:
				r.advance = cs.duration - 1
			case 2:
				r.advance = cs.duration
			case 3:
				r.advance = cs.duration + 1
			case 4:
				r.advance = 2 * cs.duration
			case 5:
				r.advance = 2*cs.duration/3 + 1
			}
		}
		if prev >= 0 && rapid.IntRange(0, 9).Draw(t, lbl+"/sameObject") < 6 {
			r.obj = prev
		} else {
			r.obj = rapid.IntRange(0, len(cs.objects)-1).Draw(t, lbl+"/obj")
		}
		prev = r.obj
		o := cs.objects[r.obj]
		c := cur[o.slot]
		switch m := rapid.IntRange(0, 11).Draw(t, lbl+"/mut"); {
		case m <= 5:
			r.mut = fKeep
		case m <= 7 && len(c) > 0:
			r.mut = fFlip
			if rapid.Bool().Draw(t, lbl+"/flipLast") {
				r.mutArg = len(c) - 1
			} else {
				r.mutArg = rapid.IntRange(0, len(c)-1).Draw(t, lbl+"/flipPos")
			}
			c = append([]byte(nil), c...)
			c[r.mutArg] ^= 0x01
		case m == 8 && len(c) > 0:
			r.mut = fTruncate
			r.mutArg = rapid.IntRange(1, min(3, len(c))).Draw(t, lbl+"/truncate")
			c = append([]byte(nil), c[:len(c)-r.mutArg]...)
		case m == 9:
			r.mut = fAppend
			r.mutData = rapid.SliceOfN(rapid.Byte(), 1, 3).Draw(t, lbl+"/appended")
			r.mutArg = len(r.mutData)
			c = append(append([]byte(nil), c...), r.mutData...)
		case m == 10 && o.right != nil:
			r.mut = fRepair
			c = append([]byte(nil), o.right...)
		case m == 11 && len(cs.objects) > 1:
			r.mut = fOther
			r.mutArg = rapid.IntRange(0, len(cs.objects)-1).Draw(t, lbl+"/otherObj")
			if src := cs.objects[r.mutArg]; src.right != nil {
				c = append([]byte(nil), src.right...)
			} else {
				r.mut = fKeep
			}
		}
		cur[o.slot] = c

		switch k := rapid.IntRange(0, 9).Draw(t, lbl+"/src"); {
		case k <= 2:
			r.src = fSlice
		case k <= 4:
			r.src = fReaderKind
		case k <= 7:
			r.src = fReaderAtKind
		default:
			r.src = fBlock
		}
		r.chunk = []int{1, 7, 64, 1 << 16}[rapid.IntRange(0, 3).Draw(t, lbl+"/chunk")]
		if r.src != fSlice && len(c) > 0 && rapid.IntRange(0, 11).Draw(t, lbl+"/fails?") == 0 {
			r.failAt = rapid.IntRange(0, len(c)-1).Draw(t, lbl+"/failAt")
		}
		r.con = bufzoo.GenConsumeWith(t, lbl+"/use", int(o.d.GetSizeBytes()), bufzoo.ConsumeOpts{NoProto: true, ValidArgsOnly: true})
		cs.reads = append(cs.reads, r)
	}
	return cs
}

// ---------------------------------------------------------------------
// oracle

type fctx struct {
	taskFails bool
	path      string
}

// fStep is what the reference model knows about one read.
type fStep struct {
	idx     int
	obj     *fObject
	n       int64
	stream  []byte // the stored bytes at the time of the read
	match   bool   // they have exactly the stated size and hash
	failAt  int
	trusted bool // the documented exception applies: validation may be skipped
}

type fChecker struct {
	t  *rapid.T
	cs *fCase
	c  *vstats.Case
	st *fStep
}

func (k *fChecker) fail(format string, args ...interface{}) {
	k.t.Fatalf("C09 violated (read buffer factory, read #%d of obj%d): %s\n  case: %s", k.st.idx, k.cs.reads[k.st.idx].obj, fmt.Sprintf(format, args...), k.cs)
}

func (k *fChecker) expected(l *bufzoo.ConsumeSpec) []byte {
	s := k.st.stream
	switch l.Method {
	case bufzoo.ToChunkReader:
		if l.Off < 0 || l.Off > int64(len(s)) {
			return nil
		}
		return s[l.Off:]
	case bufzoo.ReadAt:
		if l.Off < 0 || l.Off > int64(len(s)) {
			return nil
		}
		return s[l.Off:min(int64(len(s)), l.Off+int64(l.Len))]
	}
	return s
}

func (k *fChecker) leaf(x fctx, r *bufzoo.Result) {
	st, l := k.st, r.Spec
	where := x.path + l.String()
	if r.Stuck {
		k.fail("%s: consumer made no progress / impossible byte count: %v", where, r.Err)
	}
	seen := r.BytesSeenBeforeError
	// only stored bytes are ever handed out
	if len(seen) > 0 {
		if lo := r.Off; lo < 0 || lo > int64(len(st.stream)) || !bytes.HasPrefix(st.stream[lo:], seen) {
			k.fail("%s handed out bytes that are not the stored content at offset %d: %x", where, lo, seen)
		}
	}
	k.c.Class("leaf_" + l.Method.String())
	if !st.trusted {
		// no positive verdict within the cache duration covers this read:
		// the property's clauses apply in full.
		if r.Complete && !st.match {
			k.fail("%s observed successful completion (%d bytes) of stored content that does not have the stated size and hash, and no earlier read validated this digest within the cache duration", where, len(r.Data))
		}
		if r.Complete && st.failAt >= 0 {
			k.fail("%s completed although the medium fails at byte %d of %d", where, st.failAt, len(st.stream))
		}
		prefixOK := int64(len(st.stream)) >= st.n && bufzoo.Matches(st.obj.d, st.stream[:st.n])
		if !st.match && !(st.failAt >= 0 && prefixOK) {
			if need := st.n - r.Off; need > 0 && r.Off >= 0 && int64(len(seen)) >= need {
				k.fail("%s received all %d stated bytes (from offset %d) of mismatching stored content; error %v", where, st.n, r.Off, r.Err)
			}
		}
		if !st.match && st.failAt < 0 && l.ReadsToEnd() && !x.taskFails {
			if r.Err == nil {
				k.fail("%s: mismatching stored content, yet neither completion nor an error", where)
			}
			if status.Code(r.Err) != codes.Internal {
				k.fail("%s: mismatch of backend data reported with code %s, want INTERNAL: %v", where, status.Code(r.Err), r.Err)
			}
			k.c.Class("mismatch_rejected")
		}
	} else {
		// The documented purpose of the validation cache: counted, never asserted.
		k.c.ClassIf(r.Complete && !st.match, "exception_changed_content_served_within_cache_duration")
		k.c.ClassIf(r.Err != nil && !st.match && status.Code(r.Err) == codes.Internal, "trusted_yet_mismatch_rejected")
	}
	// converse: stored content that is right is delivered, validated or not.
	if st.match && st.failAt < 0 && l.ReadsToEnd() && !x.taskFails {
		if !r.Complete {
			k.fail("%s: stored content has exactly the stated size and hash, medium never fails, arguments valid, yet no successful completion: err=%v", where, r.Err)
		}
		if !bytes.Equal(r.Data, k.expected(l)) {
			k.fail("%s completed with wrong bytes: got %x want %x", where, r.Data, k.expected(l))
		}
	}
}

func (k *fChecker) walk(x fctx, r *bufzoo.Result) {
	if r.Panic != nil {
		k.fail("%s%s panicked: %v", x.path, r.Spec.Method, r.Panic)
	}
	s := r.Spec
	if s.Method.IsLeaf() {
		k.leaf(x, r)
		return
	}
	x.path += s.Method.String() + "."
	if s.Method == bufzoo.WithTask && s.TaskFails {
		x.taskFails = true
	}
	k.walk(x, r.Next)
	if r.Next2 != nil {
		k.walk(x, r.Next2)
	}
}

// fSlotSize: device bytes reserved per storage slot (content <= 300 bytes
// plus a few appended ones).
const fSlotSize = 512

func buildFactory(t *rapid.T, cs *fCase, clk *hx.VClock) blobstore.ReadBufferFactory {
	if cs.wiring == "none" {
		// newCachedReadBufferFactory with no cache configured
		return blobstore.CASReadBufferFactory
	}
	kf := digest.KeyWithoutInstance
	if cs.withInstance {
		kf = digest.KeyWithInstance
	}
	var ec *digest.ExistenceCache
	if cs.wiring == "configuration" {
		policy := evictionpb.CacheReplacementPolicy_LEAST_RECENTLY_USED
		if cs.policy == "FIFO" {
			policy = evictionpb.CacheReplacementPolicy_FIRST_IN_FIRST_OUT
		}
		var err error
		ec, err = digest.NewExistenceCacheFromConfiguration(&digestpb.ExistenceCacheConfiguration{
			CacheSize:              int64(cs.cacheSize),
			CacheDuration:          durationpb.New(cs.duration),
			CacheReplacementPolicy: policy,
		}, kf, "DataIntegrityValidationCache")
		if err != nil {
			t.Fatalf("harness: NewExistenceCacheFromConfiguration: %v", err)
		}
	} else {
		var set eviction.Set[string]
		if cs.policy == "FIFO" {
			set = eviction.NewFIFOSet[string]()
		} else {
			set = eviction.NewLRUSet[string]()
		}
		ec = digest.NewExistenceCache(clk, kf, cs.cacheSize, cs.duration, eviction.NewMetricsSet(set, "DataIntegrityValidationCache"))
	}
	return blobstore.NewValidationCachingReadBufferFactory(blobstore.CASReadBufferFactory, ec)
}

func factoryProp(rec *vstats.Recorder) func(t *rapid.T) {
	return func(t *rapid.T) {
		c := rec.Begin()
		cs := genFactoryCase(t)
		c.Add(cs.String())

		clk := hx.NewVClock()
		factory := buildFactory(t, cs, clk)
		dev := &fDevice{data: make([]byte, fSlotSize*len(cs.slots)), failAt: -1}
		alloc := local.NewBlockDeviceBackedBlockAllocator(dev, factory, 16, int64(len(dev.data)/16), 1, "c09")
		var block local.Block

		slots := make([][]byte, len(cs.slots))
		for s := range cs.slots {
			slots[s] = append([]byte(nil), cs.slots[s]...)
		}
		// reference model of the documented exception: per key, the virtual
		// time at which a read of content that really matched received a
		// positive verdict.
		var now time.Duration
		grant := map[string]time.Duration{}
		failedBefore := map[string]bool{}
		readBefore := map[string]bool{}
		nt := false

		for i, r := range cs.reads {
			if r.advance > 0 {
				clk.Advance(r.advance)
				now += r.advance
			}
			o := cs.objects[r.obj]
			cur := slots[o.slot]
			switch r.mut {
			case fFlip:
				cur = append([]byte(nil), cur...)
				cur[r.mutArg] ^= 0x01
			case fTruncate:
				cur = append([]byte(nil), cur[:len(cur)-r.mutArg]...)
			case fAppend:
				cur = append(append([]byte(nil), cur...), r.mutData...)
			case fRepair:
				cur = append([]byte(nil), o.right...)
			case fOther:
				cur = append([]byte(nil), cs.objects[r.mutArg].right...)
			}
			slots[o.slot] = cur

			st := &fStep{idx: i, obj: o, n: o.d.GetSizeBytes(), stream: append([]byte(nil), cur...), failAt: r.failAt}
			st.match = bufzoo.Matches(o.d, st.stream)
			if g, ok := grant[o.key]; ok && cs.wiring != "none" && now-g <= cs.duration {
				st.trusted = true
			}

			var mu sync.Mutex
			var verdicts []bool
			cb := func(ok bool) { mu.Lock(); verdicts = append(verdicts, ok); mu.Unlock() }

			var b buffer.Buffer
			switch r.src {
			case fSlice:
				b = factory.NewBufferFromByteSlice(o.d, append([]byte(nil), cur...), cb)
			case fReaderKind:
				b = factory.NewBufferFromReader(o.d, &fReader{data: st.stream, chunk: r.chunk, failAt: r.failAt, failErr: fFailErr()}, cb)
			case fReaderAtKind:
				med := &fDevice{data: st.stream, failAt: r.failAt, failErr: fFailErr()}
				b = factory.NewBufferFromReaderAt(o.d, &fReaderAt{SectionReader: *io.NewSectionReader(med, 0, int64(len(cur)))}, int64(len(cur)), cb)
			case fBlock:
				if block == nil {
					var err error
					if block, _, err = alloc.NewBlock(); err != nil {
						t.Fatalf("harness: NewBlock: %v", err)
					}
				}
				base := o.slot * fSlotSize
				dev.mu.Lock()
				copy(dev.data[base:base+fSlotSize], make([]byte, fSlotSize))
				copy(dev.data[base:], cur)
				dev.failAt, dev.failErr = -1, nil
				if r.failAt >= 0 {
					dev.failAt, dev.failErr = base+r.failAt, fFailErr()
				}
				dev.mu.Unlock()
				b = block.Get(o.d, int64(base), int64(len(cur)), cb)
			}
			res := bufzoo.Consume(b, r.con)

			k := &fChecker{t: t, cs: cs, c: c, st: st}
			k.walk(fctx{}, res)

			nTrue, nFalse := 0, 0
			for _, v := range verdicts {
				if v {
					nTrue++
				} else {
					nFalse++
				}
			}
			if nTrue > 0 && !st.match {
				k.fail("integrity callback received a positive verdict for mismatching stored content (verdicts %v)", verdicts)
			}
			if nFalse > 0 && st.match {
				k.fail("integrity callback received a negative verdict for matching stored content (verdicts %v)", verdicts)
			}

			// ---- statistics ----
			anyComplete := false
			for _, lr := range res.Leaves() {
				anyComplete = anyComplete || lr.Complete
			}
			c.Class("src_" + fSrcNames[r.src])
			c.Class("mut_" + fMutNames[r.mut])
			c.ClassIf(r.failAt >= 0, "medium_fails")
			c.ClassIf(st.trusted, "read_within_cache_duration_of_positive_verdict")
			c.ClassIf(st.trusted && st.match, "trusted_matching")
			c.ClassIf(st.trusted && !st.match, "trusted_mismatching")
			c.ClassIf(!st.trusted && st.match, "untrusted_matching")
			c.ClassIf(!st.trusted && !st.match, "untrusted_mismatching")
			_, granted := grant[o.key]
			c.ClassIf(!st.trusted && granted && cs.wiring != "none", "read_after_cache_duration_expired")
			c.ClassIf(!st.trusted && granted && cs.wiring != "none" && !st.match, "mismatching_after_cache_duration_expired")
			c.ClassIf(!st.trusted && !st.match && failedBefore[o.key], "mismatching_again_after_failed_validation")
			c.ClassIf(st.match && failedBefore[o.key], "repaired_after_failed_validation")
			c.ClassIf(!st.match && readBefore[o.key] && !failedBefore[o.key], "corrupted_after_successful_read")
			c.ClassIf(nTrue > 0, "callback_true")
			c.ClassIf(nFalse > 0, "callback_false")
			c.ClassIf(o.right == nil, "read_of_function_alias")
			c.ClassIf(strings.HasPrefix(o.how, "instance-alias"), "read_of_instance_alias")
			c.ClassIf(anyComplete, "some_leaf_completed")
			if cs.wiring != "none" && !st.match && readBefore[o.key] {
				nt = true
			}

			// ---- model update ----
			if nTrue > 0 && st.match {
				grant[o.key] = now
			}
			if nFalse > 0 || (!st.match && !anyComplete) {
				failedBefore[o.key] = true
			}
			readBefore[o.key] = true
		}
		if block != nil {
			block.Release()
		}

		c.Class("wiring_" + cs.wiring)
		c.Class(fmt.Sprintf("reads_%d", len(cs.reads)))
		c.Class(fmt.Sprintf("objects_%d", len(cs.objects)))
		c.ClassIf(cs.withInstance, "key_with_instance")
		c.ClassIf(cs.wiring != "none" && cs.cacheSize < len(cs.slots), "cache_smaller_than_key_count")
		if nt {
			c.Class("nt_mismatching_read_of_key_read_before")
			c.NonTrivial()
		}
		c.Sample(cs.String)
		c.End()
	}
}

var recFactory = vstats.New("TestC09ReadBufferFactory")

// TestC09ReadBufferFactory: sequences of reads through the real read buffer
// factories over stored bytes that change between reads.
func TestC09ReadBufferFactory(t *testing.T) {
	rapid.Check(t, factoryProp(recFactory))
}
