package sim

import (
	"fmt"
	"io"
	"os"
	"sync"
	"syscall"

	"github.com/buildbarn/bb-storage/pkg/filesystem"
	"github.com/buildbarn/bb-storage/pkg/filesystem/path"
)

// Dir implements the subset of filesystem.Directory that the
// persistent state store uses (Remove, OpenAppend(CreateExcl),
// OpenRead, Rename within the directory, Sync). Everything else panics
// through the embedded nil interface.
//
// Crash model: metadata operations (create, remove, rename) after the
// last completed directory fsync survive as an arbitrary PREFIX of
// their issue order (ordered journalling). File content survives up
// to the last completed fsync of that file plus an arbitrary prefix of
// the bytes appended afterwards.
type Dir struct {
	filesystem.Directory // nil: unimplemented methods panic

	log *Log
	mu  sync.Mutex

	names  map[string]int // volatile view: name -> inode
	inodes map[int][]byte // volatile content
	nextIn int

	// Image at log start (for crash images).
	baseNames  map[string]int
	baseInodes map[int][]byte

	// Fault injection by operation name ("remove","create","write",
	// "fsync","close","rename","dirsync","openread"): the n-th call of
	// that operation fails.
	Fail   map[string]map[int]error
	counts map[string]int

	// InWrite counts concurrent WritePersistentState-style sequences;
	// maintained by the caller (state store wrapper), not here.
}

// NewDir creates an empty directory.
func NewDir(log *Log) *Dir {
	return NewDirFromImage(log, DirImage{Names: map[string]int{}, Inodes: map[int][]byte{}})
}

// DirImage is a materialised directory state.
type DirImage struct {
	Names  map[string]int
	Inodes map[int][]byte
}

// Clone deep-copies an image.
func (im DirImage) Clone() DirImage {
	o := DirImage{Names: map[string]int{}, Inodes: map[int][]byte{}}
	for k, v := range im.Names {
		o.Names[k] = v
	}
	for k, v := range im.Inodes {
		o.Inodes[k] = append([]byte(nil), v...)
	}
	return o
}

// File returns the content of a named file in the image.
func (im DirImage) File(name string) ([]byte, bool) {
	ino, ok := im.Names[name]
	if !ok {
		return nil, false
	}
	return im.Inodes[ino], true
}

// NewDirFromImage creates a directory whose durable and volatile state
// equal the image.
func NewDirFromImage(log *Log, im DirImage) *Dir {
	c := im.Clone()
	d := &Dir{
		log: log, names: c.Names, inodes: c.Inodes,
		Fail: map[string]map[int]error{}, counts: map[string]int{},
	}
	for ino := range c.Inodes {
		if ino >= d.nextIn {
			d.nextIn = ino + 1
		}
	}
	b := im.Clone()
	d.baseNames, d.baseInodes = b.Names, b.Inodes
	return d
}

// Base returns the image at log start.
func (d *Dir) Base() DirImage {
	return DirImage{Names: d.baseNames, Inodes: d.baseInodes}.Clone()
}

// Volatile returns the current in-memory view.
func (d *Dir) Volatile() DirImage {
	d.mu.Lock()
	defer d.mu.Unlock()
	return DirImage{Names: d.names, Inodes: d.inodes}.Clone()
}

func (d *Dir) fail(op string) error {
	n := d.counts[op]
	d.counts[op] = n + 1
	if m, ok := d.Fail[op]; ok {
		if err, ok := m[n]; ok {
			return err
		}
	}
	return nil
}

// InjectFailure makes the n-th call (0-based) of op fail.
func (d *Dir) InjectFailure(op string, n int, err error) {
	d.mu.Lock()
	defer d.mu.Unlock()
	if d.Fail[op] == nil {
		d.Fail[op] = map[int]error{}
	}
	d.Fail[op][n] = err
}

// OpCount returns how many calls of op were made.
func (d *Dir) OpCount(op string) int {
	d.mu.Lock()
	defer d.mu.Unlock()
	return d.counts[op]
}

func (d *Dir) Remove(name path.Component) error {
	d.mu.Lock()
	defer d.mu.Unlock()
	if err := d.fail("remove"); err != nil {
		return err
	}
	n := name.String()
	if _, ok := d.names[n]; !ok {
		return &os.PathError{Op: "remove", Path: n, Err: syscall.ENOENT}
	}
	delete(d.names, n)
	d.log.Append(Entry{Kind: KRemove, Name: n})
	return nil
}

func (d *Dir) OpenAppend(name path.Component, mode filesystem.CreationMode) (filesystem.FileAppender, error) {
	d.mu.Lock()
	defer d.mu.Unlock()
	if err := d.fail("create"); err != nil {
		return nil, err
	}
	n := name.String()
	if _, ok := d.names[n]; ok {
		// The state store always uses CreateExcl.
		return nil, &os.PathError{Op: "open", Path: n, Err: syscall.EEXIST}
	}
	ino := d.nextIn
	d.nextIn++
	d.names[n] = ino
	d.inodes[ino] = []byte{}
	d.log.Append(Entry{Kind: KCreate, Name: n, Inode: ino})
	return &appender{d: d, ino: ino}, nil
}

type appender struct {
	d      *Dir
	ino    int
	closed bool
}

func (a *appender) Write(p []byte) (int, error) {
	a.d.mu.Lock()
	defer a.d.mu.Unlock()
	if a.closed {
		return 0, fmt.Errorf("sim: write on closed file")
	}
	if err := a.d.fail("write"); err != nil {
		return 0, err
	}
	a.d.inodes[a.ino] = append(a.d.inodes[a.ino], p...)
	a.d.log.Append(Entry{Kind: KFWrite, Inode: a.ino, Data: append([]byte(nil), p...)})
	return len(p), nil
}

func (a *appender) Sync() error {
	covers := a.d.log.Len()
	a.d.mu.Lock()
	defer a.d.mu.Unlock()
	if err := a.d.fail("fsync"); err != nil {
		return err
	}
	a.d.log.Append(Entry{Kind: KFSync, Inode: a.ino, Covers: covers})
	return nil
}

func (a *appender) Close() error {
	a.d.mu.Lock()
	defer a.d.mu.Unlock()
	a.closed = true
	return a.d.fail("close")
}

func (d *Dir) OpenRead(name path.Component) (filesystem.FileReader, error) {
	d.mu.Lock()
	defer d.mu.Unlock()
	if err := d.fail("openread"); err != nil {
		return nil, err
	}
	n := name.String()
	ino, ok := d.names[n]
	if !ok {
		return nil, &os.PathError{Op: "open", Path: n, Err: syscall.ENOENT}
	}
	return &reader{data: append([]byte(nil), d.inodes[ino]...)}, nil
}

type reader struct{ data []byte }

func (r *reader) ReadAt(p []byte, off int64) (int, error) {
	if off >= int64(len(r.data)) {
		return 0, io.EOF
	}
	n := copy(p, r.data[off:])
	if n < len(p) {
		return n, io.EOF
	}
	return n, nil
}
func (r *reader) Close() error { return nil }
func (r *reader) Len() (int64, error) {
	return int64(len(r.data)), nil
}

func (r *reader) GetNextRegionOffset(off int64, rt filesystem.RegionType) (int64, error) {
	panic("sim: GetNextRegionOffset not supported")
}

func (d *Dir) Rename(oldName path.Component, newDir filesystem.Directory, newName path.Component) error {
	if nd, ok := newDir.(*Dir); !ok || nd != d {
		panic("sim: rename across directories not supported")
	}
	d.mu.Lock()
	defer d.mu.Unlock()
	if err := d.fail("rename"); err != nil {
		return err
	}
	o, n := oldName.String(), newName.String()
	ino, ok := d.names[o]
	if !ok {
		return &os.PathError{Op: "rename", Path: o, Err: syscall.ENOENT}
	}
	delete(d.names, o)
	d.names[n] = ino
	d.log.Append(Entry{Kind: KRename, Name: o, Name2: n})
	return nil
}

func (d *Dir) Sync() error {
	covers := d.log.Len()
	d.mu.Lock()
	defer d.mu.Unlock()
	if err := d.fail("dirsync"); err != nil {
		return err
	}
	d.log.Append(Entry{Kind: KDirSync, Covers: covers})
	return nil
}

// DirCrashImage materialises the directory after a crash at cut.
func DirCrashImage(entries []Entry, cut int, base DirImage, ch Chooser) (DirImage, int) {
	im := base.Clone()
	lost := 0
	// Durable metadata: all metadata ops covered by the last dir sync.
	dirCovered := -1
	for i := 0; i < cut && i < len(entries); i++ {
		if entries[i].Kind == KDirSync && entries[i].Covers > dirCovered {
			dirCovered = entries[i].Covers
		}
	}
	// Per inode: bytes durable through fsync.
	fileCovered := map[int]int{}
	for i := 0; i < cut && i < len(entries); i++ {
		if e := entries[i]; e.Kind == KFSync && e.Covers > fileCovered[e.Inode] {
			fileCovered[e.Inode] = e.Covers
		}
	}
	// Metadata: the covered ones, then a prefix of the uncovered ones.
	var uncovered []Entry
	for i := 0; i < cut && i < len(entries); i++ {
		e := entries[i]
		if e.Kind != KCreate && e.Kind != KRemove && e.Kind != KRename {
			continue
		}
		if i < dirCovered {
			applyMeta(&im, e)
		} else {
			uncovered = append(uncovered, e)
		}
	}
	k := ch.Prefix("dirops", len(uncovered))
	lost += len(uncovered) - k
	for _, e := range uncovered[:k] {
		applyMeta(&im, e)
	}
	// File content.
	type pending struct{ data []byte }
	un := map[int][]byte{}
	var order []int
	for i := 0; i < cut && i < len(entries); i++ {
		e := entries[i]
		if e.Kind != KFWrite {
			continue
		}
		if _, exists := im.Inodes[e.Inode]; !exists {
			// The inode's creation did not survive (or the file was
			// never linked): content irrelevant.
			if !createdIn(entries, cut, e.Inode) {
				continue
			}
		}
		if i < fileCovered[e.Inode] {
			im.Inodes[e.Inode] = append(im.Inodes[e.Inode], e.Data...)
		} else {
			if _, ok := un[e.Inode]; !ok {
				order = append(order, e.Inode)
			}
			un[e.Inode] = append(un[e.Inode], e.Data...)
		}
	}
	for _, ino := range order {
		data := un[ino]
		k := ch.Prefix(fmt.Sprintf("file%d", ino), len(data))
		if k < len(data) {
			lost++
		}
		im.Inodes[ino] = append(im.Inodes[ino], data[:k]...)
	}
	// Drop content of inodes that no name refers to.
	ref := map[int]bool{}
	for _, ino := range im.Names {
		ref[ino] = true
	}
	for ino := range im.Inodes {
		if !ref[ino] {
			delete(im.Inodes, ino)
		}
	}
	for _, ino := range im.Names {
		if _, ok := im.Inodes[ino]; !ok {
			im.Inodes[ino] = []byte{}
		}
	}
	return im, lost
}

func createdIn(entries []Entry, cut, ino int) bool {
	for i := 0; i < cut && i < len(entries); i++ {
		if entries[i].Kind == KCreate && entries[i].Inode == ino {
			return true
		}
	}
	return false
}

func applyMeta(im *DirImage, e Entry) {
	switch e.Kind {
	case KCreate:
		im.Names[e.Name] = e.Inode
		if _, ok := im.Inodes[e.Inode]; !ok {
			im.Inodes[e.Inode] = []byte{}
		}
	case KRemove:
		delete(im.Names, e.Name)
	case KRename:
		if ino, ok := im.Names[e.Name]; ok {
			delete(im.Names, e.Name)
			im.Names[e.Name2] = ino
		}
	}
}
