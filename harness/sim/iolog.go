// Package sim provides simulated media (block device, state directory),
// a virtual clock and a deterministic coroutine scheduler. All media share
// one totally ordered I/O log from which every admissible post-crash image
// can be materialised.
package sim

import (
	"fmt"
	"sync"
)

// Kind of a log entry.
type Kind int

const (
	KWrite   Kind = iota // device write: Dev, Off, Data
	KSync                // device sync completed successfully: Dev
	KCreate              // dir: create Name -> Inode (empty file)
	KRemove              // dir: remove Name
	KRename              // dir: rename Name -> Name2
	KDirSync             // dir: fsync of the directory completed
	KFWrite              // file: append Data to Inode
	KFSync               // file: fsync of Inode completed
	KMark                // harness marker (e.g. "put #3 acked"); no medium effect
)

func (k Kind) String() string {
	return [...]string{"write", "sync", "create", "remove", "rename", "dirsync", "fwrite", "fsync", "mark"}[k]
}

// Entry is one I/O operation.
type Entry struct {
	Seq   int
	Kind  Kind
	Dev   string
	Off   int64
	Data  []byte
	Name  string
	Name2 string
	Inode int
	Note  string
	// Covers (KSync, KFSync, KDirSync): operations with Seq < Covers are
	// guaranteed durable by this sync (those issued before the sync call
	// started); operations issued while the sync was running are not.
	Covers int
}

func (e Entry) String() string {
	switch e.Kind {
	case KWrite:
		return fmt.Sprintf("#%d %s.write(off=%d,len=%d)", e.Seq, e.Dev, e.Off, len(e.Data))
	case KSync:
		return fmt.Sprintf("#%d %s.sync", e.Seq, e.Dev)
	case KCreate:
		return fmt.Sprintf("#%d dir.create(%s,ino=%d)", e.Seq, e.Name, e.Inode)
	case KRemove:
		return fmt.Sprintf("#%d dir.remove(%s)", e.Seq, e.Name)
	case KRename:
		return fmt.Sprintf("#%d dir.rename(%s->%s)", e.Seq, e.Name, e.Name2)
	case KDirSync:
		return fmt.Sprintf("#%d dir.sync", e.Seq)
	case KFWrite:
		return fmt.Sprintf("#%d file.write(ino=%d,len=%d)", e.Seq, e.Inode, len(e.Data))
	case KFSync:
		return fmt.Sprintf("#%d file.sync(ino=%d)", e.Seq, e.Inode)
	}
	return fmt.Sprintf("#%d mark(%s)", e.Seq, e.Note)
}

// Log is the global I/O log.
type Log struct {
	mu      sync.Mutex
	Entries []Entry
}

// Append adds an entry and returns its sequence number.
func (l *Log) Append(e Entry) int {
	l.mu.Lock()
	defer l.mu.Unlock()
	e.Seq = len(l.Entries)
	l.Entries = append(l.Entries, e)
	return e.Seq
}

// Len returns the number of entries.
func (l *Log) Len() int {
	l.mu.Lock()
	defer l.mu.Unlock()
	return len(l.Entries)
}

// Mark appends a harness marker.
func (l *Log) Mark(note string) int {
	return l.Append(Entry{Kind: KMark, Note: note})
}

// Snapshot copies the entries.
func (l *Log) Snapshot() []Entry {
	l.mu.Lock()
	defer l.mu.Unlock()
	return append([]Entry(nil), l.Entries...)
}

// Chooser makes the loss decisions of a crash. Keep decides whether one
// unsynced unit (sector of a data write / whole index record write)
// survives; Prefix picks how many of n ordered items survive (0..n).
type Chooser interface {
	Keep(what string) bool
	Prefix(what string, n int) int
}

// AllLost loses every unsynced unit.
type AllLost struct{}

func (AllLost) Keep(string) bool       { return false }
func (AllLost) Prefix(string, int) int { return 0 }

// NoneLost keeps every unsynced unit.
type NoneLost struct{}

func (NoneLost) Keep(string) bool           { return true }
func (NoneLost) Prefix(_ string, n int) int { return n }

// DeviceImage materialises the content of device dev after a crash at
// cut (entries with Seq < cut were issued). base is the content at the
// start of the log. unit is the loss granularity in bytes (sector size
// for the data device, record size for the index device). If synced is
// true, writes before the last completed sync of that device survive
// unconditionally; otherwise (device never synced) every write is
// subject to the chooser. lost reports how many units were dropped.
func DeviceImage(entries []Entry, cut int, dev string, base []byte, unit int, ch Chooser) (img []byte, lost, kept int) {
	img = append([]byte(nil), base...)
	lastSync := -1 // writes with Seq < lastSync are durable
	for i := 0; i < cut && i < len(entries); i++ {
		if entries[i].Kind == KSync && entries[i].Dev == dev && entries[i].Covers > lastSync {
			lastSync = entries[i].Covers
		}
	}
	for i := 0; i < cut && i < len(entries); i++ {
		e := entries[i]
		if e.Kind != KWrite || e.Dev != dev {
			continue
		}
		if i < lastSync {
			copy(img[e.Off:], e.Data)
			continue
		}
		// Unsynced: split at unit boundaries.
		off := e.Off
		data := e.Data
		for len(data) > 0 {
			n := unit - int(off%int64(unit))
			if n > len(data) {
				n = len(data)
			}
			if ch.Keep(fmt.Sprintf("%s@%d+%d(#%d)", dev, off, n, e.Seq)) {
				copy(img[off:], data[:n])
				kept++
			} else {
				lost++
			}
			off += int64(n)
			data = data[n:]
		}
	}
	return img, lost, kept
}
