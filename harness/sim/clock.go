package sim

import (
	"context"
	"sync"
	"time"

	"github.com/buildbarn/bb-storage/pkg/clock"
)

// Clock is a virtual clock.Clock. Time moves only through Advance; a
// timer fires only when the harness calls Fire (never before its
// deadline).
type Clock struct {
	mu     sync.Mutex
	now    time.Time
	timers []*Timer
	// OnNewTimer, if set, is called (without the lock held) whenever the
	// code under test creates a timer; used as a scheduling gate.
	OnNewTimer func(t *Timer)
}

// Timer is a pending virtual timer.
type Timer struct {
	c        *Clock
	Deadline time.Time
	Duration time.Duration
	ch       chan time.Time
	fired    bool
	stopped  bool
}

var _ clock.Clock = (*Clock)(nil)

// NewClock starts at an arbitrary fixed instant.
func NewClock() *Clock {
	return &Clock{now: time.Unix(1_700_000_000, 0)}
}

func (c *Clock) Now() time.Time {
	c.mu.Lock()
	defer c.mu.Unlock()
	return c.now
}

func (c *Clock) NewContextWithTimeout(parent context.Context, timeout time.Duration) (context.Context, context.CancelFunc) {
	panic("sim: NewContextWithTimeout not supported")
}

func (c *Clock) NewTicker(d time.Duration) (clock.Ticker, <-chan time.Time) {
	panic("sim: NewTicker not supported")
}

func (c *Clock) NewTimer(d time.Duration) (clock.Timer, <-chan time.Time) {
	c.mu.Lock()
	t := &Timer{c: c, Deadline: c.now.Add(d), Duration: d, ch: make(chan time.Time, 1)}
	c.timers = append(c.timers, t)
	cb := c.OnNewTimer
	c.mu.Unlock()
	if cb != nil {
		cb(t)
	}
	return t, t.ch
}

func (t *Timer) Stop() bool {
	t.c.mu.Lock()
	defer t.c.mu.Unlock()
	was := !t.fired && !t.stopped
	t.stopped = true
	return was
}

// Advance moves virtual time forward.
func (c *Clock) Advance(d time.Duration) {
	c.mu.Lock()
	c.now = c.now.Add(d)
	c.mu.Unlock()
}

// AdvanceTo moves virtual time to t if t is later.
func (c *Clock) AdvanceTo(t time.Time) {
	c.mu.Lock()
	if t.After(c.now) {
		c.now = t
	}
	c.mu.Unlock()
}

// Pending returns the timers that have neither fired nor been stopped.
func (c *Clock) Pending() []*Timer {
	c.mu.Lock()
	defer c.mu.Unlock()
	var out []*Timer
	for _, t := range c.timers {
		if !t.fired && !t.stopped {
			out = append(out, t)
		}
	}
	return out
}

// Fire delivers the timer. If its deadline is still in the future the
// clock is advanced to it first (a timer never fires early).
func (c *Clock) Fire(t *Timer) {
	c.mu.Lock()
	if t.fired || t.stopped {
		c.mu.Unlock()
		return
	}
	if t.Deadline.After(c.now) {
		c.now = t.Deadline
	}
	t.fired = true
	now := c.now
	c.mu.Unlock()
	t.ch <- now
}
