package sim

import (
	"fmt"
	"runtime"
	"runtime/debug"
	"strconv"
	"sync"
	"time"
)

// Sched is a deterministic coroutine scheduler. A Thread is a goroutine
// that runs only between a resume and its next Gate call; the harness
// decides which parked thread continues, so that the schedule is a
// generated value. Gates are calls to Sched.Gate made from callbacks
// that the harness supplies to the code under test (source readers,
// DataSyncer, state store, clock); a Gate call from a goroutine that is
// not a Thread passes through.
type Sched struct {
	mu        sync.Mutex
	threads   map[uint64]*Thread
	all       []*Thread
	abandoned bool
}

// Event is what a thread reports when it parks or ends.
type Event struct {
	Kind    string // "gate", "done", "panic"
	Gate    string
	Payload interface{}
	Result  interface{}
	Panic   interface{}
	Stack   string
}

func (e Event) String() string {
	switch e.Kind {
	case "gate":
		return "gate:" + e.Gate
	case "panic":
		return fmt.Sprintf("panic:%v", e.Panic)
	}
	return "done"
}

// Thread is one coroutine.
type Thread struct {
	Name   string
	s      *Sched
	resume chan interface{}
	report chan Event
	// State as seen by the harness.
	Parked   bool // parked at a gate, waiting for resume
	Running  bool // resumed and not yet reported (possibly blocked)
	Finished bool
	At       string // gate name where parked
	Payload  interface{}
	Last     Event
	Data     interface{} // harness-owned
}

// NewSched creates a scheduler.
func NewSched() *Sched {
	return &Sched{threads: map[uint64]*Thread{}}
}

// GoID returns the current goroutine id.
func GoID() uint64 { return goid() }

func goid() uint64 {
	var buf [64]byte
	n := runtime.Stack(buf[:], false)
	// "goroutine 123 [running]:..."
	b := buf[10:n]
	i := 0
	for i < len(b) && b[i] >= '0' && b[i] <= '9' {
		i++
	}
	id, _ := strconv.ParseUint(string(b[:i]), 10, 64)
	return id
}

// Spawn creates a thread parked at gate "start".
func (s *Sched) Spawn(name string, body func() interface{}) *Thread {
	t := &Thread{Name: name, s: s, resume: make(chan interface{}), report: make(chan Event, 1), Parked: true, At: "start"}
	s.mu.Lock()
	s.all = append(s.all, t)
	s.mu.Unlock()
	registered := make(chan struct{})
	go func() {
		id := goid()
		s.mu.Lock()
		s.threads[id] = t
		s.mu.Unlock()
		close(registered)
		defer func() {
			s.mu.Lock()
			delete(s.threads, id)
			s.mu.Unlock()
		}()
		<-t.resume
		var ev Event
		func() {
			defer func() {
				if r := recover(); r != nil {
					ev = Event{Kind: "panic", Panic: r, Stack: string(debug.Stack())}
				}
			}()
			res := body()
			ev = Event{Kind: "done", Result: res}
		}()
		t.report <- ev
	}()
	<-registered
	return t
}

// Gate parks the calling thread (if it is one) and returns the value
// passed to the resume. Calls from foreign goroutines, or after
// Abandon, return nil at once.
func (s *Sched) Gate(name string, payload interface{}) interface{} {
	s.mu.Lock()
	if s.abandoned {
		s.mu.Unlock()
		return nil
	}
	t := s.threads[goid()]
	s.mu.Unlock()
	if t == nil {
		return nil
	}
	t.report <- Event{Kind: "gate", Gate: name, Payload: payload}
	return <-t.resume
}

// Current returns the thread of the calling goroutine, if any.
func (s *Sched) Current() *Thread {
	s.mu.Lock()
	defer s.mu.Unlock()
	return s.threads[goid()]
}

func (t *Thread) absorb(ev Event) Event {
	t.Running = false
	t.Last = ev
	switch ev.Kind {
	case "gate":
		t.Parked = true
		t.At = ev.Gate
		t.Payload = ev.Payload
	default:
		t.Finished = true
		t.Parked = false
		t.At = ""
	}
	return ev
}

// Resume lets a parked thread continue without waiting for it.
func (t *Thread) Resume(v interface{}) {
	if !t.Parked || t.Finished {
		panic("sim: Resume of thread " + t.Name + " that is not parked")
	}
	t.Parked = false
	t.Running = true
	t.resume <- v
}

// Await waits for the next report of a running thread.
func (t *Thread) Await() Event {
	if !t.Running {
		panic("sim: Await on thread " + t.Name + " that is not running")
	}
	return t.absorb(<-t.report)
}

// TryAwait waits up to d of real time for a report. It is only used
// for NEGATIVE expectations ("this thread should be blocked on a lock
// now"): a late report can make the harness miss a violation but can
// never create one.
func (t *Thread) TryAwait(d time.Duration) (Event, bool) {
	if !t.Running {
		return Event{}, false
	}
	select {
	case ev := <-t.report:
		return t.absorb(ev), true
	case <-time.After(d):
		return Event{}, false
	}
}

// Step resumes and waits for the next report.
func (t *Thread) Step(v interface{}) Event {
	t.Resume(v)
	return t.Await()
}

// Abandon turns every gate into a pass-through and resumes all parked
// threads so that their goroutines can run to completion. Call it at
// the end of a case after unblocking whatever the threads may wait on.
func (s *Sched) Abandon() {
	s.mu.Lock()
	s.abandoned = true
	all := append([]*Thread(nil), s.all...)
	s.mu.Unlock()
	for _, t := range all {
		if t.Parked && !t.Finished {
			t.Parked = false
			t.Running = true
			t.resume <- nil
		}
	}
}

// Drain waits (bounded real time) for all threads to finish after
// Abandon; returns the names of threads that did not.
func (s *Sched) Drain(d time.Duration) []string {
	deadline := time.After(d)
	var stuck []string
	s.mu.Lock()
	all := append([]*Thread(nil), s.all...)
	s.mu.Unlock()
	for _, t := range all {
		if t.Finished || !t.Running {
			continue
		}
		select {
		case ev := <-t.report:
			t.absorb(ev)
			// After abandon a thread cannot park again.
		case <-deadline:
			stuck = append(stuck, t.Name)
		}
	}
	return stuck
}
