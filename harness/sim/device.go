package sim

import (
	"fmt"
	"io"
	"sync"
)

// Device implements blockdevice.BlockDevice over a byte slice and logs
// every write and every successful sync.
type Device struct {
	Name string
	log  *Log

	mu   sync.Mutex
	data []byte
	base []byte // content when the log started (for crash images)

	// Fault injection: the n-th (0-based) call of the given kind fails.
	FailWrite map[int]error
	FailRead  map[int]error
	FailSync  map[int]error

	// OnWriteInFlight, if set, is called once (it is cleared before the
	// call) at the start of the next WriteAt, before the write takes
	// effect: the write is "in flight" while the hook runs.
	OnWriteInFlight func(off int64, p []byte)

	Writes, Reads, Syncs int
	WrittenBytes         int64
	closed               int
}

// NewDevice creates a device with the given initial content (copied).
func NewDevice(name string, log *Log, initial []byte) *Device {
	return &Device{
		Name: name, log: log,
		data: append([]byte(nil), initial...),
		base: append([]byte(nil), initial...),
	}
}

// Size returns the device size.
func (d *Device) Size() int { return len(d.data) }

// Base returns the content at log start.
func (d *Device) Base() []byte { return d.base }

// Content returns a copy of the current (volatile) content.
func (d *Device) Content() []byte {
	d.mu.Lock()
	defer d.mu.Unlock()
	return append([]byte(nil), d.data...)
}

// Corrupt overwrites bytes without logging (medium corruption).
func (d *Device) Corrupt(off int, pattern []byte) {
	d.mu.Lock()
	defer d.mu.Unlock()
	copy(d.data[off:], pattern)
}

// Peek returns a copy of a region without counting as a read.
func (d *Device) Peek(off, n int) []byte {
	d.mu.Lock()
	defer d.mu.Unlock()
	return append([]byte(nil), d.data[off:off+n]...)
}

func (d *Device) ReadAt(p []byte, off int64) (int, error) {
	d.mu.Lock()
	defer d.mu.Unlock()
	n := d.Reads
	d.Reads++
	if err, ok := d.FailRead[n]; ok {
		return 0, err
	}
	if off < 0 || off > int64(len(d.data)) {
		return 0, fmt.Errorf("sim: read at %d outside device of %d bytes", off, len(d.data))
	}
	c := copy(p, d.data[off:])
	if c < len(p) {
		return c, io.EOF
	}
	return c, nil
}

func (d *Device) WriteAt(p []byte, off int64) (int, error) {
	d.mu.Lock()
	hook := d.OnWriteInFlight
	d.OnWriteInFlight = nil
	d.mu.Unlock()
	if hook != nil {
		hook(off, p)
	}
	d.mu.Lock()
	defer d.mu.Unlock()
	n := d.Writes
	d.Writes++
	if err, ok := d.FailWrite[n]; ok {
		return 0, err
	}
	if off < 0 || off+int64(len(p)) > int64(len(d.data)) {
		return 0, fmt.Errorf("sim: write [%d,%d) outside device of %d bytes", off, off+int64(len(p)), len(d.data))
	}
	copy(d.data[off:], p)
	d.WrittenBytes += int64(len(p))
	d.log.Append(Entry{Kind: KWrite, Dev: d.Name, Off: off, Data: append([]byte(nil), p...)})
	return len(p), nil
}

// Sync makes everything written so far durable.
func (d *Device) Sync() error {
	return d.SyncCovering(d.log.Len())
}

// SyncCovering completes a sync that was started when the log had
// `covers` entries: only writes issued before that are made durable.
func (d *Device) SyncCovering(covers int) error {
	d.mu.Lock()
	n := d.Syncs
	d.Syncs++
	err, fail := d.FailSync[n]
	d.mu.Unlock()
	if fail {
		return err
	}
	d.log.Append(Entry{Kind: KSync, Dev: d.Name, Covers: covers})
	return nil
}

func (d *Device) Close() error {
	d.mu.Lock()
	d.closed++
	d.mu.Unlock()
	return nil
}
