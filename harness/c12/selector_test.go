package c12

import (
	"fmt"
	"math"
	"os"
	"strconv"
	"testing"

	"github.com/buildbarn/bb-storage/pkg/blobstore/sharding"
	"pgregory.net/rapid"

	"verif/harness/vstats"
)

func TestMain(m *testing.M) {
	rc := m.Run()
	vstats.Flush()
	os.Exit(rc)
}

// fataler is satisfied by *rapid.T and *testing.T.
type fataler interface {
	Fatalf(format string, args ...any)
}

// built is one shard list together with the real selector made from it
// exactly as new_blob_access.go does (NewRendezvousShardSelector).
type built struct {
	what string
	m    shardMap
	sel  sharding.ShardSelector
}

func build(t fataler, what string, shards []sharding.Shard) built {
	cp := append([]sharding.Shard(nil), shards...)
	sel, err := sharding.NewRendezvousShardSelector(cp)
	if err != nil {
		t.Fatalf("NewRendezvousShardSelector failed for distinct keys and non-zero weights %s: %v", shardMap{cp}, err)
	}
	return built{what: what, m: shardMap{cp}, sel: sel}
}

// key returns the KEY of the shard chosen for h; it fails the case if
// GetShard panics or returns an index outside the list.
func (b built) key(t fataler, h uint64) (k string) {
	defer func() {
		if r := recover(); r != nil {
			t.Fatalf("GetShard(%#x) panicked on %s %s: %v", h, b.what, b.m, r)
		}
	}()
	idx := b.sel.GetShard(h)
	if idx < 0 || idx >= len(b.m.shards) {
		t.Fatalf("GetShard(%#x) = %d, outside the %d shards of %s %s", h, idx, len(b.m.shards), b.what, b.m)
	}
	return b.m.shards[idx].Key
}

// world is a base shard map plus all the variations the property
// quantifies over.
type world struct {
	base     built
	again    built   // same list, constructed a second time
	perms    []built // permutations of the same list
	minus    []built // minus[s]: list without shard s (only if n >= 2)
	plus     built   // list with one extra shard inserted
	extraKey string
	rm       int // designated removal (for the non-triviality rule)
}

func without(shards []sharding.Shard, s int) []sharding.Shard {
	out := make([]sharding.Shard, 0, len(shards)-1)
	out = append(out, shards[:s]...)
	return append(out, shards[s+1:]...)
}

func permuted(shards []sharding.Shard, perm []int) []sharding.Shard {
	out := make([]sharding.Shard, len(shards))
	for i, p := range perm {
		out[i] = shards[p]
	}
	return out
}

func reversed(shards []sharding.Shard) []sharding.Shard {
	out := make([]sharding.Shard, len(shards))
	for i := range shards {
		out[len(shards)-1-i] = shards[i]
	}
	return out
}

func newWorld(t fataler, shards []sharding.Shard, perm []int, extra sharding.Shard, extraPos, rm int) *world {
	w := &world{extraKey: extra.Key, rm: rm}
	w.base = build(t, "base list", shards)
	w.again = build(t, "base list (second construction)", shards)
	w.perms = []built{
		build(t, fmt.Sprintf("permutation %v", perm), permuted(shards, perm)),
		build(t, "reversed list", reversed(shards)),
	}
	if len(shards) >= 2 {
		for s := range shards {
			w.minus = append(w.minus, build(t, fmt.Sprintf("list without %q", shards[s].Key), without(shards, s)))
		}
	}
	pl := make([]sharding.Shard, 0, len(shards)+1)
	pl = append(pl, shards[:extraPos]...)
	pl = append(pl, extra)
	pl = append(pl, shards[extraPos:]...)
	w.plus = build(t, fmt.Sprintf("list with %q:%d inserted at %d", extra.Key, extra.Weight, extraPos), pl)
	return w
}

type pairFacts struct {
	chosen       string
	chosenIndex  int
	movedOnAdd   bool
	movedOnRm    bool // the designated removal hit the owner
	removalsSame int  // removals that (correctly) left the hash in place
}

// check asserts every clause of the selector-level property for one hash.
func (w *world) check(t fataler, h uint64) pairFacts {
	var f pairFacts
	f.chosen = w.base.key(t, h)
	for i, s := range w.base.m.shards {
		if s.Key == f.chosen {
			f.chosenIndex = i
		}
	}
	// (5) determinism: same selector twice, and a second selector built
	// from identical input.
	if k := w.base.key(t, h); k != f.chosen {
		t.Fatalf("not deterministic: GetShard(%#x) on %s gave %q then %q", h, w.base.m, f.chosen, k)
	}
	if k := w.again.key(t, h); k != f.chosen {
		t.Fatalf("not deterministic: two selectors built from %s route %#x to %q and %q", w.base.m, h, f.chosen, k)
	}
	// (1) order independence.
	for _, p := range w.perms {
		if k := p.key(t, h); k != f.chosen {
			t.Fatalf("order dependence: hash %#x goes to shard %q with %s but to %q with %s %s", h, f.chosen, w.base.m, k, p.what, p.m)
		}
	}
	// (2) removing shard s re-routes only hashes that were assigned to s.
	for s, mb := range w.minus {
		k := mb.key(t, h)
		removed := w.base.m.shards[s].Key
		if removed == f.chosen {
			if s == w.rm {
				f.movedOnRm = true
			}
			continue // had to move; any remaining shard is fine
		}
		if k != f.chosen {
			t.Fatalf("removal disturbed an unrelated hash: %#x goes to %q with %s, but after removing %q it goes to %q", h, f.chosen, w.base.m, removed, k)
		}
		f.removalsSame++
	}
	// (3) adding a shard re-routes hashes only to the new shard.
	if k := w.plus.key(t, h); k != f.chosen {
		if k != w.extraKey {
			t.Fatalf("addition moved a hash between old shards: %#x goes to %q with %s, but to %q with %s", h, f.chosen, w.base.m, k, w.plus.what)
		}
		f.movedOnAdd = true
	}
	return f
}

func genWorld(t *rapid.T, minN int) (*world, []sharding.Shard) {
	n := rapid.IntRange(minN, 8).Draw(t, "nshards")
	keys := genKeys(t, n+1, n+1, "keys")
	shards := make([]sharding.Shard, n)
	for i := range shards {
		shards[i] = sharding.Shard{Key: keys[i], Weight: genWeight().Draw(t, "weight")}
	}
	extra := sharding.Shard{Key: keys[n], Weight: genWeight().Draw(t, "extraWeight")}
	idx := make([]int, n)
	for i := range idx {
		idx[i] = i
	}
	perm := rapid.Permutation(idx).Draw(t, "perm")
	extraPos := rapid.IntRange(0, n).Draw(t, "extraPos")
	rm := rapid.IntRange(0, n-1).Draw(t, "rm")
	return newWorld(t, shards, perm, extra, extraPos, rm), shards
}

const hashesPerMap = 64

var recSel = vstats.New("TestC12Selector")

// TestC12Selector: one generated shard map per rapid case, hashesPerMap
// hashes per map; every (map, hash) pair is one evaluated case.
func TestC12Selector(t *testing.T) {
	rapid.Check(t, func(t *rapid.T) {
		w, shards := genWorld(t, 1)
		n := len(shards)
		khs := w.base.m.keyHashes()
		desc := w.base.m.String() + "+" + w.plus.what + "/" + w.perms[0].what
		// Unique heaviest shard, for the "weights matter" counters.
		heaviest, uniq, sum := 0, true, uint64(0)
		for i, s := range shards {
			sum += uint64(s.Weight)
			if i > 0 && s.Weight > shards[heaviest].Weight {
				heaviest, uniq = i, true
			} else if i > 0 && s.Weight == shards[heaviest].Weight {
				uniq = false
			}
		}
		for j := 0; j < hashesPerMap; j++ {
			hi := genHash(t, khs)
			c := recSel.Begin()
			c.Add(desc, w.rm, hi.h)
			f := w.check(t, hi.h)
			c.Class("hash_" + hi.class)
			c.Class("shards_" + strconv.Itoa(n))
			c.ClassIf(f.movedOnAdd, "moved_to_added_shard")
			c.ClassIf(f.movedOnRm, "moved_by_designated_removal")
			if f.removalsSame > 0 {
				recSel.Count("removals_checked_unchanged", int64(f.removalsSame))
			}
			if hi.allOnes {
				// Generator health only: a shard whose mixed value is
				// all-ones has the best score its weight allows.
				c.Class("directed_allones")
				c.ClassIf(f.chosenIndex == hi.target, "directed_allones_target_won")
			}
			if hi.target >= 0 && hi.mixed <= 1 && n >= 2 {
				c.Class("directed_zero_or_one")
				c.ClassIf(f.chosenIndex != hi.target, "directed_zero_or_one_target_lost")
			}
			if hi.class == "uniform" && n >= 2 && uniq {
				c.Class("uniform_uniqmax")
				c.ClassIf(f.chosenIndex == heaviest, "uniform_uniqmax_chose_heaviest")
				recSel.Count("uniform_uniqmax_expected_heaviest_permille", int64(1000*uint64(shards[heaviest].Weight)/sum))
			}
			if f.movedOnAdd || f.movedOnRm {
				c.NonTrivial()
			}
			c.Sample(func() string {
				return fmt.Sprintf("%s hash=%#x(%s) -> %q; %s -> moved=%v; designated removal %q -> moved=%v; %d other removals unchanged",
					w.base.m, hi.h, hi.class, f.chosen, w.plus.what, f.movedOnAdd, shards[w.rm].Key, f.movedOnRm, f.removalsSame)
			})
			c.End()
		}
	})
}

// ---------------------------------------------------------------- ties

// modelTop returns the best model score and the positions achieving it.
// Search aid only.
func modelTop(shards []sharding.Shard, khs []uint64, h uint64) (uint64, []int) {
	var best uint64
	var at []int
	for i, s := range shards {
		sc := mScore(mSplitmix64(khs[i]^h), s.Weight)
		if sc > best {
			best, at = sc, []int{i}
		} else if sc == best {
			at = append(at, i)
		}
	}
	return best, at
}

const tieSearchBudget = 1 << 20

// findTie searches (deterministically, from a drawn start) for a hash at
// which shards ia and ib have denominators denA and denB and nobody
// scores higher than those two according to the harness model.
func findTie(shards []sharding.Shard, khs []uint64, ia, ib int, denA, denB, start uint64) (uint64, []int, bool) {
	lo, hi := denominatorRange(denA)
	width := hi - lo // ranges are ~2^47 wide; +1 not needed for a modulus
	for i := uint64(0); i < tieSearchBudget; i++ {
		mA := hi - (start+i)%width
		h := khs[ia] ^ mUnsplitmix64(mA)
		if mDenominator(mSplitmix64(khs[ib]^h)) != denB {
			continue
		}
		_, at := modelTop(shards, khs, h)
		hasA, hasB := false, false
		for _, p := range at {
			hasA = hasA || p == ia
			hasB = hasB || p == ib
		}
		if hasA && hasB {
			return h, at, true
		}
	}
	return 0, nil, false
}

var recTie = vstats.New("TestC12SelectorTies")

var tieRatios = [][2]uint64{{1, 1}, {1, 1}, {1, 1}, {1, 1}, {1, 2}, {2, 1}, {1, 3}, {3, 2}, {2, 3}, {4, 1}}

// TestC12SelectorTies: shard maps constructed so that two shards have
// exactly equal best scores for a hash found by search; all clauses are
// then asserted on that hash (the tie-break must not depend on list order).
func TestC12SelectorTies(t *testing.T) {
	rapid.Check(t, func(t *rapid.T) {
		c := recTie.Begin()
		n := rapid.IntRange(2, 8).Draw(t, "nshards")
		keys := genKeys(t, n+1, n+1, "keys")
		ia := rapid.IntRange(0, n-1).Draw(t, "ia")
		ib := (ia + rapid.IntRange(1, n-1).Draw(t, "ibOffset")) % n
		ratio := rapid.SampledFrom(tieRatios).Draw(t, "ratio")
		a, b := ratio[0], ratio[1]
		maxU := uint32(math.MaxUint32 / max(a, b))
		u := rapid.OneOf(rapid.Just(maxU), rapid.Just(uint32(1)), rapid.Uint32Range(1, maxU)).Draw(t, "unit")
		shards := make([]sharding.Shard, n)
		for i := range shards {
			switch i {
			case ia:
				shards[i] = sharding.Shard{Key: keys[i], Weight: u * uint32(a)}
			case ib:
				shards[i] = sharding.Shard{Key: keys[i], Weight: u * uint32(b)}
			default:
				// Mostly not heavier than the tying pair, so that the
				// tie is at the top; sometimes arbitrary.
				wgen := rapid.Uint32Range(1, u)
				if rapid.IntRange(0, 3).Draw(t, "heavyOther") == 0 {
					wgen = genWeight()
				}
				shards[i] = sharding.Shard{Key: keys[i], Weight: wgen.Draw(t, "weight")}
			}
		}
		extra := sharding.Shard{Key: keys[n], Weight: genWeight().Draw(t, "extraWeight")}
		idx := make([]int, n)
		for i := range idx {
			idx[i] = i
		}
		perm := rapid.Permutation(idx).Draw(t, "perm")
		extraPos := rapid.IntRange(0, n).Draw(t, "extraPos")
		rm := rapid.IntRange(0, n-1).Draw(t, "rm")
		start := rapid.Uint64Range(0, 1<<40).Draw(t, "searchStart")
		w := newWorld(t, shards, perm, extra, extraPos, rm)
		khs := w.base.m.keyHashes()
		c.Add(w.base.m.String(), w.plus.what, w.perms[0].what, rm, ia, ib, start)

		h, at, ok := findTie(shards, khs, ia, ib, a, b, start)
		if !ok {
			c.Class("tie_search_exhausted")
			c.End()
			return
		}
		f := w.check(t, h)
		c.NonTrivial()
		c.Class("tie_found")
		c.Class(fmt.Sprintf("tie_ratio_%d_%d", a, b))
		c.Class("tie_shards_" + strconv.Itoa(n))
		c.ClassIf(len(at) > 2, "tie_three_way_or_more")
		c.ClassIf(u == maxU, "tie_at_max_weight")
		c.ClassIf(f.movedOnAdd, "moved_to_added_shard")
		c.ClassIf(f.movedOnRm, "moved_by_designated_removal")
		// Generator health (no assertion): the real selector picked one of
		// the shards the harness model believes to be tied.
		inTop := false
		for _, p := range at {
			inTop = inTop || p == f.chosenIndex
		}
		c.ClassIf(inTop, "tie_real_winner_among_model_tied")
		c.ClassIf(!inTop, "tie_real_winner_not_among_model_tied")
		// Generator health: lowering either tied weight by one hands the
		// hash to the other one, i.e. the scores really were equal.
		if len(at) == 2 && shards[ia].Weight >= 2 && shards[ib].Weight >= 2 {
			lowA := append([]sharding.Shard(nil), shards...)
			lowA[ia].Weight--
			lowB := append([]sharding.Shard(nil), shards...)
			lowB[ib].Weight--
			ka := build(t, "tie probe (first weight lowered)", lowA).key(t, h)
			kb := build(t, "tie probe (second weight lowered)", lowB).key(t, h)
			if ka == shards[ib].Key && kb == shards[ia].Key {
				c.Class("tie_confirmed_by_weight_perturbation")
			} else {
				c.Class("tie_not_confirmed_by_weight_perturbation")
			}
		}
		c.Sample(func() string {
			return fmt.Sprintf("%s tie between %q and %q (model-tied positions %v) at hash=%#x -> %q; permutation %v and reversal agree; %s -> moved=%v",
				w.base.m, shards[ia].Key, shards[ib].Key, at, h, f.chosen, perm, w.plus.what, f.movedOnAdd)
		})
		c.End()
	})
}

// ---------------------------------------------------------------- distribution

var recDist = vstats.New("TestC12Distribution")

func envInt(name string, def int) int {
	if v, err := strconv.Atoi(os.Getenv(name)); err == nil {
		return v
	}
	return def
}

// TestC12Distribution walks a Weyl sequence of hashes through a fixed map
// with weights 1,2,4,8 and counts the chosen shard per class, so that the
// evidence shows that weights influence routing. The property says nothing
// about proportions, so nothing about proportions is asserted; the
// metamorphic clauses are asserted on every hash as usual.
func TestC12Distribution(t *testing.T) {
	checks := envInt("VERIF_CHECKS", 50000)
	seed := uint64(envInt("VERIF_SEED", 1))
	shard := uint64(envInt("VERIF_SHARD", 0))
	shards := []sharding.Shard{{Key: "w1", Weight: 1}, {Key: "w2", Weight: 2}, {Key: "w4", Weight: 4}, {Key: "w8", Weight: 8}}
	w := newWorld(t, shards, []int{2, 0, 3, 1}, sharding.Shard{Key: "w3", Weight: 3}, 1, 3)
	x := spread(seed*1000003 + shard*7919 + 1)
	for i := 0; i < checks; i++ {
		x += 0x9e3779b97f4a7c15
		h := spread(x)
		c := recDist.Begin()
		c.Add(h)
		f := w.check(t, h)
		c.Class("fixedmap_1_2_4_8_chose_" + f.chosen)
		c.ClassIf(f.movedOnAdd, "fixedmap_moved_to_added_w3")
		c.ClassIf(f.movedOnRm, "fixedmap_moved_by_removing_w8")
		if f.movedOnAdd || f.movedOnRm {
			c.NonTrivial()
		}
		c.Sample(func() string {
			return fmt.Sprintf("%s hash=%#x -> %q; add w3:3 -> moved=%v; remove w8 -> moved=%v", w.base.m, h, f.chosen, f.movedOnAdd, f.movedOnRm)
		})
		c.End()
	}
}
