package c12

import (
	"bytes"
	"context"
	"encoding/binary"
	"encoding/hex"
	"fmt"
	"sort"
	"strconv"
	"strings"
	"testing"

	remoteexecution "github.com/bazelbuild/remote-apis/build/bazel/remote/execution/v2"
	"github.com/buildbarn/bb-storage/pkg/blobstore"
	"github.com/buildbarn/bb-storage/pkg/blobstore/buffer"
	"github.com/buildbarn/bb-storage/pkg/blobstore/sharding"
	"github.com/buildbarn/bb-storage/pkg/blobstore/slicing"
	"github.com/buildbarn/bb-storage/pkg/digest"
	"google.golang.org/grpc/codes"
	"google.golang.org/grpc/status"
	"pgregory.net/rapid"

	"verif/harness/backends"
	"verif/harness/hx"
	"verif/harness/vstats"
)

var instanceNames = []string{"", "a", "b", "a/b", "c/d/e"}

var faultCodes = []codes.Code{codes.Unavailable, codes.Internal, codes.DeadlineExceeded, codes.ResourceExhausted, codes.NotFound}

type hashLen struct {
	fn remoteexecution.DigestFunction_Value
	n  int
}

// Digest functions for crafted digests, with their hash sizes in bytes.
var craftFunctions = []hashLen{
	{remoteexecution.DigestFunction_MD5, 16},
	{remoteexecution.DigestFunction_SHA1, 20},
	{remoteexecution.DigestFunction_SHA256, 32},
	{remoteexecution.DigestFunction_SHA384, 48},
	{remoteexecution.DigestFunction_SHA512, 64},
}

type slicePassThrough struct{}

func (slicePassThrough) Slice(b buffer.Buffer, child digest.Digest) (buffer.Buffer, []slicing.BlobSlice) {
	return b, nil
}

// object is an instance-name-less digest: either a real blob (data hashed
// with fn) or a crafted hash with chosen leading bytes and no content.
type object struct {
	fn   remoteexecution.DigestFunction_Value
	hash string
	size int64
	data []byte
	real bool
}

func (o object) digest(instance string) digest.Digest {
	return digest.MustNewDigest(instance, o.fn, o.hash, o.size)
}

func prefixOf(d digest.Digest) uint64 {
	return binary.BigEndian.Uint64(d.GetHashBytes()[:8])
}

// shardEnd is one shard: Recorder -> Faulty -> Mem.
type shardEnd struct {
	key    string
	mem    *backends.Mem
	faulty *backends.Faulty
	calls  int // calls that reached this shard so far (== Faulty's counter)
	armed  bool
	code   codes.Code
	fired0 int
}

type baWorld struct {
	t     *rapid.T
	ctx   context.Context
	ends  []*shardEnd
	log   *backends.Log
	ba    blobstore.BlobAccess
	ref   *backends.Mem
	desc  string
	route map[string]int // digest string -> shard (by Get probe)
	// byPrefix: leading eight hash bytes -> shard and the digest that
	// established it.
	byPrefix    map[uint64]int
	byPrefixDig map[uint64]digest.Digest
	prefixInst  map[uint64]map[string]bool
	prefixTail  map[uint64]map[string]bool
}

// drain accounts the logged calls to the shards and clears the log.
func (w *baWorld) drain() []backends.Call {
	calls := w.log.Snapshot()
	w.log.Reset()
	for _, c := range calls {
		i, err := strconv.Atoi(c.Backend)
		if err != nil {
			w.t.Fatalf("harness: bad backend name %q", c.Backend)
		}
		w.ends[i].calls++
	}
	return calls
}

func backendOf(c backends.Call) int {
	i, _ := strconv.Atoi(c.Backend)
	return i
}

// probe determines the shard a digest is routed to by Get (the reference
// routing of the property) and checks that it is a function of the leading
// eight bytes of the hash only.
func (w *baWorld) probe(d digest.Digest) int {
	if s, ok := w.route[d.String()]; ok {
		return s
	}
	w.ba.Get(w.ctx, d).Discard()
	calls := w.drain()
	// Which and how many calls a Get makes is the implementation's; it
	// must address ONE shard, which is then "the shard of d".
	if len(calls) == 0 {
		w.t.Fatalf("Get(%s) on %s reached no back end", d, w.desc)
	}
	s := backendOf(calls[0])
	w.onlyShard("Get", d, calls, s)
	w.route[d.String()] = s
	p := prefixOf(d)
	if prev, ok := w.byPrefix[p]; ok {
		if prev != s {
			w.t.Fatalf("routing depends on more than the leading hash bytes: %s -> shard %q but %s -> shard %q (same first 8 hash bytes %#016x) on %s",
				w.byPrefixDig[p], w.ends[prev].key, d, w.ends[s].key, p, w.desc)
		}
	} else {
		w.byPrefix[p], w.byPrefixDig[p] = s, d
		w.prefixInst[p], w.prefixTail[p] = map[string]bool{}, map[string]bool{}
	}
	w.prefixInst[p][d.GetInstanceName().String()] = true
	w.prefixTail[p][d.GetHashString()] = true
	return s
}

// onlyShard asserts that every back-end call of an operation on d went to
// shard s ("Get, Put and FindMissing for the same digest always address the
// same shard") and concerned d only. Number and kind of calls are free.
func (w *baWorld) onlyShard(op string, d digest.Digest, calls []backends.Call, s int) {
	for _, cl := range calls {
		if backendOf(cl) != s {
			w.t.Fatalf("%s(%s) reached the back ends as %v, but Get for the same digest addresses shard %q (%s)", op, d, calls, w.ends[s].key, w.desc)
		}
		for _, cd := range cl.Digests[:min(1, len(cl.Digests))] {
			if cd != d {
				w.t.Fatalf("%s(%s) asked shard %q about another object: %v (%s)", op, d, w.ends[s].key, calls, w.desc)
			}
		}
	}
}

// arm draws, per shard, whether its next call fails.
func (w *baWorld) arm() {
	for i, e := range w.ends {
		e.armed = rapid.IntRange(0, 5).Draw(w.t, fmt.Sprintf("fail%d", i)) == 0
		e.fired0 = e.faulty.FiredCount()
		if e.armed {
			e.code = rapid.SampledFrom(faultCodes).Draw(w.t, "code")
			e.faulty.Script[e.calls] = backends.Fault{Code: e.code}
			// 1 case in 4: the calls that follow (a repetition of the
			// failed one, for instance) fail as well.
			if rapid.IntRange(0, 3).Draw(w.t, "burst") == 0 {
				e.faulty.Script[e.calls+1] = backends.Fault{Code: e.code}
				e.faulty.Script[e.calls+2] = backends.Fault{Code: e.code}
			}
		}
	}
}

// disarm removes faults that did not fire and reports which did.
func (w *baWorld) disarm(callsBefore []int) (fired []int) {
	for i, e := range w.ends {
		if !e.armed {
			continue
		}
		if e.faulty.FiredCount() > e.fired0 {
			fired = append(fired, i)
		}
		delete(e.faulty.Script, callsBefore[i])
		delete(e.faulty.Script, callsBefore[i]+1)
		delete(e.faulty.Script, callsBefore[i]+2)
		e.armed = false
	}
	return fired
}

func (w *baWorld) callCounts() []int {
	out := make([]int, len(w.ends))
	for i, e := range w.ends {
		out[i] = e.calls
	}
	return out
}

// expectShardError checks that an error returned while shard s failed
// carries that shard's key. Code and wording of the error are the
// implementation's ("errors carry the shard key" is all the property says).
func (w *baWorld) expectShardError(c *vstats.Case, op string, err error, s int) {
	e := w.ends[s]
	msg := status.Convert(err).Message()
	c.ClassIf(status.Code(err) != e.code || !strings.Contains(msg, e.faulty.ErrText()), "fault_error_recoded")
	w.expectKeyInMessage(c, op, msg, e.faulty.ErrText(), s)
}

// carriesKey: the message contains the shard key, verbatim or in one of
// Go's quoted renderings (%q, %+q: a key with unprintable characters may
// legitimately be escaped).
func carriesKey(msg, key string) bool {
	q, qa := strconv.Quote(key), strconv.QuoteToASCII(key)
	return strings.Contains(msg, key) || strings.Contains(msg, q[1:len(q)-1]) || strings.Contains(msg, qa[1:len(qa)-1])
}

func (w *baWorld) expectKeyInMessage(c *vstats.Case, op, msg, inner string, s int) {
	key := w.ends[s].key
	if !carriesKey(msg, key) {
		w.t.Fatalf("%s: error from shard %q does not carry the shard key: %q (%s)", op, key, msg, w.desc)
	}
	// Generator health: could the assertion above have failed? Only if the
	// key occurs neither in the back end's own text nor in any fixed
	// wrapper words.
	if key != "" && !strings.Contains(inner, key) && !strings.Contains("Shard : ", key) {
		c.Class("error_key_check_sensitive")
	} else {
		c.Class("error_key_check_vacuous")
	}
}

func sortedStrings(ds []digest.Digest) []string {
	out := make([]string, 0, len(ds))
	for _, d := range ds {
		out = append(out, d.String())
	}
	sort.Strings(out)
	return out
}

// memSnapshot lists every stored key of every shard.
func (w *baWorld) memSnapshot() []string {
	var out []string
	for i, e := range w.ends {
		for _, k := range e.mem.Keys() {
			out = append(out, strconv.Itoa(i)+"|"+k)
		}
	}
	return out
}

var recBA = vstats.New("TestC12BlobAccess")

// TestC12BlobAccess: NewShardingBlobAccess + NewRendezvousShardSelector
// (as assembled by new_blob_access.go) over recording, fault-injecting
// model back ends.
func TestC12BlobAccess(t *testing.T) {
	rapid.Check(t, func(t *rapid.T) {
		c := recBA.Begin()
		n := rapid.SampledFrom([]int{1, 2, 2, 3, 3, 4, 4, 5, 6, 6}).Draw(t, "nshards")
		keys := genKeys(t, n, n, "keys")
		kf := digest.KeyWithoutInstance
		if rapid.Bool().Draw(t, "keyWithInstance") {
			kf = digest.KeyWithInstance
		}
		w := &baWorld{
			t: t, ctx: context.Background(), log: &backends.Log{},
			ref:   backends.NewMem("ref", kf),
			route: map[string]int{}, byPrefix: map[uint64]int{}, byPrefixDig: map[uint64]digest.Digest{},
			prefixInst: map[uint64]map[string]bool{}, prefixTail: map[uint64]map[string]bool{},
		}
		shards := make([]sharding.Shard, n)
		shardBackends := make([]sharding.ShardBackend, n)
		for i, k := range keys {
			shards[i] = sharding.Shard{Key: k, Weight: genWeight().Draw(t, "weight")}
			e := &shardEnd{key: k, mem: backends.NewMem("mem"+strconv.Itoa(i), kf)}
			e.faulty = backends.NewFaulty("be"+strconv.Itoa(i), e.mem, map[int]backends.Fault{})
			w.ends = append(w.ends, e)
			shardBackends[i] = sharding.ShardBackend{Backend: backends.NewRecorder(strconv.Itoa(i), e.faulty, w.log), Key: k}
		}
		sm := shardMap{shards}
		w.desc = fmt.Sprintf("sharding over %s (keyformat %d)", sm, kf)
		selector, err := sharding.NewRendezvousShardSelector(append([]sharding.Shard(nil), shards...))
		if err != nil {
			t.Fatalf("NewRendezvousShardSelector failed for %s: %v", sm, err)
		}
		w.ba = sharding.NewShardingBlobAccess(shardBackends, selector)
		khs := sm.keyHashes()
		c.Add(w.desc)

		// Object universe: real blobs and crafted hashes.
		var objs []object
		nreal := rapid.IntRange(1, 5).Draw(t, "nreal")
		for i := 0; i < nreal; i++ {
			data := rapid.SliceOfN(rapid.Byte(), 0, 6).Draw(t, "data")
			fn := rapid.SampledFrom(digest.SupportedDigestFunctions).Draw(t, "fn")
			d := hx.Dig("", fn, data)
			objs = append(objs, object{fn: fn, hash: d.GetHashString(), size: d.GetSizeBytes(), data: data, real: true})
		}
		ncraft := rapid.IntRange(0, 6).Draw(t, "ncraft")
		for i := 0; i < ncraft; i++ {
			var prefix uint64
			if rapid.IntRange(0, 2).Draw(t, "sharePrefix") == 0 {
				// Same leading bytes as an existing object, different tail.
				o := objs[rapid.IntRange(0, len(objs)-1).Draw(t, "shareWith")]
				raw, _ := hex.DecodeString(o.hash)
				prefix = binary.BigEndian.Uint64(raw[:8])
			} else {
				prefix = genHash(t, khs).h
			}
			hl := rapid.SampledFrom(craftFunctions).Draw(t, "craftFn")
			raw := make([]byte, hl.n)
			binary.BigEndian.PutUint64(raw, prefix)
			tail := rapid.SliceOfN(rapid.Byte(), hl.n-8, hl.n-8).Draw(t, "tail")
			copy(raw[8:], tail)
			objs = append(objs, object{fn: hl.fn, hash: hex.EncodeToString(raw), size: int64(rapid.IntRange(0, 1000).Draw(t, "size"))})
		}
		pick := func(label string) (object, digest.Digest) {
			o := objs[rapid.IntRange(0, len(objs)-1).Draw(t, label)]
			return o, o.digest(rapid.SampledFrom(instanceNames).Draw(t, label+"/instance"))
		}
		pickReal := func(label string) (object, digest.Digest) {
			o := objs[rapid.IntRange(0, nreal-1).Draw(t, label)]
			return o, o.digest(rapid.SampledFrom(instanceNames).Draw(t, label+"/instance"))
		}
		// Digests uploaded so far, so that reads and FindMissing regularly
		// meet present objects.
		var uploaded []digest.Digest
		pickRead := func(label string) digest.Digest {
			if len(uploaded) > 0 && rapid.IntRange(0, 2).Draw(t, label+"/uploaded") > 0 {
				d := uploaded[rapid.IntRange(0, len(uploaded)-1).Draw(t, label+"/which")]
				if rapid.Bool().Draw(t, label+"/otherInstance") {
					// Same hash, another instance name.
					d = digest.MustNewDigest(rapid.SampledFrom(instanceNames).Draw(t, label+"/instance"), d.GetDigestFunction().GetEnumValue(), d.GetHashString(), d.GetSizeBytes())
				}
				return d
			}
			_, d := pick(label)
			return d
		}

		nops := rapid.IntRange(1, 12).Draw(t, "nops")
		var rendered []string
		for op := 0; op < nops; op++ {
			kind := rapid.SampledFrom([]string{"Put", "Put", "Get", "Get", "GetFromComposite", "FindMissing", "FindMissing", "FindMissing", "Misplace"}).Draw(t, "op")
			switch kind {
			case "Misplace":
				// Store a blob directly in a shard that does not own it:
				// the composite must never consult that shard for it.
				o, d := pickReal("obj")
				c.Add(kind, d.String())
				owner := w.probe(d)
				if n < 2 {
					continue
				}
				other := (owner + rapid.IntRange(1, n-1).Draw(t, "otherShard")) % n
				w.ends[other].mem.Set(d, o.data)
				c.Class("op_misplace")
				rendered = append(rendered, fmt.Sprintf("misplace %s into %q (owner %q)", d, w.ends[other].key, w.ends[owner].key))

			case "Put":
				o, d := pickReal("obj")
				c.Add(kind, d.String())
				owner := w.probe(d)
				before := w.memSnapshot()
				cb := w.callCounts()
				w.arm()
				src := hx.NewCRC(o.data)
				err := w.ba.Put(w.ctx, d, buffer.NewCASBufferFromReader(d, src, buffer.UserProvided))
				calls := w.drain()
				fired := w.disarm(cb)
				w.onlyShard("Put", d, calls, owner)
				c.ClassIf(len(calls) != 1 || calls[0].Op != "Put", "put_not_exactly_one_backend_put")
				c.ClassIf(src.Closes.Load() != 1, "put_source_not_closed_once")
				if err != nil {
					if len(fired) == 0 {
						t.Fatalf("Put(%s) failed without an injected fault: %v (%s)", d, err, w.desc)
					}
					w.expectShardError(c, "Put", err, owner)
					// (whether a failed upload left the object behind in the
					// owning shard is not the property's business; keep the
					// reference store in step)
					if got, ok := w.ends[owner].mem.Peek(d); ok {
						w.ref.Set(d, got)
						c.Class("put_failed_object_held_by_owner")
					}
					c.Class("put_fault")
				} else {
					c.ClassIf(len(fired) > 0, "put_ok_despite_shard_failure")
					w.ref.Set(d, o.data)
					uploaded = append(uploaded, d)
					got, ok := w.ends[owner].mem.Peek(d)
					if !ok || !bytes.Equal(got, o.data) {
						t.Fatalf("Put(%s) succeeded but the owning shard %q does not hold the bytes (%s)", d, w.ends[owner].key, w.desc)
					}
					// Nothing else changed anywhere.
					want := map[string]bool{}
					for _, k := range before {
						want[k] = true
					}
					want[strconv.Itoa(owner)+"|"+d.GetKey(kf)] = true
					after := w.memSnapshot()
					if len(after) != len(want) {
						t.Fatalf("Put(%s) changed more than the owning shard: %v -> %v (%s)", d, before, after, w.desc)
					}
					for _, k := range after {
						if !want[k] {
							t.Fatalf("Put(%s) stored %q outside the owning shard %d (%s)", d, k, owner, w.desc)
						}
					}
					c.Class("put_ok")
				}
				rendered = append(rendered, fmt.Sprintf("Put(%s)@%q->%v", d, w.ends[owner].key, err))

			case "Get", "GetFromComposite":
				d := pickRead("obj")
				c.Add(kind, d.String())
				owner := w.probe(d)
				var child digest.Digest
				if kind == "GetFromComposite" {
					oc := objs[rapid.IntRange(0, len(objs)-1).Draw(t, "child")]
					child = oc.digest(d.GetInstanceName().String())
					c.Add(child.String())
					// The child's own routing is irrelevant; probe it so
					// that the statistics show when it differs.
					c.ClassIf(w.probe(child) != owner, "composite_child_routes_elsewhere")
				}
				cb := w.callCounts()
				w.arm()
				var b buffer.Buffer
				if kind == "Get" {
					b = w.ba.Get(w.ctx, d)
				} else {
					b = w.ba.GetFromComposite(w.ctx, d, child, slicePassThrough{})
				}
				got, err := b.ToByteSlice(1 << 20)
				calls := w.drain()
				fired := w.disarm(cb)
				if len(calls) == 0 {
					t.Fatalf("%s(%s) reached no back end (%s)", kind, d, w.desc)
				}
				w.onlyShard(kind, d, calls, owner)
				c.ClassIf(len(calls) != 1 || calls[0].Op != kind, "read_not_exactly_one_backend_call")
				stored, present := w.ref.Peek(d)
				ownerStored, ownerPresent := w.ends[owner].mem.Peek(d)
				if present != ownerPresent || !bytes.Equal(stored, ownerStored) {
					t.Fatalf("shard %q and the single reference store disagree about %s: %v/%q vs %v/%q (%s)", w.ends[owner].key, d, ownerPresent, ownerStored, present, stored, w.desc)
				}
				switch {
				case len(fired) > 0 && err != nil:
					w.expectShardError(c, kind, err, owner)
					c.Class("read_fault")
				case present:
					if err != nil || !bytes.Equal(got, stored) {
						t.Fatalf("%s(%s): got %q, %v; the reference store holds %q (%s)", kind, d, got, err, stored, w.desc)
					}
					c.ClassIf(len(fired) > 0, "read_ok_despite_shard_failure")
					c.Class("read_hit")
				default:
					if err == nil {
						t.Fatalf("%s(%s) of an absent object returned %q (%s)", kind, d, got, w.desc)
					}
					c.ClassIf(status.Code(err) != codes.NotFound, "read_miss_not_not_found")
					w.expectKeyInMessage(c, kind, status.Convert(err).Message(), "mem"+strconv.Itoa(owner)+": object "+d.String()+" not found", owner)
					c.Class("read_miss")
				}
				rendered = append(rendered, fmt.Sprintf("%s(%s)@%q->%v", kind, d, w.ends[owner].key, err))

			case "FindMissing":
				k := rapid.IntRange(0, 12).Draw(t, "k")
				sb := digest.NewSetBuilder(0)
				for i := 0; i < k; i++ {
					sb.Add(pickRead("obj"))
				}
				set := sb.Build()
				c.Add(kind, strings.Join(sortedStrings(set.Items()), ","))
				// Partition by the Get routing.
				part := make([][]digest.Digest, n)
				for _, d := range set.Items() {
					s := w.probe(d)
					part[s] = append(part[s], d)
				}
				involved := 0
				for _, p := range part {
					if len(p) > 0 {
						involved++
					}
				}
				cb := w.callCounts()
				w.arm()
				missing, err := w.ba.FindMissing(w.ctx, set)
				calls := w.drain()
				fired := w.disarm(cb)
				// Each shard is asked only about its own digests (how often,
				// in how many batches, and whether a shard without digests
				// sees an empty call is the implementation's).
				seen := make([]int, n)
				for _, cl := range calls {
					s := backendOf(cl)
					seen[s]++
					own := map[string]bool{}
					for _, d := range part[s] {
						own[d.String()] = true
					}
					for _, d := range cl.Digests {
						if !own[d.String()] {
							t.Fatalf("FindMissing asked shard %q about %v, but the digests that Get routes to it are %v (%s)", w.ends[s].key, sortedStrings(cl.Digests), sortedStrings(part[s]), w.desc)
						}
					}
				}
				for s := range part {
					c.ClassIf((len(part[s]) > 0) != (seen[s] == 1), "find_shard_not_asked_exactly_once_iff_involved")
				}
				if err != nil {
					if len(fired) == 0 {
						t.Fatalf("FindMissing failed without an injected fault: %v (%s)", err, w.desc)
					}
					// The error must carry the key of a shard that failed.
					msg := status.Convert(err).Message()
					matched := -1
					for _, s := range fired {
						if carriesKey(msg, w.ends[s].key) {
							matched = s
						}
					}
					if matched < 0 {
						t.Fatalf("FindMissing returned %v, which carries the key of none of the failed shards %v (%s)", err, fired, w.desc)
					}
					w.expectShardError(c, "FindMissing", err, matched)
					c.Class("find_fault")
					c.ClassIf(len(fired) >= 2, "find_two_or_more_faults")
				} else {
					c.ClassIf(len(fired) > 0, "find_ok_despite_shard_failure")
					// Exactly the union of the shards' own answers ...
					var union []digest.Digest
					for s, p := range part {
						for _, d := range p {
							if !w.ends[s].mem.Has(d) {
								union = append(union, d)
							}
						}
					}
					if fmt.Sprint(sortedStrings(missing.Items())) != fmt.Sprint(sortedStrings(union)) {
						t.Fatalf("FindMissing(%v) = %v, but the union of the shards' answers is %v (%s)", sortedStrings(set.Items()), sortedStrings(missing.Items()), sortedStrings(union), w.desc)
					}
					// ... which is what one store holding everything says.
					refMissing, _ := w.ref.FindMissing(w.ctx, set)
					if fmt.Sprint(sortedStrings(missing.Items())) != fmt.Sprint(sortedStrings(refMissing.Items())) {
						t.Fatalf("FindMissing(%v) = %v, a single store holding every upload says %v (%s)", sortedStrings(set.Items()), sortedStrings(missing.Items()), sortedStrings(refMissing.Items()), w.desc)
					}
					c.Class("find_ok")
					c.ClassIf(len(union) > 0 && len(union) < set.Length(), "find_some_present_some_missing")
				}
				if involved >= 2 {
					c.NonTrivial()
					c.Class("find_spans_2plus_shards")
				}
				c.ClassIf(involved == 1, "find_single_shard")
				c.ClassIf(set.Length() == 0, "find_empty_set")
				rendered = append(rendered, fmt.Sprintf("FindMissing(%d digests over %d shards)->%d missing,%v", set.Length(), involved, missing.Length(), err))
			}
		}
		multiInst, multiTail := false, false
		for p := range w.byPrefix {
			multiInst = multiInst || len(w.prefixInst[p]) >= 2
			multiTail = multiTail || len(w.prefixTail[p]) >= 2
		}
		c.ClassIf(multiInst, "same_hash_under_2plus_instance_names")
		c.ClassIf(multiTail, "same_leading_bytes_different_tail")
		c.Class("shards_" + strconv.Itoa(n))
		c.Sample(func() string { return fmt.Sprintf("%s ops=%v", w.desc, rendered) })
		c.End()
	})
}
