package c12

// Harness-side arithmetic used ONLY to steer generation: to invert the
// selector's hash mixing (so that a chosen shard's mixed value lands on
// table boundaries, powers of two, 0, all-ones) and to search for tie
// inputs (two shards with equal best score). Nothing in this file is used
// as an oracle; the oracles in selector_test.go / blobaccess_test.go are
// metamorphic (permutation, removal, addition, determinism) or
// differential (model back ends).

import (
	"crypto/sha256"
	"encoding/binary"
	"fmt"
	"math"
	"math/bits"
	"strings"

	"github.com/buildbarn/bb-storage/pkg/blobstore/sharding"
	"pgregory.net/rapid"
)

// keyHash is how the selector derives a shard's 64-bit identity from its
// key (first eight bytes of SHA-256, big endian).
func keyHash(key string) uint64 {
	h := sha256.Sum256([]byte(key))
	return binary.BigEndian.Uint64(h[:8])
}

const (
	mulA = 0xbf58476d1ce4e5b9
	mulB = 0x94d049bb133111eb
)

var (
	invA = mulInverse(mulA)
	invB = mulInverse(mulB)
)

// mulInverse is the inverse of an odd number modulo 2^64 (Newton).
func mulInverse(a uint64) uint64 {
	inv := a // correct to 3 bits
	for i := 0; i < 6; i++ {
		inv *= 2 - a*inv
	}
	return inv
}

func mSplitmix64(x uint64) uint64 {
	x ^= x >> 30
	x *= mulA
	x ^= x >> 27
	x *= mulB
	x ^= x >> 31
	return x
}

// unxorshift inverts y = x ^ (x >> s).
func unxorshift(y uint64, s uint) uint64 {
	r := y
	for sh := s; sh < 64; sh += s {
		r ^= y >> sh
	}
	return r
}

// mUnsplitmix64 is the inverse permutation of mSplitmix64.
func mUnsplitmix64(x uint64) uint64 {
	x = unxorshift(x, 31)
	x *= invB
	x = unxorshift(x, 27)
	x *= invA
	x = unxorshift(x, 30)
	return x
}

var mlut = [65]uint16{
	0x0000, 0x05ba, 0x0b5d, 0x10eb, 0x1664, 0x1bc8, 0x2119, 0x2656,
	0x2b80, 0x3098, 0x359f, 0x3a94, 0x3f78, 0x444c, 0x4910, 0x4dc5,
	0x526a, 0x5700, 0x5b89, 0x6003, 0x646f, 0x68ce, 0x6d20, 0x7165,
	0x759d, 0x79ca, 0x7dea, 0x81ff, 0x8608, 0x8a06, 0x8dfa, 0x91e2,
	0x95c0, 0x9994, 0x9d5e, 0xa11e, 0xa4d4, 0xa881, 0xac24, 0xafbe,
	0xb350, 0xb6d9, 0xba59, 0xbdd1, 0xc140, 0xc4a8, 0xc807, 0xcb5f,
	0xceaf, 0xd1f7, 0xd538, 0xd872, 0xdba5, 0xded0, 0xe1f5, 0xe513,
	0xe82a, 0xeb3b, 0xee45, 0xf149, 0xf446, 0xf73e, 0xfa2f, 0xfd1a,
	0x0000,
}

func mLog2Fixed(x uint64) uint64 {
	msb := uint(bits.Len64(x >> 1))
	bitfield := x << (64 - msb)
	index := bitfield >> 58
	interp := bitfield << 6 >> 16
	base, next := mlut[index], mlut[index+1]
	delta := uint64(next - base)
	frac := uint64(base)<<48 + delta*interp
	return uint64(msb)<<16 | frac>>48
}

const logTop = uint64(64) << 16

// mDenominator is the divisor of the score ("64 - log2(x)" in 16.16).
func mDenominator(x uint64) uint64 { return logTop - mLog2Fixed(x) }

func mScore(x uint64, weight uint32) uint64 {
	return (uint64(weight) << 32) / mDenominator(x)
}

// firstWithLogAtLeast returns the smallest x whose model logarithm is >=
// target (binary search; the model logarithm is non-decreasing). If no x
// qualifies it returns MaxUint64 and false.
func firstWithLogAtLeast(target uint64) (uint64, bool) {
	if mLog2Fixed(math.MaxUint64) < target {
		return math.MaxUint64, false
	}
	lo, hi := uint64(0), uint64(math.MaxUint64)
	for lo < hi {
		mid := lo + (hi-lo)/2
		if mLog2Fixed(mid) >= target {
			hi = mid
		} else {
			lo = mid + 1
		}
	}
	return lo, true
}

// denominatorRange returns the interval of mixed values whose score
// denominator equals den (1 <= den <= 64<<16).
func denominatorRange(den uint64) (lo, hi uint64) {
	lo, _ = firstWithLogAtLeast(logTop - den)
	if den == 1 {
		return lo, math.MaxUint64
	}
	next, _ := firstWithLogAtLeast(logTop - den + 1)
	return lo, next - 1
}

func init() {
	for _, x := range []uint64{0, 1, 2, 0xdeadbeefcafef00d, math.MaxUint64, 1 << 63, 12345} {
		if mSplitmix64(mUnsplitmix64(x)) != x || mUnsplitmix64(mSplitmix64(x)) != x {
			panic(fmt.Sprintf("c12: mixing inverse is wrong for %#x", x))
		}
	}
	if mulA*invA != 1 || mulB*invB != 1 {
		panic("c12: multiplicative inverses are wrong")
	}
}

// spread is a fixed bijection (murmur3 finaliser) applied to drawn values
// so that "uniform" hashes really cover all 64 bits even where rapid
// prefers small integers. It is unrelated to the selector's own mixing.
func spread(x uint64) uint64 {
	x ^= x >> 33
	x *= 0xff51afd7ed558ccd
	x ^= x >> 33
	x *= 0xc4ceb9fe1a85ec53
	x ^= x >> 33
	return x
}

// ---------------------------------------------------------------- shard maps

type shardMap struct {
	shards []sharding.Shard
}

func (m shardMap) String() string {
	var sb strings.Builder
	sb.WriteString("[")
	for i, s := range m.shards {
		if i > 0 {
			sb.WriteString(" ")
		}
		fmt.Fprintf(&sb, "%q:%d", s.Key, s.Weight)
	}
	sb.WriteString("]")
	return sb.String()
}

func (m shardMap) keyHashes() []uint64 {
	out := make([]uint64, len(m.shards))
	for i, s := range m.shards {
		out[i] = keyHash(s.Key)
	}
	return out
}

var keyAlphabet = []rune("abAB01-_/ .:é世\x00")

func genKey() *rapid.Generator[string] {
	return rapid.OneOf(
		rapid.StringOfN(rapid.SampledFrom(keyAlphabet), 0, 6, -1),
		rapid.SampledFrom([]string{"", "a", "b", "c", "d", "e", "0", "1", "shard-0", "shard-1", "storage-a.example:8981", "Shard"}),
		rapid.String(),
	)
}

func genWeight() *rapid.Generator[uint32] {
	return rapid.OneOf(
		rapid.Just(uint32(1)),
		rapid.Just(uint32(2)),
		rapid.Just(uint32(math.MaxUint32)),
		rapid.Just(uint32(math.MaxUint32-1)),
		rapid.Uint32Range(1, 16),
		rapid.Uint32Range(1, math.MaxUint32),
		rapid.Map(rapid.IntRange(0, 31), func(k int) uint32 { return uint32(1) << uint(k) }),
	)
}

// genKeys draws n+extra distinct keys.
func genKeys(t *rapid.T, minN, maxN int, label string) []string {
	return rapid.SliceOfNDistinct(genKey(), minN, maxN, rapid.ID[string]).Draw(t, label)
}

// ---------------------------------------------------------------- hashes

// hashInfo describes how a hash was produced.
type hashInfo struct {
	h       uint64
	class   string
	target  int    // shard the value was directed at, or -1
	mixed   uint64 // intended mixed value for that shard
	allOnes bool
}

// genMixedTarget draws a value the selector's mixed hash should take.
func genMixedTarget(t *rapid.T) (uint64, string) {
	switch rapid.IntRange(0, 5).Draw(t, "mkind") {
	case 0:
		return rapid.SampledFrom([]uint64{0, 1, 2, 3, math.MaxUint64, math.MaxUint64 - 1}).Draw(t, "mconst"), "directed_extreme"
	case 1:
		k := uint(rapid.IntRange(0, 63).Draw(t, "mpow"))
		d := uint64(rapid.IntRange(-1, 1).Draw(t, "mdelta"))
		return (uint64(1) << k) + d, "directed_pow2"
	case 2, 3:
		// Start / end of a lookup-table segment: leading one at bit k,
		// the six bits below it select the entry.
		k := uint(rapid.IntRange(6, 63).Draw(t, "mmsb"))
		i := uint64(rapid.IntRange(0, 63).Draw(t, "mentry"))
		x := uint64(1)<<k | i<<(k-6)
		switch rapid.IntRange(0, 3).Draw(t, "medge") {
		case 0:
			x--
		case 1:
		case 2:
			x++
		default:
			x |= uint64(1)<<(k-6) - 1 // last value of the segment
		}
		return x, "directed_lut_boundary"
	case 4:
		// Boundary between two values of the score denominator.
		den := rapid.OneOf(
			rapid.Uint64Range(1, 8),
			rapid.Uint64Range(1, 1<<16+2),
			rapid.Uint64Range(1, logTop),
		).Draw(t, "mden")
		lo, hi := denominatorRange(den)
		switch rapid.IntRange(0, 3).Draw(t, "medge") {
		case 0:
			return lo - 1, "directed_log_step"
		case 1:
			return lo, "directed_log_step"
		case 2:
			return hi, "directed_log_step"
		default:
			return hi + 1, "directed_log_step"
		}
	default:
		return rapid.Uint64Range(0, 255).Draw(t, "msmall"), "directed_small"
	}
}

// genHash draws one hash for a shard map whose key hashes are khs.
func genHash(t *rapid.T, khs []uint64) hashInfo {
	switch rapid.IntRange(0, 9).Draw(t, "hclass") {
	case 0, 1, 2, 3:
		return hashInfo{h: spread(rapid.Uint64().Draw(t, "h")), class: "uniform", target: -1}
	case 4:
		h := rapid.SampledFrom([]uint64{0, math.MaxUint64, 1, 2, math.MaxUint64 - 1, 1 << 63, 1<<63 - 1, 1 << 32, 1<<32 - 1}).Draw(t, "hconst")
		return hashInfo{h: h, class: "special", target: -1}
	case 5:
		return hashInfo{h: rapid.Uint64Range(0, 4096).Draw(t, "hsmall"), class: "small", target: -1}
	default:
		s := rapid.IntRange(0, len(khs)-1).Draw(t, "htarget")
		m, cls := genMixedTarget(t)
		return hashInfo{h: khs[s] ^ mUnsplitmix64(m), class: cls, target: s, mixed: m, allOnes: m == math.MaxUint64}
	}
}
