package c12

// TestC12Configured: the sharding composite as the REAL configuration code
// assembles it (configuration.NewBlobAccessFromConfiguration over a
// generated ShardingBlobAccessConfiguration), so that mistakes in
// pkg/blobstore/configuration/new_blob_access.go (which pairs keys,
// weights and back ends) are visible. Every leaf is either an `error`
// back end whose message ends in "LEAF<i>" (i = position of the shard's
// key in the byte-sorted key list; the request's destination is then
// visible from outside without any storage) or a real in-memory `local`
// CAS back end. In "peek" layouts the leaves are declared once under
// with_labels and are additionally reachable directly through a
// demultiplexer ("peek/<i>"), which makes the placement of stored objects
// observable.

import (
	"context"
	"encoding/binary"
	"encoding/hex"
	"fmt"
	"regexp"
	"sort"
	"strconv"
	"strings"
	"testing"
	"unicode/utf8"

	remoteexecution "github.com/bazelbuild/remote-apis/build/bazel/remote/execution/v2"
	"github.com/buildbarn/bb-storage/pkg/blobstore"
	"github.com/buildbarn/bb-storage/pkg/blobstore/buffer"
	"github.com/buildbarn/bb-storage/pkg/blobstore/configuration"
	"github.com/buildbarn/bb-storage/pkg/blobstore/sharding"
	"github.com/buildbarn/bb-storage/pkg/digest"
	"github.com/buildbarn/bb-storage/pkg/program"
	pb "github.com/buildbarn/bb-storage/pkg/proto/configuration/blobstore"
	statuspb "google.golang.org/genproto/googleapis/rpc/status"
	"google.golang.org/grpc/codes"
	"google.golang.org/grpc/status"
	"google.golang.org/protobuf/proto"
	"google.golang.org/protobuf/types/known/timestamppb"
	"pgregory.net/rapid"

	"verif/harness/hx"
	"verif/harness/vstats"
)

var recCfg = vstats.New("TestC12Configured")

// cfgShard is one entry of the generated shard map. Entries are kept in
// byte order of their keys; idx is the position in that order and the
// number the leaf reports.
type cfgShard struct {
	key    string
	weight uint32
	local  bool       // real in-memory local CAS; otherwise `error`
	code   codes.Code // of the error leaf
}

type cfgMap []cfgShard

func (m cfgMap) String() string {
	var sb strings.Builder
	sb.WriteString("{")
	for i, s := range m {
		if i > 0 {
			sb.WriteString(" ")
		}
		kind := "error/" + s.code.String()
		if s.local {
			kind = "local"
		}
		fmt.Fprintf(&sb, "%q:w%d:%s", s.key, s.weight, kind)
	}
	sb.WriteString("}")
	return sb.String()
}

func leafMessage(i int) string { return fmt.Sprintf("leaf says LEAF<%d>", i) }

var leafRe = regexp.MustCompile(`LEAF<([0-9]+)>$`)

// leafOf extracts which leaf produced an error; -1 if the error does not
// end in a leaf marker (wrappers only ever prepend to the message).
func leafOf(err error) int {
	m := leafRe.FindStringSubmatch(status.Convert(err).Message())
	if m == nil {
		return -1
	}
	i, _ := strconv.Atoi(m[1])
	return i
}

func cfgLocalLeaf() *pb.BlobAccessConfiguration {
	return &pb.BlobAccessConfiguration{Backend: &pb.BlobAccessConfiguration_Local{Local: &pb.LocalBlobAccessConfiguration{
		KeyLocationMapBackend:            &pb.LocalBlobAccessConfiguration_KeyLocationMapInMemory_{KeyLocationMapInMemory: &pb.LocalBlobAccessConfiguration_KeyLocationMapInMemory{Entries: 509}},
		KeyLocationMapMaximumGetAttempts: 16,
		KeyLocationMapMaximumPutAttempts: 64,
		OldBlocks:                        2,
		CurrentBlocks:                    2,
		NewBlocks:                        2,
		BlocksBackend:                    &pb.LocalBlobAccessConfiguration_BlocksInMemory_{BlocksInMemory: &pb.LocalBlobAccessConfiguration_BlocksInMemory{BlockSizeBytes: 8192}},
	}}}
}

func (s cfgShard) leafConfig(i int) *pb.BlobAccessConfiguration {
	if s.local {
		return cfgLocalLeaf()
	}
	return &pb.BlobAccessConfiguration{Backend: &pb.BlobAccessConfiguration_Error{Error: &statuspb.Status{Code: int32(s.code), Message: leafMessage(i)}}}
}

func labelOf(i int) string { return fmt.Sprintf("leaf-%d", i) }

// configOf renders the shard map as a configuration message. order is the
// order in which the entries are inserted into the protobuf map (the
// "textual order" of the shards); omit >= 0 leaves that shard out. With
// peek the leaves are labels, the sharding composite is reachable under
// instance name prefix "front" and leaf i under "peek/<i>".
func (m cfgMap) configOf(order []int, omit int, peek bool) *pb.BlobAccessConfiguration {
	shards := map[string]*pb.ShardingBlobAccessConfiguration_Shard{}
	for _, i := range order {
		if i == omit {
			continue
		}
		leaf := m[i].leafConfig(i)
		if peek {
			leaf = &pb.BlobAccessConfiguration{Backend: &pb.BlobAccessConfiguration_Label{Label: labelOf(i)}}
		}
		shards[m[i].key] = &pb.ShardingBlobAccessConfiguration_Shard{Backend: leaf, Weight: m[i].weight}
	}
	sh := &pb.BlobAccessConfiguration{Backend: &pb.BlobAccessConfiguration_Sharding{Sharding: &pb.ShardingBlobAccessConfiguration{Shards: shards}}}
	if !peek {
		return sh
	}
	labels := map[string]*pb.BlobAccessConfiguration{}
	prefixes := map[string]*pb.DemultiplexedBlobAccessConfiguration{"front": {Backend: sh}}
	for _, i := range order {
		labels[labelOf(i)] = m[i].leafConfig(i)
		prefixes[fmt.Sprintf("peek/%d", i)] = &pb.DemultiplexedBlobAccessConfiguration{
			Backend: &pb.BlobAccessConfiguration{Backend: &pb.BlobAccessConfiguration_Label{Label: labelOf(i)}},
		}
	}
	return &pb.BlobAccessConfiguration{Backend: &pb.BlobAccessConfiguration_WithLabels{WithLabels: &pb.WithLabelsBlobAccessConfiguration{
		Labels:  labels,
		Backend: &pb.BlobAccessConfiguration{Backend: &pb.BlobAccessConfiguration_Demultiplexing{Demultiplexing: &pb.DemultiplexingBlobAccessConfiguration{InstanceNamePrefixes: prefixes}}},
	}}}
}

func identityOrder(n int) []int {
	out := make([]int, n)
	for i := range out {
		out[i] = i
	}
	return out
}

// refRoute is the reference: the real selector constructed directly (not
// through the configuration code) from the configured (key, weight)
// pairs listed in key order, minus shard omit. It returns positions in m.
func (m cfgMap) refSelector(t fataler, omit int) func(h uint64) int {
	var shards []sharding.Shard
	var pos []int
	for i, s := range m {
		if i == omit {
			continue
		}
		shards = append(shards, sharding.Shard{Key: s.key, Weight: s.weight})
		pos = append(pos, i)
	}
	sel, err := sharding.NewRendezvousShardSelector(shards)
	if err != nil {
		t.Fatalf("harness: reference selector for %s: %v", m, err)
	}
	return func(h uint64) int { return pos[sel.GetShard(h)] }
}

func genCfgMap(t *rapid.T, maxN int, leafKind string) cfgMap {
	// The number of shards is drawn first (SliceOfNDistinct alone prefers
	// short slices); weights come in three regimes so that maps in which
	// several shards really receive hashes are common.
	n := rapid.SampledFrom([]int{1, 2, 2, 3, 3, 4, 4, 5, 5, 6}).Draw(t, "nshards")
	if n > maxN {
		n = maxN
	}
	keys := rapid.SliceOfNDistinct(genKey().Filter(utf8.ValidString), n, n, rapid.ID[string]).Draw(t, "keys")
	sort.Strings(keys)
	regime := rapid.SampledFrom([]string{"any", "small", "equal"}).Draw(t, "weightRegime")
	equal := genWeight().Draw(t, "equalWeight")
	m := make(cfgMap, len(keys))
	for i, k := range keys {
		m[i] = cfgShard{key: k}
		switch regime {
		case "any":
			m[i].weight = genWeight().Draw(t, "weight")
		case "small":
			m[i].weight = rapid.Uint32Range(1, 8).Draw(t, "weight")
		default:
			m[i].weight = equal
		}
		switch leafKind {
		case "error":
		case "local":
			m[i].local = true
		default:
			m[i].local = rapid.IntRange(0, 2).Draw(t, "leafLocal") > 0
		}
		if !m[i].local {
			m[i].code = rapid.SampledFrom([]codes.Code{codes.NotFound, codes.Unavailable, codes.Internal, codes.PermissionDenied}).Draw(t, "leafCode")
		}
	}
	return m
}

func craftedDigest(instance string, h uint64) digest.Digest {
	var raw [32]byte
	binary.BigEndian.PutUint64(raw[:8], h)
	binary.BigEndian.PutUint64(raw[8:16], spread(h))
	return digest.MustNewDigest(instance, remoteexecution.DigestFunction_SHA256, hex.EncodeToString(raw[:]), 1+int64(h%97))
}

var cfgACResult = &remoteexecution.ActionResult{
	ExitCode:          3,
	ExecutionMetadata: &remoteexecution.ExecutedActionMetadata{WorkerCompletedTimestamp: &timestamppb.Timestamp{Seconds: 1700000000}},
}

// frontend is one BlobAccess built from a configuration.
type frontend struct {
	what string
	ba   blobstore.BlobAccess
}

// withFrontends builds every configuration through the real configuration
// code inside one program.RunLocal and runs f.
func withFrontends(t *rapid.T, ac bool, cfgs []*pb.BlobAccessConfiguration, whats []string, f func(ctx context.Context, fs []frontend) error) {
	err := program.RunLocal(context.Background(), func(ctx context.Context, siblings, deps program.Group) error {
		var fs []frontend
		for i, cfg := range cfgs {
			creator := configuration.NewCASBlobAccessCreator(nil, 1<<20, nil)
			if ac {
				creator = configuration.NewACBlobAccessCreator(nil, nil, 1<<20)
			}
			info, err := configuration.NewBlobAccessFromConfiguration(deps, cfg, creator)
			if err != nil {
				return fmt.Errorf("harness/C12: NewBlobAccessFromConfiguration rejected the %s configuration (distinct keys, non-zero weights): %v", whats[i], err)
			}
			fs = append(fs, frontend{what: whats[i], ba: info.BlobAccess})
		}
		return f(ctx, fs)
	})
	if err != nil {
		t.Fatalf("%v", err)
	}
}

func TestC12Configured(t *testing.T) {
	rapid.Check(t, func(t *rapid.T) {
		c := recCfg.Begin()
		if rapid.IntRange(0, 2).Draw(t, "layout") == 0 {
			configuredStores(t, c)
		} else {
			configuredRouting(t, c)
		}
		c.End()
	})
}

// configuredRouting: all leaves are `error` back ends, so the destination
// of every single request is visible. The same shard map is built
// several times (same message again, entries inserted in a permuted
// order, after a protobuf wire round trip), once without a designated
// shard and once with an extra shard.
func configuredRouting(t *rapid.T, c *vstats.Case) {
	c.Class("layout_routing_error_leaves")
	m := genCfgMap(t, 6, "error")
	n := len(m)
	ac := rapid.Bool().Draw(t, "actionCache")
	perm := rapid.Permutation(identityOrder(n)).Draw(t, "insertionOrder")
	rm := -1
	if n >= 2 {
		rm = rapid.IntRange(0, n-1).Draw(t, "removed")
	}
	for _, s := range m {
		c.Add(s.key, int(s.weight), int(s.code))
	}
	c.Add(ac, perm, rm)

	base := m.configOf(identityOrder(n), -1, false)
	wire, err := proto.Marshal(base)
	if err != nil {
		t.Fatalf("harness: marshal: %v", err)
	}
	reparsed := &pb.BlobAccessConfiguration{}
	if err := proto.Unmarshal(wire, reparsed); err != nil {
		t.Fatalf("harness: unmarshal: %v", err)
	}
	cfgs := []*pb.BlobAccessConfiguration{base, base, m.configOf(perm, -1, false), reparsed}
	whats := []string{"base", "base built a second time", "base with permuted shard order", "base after a wire round trip"}
	omits := []int{-1, -1, -1, -1}
	if rm >= 0 {
		cfgs = append(cfgs, m.configOf(identityOrder(n), rm, false))
		whats = append(whats, fmt.Sprintf("base without shard %q", m[rm].key))
		omits = append(omits, rm)
	}

	khs := make([]uint64, n)
	for i, s := range m {
		khs[i] = keyHash(s.key)
	}
	nh := rapid.IntRange(4, 20).Draw(t, "nhashes")
	hashes := make([]hashInfo, nh)
	for i := range hashes {
		hashes[i] = genHash(t, khs)
		c.Add(hashes[i].h)
	}
	// Instance names and the order of the operations are drawn up front so
	// that draws do not happen inside program.RunLocal callbacks of
	// different builds in a data-dependent order.
	type plan struct {
		inst [3]string
	}
	plans := make([][]plan, len(cfgs))
	for b := range cfgs {
		plans[b] = make([]plan, nh)
		for i := range plans[b] {
			for k := 0; k < 3; k++ {
				plans[b][i].inst[k] = rapid.SampledFrom(instanceNames).Draw(t, "instance")
			}
		}
	}
	batch := rapid.SliceOfN(rapid.IntRange(0, nh-1), 2, 6).Draw(t, "batch")

	routes := make([][]int, len(cfgs)) // routes[build][hash] = leaf position
	withFrontends(t, ac, cfgs, whats, func(ctx context.Context, fs []frontend) error {
		for b, f := range fs {
			routes[b] = make([]int, nh)
			for i, hi := range hashes {
				var seen [3]int
				var errs [3]error
				for k, op := range []string{"Get", "Put", "FindMissing"} {
					d := craftedDigest(plans[b][i].inst[k], hi.h)
					var err error
					switch op {
					case "Get":
						_, err = f.ba.Get(ctx, d).ToByteSlice(1 << 16)
					case "Put":
						var buf buffer.Buffer = buffer.NewValidatedBufferFromByteSlice([]byte("x"))
						if ac {
							buf = buffer.NewProtoBufferFromProto(cfgACResult, buffer.UserProvided)
						}
						err = f.ba.Put(ctx, d, buf)
					default:
						_, err = f.ba.FindMissing(ctx, d.ToSingletonSet())
					}
					if err == nil {
						return fmt.Errorf("C12 (configured, %s %s): %s of %s succeeded although every shard is an error back end", f.what, m, op, d)
					}
					seen[k], errs[k] = leafOf(err), err
					if seen[k] < 0 || seen[k] >= n || seen[k] == omits[b] {
						return fmt.Errorf("C12 (configured, %s %s): %s of %s failed with %q, which is not the error of any configured shard", f.what, m, op, d, err)
					}
					if !carriesKey(status.Convert(err).Message(), m[seen[k]].key) {
						return fmt.Errorf("C12 (configured, %s %s): errors carry the shard key: %s of %s reached the back end configured under key %q but the error %q does not mention that key", f.what, m, op, d, m[seen[k]].key, err)
					}
				}
				if seen[0] != seen[1] || seen[0] != seen[2] {
					return fmt.Errorf("C12 (configured, %s %s): Get, Put and FindMissing of hash %#x (instance names %q) address different shards: Get->%q Put->%q FindMissing->%q", f.what, m, hi.h, plans[b][i].inst, m[seen[0]].key, m[seen[1]].key, m[seen[2]].key)
				}
				routes[b][i] = seen[0]
			}
			// One FindMissing over several digests: with every shard
			// failing, the error must be the one of a shard that owns one
			// of the digests (which one is free).
			sb := digest.NewSetBuilder(0)
			owners := map[int]bool{}
			for _, i := range batch {
				sb.Add(craftedDigest(plans[b][i].inst[0], hashes[i].h))
				owners[routes[b][i]] = true
			}
			_, err := f.ba.FindMissing(ctx, sb.Build())
			if err == nil || !owners[leafOf(err)] {
				return fmt.Errorf("C12 (configured, %s %s): FindMissing asks each shard only about its own digests: a batch owned by shards %v returned %v", f.what, m, owners, err)
			}
		}
		return nil
	})

	// (ii)/(iv) routing is a function of the configuration: every build
	// of the same shard map routes every hash to the same shard key.
	distinct := map[int]bool{}
	for i, hi := range hashes {
		distinct[routes[0][i]] = true
		for b := 1; b <= 3; b++ {
			if routes[b][i] != routes[0][i] {
				t.Fatalf("C12 (configured): the shard chosen depends only on the hash and the set of (key, weight) pairs, but two BlobAccess instances built from the same shard map %s disagree: hash %#x goes to shard %q in %q and to shard %q in %q", m, hi.h, m[routes[0][i]].key, whats[0], m[routes[b][i]].key, whats[b])
			}
		}
	}
	// Minimal disruption at configuration level.
	moved := 0
	if rm >= 0 {
		for i, hi := range hashes {
			if routes[0][i] != rm && routes[4][i] != routes[0][i] {
				t.Fatalf("C12 (configured): removing shard %q from %s re-routed hash %#x from shard %q to shard %q although it was not assigned to the removed shard", m[rm].key, m, hi.h, m[routes[0][i]].key, m[routes[4][i]].key)
			}
			if routes[0][i] == rm {
				moved++
			}
		}
	}
	// (iii) agreement with the selector built directly from the
	// configured (key, weight) pairs.
	for b := range cfgs {
		ref := m.refSelector(t, omits[b])
		for i, hi := range hashes {
			if want := ref(hi.h); routes[b][i] != want {
				t.Fatalf("C12 (configured, %s): hash %#x is sent to the back end configured under key %q, but rendezvous hashing over the configured (key, weight) pairs %s selects %q", whats[b], hi.h, m[routes[b][i]].key, m, m[want].key)
			}
		}
	}
	// Harness-side arithmetic model: counted, not asserted (see verif.json).
	shardsList := make([]sharding.Shard, n)
	for i, s := range m {
		shardsList[i] = sharding.Shard{Key: s.key, Weight: s.weight}
	}
	for i, hi := range hashes {
		if _, at := modelTop(shardsList, khs, hi.h); len(at) == 1 {
			if at[0] == routes[0][i] {
				recCfg.Count("hash_agrees_with_harness_arithmetic", 1)
			} else {
				recCfg.Count("hash_DISAGREES_with_harness_arithmetic", 1)
			}
		} else {
			recCfg.Count("hash_is_model_tie", 1)
		}
		c.Class("hash_" + hi.class)
	}
	recCfg.Count("routing_observations", int64(len(cfgs)*nh*3))
	c.Class(fmt.Sprintf("shards_%d", n))
	c.ClassIf(ac, "action_cache_creator")
	c.ClassIf(!ac, "cas_creator")
	c.ClassIf(len(distinct) >= 2, "hashes_hit_two_or_more_shards")
	c.ClassIf(moved > 0, "removal_moves_a_hash")
	same := true
	for i, p := range perm {
		same = same && i == p
	}
	c.ClassIf(!same, "permuted_insertion_order")
	for _, s := range m {
		c.ClassIf(s.key == "", "empty_key")
		c.ClassIf(s.weight >= 1<<31, "huge_weight")
		c.ClassIf(strings.IndexFunc(s.key, func(r rune) bool { return r > 127 }) >= 0, "non_ascii_key")
	}
	for i := 1; i < n; i++ {
		c.ClassIf(strings.HasPrefix(m[i].key, m[i-1].key) && m[i-1].key != "", "key_is_prefix_of_another")
	}
	if len(distinct) >= 2 {
		c.NonTrivial()
	}
	c.Sample(func() string {
		return fmt.Sprintf("routing: %s ac=%v order=%v removed=%d hashes=%d distinct shards hit=%d", m, ac, perm, rm, nh, len(distinct))
	})
}

// configuredStores: shards are real in-memory local CAS back ends (some
// shards may be error back ends). Two frontends are built from the same
// shard map; operations run against the first one and are judged against
// a model of what was acknowledged; afterwards the same uploads are sent
// through the second frontend and, in peek layouts, the placement of every
// object on the leaves is compared between the two frontends and with the
// reference selector.
func configuredStores(t *rapid.T, c *vstats.Case) {
	c.Class("layout_stores")
	kind := rapid.SampledFrom([]string{"local", "mixed", "mixed"}).Draw(t, "leafKinds")
	m := genCfgMap(t, 5, kind)
	n := len(m)
	peek := rapid.Bool().Draw(t, "peek")
	perm := rapid.Permutation(identityOrder(n)).Draw(t, "insertionOrder")
	for _, s := range m {
		c.Add(s.key, int(s.weight), s.local, int(s.code))
	}
	c.Add(peek, perm)
	front := func(inst string) string {
		if !peek {
			return inst
		}
		if inst == "" {
			return "front"
		}
		return "front/" + inst
	}
	nobj := rapid.IntRange(2, 10).Draw(t, "nobjects")
	ids := rapid.SliceOfNDistinct(rapid.IntRange(0, 4095), nobj, nobj, rapid.ID[int]).Draw(t, "objects")
	payload := func(o int) []byte { return []byte(fmt.Sprintf("sharded blob %d", ids[o])) }
	hashOf := func(o int) uint64 { return prefixOf(hx.Sha("", payload(o))) }
	type op struct {
		kind string
		objs []int
		inst []string
	}
	nops := rapid.IntRange(3, 14).Draw(t, "nops")
	ops := make([]op, nops)
	for i := range ops {
		o := op{kind: rapid.SampledFrom([]string{"put", "put", "get", "find", "find"}).Draw(t, "op")}
		k := 1
		if o.kind == "find" {
			k = rapid.IntRange(1, 5).Draw(t, "k")
		}
		for x := 0; x < k; x++ {
			o.objs = append(o.objs, rapid.IntRange(0, nobj-1).Draw(t, "obj"))
			o.inst = append(o.inst, rapid.SampledFrom(instanceNames).Draw(t, "instance"))
		}
		ops[i] = o
		c.Add(o.kind, o.objs, strings.Join(o.inst, ","))
	}

	cfgs := []*pb.BlobAccessConfiguration{m.configOf(identityOrder(n), -1, peek), m.configOf(perm, -1, peek)}
	whats := []string{"first frontend", "second frontend (same shard map, permuted order)"}
	ref := m.refSelector(t, -1)

	// observed[o]: leaf position the requests for object o were seen to
	// reach on the first frontend (-1: not yet known / some local leaf).
	observed := make([]int, nobj)
	for i := range observed {
		observed[i] = -1
	}
	uploaded := make([]bool, nobj)
	spanning, viaError := 0, 0
	withFrontends(t, false, cfgs, whats, func(ctx context.Context, fs []frontend) error {
		f := fs[0]
		// note records where a request for o went; an error that is not a
		// leaf's error is a failure of the composite.
		note := func(what string, o int, err error) error {
			leaf := leafOf(err)
			if leaf < 0 || leaf >= n || m[leaf].local {
				return fmt.Errorf("C12 (configured stores, %s): %s failed with %q, which is not the error of any configured error shard", m, what, err)
			}
			if !carriesKey(status.Convert(err).Message(), m[leaf].key) {
				return fmt.Errorf("C12 (configured stores, %s): errors carry the shard key: %s reached the back end configured under key %q but the error %q does not mention that key", m, what, m[leaf].key, err)
			}
			if o >= 0 {
				if observed[o] >= 0 && observed[o] != leaf {
					return fmt.Errorf("C12 (configured stores, %s): requests for the same object (hash prefix %#x) address different shards: earlier %q, now (%s) %q", m, hashOf(o), m[observed[o]].key, what, m[leaf].key)
				}
				if uploaded[o] {
					return fmt.Errorf("C12 (configured stores, %s): %s was answered by error shard %q although an earlier upload of the same object was acknowledged (so it went to a storing shard)", m, what, m[leaf].key)
				}
				observed[o] = leaf
			}
			return nil
		}
		for _, o := range ops {
			switch o.kind {
			case "put":
				d := hx.Sha(front(o.inst[0]), payload(o.objs[0]))
				err := f.ba.Put(ctx, d, buffer.NewCASBufferFromByteSlice(d, payload(o.objs[0]), buffer.UserProvided))
				if err != nil {
					if e := note(fmt.Sprintf("Put of %s", d), o.objs[0], err); e != nil {
						return e
					}
					viaError++
				} else {
					if observed[o.objs[0]] >= 0 {
						return fmt.Errorf("C12 (configured stores, %s): Put of %s was acknowledged although an earlier request for the same object was answered by error shard %q", m, d, m[observed[o.objs[0]]].key)
					}
					uploaded[o.objs[0]] = true
				}
			case "get":
				d := hx.Sha(front(o.inst[0]), payload(o.objs[0]))
				data, err := f.ba.Get(ctx, d).ToByteSlice(1 << 16)
				switch {
				case err == nil:
					if !uploaded[o.objs[0]] {
						return fmt.Errorf("C12 (configured stores, %s): Get of %s returned %q although the object was never uploaded", m, d, data)
					}
					if string(data) != string(payload(o.objs[0])) {
						return fmt.Errorf("C12 (configured stores, %s): Get of %s returned %q, want %q", m, d, data, payload(o.objs[0]))
					}
				case uploaded[o.objs[0]]:
					return fmt.Errorf("C12 (configured stores, %s): object %s was uploaded through this frontend (acknowledged) but Get through the same frontend fails: %v", m, d, err)
				case leafOf(err) >= 0:
					if e := note(fmt.Sprintf("Get of %s", d), o.objs[0], err); e != nil {
						return e
					}
					viaError++
				default:
					// absent from a storing shard: any error is fine
					// (NOT_FOUND today).
					c.ClassIf(status.Code(err) != codes.NotFound, "absent_get_not_notfound")
				}
			case "find":
				sb := digest.NewSetBuilder(0)
				wantMissing := map[string]bool{}
				refOwners := map[int]bool{}
				for x, ob := range o.objs {
					d := hx.Sha(front(o.inst[x]), payload(ob))
					sb.Add(d)
					if !uploaded[ob] {
						wantMissing[d.GetKey(digest.KeyWithInstance)] = true
					}
					refOwners[ref(hashOf(ob))] = true
				}
				missing, err := f.ba.FindMissing(ctx, sb.Build())
				if len(refOwners) >= 2 {
					spanning++
				}
				if err != nil {
					only := -1
					if len(o.objs) == 1 {
						only = o.objs[0]
					}
					if e := note(fmt.Sprintf("FindMissing of %v", sb.Build().Items()), only, err); e != nil {
						return e
					}
					if only < 0 {
						// The failing shard must own one of the digests:
						// no uploaded object may live there, and if all of
						// them are uploaded the call had no reason to fail.
						leaf := leafOf(err)
						owns := false
						for _, ob := range o.objs {
							if !uploaded[ob] && (observed[ob] < 0 || observed[ob] == leaf) {
								owns = true
							}
						}
						if !owns {
							return fmt.Errorf("C12 (configured stores, %s): FindMissing asks each shard only about its own digests, but a batch none of whose digests can belong to error shard %q failed with its error %q", m, m[leaf].key, err)
						}
					}
					viaError++
					continue
				}
				got := map[string]bool{}
				for _, d := range missing.Items() {
					got[d.GetKey(digest.KeyWithInstance)] = true
				}
				asked := map[string]bool{}
				for x, ob := range o.objs {
					d := hx.Sha(front(o.inst[x]), payload(ob))
					k := d.GetKey(digest.KeyWithInstance)
					if asked[k] {
						continue
					}
					asked[k] = true
					if observed[ob] >= 0 {
						return fmt.Errorf("C12 (configured stores, %s): FindMissing over %v succeeded although requests for %s are answered by error shard %q", m, sb.Build().Items(), d, m[observed[ob]].key)
					}
					if got[k] != wantMissing[k] {
						return fmt.Errorf("C12 (configured stores, %s): FindMissing returns exactly the union of the shards' answers: %s uploaded=%v but reported missing=%v (request %v, answer %v)", m, d, uploaded[ob], got[k], sb.Build().Items(), missing.Items())
					}
					delete(got, k)
				}
				if len(got) != 0 {
					return fmt.Errorf("C12 (configured stores, %s): FindMissing reported digests that were not asked about: %v", m, got)
				}
			}
		}

		// Placement. where(f, o): the leaf that answers for o on frontend
		// f: the error leaf whose error a Get returns, or (peek) the one
		// local leaf that holds the object.
		where := func(f frontend, o int, mustHold bool) (int, error) {
			d := hx.Sha(front("a/b"), payload(o))
			_, err := f.ba.Get(ctx, d).ToByteSlice(1 << 16)
			if leaf := leafOf(err); err != nil && leaf >= 0 {
				return leaf, nil
			}
			if !peek || !mustHold {
				return -1, nil
			}
			holder := -1
			for i := range m {
				if !m[i].local {
					continue
				}
				pd := hx.Sha(fmt.Sprintf("peek/%d", i), payload(o))
				missing, err := f.ba.FindMissing(ctx, pd.ToSingletonSet())
				if err != nil {
					return 0, fmt.Errorf("harness/C12: FindMissing through peek/%d failed: %v", i, err)
				}
				if missing.Empty() {
					if holder >= 0 {
						return 0, fmt.Errorf("C12 (configured stores, %s, %s): object with hash prefix %#x was uploaded once but is held by the back ends of shard %q and of shard %q", f.what, m, hashOf(o), m[holder].key, m[i].key)
					}
					holder = i
				}
			}
			if holder < 0 {
				return 0, fmt.Errorf("C12 (configured stores, %s, %s): object with hash prefix %#x was acknowledged but no shard's back end holds it", f.what, m, hashOf(o))
			}
			return holder, nil
		}
		for o := 0; o < nobj; o++ {
			// Send every object through the second frontend as well.
			d := hx.Sha(front("b"), payload(o))
			err2 := fs[1].ba.Put(ctx, d, buffer.NewCASBufferFromByteSlice(d, payload(o), buffer.UserProvided))
			if err2 != nil && leafOf(err2) < 0 {
				return fmt.Errorf("C12 (configured stores, %s, %s): Put of %s failed with %q, which is not the error of any configured error shard", fs[1].what, m, d, err2)
			}
			// And make sure the first frontend has seen it too.
			if !uploaded[o] && observed[o] < 0 {
				d1 := hx.Sha(front(""), payload(o))
				err1 := f.ba.Put(ctx, d1, buffer.NewCASBufferFromByteSlice(d1, payload(o), buffer.UserProvided))
				if err1 == nil {
					uploaded[o] = true
				} else if e := note(fmt.Sprintf("Put of %s", d1), o, err1); e != nil {
					return e
				}
			}
			w1, err := where(fs[0], o, uploaded[o])
			if err != nil {
				return err
			}
			w2, err := where(fs[1], o, err2 == nil)
			if err != nil {
				return err
			}
			if (w1 >= 0) != (w2 >= 0) || (err2 == nil) != uploaded[o] {
				return fmt.Errorf("C12 (configured stores): two BlobAccess instances built from the same shard map %s disagree on object with hash prefix %#x: first frontend: acknowledged=%v error-shard=%d, second frontend: acknowledged=%v error-shard=%d", m, hashOf(o), uploaded[o], w1, err2 == nil, w2)
			}
			if w1 != w2 {
				return fmt.Errorf("C12 (configured stores): the shard chosen depends only on the hash and the set of (key, weight) pairs, but two BlobAccess instances built from the same shard map %s place hash prefix %#x on shard %q and on shard %q", m, hashOf(o), m[w1].key, m[w2].key)
			}
			want := ref(hashOf(o))
			if w1 >= 0 && w1 != want {
				return fmt.Errorf("C12 (configured stores): object with hash prefix %#x lives on the back end configured under key %q, but rendezvous hashing over the configured (key, weight) pairs %s selects %q", hashOf(o), m[w1].key, m, m[want].key)
			}
			if w1 < 0 && !m[want].local {
				return fmt.Errorf("C12 (configured stores): object with hash prefix %#x was stored, but rendezvous hashing over the configured (key, weight) pairs %s selects error shard %q", hashOf(o), m, m[want].key)
			}
			if w1 >= 0 && m[w1].local {
				recCfg.Count("placement_observed_on_local_leaf", 1)
			}
		}
		return nil
	})

	nlocal := 0
	for _, s := range m {
		if s.local {
			nlocal++
		}
	}
	owners := map[int]bool{}
	for o := 0; o < nobj; o++ {
		owners[ref(hashOf(o))] = true
	}
	c.Class(fmt.Sprintf("shards_%d", n))
	c.ClassIf(peek, "peek_through_labels_and_demux")
	c.ClassIf(nlocal == n, "all_leaves_local")
	c.ClassIf(nlocal < n && nlocal > 0, "mixed_local_and_error_leaves")
	c.ClassIf(nlocal == 0, "no_local_leaf")
	c.ClassIf(spanning > 0, "findmissing_spans_two_or_more_shards")
	c.ClassIf(viaError > 0, "operation_answered_by_error_shard")
	c.ClassIf(len(owners) >= 2, "objects_on_two_or_more_shards")
	if n >= 2 && len(owners) >= 2 && (peek || nlocal < n) {
		c.NonTrivial()
	}
	c.Sample(func() string {
		return fmt.Sprintf("stores: %s peek=%v order=%v objects=%d ops=%d shards owning objects=%d", m, peek, perm, nobj, nops, len(owners))
	})
}
