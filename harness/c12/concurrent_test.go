package c12

// Concurrency level of C12: "Get, Put and FindMissing for the same digest
// always address the same shard" and "the shard is a function of the
// digest's hash and the (key, weight) set" hold for every operation, also
// for one that overlaps with other operations on the same composite.
//
// The composite under test is the real NewShardingBlobAccess over recording
// model back ends. Its ShardSelector is a harness wrapper around the real
// rendezvous selector: every answer is the real selector's, but a GetShard
// call can be PARKED (blocked on a channel) before it returns. Each
// generated operation runs on its own goroutine inside a testing/synctest
// bubble; the scheduler (root goroutine of the bubble) waits for
// quiescence, then performs ONE generated action: start the next
// operation, or release one parked GetShard call. Everything that happens
// between two actions is therefore one step of a single global sequence;
// there are no sleeps and no wall-clock dependence.
//
// The reference routing is observed on a SECOND composite built from the
// same shard map with an unwrapped selector that is only ever used
// sequentially (by the scheduler goroutine, while nothing else runs): the
// shard of a digest is the back end that sees the Get for it there.

import (
	"bytes"
	"context"
	"encoding/hex"
	"fmt"
	"runtime"
	"sort"
	"strconv"
	"strings"
	"sync"
	"testing"
	"testing/synctest"

	"github.com/buildbarn/bb-storage/pkg/blobstore"
	"github.com/buildbarn/bb-storage/pkg/blobstore/buffer"
	"github.com/buildbarn/bb-storage/pkg/blobstore/sharding"
	"github.com/buildbarn/bb-storage/pkg/digest"
	"google.golang.org/grpc/codes"
	"google.golang.org/grpc/status"
	"pgregory.net/rapid"

	"verif/harness/backends"
	"verif/harness/hx"
	"verif/harness/vstats"
)

// ------------------------------------------------------------ the selector

// parkedCall is one GetShard call that is being held.
type parkedCall struct {
	op      *concOp
	call    int
	hash    uint64
	release chan struct{}
	// the call entered after a selection that the real selector answered
	// with another shard (generator health only)
	afterOtherShard bool
}

// parkSelector wraps the real selector. It computes nothing itself.
type parkSelector struct {
	base sharding.ShardSelector
	// free-running mode: no parking, only yield the processor around the
	// real call so that overlapping operations interleave more often.
	yield bool

	mu     sync.Mutex
	cur    *concOp // the operation the scheduler has just started / resumed
	parked []*parkedCall

	// generator health
	anyReturned         bool
	lastIdx             int
	sameHashWhileParked bool
	memoWindow          bool
	ncalls              int
}

func (s *parkSelector) GetShard(hash uint64) int {
	if s.yield {
		runtime.Gosched()
		idx := s.base.GetShard(hash)
		runtime.Gosched()
		return idx
	}
	idx := s.base.GetShard(hash)
	s.mu.Lock()
	s.ncalls++
	for _, p := range s.parked {
		if p.hash == hash {
			s.sameHashWhileParked = true
			if p.afterOtherShard {
				s.memoWindow = true
			}
		}
	}
	var pc *parkedCall
	if op := s.cur; op != nil {
		k := op.nsel
		op.nsel++
		if op.parks[k] {
			pc = &parkedCall{op: op, call: k, hash: hash, release: make(chan struct{}),
				afterOtherShard: s.anyReturned && s.lastIdx != idx}
			s.parked = append(s.parked, pc)
		}
	}
	if pc == nil {
		s.anyReturned, s.lastIdx = true, idx
	}
	s.mu.Unlock()
	if pc != nil {
		<-pc.release
		s.mu.Lock()
		s.anyReturned, s.lastIdx = true, idx
		s.mu.Unlock()
	}
	return idx
}

// ------------------------------------------------------------ operations

type opResult struct {
	data     []byte
	err      error
	missing  []digest.Digest
	panicked any
}

type concOp struct {
	id    int
	kind  string // Get, Put, GetFromComposite, FindMissing, GetCapabilities
	d     digest.Digest
	child digest.Digest
	set   []digest.Digest
	data  []byte
	// indices of this operation's GetShard calls that are parked
	parks map[int]bool
	// free-running mode: how often the operation is repeated
	reps int

	// guarded by parkSelector.mu
	nsel    int
	done    bool
	results []opResult

	// owned by the scheduler
	started    bool
	start, end int
}

// routed lists the digests whose shard the operation depends on.
func (op *concOp) routed() []digest.Digest {
	switch op.kind {
	case "Get", "Put", "GetFromComposite":
		return []digest.Digest{op.d}
	case "FindMissing":
		return op.set
	}
	return nil
}

func (op *concOp) String() string {
	var parks []int
	for k := range op.parks {
		parks = append(parks, k)
	}
	sort.Ints(parks)
	p := ""
	if len(parks) > 0 {
		p = fmt.Sprintf(" parks at selector call %v", parks)
	}
	if op.reps > 1 {
		p += fmt.Sprintf(" x%d", op.reps)
	}
	switch op.kind {
	case "FindMissing":
		return fmt.Sprintf("op%d FindMissing(%s)%s", op.id, strings.Join(digestStrings(op.set), ","), p)
	case "GetFromComposite":
		return fmt.Sprintf("op%d GetFromComposite(%s, child %s)%s", op.id, op.d, op.child, p)
	case "GetCapabilities":
		return fmt.Sprintf("op%d GetCapabilities%s", op.id, p)
	}
	return fmt.Sprintf("op%d %s(%s)%s", op.id, op.kind, op.d, p)
}

func digestStrings(ds []digest.Digest) []string {
	out := make([]string, 0, len(ds))
	for _, d := range ds {
		out = append(out, d.String())
	}
	return out
}

// ------------------------------------------------------------ the world

type concWorld struct {
	kf   digest.KeyFormat
	keys []string
	desc string

	sel  *parkSelector
	ba   blobstore.BlobAccess
	mems []*backends.Mem
	log  *backends.Log

	// reference composite, used sequentially only
	refBA  blobstore.BlobAccess
	refLog *backends.Log
	owners map[string]int
}

// owner returns the shard of d: the back end that sees a Get for d on the
// reference composite. Only called while nothing else runs.
func (w *concWorld) owner(d digest.Digest) (int, string) {
	if s, ok := w.owners[d.String()]; ok {
		return s, ""
	}
	w.refBA.Get(context.Background(), d).Discard()
	calls := w.refLog.Snapshot()
	w.refLog.Reset()
	if len(calls) == 0 {
		return 0, fmt.Sprintf("Get(%s) on an idle composite over %s reached no back end", d, w.desc)
	}
	s := backendOf(calls[0])
	for _, cl := range calls {
		if backendOf(cl) != s {
			return 0, fmt.Sprintf("Get(%s) on an idle composite over %s reached more than one shard: %v", d, w.desc, calls)
		}
	}
	w.owners[d.String()] = s
	return s, ""
}

func (w *concWorld) exec(op *concOp) (r opResult) {
	defer func() {
		if p := recover(); p != nil {
			r.panicked = p
		}
	}()
	ctx := context.Background()
	switch op.kind {
	case "Get":
		r.data, r.err = w.ba.Get(ctx, op.d).ToByteSlice(1 << 20)
	case "GetFromComposite":
		r.data, r.err = w.ba.GetFromComposite(ctx, op.d, op.child, slicePassThrough{}).ToByteSlice(1 << 20)
	case "Put":
		r.err = w.ba.Put(ctx, op.d, buffer.NewCASBufferFromByteSlice(op.d, op.data, buffer.UserProvided))
	case "FindMissing":
		sb := digest.NewSetBuilder(0)
		for _, d := range op.set {
			sb.Add(d)
		}
		m, err := w.ba.FindMissing(ctx, sb.Build())
		r.missing, r.err = m.Items(), err
	case "GetCapabilities":
		_, r.err = w.ba.GetCapabilities(ctx, op.d.GetInstanceName())
	}
	return r
}

var concInstances = []string{"", "", "a", "a/b"}

var (
	recConc     = vstats.New("TestC12Concurrent")
	recConcRace = vstats.New("TestC12ConcurrentRace")
)

// TestC12Concurrent: generated schedules, GetShard calls parked
// deterministically.
func TestC12Concurrent(outer *testing.T) { shardingConcurrent(outer, recConc, false) }

// TestC12ConcurrentRace: the same shape free-running; the driver runs it
// from a -race binary with GOMAXPROCS=8 (thorough tier).
func TestC12ConcurrentRace(outer *testing.T) { shardingConcurrent(outer, recConcRace, true) }

func shardingConcurrent(outer *testing.T, rec *vstats.Recorder, free bool) {
	rapid.Check(outer, func(t *rapid.T) {
		c := rec.Begin()

		// ---- shard map ----
		n := rapid.SampledFrom([]int{2, 2, 3, 3, 3, 4, 4, 5}).Draw(t, "nshards")
		keys := genKeys(t, n, n, "keys")
		kf := digest.KeyWithoutInstance
		if rapid.Bool().Draw(t, "keyWithInstance") {
			kf = digest.KeyWithInstance
		}
		regime := rapid.IntRange(0, 3).Draw(t, "weightRegime")
		equal := genWeight().Draw(t, "equalWeight")
		shards := make([]sharding.Shard, n)
		for i, k := range keys {
			var wt uint32
			switch regime {
			case 0:
				wt = equal
			case 1, 2:
				wt = rapid.Uint32Range(1, 8).Draw(t, "weight")
			default:
				wt = genWeight().Draw(t, "weight")
			}
			shards[i] = sharding.Shard{Key: k, Weight: wt}
		}
		sm := shardMap{shards}
		w := &concWorld{kf: kf, keys: keys, log: &backends.Log{}, refLog: &backends.Log{}, owners: map[string]int{},
			desc: fmt.Sprintf("sharding over %s (keyformat %d)", sm, kf)}
		c.Add(w.desc, free)
		newSelector := func() sharding.ShardSelector {
			s, err := sharding.NewRendezvousShardSelector(append([]sharding.Shard(nil), shards...))
			if err != nil {
				t.Fatalf("NewRendezvousShardSelector failed for %s: %v", sm, err)
			}
			return s
		}
		var under, ref []sharding.ShardBackend
		for i, k := range keys {
			m := backends.NewMem("mem"+strconv.Itoa(i), kf)
			w.mems = append(w.mems, m)
			under = append(under, sharding.ShardBackend{Backend: backends.NewRecorder(strconv.Itoa(i), m, w.log), Key: k})
			ref = append(ref, sharding.ShardBackend{Backend: backends.NewRecorder(strconv.Itoa(i), backends.NewMem("refmem"+strconv.Itoa(i), kf), w.refLog), Key: k})
		}
		w.sel = &parkSelector{base: newSelector(), yield: free}
		w.ba = sharding.NewShardingBlobAccess(under, w.sel)
		w.refBA = sharding.NewShardingBlobAccess(ref, newSelector())
		owner := func(d digest.Digest) int {
			s, problem := w.owner(d)
			if problem != "" {
				t.Fatalf("%s", problem)
			}
			return s
		}

		// ---- objects: real blobs that the idle composite sends to
		// pairwise different shards, found among generated candidates ----
		fn := rapid.SampledFrom(digest.SupportedDigestFunctions).Draw(t, "fn")
		base := rapid.SliceOfN(rapid.Byte(), 0, 3).Draw(t, "base")
		wantShards := rapid.IntRange(2, min(4, n)).Draw(t, "wantShards")
		var objs []object
		var objOwner []int
		usedShard := map[int]bool{}
		var spare []object // further blobs on shards already used
		for i := 0; i < 48 && len(objs) < wantShards; i++ {
			data := append(append([]byte(nil), base...), byte(i))
			d := hx.Dig("", fn, data)
			o := object{fn: fn, hash: d.GetHashString(), size: d.GetSizeBytes(), data: data, real: true}
			s := owner(d)
			if usedShard[s] {
				if len(spare) < 4 {
					spare = append(spare, o)
				}
				continue
			}
			usedShard[s] = true
			objs = append(objs, o)
			objOwner = append(objOwner, s)
		}
		distinctShards := len(objs)
		nmain := len(objs)
		// extras: another blob on a shard already in use, or a crafted
		// digest with the leading eight hash bytes of a chosen blob
		nextra := rapid.IntRange(0, 2).Draw(t, "nextra")
		for i := 0; i < nextra; i++ {
			if len(spare) > 0 && rapid.Bool().Draw(t, "extraSpare") {
				objs = append(objs, spare[0])
				spare = spare[1:]
				continue
			}
			o := objs[rapid.IntRange(0, nmain-1).Draw(t, "shareWith")]
			raw, _ := hex.DecodeString(o.hash)
			hl := rapid.SampledFrom(craftFunctions).Draw(t, "craftFn")
			crafted := make([]byte, hl.n)
			copy(crafted, raw[:8])
			copy(crafted[8:], rapid.SliceOfN(rapid.Byte(), hl.n-8, hl.n-8).Draw(t, "tail"))
			if hl.fn == o.fn && bytes.Equal(crafted, raw) {
				crafted[len(crafted)-1] ^= 1
			}
			objs = append(objs, object{fn: hl.fn, hash: hex.EncodeToString(crafted), size: int64(rapid.IntRange(0, 1000).Draw(t, "size"))})
		}
		var realIdx []int
		for i, o := range objs {
			if o.real {
				realIdx = append(realIdx, i)
			}
		}

		// ---- initial placement ----
		presentInit := map[string]bool{}     // key -> held by the owning shard from the start
		placed := make([]map[string]bool, n) // shard -> keys placed directly
		var initDigests []digest.Digest      // for the final sweep
		var placement []string
		for i := range placed {
			placed[i] = map[string]bool{}
		}
		for _, i := range realIdx {
			o := objs[i]
			mode := rapid.IntRange(0, 3).Draw(t, fmt.Sprintf("obj%d/place", i))
			if mode < 2 {
				continue
			}
			d := o.digest(rapid.SampledFrom(concInstances).Draw(t, fmt.Sprintf("obj%d/placeInstance", i)))
			own := owner(d)
			at := own
			if mode == 3 {
				// a copy on a shard that does not own it must never be consulted
				at = (own + rapid.IntRange(1, n-1).Draw(t, fmt.Sprintf("obj%d/other", i))) % n
			}
			w.mems[at].Set(d, o.data)
			placed[at][d.GetKey(kf)] = true
			if at == own {
				presentInit[d.GetKey(kf)] = true
			}
			initDigests = append(initDigests, d)
			placement = append(placement, fmt.Sprintf("%s in %q (owner %q)", d, keys[at], keys[own]))
		}

		// ---- operations ----
		nops := rapid.IntRange(2, 5).Draw(t, "nops")
		ops := make([]*concOp, nops)
		pickDigest := func(label string, onlyReal bool) (object, digest.Digest) {
			var o object
			if onlyReal {
				o = objs[realIdx[rapid.IntRange(0, len(realIdx)-1).Draw(t, label)]]
			} else {
				o = objs[rapid.IntRange(0, len(objs)-1).Draw(t, label)]
			}
			return o, o.digest(rapid.SampledFrom(concInstances).Draw(t, label+"/instance"))
		}
		for i := range ops {
			l := fmt.Sprintf("op%d", i)
			op := &concOp{id: i, parks: map[int]bool{}, reps: 1, end: -1,
				kind: rapid.SampledFrom([]string{"Put", "Put", "Put", "Get", "Get", "FindMissing", "FindMissing", "FindMissing", "GetFromComposite", "GetCapabilities"}).Draw(t, l+"/kind")}
			ncalls := 1
			switch op.kind {
			case "Put":
				var o object
				o, op.d = pickDigest(l+"/obj", true)
				op.data = o.data
			case "Get", "GetCapabilities":
				_, op.d = pickDigest(l+"/obj", false)
			case "GetFromComposite":
				_, op.d = pickDigest(l+"/obj", false)
				oc := objs[rapid.IntRange(0, len(objs)-1).Draw(t, l+"/child")]
				op.child = oc.digest(op.d.GetInstanceName().String())
			case "FindMissing":
				k := rapid.IntRange(1, 4).Draw(t, l+"/k")
				seen := map[string]bool{}
				for j := 0; j < k; j++ {
					_, d := pickDigest(fmt.Sprintf("%s/obj%d", l, j), false)
					if !seen[d.String()] {
						seen[d.String()] = true
						op.set = append(op.set, d)
					}
				}
				ncalls = len(op.set)
			}
			if free {
				op.reps = rapid.IntRange(1, 6).Draw(t, l+"/reps")
			} else {
				nparks := rapid.SampledFrom([]int{0, 1, 1, 1, 2}).Draw(t, l+"/nparks")
				for j := 0; j < nparks; j++ {
					op.parks[rapid.IntRange(0, ncalls-1).Draw(t, fmt.Sprintf("%s/park%d", l, j))] = true
				}
			}
			ops[i] = op
			c.Add(op.String())
		}
		picks := make([]int, 16)
		if !free {
			for i := range picks {
				picks[i] = rapid.IntRange(0, 11).Draw(t, fmt.Sprintf("pick%d", i))
			}
			c.Add(fmt.Sprint(picks))
		}
		c.Add(strings.Join(placement, ";"))

		// The reference routing of every digest involved, established
		// before anything runs concurrently.
		opShards := map[int]bool{}
		for _, op := range ops {
			for _, d := range op.routed() {
				opShards[owner(d)] = true
			}
		}

		// ---- run ----
		var trace []string
		var failure string
		fail := func(format string, args ...any) {
			if failure == "" {
				failure = fmt.Sprintf(format, args...)
			}
		}
		ranWhileParked := false
		maxParked := 0
		finish := func(op *concOp) {
			for r := 0; r < op.reps; r++ {
				res := w.exec(op)
				w.sel.mu.Lock()
				op.results = append(op.results, res)
				w.sel.mu.Unlock()
			}
			w.sel.mu.Lock()
			op.done = true
			w.sel.mu.Unlock()
		}
		if free {
			var wg sync.WaitGroup
			gate := make(chan struct{})
			for _, op := range ops {
				op.started, op.start, op.end = true, 0, 1
				wg.Add(1)
				go func(op *concOp) {
					defer wg.Done()
					<-gate
					finish(op)
				}(op)
			}
			close(gate)
			wg.Wait()
		} else {
			synctest.Test(outer, func(*testing.T) {
				step := 0
				for {
					synctest.Wait()
					w.sel.mu.Lock()
					parked := append([]*parkedCall(nil), w.sel.parked...)
					for _, op := range ops {
						if op.done && op.end < 0 {
							op.end = step
						}
					}
					w.sel.mu.Unlock()
					var next *concOp
					for _, op := range ops {
						if !op.started {
							next = op
							break
						}
					}
					nact := len(parked)
					if next != nil {
						nact++
					}
					if nact == 0 {
						break
					}
					maxParked = max(maxParked, len(parked))
					a := picks[step%len(picks)] % nact
					step++
					if next != nil && a == 0 {
						ranWhileParked = ranWhileParked || len(parked) > 0
						next.started, next.start = true, step
						w.sel.mu.Lock()
						w.sel.cur = next
						w.sel.mu.Unlock()
						trace = append(trace, fmt.Sprintf("%d:start op%d", step, next.id))
						go finish(next)
						continue
					}
					if next != nil {
						a--
					}
					pc := parked[a]
					ranWhileParked = ranWhileParked || len(parked) > 1
					w.sel.mu.Lock()
					for i, p := range w.sel.parked {
						if p == pc {
							w.sel.parked = append(w.sel.parked[:i:i], w.sel.parked[i+1:]...)
							break
						}
					}
					w.sel.cur = pc.op
					w.sel.mu.Unlock()
					trace = append(trace, fmt.Sprintf("%d:release op%d selector call %d (hash %#016x)", step, pc.op.id, pc.call, pc.hash))
					close(pc.release)
				}
				// Quiescent, every operation started, no selector call held.
				for _, op := range ops {
					if !op.done {
						fail("%s never completes although no shard selection is being held any more", op)
					}
				}
			})
			w.sel.mu.Lock()
			w.sel.cur = nil
			w.sel.mu.Unlock()
		}
		where := func() string {
			var os []string
			for _, op := range ops {
				os = append(os, op.String())
			}
			return fmt.Sprintf("%s; initially %v; operations [%s]; schedule %v", w.desc, placement, strings.Join(os, " | "), trace)
		}
		if failure != "" {
			t.Fatalf("%s (%s)", failure, where())
		}

		// ---- oracle 1: every back-end call concerns only digests of that shard ----
		checkCalls := func(phase string, calls []backends.Call) {
			for _, cl := range calls {
				b := backendOf(cl)
				ds := cl.Digests
				switch cl.Op {
				case "GetCapabilities":
					continue
				case "GetFromComposite":
					ds = ds[:1] // routed by the parent, the stored object
				}
				for _, d := range ds {
					if o := owner(d); o != b {
						t.Fatalf("%s: shard %q received %s, but %s belongs to shard %q (where Get for it goes on an idle composite over the same shard map): operations for the same digest did not address the same shard (%s)",
							phase, keys[b], cl, d, keys[o], where())
					}
				}
			}
		}
		calls := w.log.Snapshot()
		w.log.Reset()
		checkCalls("overlapping operations", calls)
		mentioned := map[string]bool{}
		for _, cl := range calls {
			for _, d := range cl.Digests {
				mentioned[d.String()] = true
			}
		}

		// ---- oracle 2: results equal those of one store holding every upload ----
		type putSpan struct {
			start, end int
			ok         bool
		}
		puts := map[string][]putSpan{}
		for _, op := range ops {
			if op.kind != "Put" {
				continue
			}
			ok := false
			for _, r := range op.results {
				ok = ok || (r.err == nil && r.panicked == nil)
			}
			puts[op.d.GetKey(kf)] = append(puts[op.d.GetKey(kf)], putSpan{op.start, op.end, ok})
		}
		// surely present / surely absent for an operation spanning [start, end]
		surelyPresent := func(d digest.Digest, op *concOp) bool {
			if presentInit[d.GetKey(kf)] {
				return true
			}
			for _, p := range puts[d.GetKey(kf)] {
				if p.ok && p.end < op.start {
					return true
				}
			}
			return false
		}
		surelyAbsent := func(d digest.Digest, op *concOp) bool {
			if presentInit[d.GetKey(kf)] {
				return false
			}
			for _, p := range puts[d.GetKey(kf)] {
				if p.start < op.end {
					return false
				}
			}
			return true
		}
		dataOf := map[string][]byte{}
		for _, o := range objs {
			if o.real {
				dataOf[o.digest("").GetKey(digest.KeyWithoutInstance)] = o.data
			}
		}
		nAmbiguous, nHit, nMiss, nKeySensitive := 0, 0, 0, 0
		for _, op := range ops {
			if len(op.results) != op.reps {
				t.Fatalf("harness: %s has %d results, want %d", op, len(op.results), op.reps)
			}
			for _, r := range op.results {
				if r.panicked != nil {
					t.Fatalf("%s panicked: %v (%s)", op, r.panicked, where())
				}
				switch op.kind {
				case "Put":
					if r.err != nil {
						t.Fatalf("%s failed although no shard fails: %v (%s)", op, r.err, where())
					}
				case "Get", "GetFromComposite":
					own := owner(op.d)
					if !mentioned[op.d.String()] {
						t.Fatalf("%s reached no back end (%s)", op, where())
					}
					present, absent := surelyPresent(op.d, op), surelyAbsent(op.d, op)
					if !present && !absent {
						nAmbiguous++
					}
					if r.err == nil {
						if absent {
							t.Fatalf("%s returned %q although the object was never uploaded (a copy may exist only on a shard that does not own it) (%s)", op, r.data, where())
						}
						if want := dataOf[op.d.GetKey(digest.KeyWithoutInstance)]; !bytes.Equal(r.data, want) {
							t.Fatalf("%s returned %q, uploaded was %q (%s)", op, r.data, want, where())
						}
						nHit++
					} else {
						if present {
							t.Fatalf("%s failed with %v although the object had been stored on its shard %q before the operation started (%s)", op, r.err, keys[own], where())
						}
						msg := status.Convert(r.err).Message()
						if !carriesKey(msg, keys[own]) {
							t.Fatalf("%s: the error of a read that its shard %q answers does not carry that shard's key: %q (%s)", op, keys[own], msg, where())
						}
						if keys[own] != "" && !strings.Contains("mem"+strconv.Itoa(own)+": object "+op.d.String()+" not found", keys[own]) && !strings.Contains("Shard : ", keys[own]) {
							nKeySensitive++
						}
						c.ClassIf(status.Code(r.err) != codes.NotFound, "read_miss_not_not_found")
						nMiss++
					}
				case "FindMissing":
					if r.err != nil {
						t.Fatalf("%s failed although no shard fails: %v (%s)", op, r.err, where())
					}
					asked := map[string]bool{}
					for _, d := range op.set {
						asked[d.String()] = true
					}
					reported := map[string]bool{}
					for _, d := range r.missing {
						if !asked[d.String()] {
							t.Fatalf("%s reports %s missing, which it was not asked about (%s)", op, d, where())
						}
						reported[d.String()] = true
					}
					for _, d := range op.set {
						present, absent := surelyPresent(d, op), surelyAbsent(d, op)
						switch {
						case present && reported[d.String()]:
							t.Fatalf("%s reports %s missing although it had been stored on its shard %q before the operation started: not the union of the shards' answers about their own digests (%s)", op, d, keys[owner(d)], where())
						case absent && !reported[d.String()]:
							t.Fatalf("%s does not report %s missing although it was never uploaded (%s)", op, d, where())
						case !present && !absent:
							nAmbiguous++
						}
					}
				case "GetCapabilities":
					c.ClassIf(r.err != nil, "get_capabilities_failed")
				}
			}
		}

		// ---- oracle 3: placement after the overlapping phase ----
		refStore := backends.NewMem("ref", kf)
		for _, d := range initDigests {
			if presentInit[d.GetKey(kf)] {
				refStore.Set(d, dataOf[d.GetKey(digest.KeyWithoutInstance)])
			}
		}
		allowed := make([]map[string]bool, n)
		for i := range allowed {
			allowed[i] = map[string]bool{}
			for k := range placed[i] {
				allowed[i][k] = true
			}
		}
		for _, op := range ops {
			if op.kind != "Put" {
				continue
			}
			own := owner(op.d)
			allowed[own][op.d.GetKey(kf)] = true
			got, ok := w.mems[own].Peek(op.d)
			if !ok || !bytes.Equal(got, op.data) {
				t.Fatalf("%s succeeded but its shard %q does not hold the bytes afterwards (%s)", op, keys[own], where())
			}
			refStore.Set(op.d, op.data)
		}
		for i, m := range w.mems {
			for _, k := range m.Keys() {
				if !allowed[i][k] {
					t.Fatalf("shard %q holds %q after the operations, which was neither placed there nor uploaded for a digest of that shard (%s)", keys[i], k, where())
				}
			}
		}

		// ---- oracle 4: a sequential sweep afterwards sees the single store ----
		var sweep []digest.Digest
		seenSweep := map[string]bool{}
		addSweep := func(d digest.Digest) {
			if !seenSweep[d.String()] {
				seenSweep[d.String()] = true
				sweep = append(sweep, d)
			}
		}
		for _, op := range ops {
			for _, d := range op.routed() {
				addSweep(d)
			}
		}
		for _, d := range initDigests {
			addSweep(d)
		}
		sb := digest.NewSetBuilder(0)
		for _, d := range sweep {
			sb.Add(d)
			got, err := w.ba.Get(context.Background(), d).ToByteSlice(1 << 20)
			want, present := refStore.Peek(d)
			if present && (err != nil || !bytes.Equal(got, want)) {
				t.Fatalf("after the operations, Get(%s) = %q, %v; a single store holding every upload has %q (%s)", d, got, err, want, where())
			}
			if !present && err == nil {
				t.Fatalf("after the operations, Get(%s) = %q although it was never uploaded (%s)", d, got, where())
			}
		}
		missing, err := w.ba.FindMissing(context.Background(), sb.Build())
		if err != nil {
			t.Fatalf("after the operations, FindMissing failed although no shard fails: %v (%s)", err, where())
		}
		refMissing, _ := refStore.FindMissing(context.Background(), sb.Build())
		if fmt.Sprint(sortedStrings(missing.Items())) != fmt.Sprint(sortedStrings(refMissing.Items())) {
			t.Fatalf("after the operations, FindMissing(%v) = %v; a single store holding every upload says %v (%s)",
				sortedStrings(sweep), sortedStrings(missing.Items()), sortedStrings(refMissing.Items()), where())
		}
		checkCalls("sequential sweep after the operations", w.log.Snapshot())
		w.log.Reset()

		// ---- statistics ----
		samePrefixOps := false
		prefixOps := map[uint64]int{}
		for _, op := range ops {
			seen := map[uint64]bool{}
			for _, d := range op.routed() {
				seen[prefixOf(d)] = true
			}
			for p := range seen {
				prefixOps[p]++
				samePrefixOps = samePrefixOps || prefixOps[p] >= 2
			}
		}
		c.ClassIf(distinctShards < 2, "only_one_shard_reachable")
		c.ClassIf(len(opShards) >= 2, "operations_span_2plus_shards")
		c.ClassIf(samePrefixOps, "2plus_operations_same_leading_bytes")
		c.ClassIf(ranWhileParked, "operation_ran_while_selection_parked")
		c.ClassIf(maxParked >= 2, "2plus_selections_parked_at_once")
		c.ClassIf(w.sel.sameHashWhileParked, "same_hash_selected_while_parked")
		c.ClassIf(w.sel.memoWindow, "same_hash_selected_while_parked_after_other_shard")
		c.ClassIf(nAmbiguous > 0, "result_depends_on_overlapping_upload")
		c.ClassIf(nHit > 0, "read_hit")
		c.ClassIf(nMiss > 0, "read_miss")
		c.ClassIf(nKeySensitive > 0, "error_key_check_sensitive")
		c.ClassIf(len(placement) > 0, "initial_placement")
		c.Class("shards_" + strconv.Itoa(n))
		c.Class("ops_" + strconv.Itoa(nops))
		if free {
			if len(opShards) >= 2 && samePrefixOps {
				c.NonTrivial()
			}
		} else if len(opShards) >= 2 && w.sel.sameHashWhileParked {
			c.NonTrivial()
		}
		c.Sample(where)
		c.End()
	})
}
