package lstore

import (
	"fmt"
	"time"

	remoteexecution "github.com/bazelbuild/remote-apis/build/bazel/remote/execution/v2"
	"pgregory.net/rapid"
)

// GenOpts steer GenConfig.
type GenOpts struct {
	Persistent    bool // persistent block list + device index + state dir
	ForceDevice   bool // block-device allocator only
	NoHier        bool
	ForceHier     bool
	BigIndex      bool // comfortable index (no discards expected)
	AllowAC       bool // AC-style (mutable policy, proto objects)
	Factories     []string
	MinSpare      int
	MaxBlockBytes int
}

var sectorSizes = []int{1, 2, 3, 4, 16, 64, 512}

// GenConfig draws a store geometry.
func GenConfig(t *rapid.T, o GenOpts) Config {
	var c Config
	c.Persistent = o.Persistent
	c.BlockDevice = o.Persistent || o.ForceDevice || rapid.Bool().Draw(t, "cfg/blockDevice")
	if c.BlockDevice {
		c.SectorSize = rapid.SampledFrom(sectorSizes).Draw(t, "cfg/sector")
	} else {
		c.SectorSize = 1
	}
	maxBytes := o.MaxBlockBytes
	if maxBytes == 0 {
		maxBytes = 2048
	}
	maxSectors := maxBytes / c.SectorSize
	if maxSectors < 1 {
		maxSectors = 1
	}
	if maxSectors > 64 {
		maxSectors = 64
	}
	c.BlockSectors = rapid.IntRange(1, maxSectors).Draw(t, "cfg/blockSectors")
	if !c.BlockDevice {
		// Sector size 1: make blocks a bit bigger than one byte.
		c.BlockSectors = rapid.IntRange(1, 96).Draw(t, "cfg/blockBytes")
	}
	c.Mutable = o.AllowAC && rapid.IntRange(0, 3).Draw(t, "cfg/mutable") == 0
	c.Old = rapid.IntRange(0, 3).Draw(t, "cfg/old")
	c.Cur = rapid.IntRange(0, 3).Draw(t, "cfg/cur")
	if c.Mutable {
		c.New = 1
	} else {
		c.New = rapid.IntRange(1, 3).Draw(t, "cfg/new")
	}
	if c.BlockDevice {
		c.Spare = rapid.IntRange(o.MinSpare, 3).Draw(t, "cfg/spare")
	}
	switch {
	case c.Mutable || o.NoHier:
	case o.ForceHier:
		c.Hierarchical = true
	default:
		c.Hierarchical = rapid.IntRange(0, 2).Draw(t, "cfg/hier") == 0
	}
	if !c.Hierarchical {
		c.WithInstance = rapid.Bool().Draw(t, "cfg/withInstance")
	}
	c.IndexOnDevice = o.Persistent || rapid.Bool().Draw(t, "cfg/indexOnDevice")
	if o.BigIndex {
		c.IndexSize = rapid.SampledFrom([]int{1021, 2039, 4093}).Draw(t, "cfg/indexSize")
		c.GetAttempts = 16
		c.PutAttempts = 64
	} else {
		c.IndexSize = rapid.SampledFrom([]int{1, 2, 3, 5, 7, 13, 31, 61, 127, 251, 1021}).Draw(t, "cfg/indexSize")
		c.GetAttempts = uint32(rapid.IntRange(1, 8).Draw(t, "cfg/getAttempts"))
		c.PutAttempts = rapid.IntRange(1, 16).Draw(t, "cfg/putAttempts")
	}
	fs := o.Factories
	if len(fs) == 0 {
		fs = []string{"cas", "cas", "raw", "cascache"}
	}
	if c.Mutable {
		c.Factory = "ac"
	} else if c.BlockDevice {
		c.Factory = rapid.SampledFrom(fs).Draw(t, "cfg/factory")
	} else {
		c.Factory = "cas" // unused by the in-memory allocator
	}
	c.EpochInterval = 60 * time.Second
	c.RetryInterval = 7*time.Second + time.Nanosecond
	c.StorageType = "verif"
	return c
}

// GenSize draws an object size for a geometry, biased to sector
// boundaries, 0, 1 and the block size.
func GenSize(t *rapid.T, c Config, label string) int {
	bs := c.BlockSize()
	switch rapid.IntRange(0, 9).Draw(t, label+"/sizeKind") {
	case 0:
		return 0
	case 1:
		return bs
	case 2:
		k := rapid.IntRange(0, c.BlockSectors).Draw(t, label+"/sectors")
		d := rapid.IntRange(-1, 1).Draw(t, label+"/delta")
		s := k*c.SectorSize + d
		if s < 0 {
			s = 0
		}
		if s > bs {
			s = bs
		}
		return s
	case 3:
		return rapid.IntRange(0, bs).Draw(t, label+"/size")
	default:
		// Small objects so that several share a block.
		m := bs / 3
		if m < 1 {
			m = 1
		}
		return rapid.IntRange(0, m).Draw(t, label+"/small")
	}
}

// GenChunks draws a chunking for an upload source.
func GenChunks(t *rapid.T, label string) []int {
	switch rapid.IntRange(0, 3).Draw(t, label+"/chunkKind") {
	case 0:
		return nil // as much as fits
	case 1:
		return []int{rapid.IntRange(1, 8).Draw(t, label+"/chunk")}
	default:
		return rapid.SliceOfN(rapid.IntRange(1, 40), 1, 4).Draw(t, label+"/chunks")
	}
}

// Functions used for CAS objects.
var Functions = []remoteexecution.DigestFunction_Value{
	remoteexecution.DigestFunction_SHA256,
	remoteexecution.DigestFunction_SHA256,
	remoteexecution.DigestFunction_SHA256,
	remoteexecution.DigestFunction_MD5,
	remoteexecution.DigestFunction_SHA1,
	remoteexecution.DigestFunction_SHA512,
}

// InstanceNames used by generated histories.
var InstanceNames = []string{"", "a", "a/b", "ab", "b", "a/b/c"}

// PickObj draws an existing object, preferring recently created ones.
func PickObj(t *rapid.T, w *World, label string) *Obj {
	if len(w.Objs) == 0 {
		return nil
	}
	return w.Objs[rapid.IntRange(0, len(w.Objs)-1).Draw(t, label)]
}

// Describe renders sizes for samples.
func Describe(w *World) string {
	return fmt.Sprintf("%d objects, %d uploads, %d holds, %d blocks allocated, %d popped", len(w.Objs), len(w.Uploads), len(w.Holds), w.St.Alloc.NewBlockCalls, w.St.BL.PopFronts)
}
