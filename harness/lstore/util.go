package lstore

import "verif/harness/sim"

func goid() uint64 { return sim.GoID() }
