package lstore

import (
	"context"
	"fmt"
	"time"

	"github.com/buildbarn/bb-storage/pkg/blobstore/local"
	pb "github.com/buildbarn/bb-storage/pkg/proto/blobstore/local"
	"google.golang.org/protobuf/proto"

	"verif/harness/sim"
)

// Syncers holds the two PeriodicSyncer coroutines of a persistent world.
type Syncers struct {
	S, R         *sim.Thread
	SWaitCh      <-chan struct{} // put wake-up channel S is blocked on (nil if not blocked)
	RBlocked     bool            // R was started while S holds the state store (blocked on storeLock)
	Cancel       context.CancelFunc
	Ctx          context.Context
	Cancelled    bool
	SReturned    []bool // results of completed ProcessBlockPut calls
	RCompleted   int
	ShutdownDone bool
	Panics       []string
	// Virtual time bookkeeping for C07.
	NonFinalSyncTimes  []time.Time
	SyncStartCancelled []bool
	Retries            int // retry timers fired
	// SyncCompletedWithoutSuccess: set by the source monitor (see syn()).
	SyncCompletedWithoutSuccess string
	syncOKAtStart               int
	syncAnnounced               bool
	EpochTimers        int // epoch timers fired
}

func (w *World) syn() *Syncers {
	if w.Sy == nil {
		ctx, cancel := context.WithCancel(context.Background())
		w.Sy = &Syncers{Ctx: ctx, Cancel: cancel}
		w.St.Source.OnCall = func(name string) {
			if name == "SyncStartingFinal" {
				w.Closed = true
				w.logf("  [final sync starting: store closed for writing]")
			}
			if name == "SyncStarting" {
				w.Sy.NonFinalSyncTimes = append(w.Sy.NonFinalSyncTimes, w.St.Clock.Now())
				w.Sy.SyncStartCancelled = append(w.Sy.SyncStartCancelled, w.Sy.Cancelled)
			}
			// A sync is reported complete to the block list (which then
			// exposes the epochs and write offsets it covers to the state
			// file) only after a data sync that started after the
			// announcement has SUCCEEDED: failures are retried until then.
			switch name {
			case "SyncStarting", "SyncStartingFinal":
				w.Sy.syncOKAtStart = w.St.DataSyncOK
				w.Sy.syncAnnounced = true
			case "SyncCompleted":
				if w.Sy.syncAnnounced && w.St.DataSyncOK == w.Sy.syncOKAtStart && w.Sy.SyncCompletedWithoutSuccess == "" {
					w.Sy.SyncCompletedWithoutSuccess = fmt.Sprintf("NotifySyncCompleted was called although no data sync has succeeded since the matching NotifySyncStarting (data sync calls so far: %d, successful: %d): the state file will describe data that no completed sync covers", w.St.DataSyncs, w.St.DataSyncOK)
				}
				w.Sy.syncAnnounced = false
			}
		}
	}
	return w.Sy
}

func chanClosed(ch <-chan struct{}) bool {
	select {
	case <-ch:
		return true
	default:
		return false
	}
}

// PutWakeupPending reports whether the put wake-up channel is closed.
func (w *World) PutWakeupPending() bool {
	w.St.Lock.RLock()
	ch := w.St.PBL.GetBlockPutWakeup()
	w.St.Lock.RUnlock()
	return chanClosed(ch)
}

// ReleaseWakeupPending reports whether the release wake-up channel is closed.
func (w *World) ReleaseWakeupPending() bool {
	w.St.Lock.RLock()
	ch := w.St.PBL.GetBlockReleaseWakeup()
	w.St.Lock.RUnlock()
	return chanClosed(ch)
}

func (w *World) syncerEvent(who string, th *sim.Thread, ev sim.Event) {
	sy := w.syn()
	if sy.SyncCompletedWithoutSuccess != "" {
		w.fatalf("monitor violation: %s", sy.SyncCompletedWithoutSuccess)
	}
	switch ev.Kind {
	case "panic":
		sy.Panics = append(sy.Panics, fmt.Sprintf("%s: %v", who, ev.Panic))
		w.fatalf("C07: PANIC in syncer thread %s: %v\n%s", who, ev.Panic, ev.Stack)
	case "done":
		if who == "S" {
			keep := ev.Result.(bool)
			sy.SReturned = append(sy.SReturned, keep)
			sy.S = nil
			if !keep {
				sy.ShutdownDone = true
			}
			w.logf("S: ProcessBlockPut returned %v", keep)
		} else {
			sy.RCompleted++
			sy.R = nil
			w.logf("R: ProcessBlockRelease returned")
		}
	case "gate":
		if ev.Gate == "statewrite" {
			th.Data = true // from now on the thread's retries re-enter the state store
		}
		w.logf("%s: parked at %s", who, ev.Gate)
	}
}

// StartS starts one ProcessBlockPut iteration. It returns false if S is
// already active or shutdown has completed.
func (w *World) StartS() bool {
	sy := w.syn()
	if sy.S != nil || sy.ShutdownDone {
		return false
	}
	pending := w.PutWakeupPending()
	syncer := w.St.Syncer
	sy.S = w.Sched.Spawn("S", func() interface{} { return syncer.ProcessBlockPut(sy.Ctx) })
	w.logf("S: start (put wake-up pending=%v, cancelled=%v)", pending, sy.Cancelled)
	if pending || sy.Cancelled {
		ev := sy.S.Step(nil)
		w.syncerEvent("S", sy.S, ev)
		return true
	}
	// S will block on the wake-up channel. Wait until it has actually
	// fetched the channel, so that the harness polls the very channel S
	// waits on (nothing else runs meanwhile).
	before, _ := w.St.Source.ChCalls()
	sy.S.Resume(nil)
	w.waitFor(func() bool { n, _ := w.St.Source.ChCalls(); return n > before }, "S to fetch the put wake-up channel")
	sy.SWaitCh, _ = w.St.Source.LastChannels()
	return true
}

// Poll must be called after every operation that may have closed the
// put wake-up channel or cancelled the context: if S was blocked on it,
// S is collected at its next gate.
func (w *World) Poll() {
	sy := w.Sy
	if sy == nil || sy.S == nil || sy.SWaitCh == nil {
		return
	}
	if chanClosed(sy.SWaitCh) || sy.Cancelled {
		sy.SWaitCh = nil
		ev := sy.S.Await()
		w.syncerEvent("S", sy.S, ev)
	}
}

// SBlockedOnWakeup reports whether S waits for a put notification.
func (w *World) SBlockedOnWakeup() bool {
	return w.Sy != nil && w.Sy.S != nil && w.Sy.SWaitCh != nil
}

// CanStepS reports whether S is parked at a gate and may be resumed
// without blocking on a lock held by a parked thread.
func (w *World) CanStepS() bool {
	sy := w.Sy
	if sy == nil || sy.S == nil || !sy.S.Parked {
		return false
	}
	if w.wantsStoreLockNext("S", sy.S) && holdsStoreLock(sy.R) {
		// S would run into writePersistentState and block on the store
		// lock held by R, which is parked inside the state store.
		return false
	}
	return true
}

func holdsStoreLock(th *sim.Thread) bool {
	return th != nil && th.Parked && th.At == "statewrite"
}

// wantsStoreLockNext is a conservative prediction: may the thread's next
// lock acquisition be the state store lock?
func (w *World) wantsStoreLockNext(who string, th *sim.Thread) bool {
	if th == nil || !th.Parked {
		return false
	}
	if who == "R" {
		return th.At == "start" || th.At == "timer"
	}
	entered, _ := th.Data.(bool)
	return th.At == "datasync" || (th.At == "timer" && entered)
}

// StepS resumes S from its gate. At a timer gate the timer is fired
// (time advances to its deadline, or by extra beyond it) unless the
// context is cancelled and the timer is the epoch timer.
func (w *World) StepS(extraDelay time.Duration) {
	sy := w.Sy
	th := sy.S
	w.stepSyncer("S", th, extraDelay)
	if sy.RBlocked && (sy.S == nil || !(sy.S.Parked && sy.S.At == "statewrite")) {
		// S has left the state store: R (which was blocked on the store
		// lock) reaches its own state-write gate now.
		sy.RBlocked = false
		ev := sy.R.Await()
		w.syncerEvent("R", sy.R, ev)
	}
}

func (w *World) stepSyncer(who string, th *sim.Thread, extraDelay time.Duration) {
	sy := w.Sy
	if th.At == "timer" {
		t := th.Payload.(*sim.Timer)
		isRetry := t.Duration == w.Cfg.RetryInterval
		if isRetry || !sy.Cancelled || who == "R" {
			if extraDelay > 0 {
				w.St.Clock.AdvanceTo(t.Deadline.Add(extraDelay))
			}
			w.St.Clock.Fire(t)
			if isRetry {
				sy.Retries++
			} else {
				sy.EpochTimers++
			}
			w.logf("%s: timer (%v) fired at +%v", who, t.Duration, w.St.Clock.Now().Sub(w.T0))
		}
	}
	ev := th.Step(nil)
	w.syncerEvent(who, th, ev)
}

// CanStartR reports whether a ProcessBlockRelease iteration can be
// started (release wake-up pending, no R active).
func (w *World) CanStartR() bool {
	sy := w.syn()
	return sy.R == nil && w.ReleaseWakeupPending()
}

// StartR starts one ProcessBlockRelease iteration. If S is parked
// inside the state store, R is expected to block on the store lock; the
// harness waits a short real-time interval only to catch the case that
// it does NOT block (writers not serialised).
func (w *World) StartR() {
	sy := w.syn()
	syncer := w.St.Syncer
	sy.R = w.Sched.Spawn("R", func() interface{} { syncer.ProcessBlockRelease(); return nil })
	if sy.S != nil && sy.S.Parked && sy.S.At == "statewrite" {
		w.logf("R: start while S is inside the state store (expected to block on the store lock)")
		_, before := w.St.Source.ChCalls()
		sy.R.Resume(nil)
		// R must have fetched the (closed) release channel before anything
		// else happens; from there it heads straight for the store lock.
		w.waitFor(func() bool { _, n := w.St.Source.ChCalls(); return n > before }, "R to fetch the release wake-up channel")
		if ev, ok := sy.R.TryAwait(3 * time.Millisecond); ok {
			w.syncerEvent("R", sy.R, ev)
			w.CheckMonitors()
			w.fatalf("C02/C07: ProcessBlockRelease entered the state store while ProcessBlockPut was inside it (state writers not serialised)")
		}
		sy.RBlocked = true
		w.Flags["r_started_inside_s_statewrite"]++
		return
	}
	w.logf("R: start")
	ev := sy.R.Step(nil)
	w.syncerEvent("R", sy.R, ev)
}

// CanStepR reports whether R is parked and may be resumed.
func (w *World) CanStepR() bool {
	sy := w.Sy
	if sy == nil || sy.R == nil || !sy.R.Parked || sy.RBlocked {
		return false
	}
	return !(w.wantsStoreLockNext("R", sy.R) && holdsStoreLock(sy.S))
}

// StepR resumes R.
func (w *World) StepR(extraDelay time.Duration) {
	w.stepSyncer("R", w.Sy.R, extraDelay)
}

// Shutdown cancels the syncer context (graceful shutdown requested).
func (w *World) Shutdown() {
	sy := w.syn()
	if sy.Cancelled {
		return
	}
	sy.Cancelled = true
	sy.Cancel()
	w.logf("shutdown requested")
	w.Poll()
}

// Drain runs the syncers until nothing is left to do: S waits for a
// put wake-up (or has completed shutdown) and no release is pending.
// It returns the virtual time consumed.
func (w *World) Drain() time.Duration {
	sy := w.syn()
	start := w.St.Clock.Now()
	w.ReleaseClearedAt = time.Time{}
	for i := 0; ; i++ {
		if i > 10000 {
			w.fatalf("C07: drain did not terminate within 10000 steps (persistence stalled or retry loop never succeeds)")
		}
		w.Poll()
		if !w.ReleaseWakeupPending() && sy.R == nil && w.St.Alloc.InUse() == len(w.Live) && w.ReleaseClearedAt.IsZero() {
			w.ReleaseClearedAt = w.St.Clock.Now()
		}
		switch {
		case w.CanStepR():
			w.StepR(0)
		case sy.R == nil && w.ReleaseWakeupPending():
			w.StartR()
		case sy.S != nil && w.CanStepS():
			w.StepS(0)
		case sy.S == nil && !sy.ShutdownDone && (w.PutWakeupPending() || sy.Cancelled):
			w.StartS()
		default:
			return w.St.Clock.Now().Sub(start)
		}
	}
}

func (w *World) closeSyncers() {
	sy := w.Sy
	if sy == nil {
		return
	}
	// Let every blocked syncer goroutine run to completion: cancel the
	// context and fire all timers as they appear.
	sy.Cancel()
	w.St.Clock.OnNewTimer = func(t *sim.Timer) { go w.St.Clock.Fire(t) }
	for _, t := range w.St.Clock.Pending() {
		w.St.Clock.Fire(t)
	}
	// No more injected failures.
	w.St.DataSyncFail = map[int]error{}
}

// ---- crash engine ----

// CrashImage is the medium after a crash.
type CrashImage struct {
	Cut       int
	Data      []byte
	Index     []byte
	Dir       sim.DirImage
	LostUnits int
	KeptUnits int
	// DurableState is the state file content in the image (nil if none).
	DurableState *pb.PersistentState
}

// Crash materialises the medium for a crash at cut with the chooser's
// loss decisions.
func (w *World) Crash(cut int, ch sim.Chooser) *CrashImage {
	m := w.St.Media
	entries := m.Log.Snapshot()
	ci := &CrashImage{Cut: cut}
	if m.Data != nil {
		var l, k int
		ci.Data, l, k = sim.DeviceImage(entries, cut, "data", m.Data.Base(), w.Cfg.SectorSize, ch)
		ci.LostUnits += l
		ci.KeptUnits += k
	}
	if m.Index != nil {
		var l, k int
		ci.Index, l, k = sim.DeviceImage(entries, cut, "index", m.Index.Base(), local.BlockDeviceBackedLocationRecordSize, ch)
		ci.LostUnits += l
		ci.KeptUnits += k
	}
	if m.Dir != nil {
		var l int
		ci.Dir, l = sim.DirCrashImage(entries, cut, m.Dir.Base(), ch)
		ci.LostUnits += l
		if data, ok := ci.Dir.File("state"); ok {
			var ps pb.PersistentState
			if proto.Unmarshal(data, &ps) == nil {
				ci.DurableState = &ps
			}
		}
	}
	return ci
}

// Restart builds a new world (same configuration, same model) on a
// crash image. The old world must not be used afterwards except Close.
func (w *World) Restart(ci *CrashImage) *World {
	return w.RestartShrunk(ci, 0)
}

// RestartShrunk restarts with `drop` fewer spare blocks: the device is
// truncated, so blocks stored in the dropped regions cannot be
// re-attached and the restore has to stop at the first of them.
func (w *World) RestartShrunk(ci *CrashImage, drop int) *World {
	log := &sim.Log{}
	media := &Media{Log: log}
	cfg := w.Cfg
	if drop > cfg.Spare {
		drop = cfg.Spare
	}
	cfg.Spare -= drop
	if ci.Data != nil {
		media.Data = sim.NewDevice("data", log, ci.Data[:cfg.BlockSize()*cfg.BlockCount()])
	}
	if ci.Index != nil {
		media.Index = sim.NewDevice("index", log, ci.Index)
	}
	media.Dir = sim.NewDirFromImage(log, ci.Dir)
	n := &World{
		T: w.T, Cfg: cfg, Sched: sim.NewSched(), Ctx: context.Background(),
		Objs: w.Objs, byHash: w.byHash, acked: w.acked, derived: map[string][]byte{}, attempted: w.attempted,
		Flags: w.Flags, counter: w.counter, Epoch: w.Epoch + 1,
	}
	n.History = append(append([]string{}, w.History...), fmt.Sprintf("=== CRASH at I/O #%d (lost %d unsynced units, kept %d) and RESTART (spare blocks dropped: %d) ===", ci.Cut, ci.LostUnits, ci.KeptUnits, drop))
	// Uploads that were in flight at the crash never complete.
	n.build(media, 0)
	return n
}

// DurableListed reports whether the durable state file (as of the
// current I/O log position, worst case: only what is guaranteed
// durable) lists a block at region.
func (w *World) durableStateAt(cut int) *pb.PersistentState {
	m := w.St.Media
	if m.Dir == nil {
		return nil
	}
	im, _ := sim.DirCrashImage(m.Log.Snapshot(), cut, m.Dir.Base(), sim.AllLost{})
	data, ok := im.File("state")
	if !ok {
		return nil
	}
	var ps pb.PersistentState
	if proto.Unmarshal(data, &ps) != nil {
		return nil
	}
	return &ps
}

// InstallDurableCheck arms the allocator monitor: NewBlock must never
// return a region that a state file which may still be the durable one
// lists. "May still be durable": the newest state file guaranteed
// durable (all unsynced directory operations lost).
func (w *World) InstallDurableCheck() {
	w.St.Alloc.DurableListed = func(region int64) bool {
		ps := w.durableStateAt(w.St.Media.Log.Len())
		if ps == nil {
			return false
		}
		for _, b := range ps.Blocks {
			if b.BlockLocation != nil && b.BlockLocation.OffsetBytes == region {
				return true
			}
		}
		return false
	}
}

// DurableStateBlocks returns the block list of the state file in the image.
func (ci *CrashImage) DurableStateBlocks() []*pb.BlockState {
	if ci.DurableState == nil {
		return nil
	}
	return ci.DurableState.Blocks
}

// MustSurvive lists the keys that a restart must still serve: keys
// with an acknowledged upload whose block is still part of the block
// list (not rotated out, not quarantined). ackedBefore < 0 means all
// acknowledged uploads; otherwise only those acknowledged before that
// I/O log position.
func (w *World) MustSurvive(ackedBefore int) []ObjInst {
	seen := map[string]bool{}
	var out []ObjInst
	for _, u := range w.Uploads {
		if u.State != "acked" || u.Block == nil || u.Block.Popped || u.Block.Quarantined {
			continue
		}
		if ackedBefore >= 0 && u.AckSeq > ackedBefore {
			continue
		}
		k := w.ModelKey(u.Obj, u.Instance) + "@" + u.Instance
		if seen[k] {
			continue
		}
		seen[k] = true
		out = append(out, ObjInst{Obj: u.Obj, Instance: u.Instance})
	}
	return out
}

// CheckSurvivors demands that every listed key is readable (exact
// bytes) on the restarted world n.
func (n *World) CheckSurvivors(what string, must []ObjInst) {
	for _, it := range must {
		if n.Cfg.Persistent {
			// Reads may refresh and thereby rotate; released blocks only
			// become allocatable again after the release syncer ran.
			n.Drain()
		}
		r := n.Get(it.Obj, it.Instance)
		if !r.Found {
			n.fatalf("%s: object %d (inst %q) was acknowledged and not evicted by rotation, but after the restart it is not readable: %v", what, it.Obj.ID, it.Instance, r.Err)
		}
	}
	n.CheckMonitors()
}

// ShutdownRequested reports whether the syncer context was cancelled.
func (w *World) ShutdownRequested() bool { return w.Sy != nil && w.Sy.Cancelled }

// ShutdownComplete reports whether ProcessBlockPut returned false.
func (w *World) ShutdownComplete() bool { return w.Sy != nil && w.Sy.ShutdownDone }

// StateWritesSucceeded counts successful state file writes.
func (w *World) StateWritesSucceeded() int {
	if w.St.State == nil {
		return 0
	}
	return w.St.State.SuccessCount()
}

// CheckSurvivorsFresh checks every survivor on its own freshly
// restarted store (reading one survivor may refresh it and thereby
// rotate others out, which is normal eviction, not loss).
func (w *World) CheckSurvivorsFresh(what string, ci *CrashImage, must []ObjInst) {
	for _, it := range must {
		n := w.Restart(ci)
		r := n.Get(it.Obj, it.Instance)
		// (If the refresh triggered by the read cannot allocate a block,
		// the failed attempt may itself have rotated the object out: that
		// survivor is inconclusive, not lost.)
		if r.EnvError {
			w.Flags["survivor_check_inconclusive_no_free_block"]++
			n.Close()
			continue
		}
		if !r.Found {
			n.fatalf("%s: object %d (inst %q) was acknowledged and not evicted by rotation, but after the restart it is not readable: %v", what, it.Obj.ID, it.Instance, r.Err)
		}
		n.CheckMonitors()
		n.Close()
	}
}

// Syn returns the syncer state (creating it on first use).
func (w *World) Syn() *Syncers { return w.syn() }

// waitFor spins (bounded real time) until a condition that another
// goroutine is about to establish holds. Used only to wait for a
// resumed coroutine to pass a point it reaches unconditionally.
func (w *World) waitFor(cond func() bool, what string) {
	deadline := time.Now().Add(20 * time.Second)
	for !cond() {
		if time.Now().After(deadline) {
			w.fatalf("harness: timed out waiting for %s", what)
		}
		time.Sleep(20 * time.Microsecond)
	}
}
