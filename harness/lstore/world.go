package lstore

import (
	"bytes"
	"context"
	"encoding/binary"
	"fmt"
	"io"
	"runtime"
	"strings"
	"time"

	remoteexecution "github.com/bazelbuild/remote-apis/build/bazel/remote/execution/v2"
	"github.com/buildbarn/bb-storage/pkg/blobstore/buffer"
	"github.com/buildbarn/bb-storage/pkg/blobstore/slicing"
	"github.com/buildbarn/bb-storage/pkg/digest"
	"google.golang.org/grpc/codes"
	"google.golang.org/grpc/status"
	"google.golang.org/protobuf/proto"

	"verif/harness/hx"
	"verif/harness/sim"
)

// Fataler is the part of *rapid.T / *testing.T the world needs.
type Fataler interface {
	Fatalf(format string, args ...interface{})
}

// Obj is one logical object (one key modulo instance name).
type Obj struct {
	ID   int
	Fn   remoteexecution.DigestFunction_Value
	Hash string
	Size int64
	// Data is the content for CAS-keyed objects; nil for AC-style
	// objects, whose uploads each carry their own content.
	Data []byte
	AC   bool
}

// Digest of the object under an instance name.
func (o *Obj) Digest(instance string) digest.Digest {
	return digest.MustNewDigest(instance, o.Fn, o.Hash, o.Size)
}

// Upload is one Put.
type Upload struct {
	N        int
	Obj      *Obj
	Instance string
	Data     []byte // bytes the source delivers
	Variant  string // good, short, long, wronghash, srcerr
	Chunks   []int
	FailErr  error
	Thread   *sim.Thread
	State    string // inflight, acked, failed
	Err      error
	StartSeq int
	AckSeq   int
	// Block the upload's space was allocated in (nil if no allocation
	// was observed, e.g. hierarchical upload of existing content).
	Block    *LiveBlock
	AllocOff int64 // offset of the allocation inside Block
	// Environment facts for error attribution.
	AllocFailed        bool
	ClosedAtStart      bool
	TooBig             bool
	ParkedAcrossRot    bool
	NewBlocksAtStart   int
	PopFrontsAtStart   int
	SharedSectorWith   int // upload number sharing a sector, or -1
	DeliveredAll       bool
	WritesFailedDuring bool
}

// LiveBlock mirrors one entry of the store's block list.
type LiveBlock struct {
	Info        *BlockInfo
	Abs         int // absolute block number since this store instance started
	Popped      bool
	Quarantined bool
}

// Hold is a read whose buffer has been obtained but not fully consumed.
type Hold struct {
	Obj             *Obj
	Instance        string
	cr              buffer.ChunkReader
	rd              io.ReadCloser
	got             []byte
	done            bool
	Block           *LiveBlock
	RotationsAtOpen int
	failsAtOpen     int
	// OK is set when the read completed successfully (EOF reached and
	// bytes verified); Seen is for the caller's bookkeeping.
	OK, Seen bool
	// AllocsAtOpen: successful NewBlock calls when the Get call was made.
	AllocsAtOpen int
}

// World is a store plus reference model plus scheduler.
type World struct {
	afterCompositeCall func()
	pendingFM          *PendingFM
	T                  Fataler
	Cfg                Config
	St                 *Store
	Sched              *sim.Sched
	Ctx                context.Context

	Objs    []*Obj
	byHash  map[string]*Obj
	Uploads []*Upload
	Holds   []*Hold
	// acked[modelKey] = uploads acknowledged for that key.
	acked map[string][]*Upload
	// derived[modelKey] = bytes of composite slices made visible.
	derived map[string][]byte
	// attempted[modelKey] = every upload that delivered correct and
	// complete data for that key (acked or not): what may legitimately
	// be visible after a crash.
	attempted map[string][]*Upload

	Live    []*LiveBlock
	AllLive []*LiveBlock // including popped ones
	nextAbs int
	Closed  bool // final sync started: writes are refused
	Corrupt bool // medium has been corrupted by the harness
	History []string
	counter int
	// Carried over a crash: uploads of previous incarnations.
	Epoch int

	// Class flags for statistics.
	Flags map[string]int

	Sy *Syncers
	T0 time.Time
	// ReleaseClearedAt: virtual time at which, during the last Drain,
	// no block release was pending any more: no wake-up pending, no
	// release writer active and every popped block handed back to the
	// allocator.
	ReleaseClearedAt time.Time
}

// NewWorld builds a store on media (fresh if nil).
func NewWorld(t Fataler, cfg Config, media *Media, hashInit uint64) *World {
	if media == nil {
		media = NewMedia(cfg)
	}
	w := &World{
		T: t, Cfg: cfg, Sched: sim.NewSched(), Ctx: context.Background(),
		byHash: map[string]*Obj{}, acked: map[string][]*Upload{}, derived: map[string][]byte{},
		attempted: map[string][]*Upload{}, Flags: map[string]int{},
	}
	w.build(media, hashInit)
	return w
}

func (w *World) build(media *Media, hashInit uint64) {
	clock := sim.NewClock()
	st, err := Build(w.Cfg, media, Options{Sched: w.Sched, Clock: clock, HashInit: hashInit})
	if err != nil {
		w.T.Fatalf("harness: cannot build store: %v", err)
	}
	w.St = st
	w.T0 = clock.Now()
	clock.OnNewTimer = func(t *sim.Timer) { w.Sched.Gate("timer", t) }
	w.Live = nil
	w.AllLive = nil
	w.nextAbs = 0
	add := func(b *BlockInfo) {
		lb := &LiveBlock{Info: b, Abs: w.nextAbs}
		w.Live = append(w.Live, lb)
		w.AllLive = append(w.AllLive, lb)
		w.nextAbs++
	}
	for _, b := range st.Alloc.Blocks { // restored blocks, in list order
		add(b)
	}
	st.Alloc.OnNewBlock = add
	st.BL.OnPopFront = func() {
		if len(w.Live) == 0 {
			w.T.Fatalf("harness: PopFront on an empty mirror of the block list")
		}
		w.Live[0].Popped = true
		w.Live = w.Live[1:]
	}
}

func (w *World) logf(format string, args ...interface{}) {
	w.History = append(w.History, fmt.Sprintf(format, args...))
}

// Render returns the history for failure messages and samples.
func (w *World) Render() string {
	return w.Cfg.String() + "\n  " + strings.Join(w.History, "\n  ")
}

func (w *World) fatalf(format string, args ...interface{}) {
	w.T.Fatalf("%s\nconfiguration and history:\n%s", fmt.Sprintf(format, args...), w.Render())
}

// ModelKey is the key under which the model files an object.
func (w *World) ModelKey(o *Obj, instance string) string {
	if w.Cfg.Hierarchical || !w.Cfg.WithInstance {
		return fmt.Sprintf("%d/%s/%d", o.Fn, o.Hash, o.Size)
	}
	return fmt.Sprintf("%d/%s/%d/%s", o.Fn, o.Hash, o.Size, instance)
}

// content produces unique content of the given size.
func (w *World) content(size int) []byte {
	w.counter++
	out := make([]byte, size)
	var hdr [8]byte
	binary.BigEndian.PutUint32(hdr[:4], uint32(w.counter))
	binary.BigEndian.PutUint32(hdr[4:], uint32(w.Epoch)<<16|0xA55A)
	for i := range out {
		if i < 8 {
			out[i] = hdr[i]
		} else {
			out[i] = byte(w.counter*31 + i*7 + 1)
		}
	}
	return out
}

// NewObject creates (or finds) a CAS object of the given size.
func (w *World) NewObject(size int, fn remoteexecution.DigestFunction_Value) *Obj {
	data := w.content(size)
	d := hx.Dig("", fn, data)
	k := fmt.Sprintf("%d/%s", fn, d.GetHashString())
	if o, ok := w.byHash[k]; ok {
		return o
	}
	o := &Obj{ID: len(w.Objs), Fn: fn, Hash: d.GetHashString(), Size: int64(size), Data: data}
	w.Objs = append(w.Objs, o)
	w.byHash[k] = o
	return o
}

// NewACObject creates an AC-style key (content differs per upload).
func (w *World) NewACObject() *Obj {
	w.counter++
	d := hx.Sha("", []byte(fmt.Sprintf("action-%d-%d", w.Epoch, w.counter)))
	o := &Obj{ID: len(w.Objs), Fn: remoteexecution.DigestFunction_SHA256, Hash: d.GetHashString(), Size: 123, AC: true}
	w.Objs = append(w.Objs, o)
	return o
}

// ACContent builds a unique marshalled ActionResult of roughly size bytes.
func (w *World) ACContent(size int) []byte {
	w.counter++
	fill := size - 8
	if fill < 0 {
		fill = 0
	}
	raw := make([]byte, fill)
	for i := range raw {
		raw[i] = byte('a' + (w.counter+i)%26)
	}
	m := &remoteexecution.ActionResult{ExitCode: int32(w.counter), StdoutRaw: raw}
	b, err := proto.MarshalOptions{Deterministic: true}.Marshal(m)
	if err != nil {
		panic(err)
	}
	return b
}

// gatedReader is the source of an upload: every Read is a gate.
type gatedReader struct {
	w      *World
	u      *Upload
	off    int
	ci     int
	closes int
}

func (r *gatedReader) Read(p []byte) (int, error) {
	if !r.u.Obj.AC {
		// AC uploads are proto buffers, which are read eagerly before
		// Put() is called: nothing to interleave there.
		r.w.Sched.Gate("read", r.u)
	}
	u := r.u
	if u.Variant == "srcerr" && r.off >= len(u.Data) {
		return 0, u.FailErr
	}
	if r.off >= len(u.Data) {
		u.DeliveredAll = true
		return 0, io.EOF
	}
	n := len(p)
	if len(u.Chunks) > 0 {
		c := u.Chunks[r.ci%len(u.Chunks)]
		r.ci++
		if c < n {
			n = c
		}
	}
	if rem := len(u.Data) - r.off; n > rem {
		n = rem
	}
	copy(p, u.Data[r.off:r.off+n])
	r.off += n
	return n, nil
}

func (r *gatedReader) Close() error {
	r.closes++
	return nil
}

// StartPut spawns an upload thread and runs it to its first gate.
// data is what the source delivers: for variant "good" it equals the
// object content.
func (w *World) StartPut(o *Obj, instance string, variant string, data []byte, chunks []int, failErr error) *Upload {
	u := &Upload{
		N: len(w.Uploads), Obj: o, Instance: instance, Data: data, Variant: variant, Chunks: chunks, FailErr: failErr,
		State: "inflight", StartSeq: w.St.Media.Log.Len(), SharedSectorWith: -1,
		ClosedAtStart: w.Closed, NewBlocksAtStart: w.St.Alloc.NewBlockCalls, PopFrontsAtStart: w.St.BL.PopFronts,
	}
	w.Uploads = append(w.Uploads, u)
	d := o.Digest(instance)
	src := &gatedReader{w: w, u: u}
	putsBefore := map[*LiveBlock]int32{}
	for _, lb := range w.AllLive {
		putsBefore[lb] = lb.Info.Puts
	}
	failsBefore := w.St.Alloc.NewBlockFailures
	u.Thread = w.Sched.Spawn(fmt.Sprintf("P%d", u.N), func() interface{} {
		var b buffer.Buffer
		if o.AC {
			// The AC path: marshalled ActionResult from a reader.
			b = buffer.NewProtoBufferFromReader(&remoteexecution.ActionResult{}, src, buffer.UserProvided)
		} else {
			b = buffer.NewCASBufferFromReader(d, src, buffer.UserProvided)
		}
		err := w.St.BA.Put(w.Ctx, d, b)
		if src.closes != 1 {
			return fmt.Errorf("harness-detected: source of upload closed %d times (want exactly once); Put returned %v", src.closes, err)
		}
		return err
	})
	u.Thread.Data = u
	w.logf("put#%d start obj=%d size=%d inst=%q variant=%s chunks=%v", u.N, o.ID, len(data), instance, variant, chunks)
	ev := u.Thread.Step(nil)
	// Which block got the allocation? Only this thread ran.
	for _, lb := range w.AllLive {
		if lb.Info.Puts != putsBefore[lb] {
			u.Block = lb
			if n := len(lb.Info.Allocs); n > 0 {
				u.AllocOff = lb.Info.Allocs[n-1].Off
			}
		}
	}
	u.AllocFailed = w.St.Alloc.NewBlockFailures != failsBefore
	u.TooBig = len(data) > w.Cfg.BlockSize() || (o.Size > int64(w.Cfg.BlockSize()) && !o.AC)
	w.afterStep(u, ev)
	return u
}

// StepPut lets a parked upload read one more chunk.
func (w *World) StepPut(u *Upload) {
	if u.State != "inflight" {
		return
	}
	if u.Block != nil && (w.St.BL.PopFronts != u.PopFrontsAtStart) {
		u.ParkedAcrossRot = true
	}
	ev := u.Thread.Step(nil)
	w.afterStep(u, ev)
}

// FinishPut runs an upload to completion.
func (w *World) FinishPut(u *Upload) {
	for u.State == "inflight" {
		w.StepPut(u)
	}
}

func (w *World) afterStep(u *Upload, ev sim.Event) {
	switch ev.Kind {
	case "gate":
		if ev.Gate != "read" {
			w.fatalf("harness: upload thread parked at unexpected gate %q", ev.Gate)
		}
		return
	case "panic":
		w.fatalf("PANIC inside Put (upload #%d): %v\n%s", u.N, ev.Panic, ev.Stack)
	}
	var err error
	if ev.Result != nil {
		err = ev.Result.(error)
	}
	u.Err = err
	key := w.ModelKey(u.Obj, u.Instance)
	if err != nil && strings.HasPrefix(err.Error(), "harness-detected:") {
		w.fatalf("C04: %v", err)
	}
	if err == nil {
		u.State = "acked"
		u.AckSeq = w.St.Media.Log.Len()
		w.logf("put#%d acked", u.N)
		if u.Variant != "good" {
			w.fatalf("upload #%d with variant %q (size or checksum mismatch / source error) was acknowledged", u.N, u.Variant)
		}
		if u.ClosedAtStart && u.Block != nil {
			// (An upload of content that already exists only adds an index
			// entry under a synchronised epoch; acknowledging that is not
			// "acknowledged and lost".)
			w.fatalf("upload #%d, which allocated space after the final synchronisation began, was acknowledged instead of being refused with UNAVAILABLE", u.N)
		}
		if u.Block != nil && u.Block.Popped {
			w.fatalf("upload #%d was acknowledged although its target block (absolute #%d) had been rotated away during the write", u.N, u.Block.Abs)
		}
		if u.Block != nil && u.Block.Quarantined {
			w.fatalf("upload #%d into a quarantined block (absolute #%d) was acknowledged", u.N, u.Block.Abs)
		}
		w.acked[key] = append(w.acked[key], u)
		w.attempted[key] = append(w.attempted[key], u)
		w.St.Media.Log.Mark(fmt.Sprintf("ack put#%d", u.N))
		return
	}
	u.State = "failed"
	w.logf("put#%d failed: %v", u.N, err)
	if u.Variant == "good" && u.DeliveredAll {
		w.attempted[key] = append(w.attempted[key], u)
		if w.deviceFaultsArmed() {
			// With injected device faults an upload can fail AFTER its
			// (correct, complete) data and index entry were written, e.g.
			// when re-inserting a displaced index record fails. Such an
			// object may legitimately be visible; the property's "failed
			// uploads stay invisible" clause lists no medium faults.
			w.acked[key] = append(w.acked[key], u)
			w.Flags["failed_upload_possibly_visible_due_to_injected_fault"]++
		}
	}
	code := status.Code(err)
	ok := false
	switch {
	case u.Variant == "srcerr" && status.Code(u.FailErr) == code && strings.Contains(err.Error(), status.Convert(u.FailErr).Message()):
		ok = true
	case (u.Variant == "short" || u.Variant == "long" || u.Variant == "wronghash") && code == codes.InvalidArgument:
		ok = true
	}
	// Environment causes. Only the shutdown case has a code fixed by a
	// property (C03: UNAVAILABLE); for the others any error is accepted.
	if !ok {
		switch {
		case u.TooBig:
			ok = true
		case (w.Closed || u.ClosedAtStart) && code == codes.Unavailable:
			ok = true
		case u.AllocFailed:
			ok = true
		case u.Block != nil && (u.Block.Popped || u.Block.Quarantined):
			ok = true
		case w.deviceFaultsArmed():
			ok = true
		case w.Cfg.Hierarchical && u.Block == nil && u.Variant == "good":
			// Documented outcome of hierarchicalCASBlobAccess.Put when the
			// existing copy is evicted/displaced while the buffer is read.
			ok = true
		}
	}
	if !ok {
		w.fatalf("upload #%d (variant %s) failed with unexpected error %v (alloc failed=%v, closed=%v, block=%v)", u.N, u.Variant, err, u.AllocFailed, w.Closed, describeBlock(u.Block))
	}
}

func describeBlock(b *LiveBlock) string {
	if b == nil {
		return "none"
	}
	return fmt.Sprintf("abs#%d popped=%v quarantined=%v", b.Abs, b.Popped, b.Quarantined)
}

func (w *World) deviceFaultsArmed() bool {
	for _, d := range []*sim.Device{w.St.Media.Data, w.St.Media.Index} {
		if d != nil && (len(d.FailWrite) > 0 || len(d.FailRead) > 0) {
			return true
		}
	}
	return false
}

// ReadResult classifies one completed read.
type ReadResult struct {
	Found    bool
	Data     []byte
	Err      error
	NotFound bool
	// EnvError: an error attributable to the environment the harness
	// created (allocation failure during refresh, store closed).
	EnvError bool
}

// visibleUploads returns the uploads whose content may be served for the
// model key under the given instance name: the successfully completed ones
// (after a crash: every attempted one). For a hierarchical store an upload
// made under instance name I is visible under J only if I is a
// component-wise prefix of J.
func (w *World) visibleUploads(key, instance string) []*Upload {
	ups := w.acked[key]
	if w.Epoch > 0 {
		ups = w.attempted[key]
	}
	if !w.Cfg.Hierarchical {
		return ups
	}
	var out []*Upload
	for _, u := range ups {
		if instancePrefix(u.Instance, instance) {
			out = append(out, u)
		}
	}
	return out
}

// instancePrefix reports whether p is a component-wise prefix of j.
func instancePrefix(p, j string) bool {
	if p == "" {
		return true
	}
	if j == "" {
		return false
	}
	pc, jc := strings.Split(p, "/"), strings.Split(j, "/")
	if len(pc) > len(jc) {
		return false
	}
	for i := range pc {
		if pc[i] != jc[i] {
			return false
		}
	}
	return true
}

// expectBytes checks data against the model for (o, instance).
func (w *World) expectBytes(what string, o *Obj, instance string, data []byte) {
	key := w.ModelKey(o, instance)
	if d, ok := w.derived[key]; ok && bytes.Equal(d, data) {
		return
	}
	ups := w.visibleUploads(key, instance)
	for _, u := range ups {
		if bytes.Equal(u.Data, data) {
			return
		}
	}
	// Diagnose.
	desc := "never uploaded for any key"
	for k, us := range w.attempted {
		for _, u := range us {
			if bytes.Equal(u.Data, data) {
				desc = fmt.Sprintf("the content of upload #%d of another key %s", u.N, k)
			}
		}
	}
	if len(ups) == 0 {
		w.fatalf("%s of object %d (inst %q) returned %d bytes %s although no upload for that key ever completed successfully (%s)", what, o.ID, instance, len(data), brief(data), desc)
	}
	w.fatalf("%s of object %d (inst %q) returned %d bytes %s which equal no successfully completed upload of that key (%s); expected e.g. %s", what, o.ID, instance, len(data), brief(data), desc, brief(ups[0].Data))
}

func brief(b []byte) string {
	if len(b) > 24 {
		return fmt.Sprintf("%x...", b[:24])
	}
	return fmt.Sprintf("%x", b)
}

// classifyReadErr decides whether a read error is acceptable.
func (w *World) classifyReadErr(what string, o *Obj, instance string, err error, failsBefore int) ReadResult {
	code := status.Code(err)
	if code == codes.NotFound {
		return ReadResult{NotFound: true, Err: err}
	}
	env := false
	switch {
	case w.St.Alloc.NewBlockFailures != failsBefore:
		env = true // the refresh could not allocate a block
	case w.Closed:
		env = true // the refresh was refused: store closed for writing
	case w.deviceFaultsArmed():
		env = true
	case w.Corrupt:
		env = true
	}
	_ = code
	if !env {
		w.fatalf("%s of object %d (inst %q) failed with %v on a medium that is not corrupted (only NOT_FOUND is allowed)", what, o.ID, instance, err)
	}
	return ReadResult{Err: err, EnvError: true}
}

// Get performs a complete read and checks it against the model.
func (w *World) Get(o *Obj, instance string) ReadResult {
	failsBefore := w.St.Alloc.NewBlockFailures
	b := w.St.BA.Get(w.Ctx, o.Digest(instance))
	data, err := b.ToByteSlice(1 << 26)
	if err != nil {
		r := w.classifyReadErr("Get", o, instance, err, failsBefore)
		w.logf("get obj=%d inst=%q -> %v", o.ID, instance, err)
		return r
	}
	w.logf("get obj=%d inst=%q -> %d bytes", o.ID, instance, len(data))
	w.expectBytes("Get", o, instance, data)
	return ReadResult{Found: true, Data: data}
}

// GetLimited reads with a maximum size. If the object is larger the
// consumer gets INVALID_ARGUMENT (caused by the harness itself); the
// buffer must nevertheless have been released (checked by the leak
// oracles at quiescence).
func (w *World) GetLimited(o *Obj, instance string, max int, asProto bool) {
	failsBefore := w.St.Alloc.NewBlockFailures
	b := w.St.BA.Get(w.Ctx, o.Digest(instance))
	var data []byte
	var err error
	if asProto {
		_, err = b.ToProto(&remoteexecution.ActionResult{}, max)
	} else {
		data, err = b.ToByteSlice(max)
	}
	w.logf("get(max=%d,proto=%v) obj=%d inst=%q -> %d bytes, %v", max, asProto, o.ID, instance, len(data), err)
	if err == nil {
		if !asProto {
			w.expectBytes("Get", o, instance, data)
		}
		return
	}
	if status.Code(err) == codes.InvalidArgument {
		return // larger than the limit (or, for ToProto on CAS data, not a message)
	}
	w.classifyReadErr("Get", o, instance, err, failsBefore)
}

// WithWriterQueued runs op (a Get / FindMissing / composite read made by the
// caller through the World) so that another client's upload of a block-sized
// object queues for the store's WRITE lock while op is inside its first,
// read-locked section: Go's RWMutex then lets that upload allocate (and
// usually rotate) right after op's RUnlock and before op's own Lock, i.e.
// exactly in the window between the read-locked and the write-locked section
// of a refreshing read. The upload runs on its own goroutine outside the
// scheduler and is recorded in the model afterwards. fired reports whether
// the window was hit. Only for stores without injected faults.
func (w *World) WithWriterQueued(op func()) (fired bool) {
	w.FinishPendingFM()
	var o *Obj
	var data []byte
	done := make(chan error, 1)
	w.St.LockMon.ArmOnReadLockedGet(func() {
		fired = true
		// (the hook runs on the caller's goroutine, inside op)
		var b buffer.Buffer
		if w.Cfg.Mutable {
			o = w.NewACObject()
			data = w.ACContent(w.Cfg.BlockSize())
			b = buffer.NewProtoBufferFromReader(&remoteexecution.ActionResult{}, io.NopCloser(bytes.NewReader(data)), buffer.UserProvided)
		} else {
			o = w.NewObject(w.Cfg.BlockSize(), Functions[0])
			data = o.Data
			b = buffer.NewCASBufferFromByteSlice(o.Digest(""), data, buffer.UserProvided)
		}
		d := o.Digest("")
		go func() {
			done <- w.St.BA.Put(w.Ctx, d, b)
		}()
		// Wait until the writer is queued on the lock (the caller holds
		// the read lock, so the upload cannot get past its allocation).
		for i := 0; i < 200000; i++ {
			if !w.St.Lock.TryRLock() {
				return
			}
			w.St.Lock.RUnlock()
			runtime.Gosched()
		}
	})
	op()
	w.St.LockMon.ArmOnReadLockedGet(nil)
	if !fired {
		return false
	}
	err := <-done
	u := &Upload{N: len(w.Uploads), Obj: o, Instance: "", Data: data, Variant: "good", SharedSectorWith: -1,
		StartSeq: w.St.Media.Log.Len(), NewBlocksAtStart: w.St.Alloc.NewBlockCalls, PopFrontsAtStart: w.St.BL.PopFronts}
	w.Uploads = append(w.Uploads, u)
	key := w.ModelKey(o, "")
	w.attempted[key] = append(w.attempted[key], u)
	if err == nil {
		u.State = "acked"
		w.acked[key] = append(w.acked[key], u)
		w.logf("put#%d (second client, queued on the write lock during the read-locked section) obj=%d size=%d acked", u.N, o.ID, len(data))
	} else {
		u.State = "failed"
		u.Err = err
		w.logf("put#%d (second client, queued on the write lock) failed: %v", u.N, err)
	}
	return true
}

// WithUploadDuringWrite runs op (normally the completion of an upload A)
// with a second client's small upload B overlapping A's next data-device
// write: the hook fires when that write has been issued but has not taken
// effect yet; B runs on its own goroutine until it has completed or is
// parked on a mutex (on the unchanged code: the mutex of the sector that A's
// tail and B's head share, held by A for the duration of its write); then
// A's write lands. B is joined after op has returned and recorded in the
// model. Sharing a sector requires that B is allocated right behind A, which
// is the case when nothing else was allocated since A's allocation. fired
// reports whether a data write happened inside op; blocked whether B was
// seen waiting for a mutex.
func (w *World) WithUploadDuringWrite(sizeB, skip int, op func()) (fired, blocked bool) {
	dev := w.St.Media.Data
	if dev == nil || w.Cfg.Mutable {
		op()
		return false, false
	}
	w.FinishPendingFM()
	var o *Obj
	done := make(chan error, 1)
	joined := false
	var errB error
	var hook func(off int64, p []byte)
	hook = func(off int64, p []byte) {
		if skip > 0 {
			// (let the first `skip` writes of op pass)
			skip--
			dev.OnWriteInFlight = hook
			return
		}
		fired = true
		o = w.NewObject(sizeB, Functions[0])
		d := o.Digest("")
		b := buffer.NewCASBufferFromByteSlice(d, o.Data, buffer.UserProvided)
		go w.writeOverlapWorker(d, b, done)
		for i := 0; i < 20000; i++ {
			select {
			case errB = <-done:
				joined = true
			default:
			}
			if joined {
				break
			}
			if found, bl := goroutineState("lstore.(*World).writeOverlapWorker"); found && bl {
				blocked = true
				break
			}
			runtime.Gosched()
			if i > 100 {
				time.Sleep(50 * time.Microsecond)
			}
		}
		w.logf("put (second client, size %d) issued while a data write [%d,%d) was in flight; completed meanwhile=%v, waiting for a mutex=%v", sizeB, off, off+int64(len(p)), joined, blocked)
	}
	dev.OnWriteInFlight = hook
	op()
	dev.OnWriteInFlight = nil
	if !fired {
		return false, false
	}
	if !joined {
		errB = <-done
	}
	u := &Upload{N: len(w.Uploads), Obj: o, Instance: "", Data: o.Data, Variant: "good", SharedSectorWith: -1,
		StartSeq: w.St.Media.Log.Len(), NewBlocksAtStart: w.St.Alloc.NewBlockCalls, PopFrontsAtStart: w.St.BL.PopFronts}
	w.Uploads = append(w.Uploads, u)
	key := w.ModelKey(o, "")
	w.attempted[key] = append(w.attempted[key], u)
	if errB == nil {
		u.State = "acked"
		w.acked[key] = append(w.acked[key], u)
		w.logf("put#%d (second client, overlapping a data write in flight) obj=%d size=%d acked", u.N, o.ID, sizeB)
	} else {
		u.State = "failed"
		u.Err = errB
		w.logf("put#%d (second client, overlapping a data write in flight) failed: %v", u.N, errB)
	}
	return fired, blocked
}

// writeOverlapWorker is the body of the second client's goroutine of
// WithUploadDuringWrite (its name is looked for in goroutine dumps).
func (w *World) writeOverlapWorker(d digest.Digest, b buffer.Buffer, done chan<- error) {
	done <- w.St.BA.Put(w.Ctx, d, b)
}

// GetBadOffset reads with an out-of-domain offset: off < 0 is used as is,
// off > 0 is added to the object's size. Whatever the consumer gets back
// (an error, or an empty result) is not judged here (C09 owns that); bytes
// handed out must be a suffix... none are expected beyond the end. The
// buffer must be released (leak oracles).
func (w *World) GetBadOffset(o *Obj, instance string, off int64, how string) {
	b := w.St.BA.Get(w.Ctx, o.Digest(instance))
	size := o.Size
	at := off
	if off > 0 {
		at = size + off
	}
	var err error
	var n int
	if how == "readat" {
		buf := make([]byte, 4)
		n, err = b.ReadAt(buf, at)
	} else {
		r := b.ToChunkReader(at, 64)
		var chunk []byte
		for err == nil {
			chunk, err = r.Read()
			n += len(chunk)
		}
		r.Close()
	}
	w.logf("get(%s at offset %d) obj=%d inst=%q -> %d bytes, %v", how, at, o.ID, instance, n, err)
	if n > 0 && !o.AC && (at < 0 || at >= size) {
		// (AC entries: the digest is that of the Action, not of the stored
		// message, so the stored size is not known here.)
		w.fatalf("a read of object %d (size %d) at offset %d handed out %d bytes", o.ID, size, at, n)
	}
}

// OpenHold obtains a buffer and keeps it unconsumed.
func (w *World) OpenHold(o *Obj, instance string, asReader bool, chunk int) *Hold {
	fails := w.St.Alloc.NewBlockFailures
	putsBefore := map[*LiveBlock]int32{}
	for _, lb := range w.AllLive {
		putsBefore[lb] = lb.Info.Puts
	}
	b := w.St.BA.Get(w.Ctx, o.Digest(instance))
	h := &Hold{Obj: o, Instance: instance, RotationsAtOpen: w.St.BL.PopFronts, failsAtOpen: fails, AllocsAtOpen: w.St.Alloc.NewBlockCalls}
	for _, lb := range w.AllLive {
		if lb.Info.Puts != putsBefore[lb] {
			h.Block = lb // target block of the on-the-fly refresh
		}
	}
	if asReader {
		h.rd = b.ToReader()
	} else {
		h.cr = b.ToChunkReader(0, chunk)
	}
	w.Holds = append(w.Holds, h)
	w.logf("hold#%d open obj=%d inst=%q reader=%v", len(w.Holds)-1, o.ID, instance, asReader)
	return h
}

// HoldRead consumes one chunk (or up to n bytes) of a held read. It
// returns true when the read has completed (successfully or not).
func (w *World) HoldRead(h *Hold, n int) bool {
	if h.done {
		return true
	}
	failsBefore := h.failsAtOpen
	var chunk []byte
	var err error
	if h.cr != nil {
		chunk, err = h.cr.Read()
	} else {
		buf := make([]byte, n)
		var k int
		k, err = h.rd.Read(buf)
		chunk = buf[:k]
	}
	h.got = append(h.got, chunk...)
	if err == nil {
		return false
	}
	h.done = true
	if h.cr != nil {
		h.cr.Close()
	} else {
		h.rd.Close()
	}
	if err == io.EOF {
		w.logf("hold obj=%d finished: %d bytes", h.Obj.ID, len(h.got))
		w.expectBytes("held-open Get", h.Obj, h.Instance, h.got)
		h.OK = true
		return true
	}
	w.logf("hold obj=%d failed: %v", h.Obj.ID, err)
	if h.Block != nil && (h.Block.Popped || h.Block.Quarantined) && status.Code(err) == codes.Internal {
		// The read was held open so long that the block receiving the
		// on-the-fly refresh copy was rotated away: documented outcome.
		w.Flags["held_refresh_target_rotated_away"]++
		return true
	}
	w.classifyReadErr("held-open Get", h.Obj, h.Instance, err, failsBefore)
	return true
}

// HoldDrainRaw consumes a held read to its end WITHOUT evaluating the
// result (no model access, no Fatalf): it may be called from a hook running
// on another goroutine. The caller evaluates data and err afterwards.
func (w *World) HoldDrainRaw(h *Hold) ([]byte, error) {
	if h.done {
		return h.got, nil
	}
	h.done = true
	var err error
	for err == nil {
		var chunk []byte
		if h.cr != nil {
			chunk, err = h.cr.Read()
		} else {
			buf := make([]byte, 4096)
			var k int
			k, err = h.rd.Read(buf)
			chunk = buf[:k]
		}
		h.got = append(h.got, chunk...)
	}
	if h.cr != nil {
		h.cr.Close()
	} else {
		h.rd.Close()
	}
	if err == io.EOF {
		return h.got, nil
	}
	return h.got, err
}

// HoldClose abandons a held read early.
func (w *World) HoldClose(h *Hold) {
	if h.done {
		return
	}
	h.done = true
	if h.cr != nil {
		h.cr.Close()
	} else {
		h.rd.Close()
	}
	w.logf("hold obj=%d closed early after %d bytes", h.Obj.ID, len(h.got))
}

// FinishHolds completes every held read.
func (w *World) FinishHolds() {
	for _, h := range w.Holds {
		for !w.HoldRead(h, 1<<16) {
		}
	}
}

// ObjInst names an object under an instance name.
type ObjInst struct {
	Obj      *Obj
	Instance string
}

// FindMissing performs an existence check and verifies "present =>
// some upload of that key completed". It returns present[i].
func (w *World) FindMissing(items []ObjInst) ([]bool, error) {
	w.FinishPendingFM()
	sb := digest.NewSetBuilder(0)
	for _, it := range items {
		sb.Add(it.Obj.Digest(it.Instance))
	}
	failsBefore := w.St.Alloc.NewBlockFailures
	missing, err := w.St.BA.FindMissing(w.Ctx, sb.Build())
	return w.evalFindMissing(items, missing, err, failsBefore, false)
}

func (w *World) evalFindMissing(items []ObjInst, missing digest.Set, err error, failsBefore int, envDuring bool) ([]bool, error) {
	if err != nil {
		code := status.Code(err)
		_ = code
		env := envDuring || w.St.Alloc.NewBlockFailures != failsBefore || w.Closed || w.deviceFaultsArmed() || w.Corrupt
		w.logf("findmissing %d items -> error %v", len(items), err)
		if !env {
			w.fatalf("FindMissing failed with %v on a healthy medium", err)
		}
		return nil, err
	}
	miss := map[string]bool{}
	for _, d := range missing.Items() {
		miss[d.GetKey(digest.KeyWithInstance)] = true
	}
	present := make([]bool, len(items))
	var sbuf strings.Builder
	for i, it := range items {
		d := it.Obj.Digest(it.Instance)
		present[i] = !miss[d.GetKey(digest.KeyWithInstance)]
		fmt.Fprintf(&sbuf, " %d@%q=%v", it.Obj.ID, it.Instance, present[i])
		if present[i] {
			key := w.ModelKey(it.Obj, it.Instance)
			ups := w.visibleUploads(key, it.Instance)
			if _, ok := w.derived[key]; !ok && len(ups) == 0 {
				w.fatalf("FindMissing reports object %d (inst %q) present although no upload for that key ever completed successfully", it.Obj.ID, it.Instance)
			}
		}
	}
	w.logf("findmissing ->%s", sbuf.String())
	return present, nil
}

// PendingFM is an existence check running as a scheduled thread that
// parks right before each refresh copy (the unlocked copy phase of
// FindMissing's second scan; the store's refresh lock is held).
type PendingFM struct {
	Items        []ObjInst
	Thread       *sim.Thread
	Done         bool
	Present      []bool
	Err          error
	Parks        int
	AllocsAtPark []int // NewBlock calls when the thread parked (right after the allocation of each refresh copy)
	AllocsStart  int
	failsBefore  int
	env          bool
	targets      []*LiveBlock
	puts         map[*LiveBlock]int32
	finish       func(interface{}) (digest.Set, error)
}

type fmThreadMarker struct{ p *PendingFM }

// StartFindMissing starts an existence check as a thread and runs it to
// its first refresh copy (or to completion).
func (w *World) StartFindMissing(items []ObjInst) *PendingFM {
	w.FinishPendingFM()
	sb := digest.NewSetBuilder(0)
	for _, it := range items {
		sb.Add(it.Obj.Digest(it.Instance))
	}
	set := sb.Build()
	p := &PendingFM{Items: items, AllocsStart: w.St.Alloc.NewBlockCalls, failsBefore: w.St.Alloc.NewBlockFailures, puts: map[*LiveBlock]int32{}}
	for _, lb := range w.AllLive {
		p.puts[lb] = lb.Info.Puts
	}
	type res struct {
		missing digest.Set
		err     error
	}
	w.St.Alloc.CopyGate = func() {
		if th := w.Sched.Current(); th != nil {
			if _, ok := th.Data.(fmThreadMarker); ok {
				w.Sched.Gate("refreshcopy", nil)
			}
		}
	}
	p.Thread = w.Sched.Spawn("FM", func() interface{} {
		m, err := w.St.BA.FindMissing(w.Ctx, set)
		return res{m, err}
	})
	p.Thread.Data = fmThreadMarker{p}
	w.pendingFM = p
	w.logf("findmissing(thread, %d items) start", len(items))
	w.stepFM(p, func(r interface{}) (digest.Set, error) { x := r.(res); return x.missing, x.err })
	p.finish = func(r interface{}) (digest.Set, error) { x := r.(res); return x.missing, x.err }
	return p
}

// StepFindMissing lets a parked existence check perform one refresh copy.
func (w *World) StepFindMissing(p *PendingFM) {
	if p.Done {
		return
	}
	w.stepFM(p, p.finish)
}

func (w *World) stepFM(p *PendingFM, decode func(interface{}) (digest.Set, error)) {
	ev := p.Thread.Step(nil)
	// A block that received an allocation is the target of a refresh copy
	// (only this thread ran).
	for _, lb := range w.AllLive {
		if lb.Info.Puts != p.puts[lb] {
			p.targets = append(p.targets, lb)
		}
		p.puts[lb] = lb.Info.Puts
	}
	p.env = p.env || w.Closed || w.deviceFaultsArmed() || w.Corrupt
	switch ev.Kind {
	case "gate":
		p.Parks++
		p.AllocsAtPark = append(p.AllocsAtPark, w.St.Alloc.NewBlockCalls)
		w.logf("findmissing(thread) parked before refresh copy #%d", p.Parks)
		return
	case "panic":
		w.fatalf("FindMissing panicked: %v\n%s", ev.Panic, ev.Stack)
	}
	p.Done = true
	if w.pendingFM == p {
		w.pendingFM = nil
	}
	missing, err := decode(ev.Result)
	if err != nil && status.Code(err) == codes.Internal {
		for _, lb := range p.targets {
			if lb.Popped || lb.Quarantined {
				// Operations interleaved with the refresh copy rotated its
				// target block away: like an upload whose block was
				// rotated away, the call fails.
				w.Flags["findmissing_refresh_target_rotated_away"]++
				w.logf("findmissing(thread) -> %v (refresh target rotated away)", err)
				p.Err = err
				return
			}
		}
	}
	p.Present, p.Err = w.evalFindMissing(p.Items, missing, err, p.failsBefore, p.env)
}

// FinishPendingFM runs a parked existence check to completion. Every
// operation that needs the store's refresh lock calls it first.
func (w *World) FinishPendingFM() {
	for w.pendingFM != nil && !w.pendingFM.Done {
		w.StepFindMissing(w.pendingFM)
	}
}

// PendingFindMissing returns the parked existence check, if any.
func (w *World) PendingFindMissing() *PendingFM {
	if w.pendingFM != nil && !w.pendingFM.Done {
		return w.pendingFM
	}
	return nil
}

// OverlappedFindMissing runs FindMissing(items) as a second client whose
// call overlaps with other operations: it is started (on its own goroutine)
// inside the slicing phase of a composite read of `parent`, during which
// the flat store holds its refresh lock. The existence check therefore
// performs its first scan, then waits for the refresh lock; `between` runs
// in that window (uploads, rotations, a read that detects corruption); the
// second, refreshing scan runs once the composite read has returned. The
// result is evaluated by the model exactly like a plain FindMissing.
// overlapped reports whether the check was really seen waiting for the lock
// (it is false e.g. when nothing needed a refresh, or for hierarchical
// stores whose composite reads do not take the lock).
func (w *World) OverlappedFindMissing(parent *Obj, instance string, items []ObjInst, between func()) (present []bool, err error, overlapped bool) {
	sb := digest.NewSetBuilder(0)
	for _, it := range items {
		sb.Add(it.Obj.Digest(it.Instance))
	}
	set := sb.Build()
	type fmResult struct {
		missing digest.Set
		err     error
	}
	done := make(chan fmResult, 1)
	started := false
	failsBefore := w.St.Alloc.NewBlockFailures
	envDuring := false
	var res fmResult
	joined := false
	join := func() {
		if started && !joined {
			res = <-done
			joined = true
		}
	}
	during := func() {
		started = true
		go w.overlapFMWorker(set, func(m digest.Set, e error) { done <- fmResult{m, e} })
		// Wait until the worker has finished or is parked on a mutex.
		for i := 0; i < 20000; i++ {
			select {
			case res = <-done:
				joined = true
			default:
			}
			if joined {
				break
			}
			if found, blocked := goroutineState("lstore.(*World).overlapFMWorker"); found && blocked {
				overlapped = true
				break
			}
			runtime.Gosched()
			if i > 100 {
				time.Sleep(50 * time.Microsecond)
			}
		}
		w.logf("findmissing(second client, %d items) started; waiting for the refresh lock=%v", len(items), overlapped)
		between()
		envDuring = w.Closed || w.deviceFaultsArmed() || w.Corrupt
	}
	w.afterCompositeCall = join
	w.GetFromCompositeDuring(parent, instance, nil, 0, during)
	w.afterCompositeCall = nil
	if !started {
		// The composite read did not reach its slicer (parent gone):
		// perform the existence check on its own.
		between()
		present, err = w.FindMissing(items)
		return present, err, false
	}
	join()
	present, err = w.evalFindMissing(items, res.missing, res.err, failsBefore, envDuring)
	return present, err, overlapped
}

// OverlappedComposite runs two composite reads of the same parent by two
// clients: the second one (child number want2 of the same partition) is
// started on its own goroutine inside the slicing phase of the first, where
// it misses the child entry under the read lock and then queues on the
// refresh lock; `between` (other clients' uploads) runs in that window. Once
// the first call has returned, the second one finds the parent in place and
// normally the child entry recorded by the first call ("the parent object
// was refreshed and sliced in the meantime"). Both results are judged like
// any composite read: NOT_FOUND or exactly the designated slice. overlapped
// reports whether the second client was really seen waiting for the lock.
func (w *World) OverlappedComposite(parent *Obj, instance string, cuts []int, want, want2 int, between func()) (overlapped bool) {
	parts := compositeParts(parent.Data, cuts)
	if want2 >= len(parts) {
		want2 = len(parts) - 1
	}
	child2 := parts[want2]
	child2Digest := hx.Dig(instance, parent.Fn, child2)
	sl2 := &compositeSlicer{w: w, instance: instance, fn: parent.Fn, cuts: cuts, want: want2}
	type cres struct {
		data []byte
		err  error
	}
	done := make(chan cres, 1)
	started, joined := false, false
	var res cres
	failsBefore := w.St.Alloc.NewBlockFailures
	envDuring := false
	join := func() {
		if started && !joined {
			res = <-done
			joined = true
		}
	}
	during := func() {
		started = true
		go w.overlapCompositeWorker(parent.Digest(instance), child2Digest, sl2, func(d []byte, e error) { done <- cres{d, e} })
		for i := 0; i < 20000; i++ {
			select {
			case res = <-done:
				joined = true
			default:
			}
			if joined {
				break
			}
			if found, blocked := goroutineState("lstore.(*World).overlapCompositeWorker"); found && blocked {
				overlapped = true
				break
			}
			runtime.Gosched()
			if i > 100 {
				time.Sleep(50 * time.Microsecond)
			}
		}
		w.logf("composite(second client, parent=%d child #%d) started; waiting for the refresh lock=%v", parent.ID, want2, overlapped)
		if between != nil {
			between()
		}
		envDuring = w.Closed || w.deviceFaultsArmed() || w.Corrupt
	}
	w.afterCompositeCall = join
	w.GetFromCompositeDuring(parent, instance, cuts, want, during)
	w.afterCompositeCall = nil
	if !started {
		return false
	}
	join()
	if sl2.parent != nil {
		// The second client's slicer ran: its slices may have been recorded.
		for i := range sl2.slices {
			o := w.objForSlice(parent.Fn, sl2.sliceDat[i])
			w.derived[w.ModelKey(o, instance)] = sl2.sliceDat[i]
		}
	}
	if res.err != nil {
		w.logf("composite(second client) parent=%d cuts=%v want=%d -> %v", parent.ID, cuts, want2, res.err)
		if status.Code(res.err) == codes.NotFound || envDuring {
			return overlapped
		}
		// (The second client looks the parent up only after the first call
		// has returned and nothing else runs until it is joined: it is judged
		// like a sequential composite read.)
		w.classifyReadErr("GetFromComposite (second client)", parent, instance, res.err, failsBefore)
		return overlapped
	}
	w.logf("composite(second client) parent=%d cuts=%v want=%d -> %d bytes", parent.ID, cuts, want2, len(res.data))
	if !bytes.Equal(res.data, child2) {
		w.fatalf("GetFromComposite(parent=%d, cuts=%v, child #%d) by a second client overlapping another composite read returned %s, want exactly the designated slice %s", parent.ID, cuts, want2, brief(res.data), brief(child2))
	}
	pkey := w.ModelKey(parent, instance)
	if len(w.acked[pkey]) == 0 && (w.Epoch == 0 || len(w.attempted[pkey]) == 0) {
		ck := w.ModelKey(&Obj{Fn: parent.Fn, Hash: child2Digest.GetHashString(), Size: int64(len(child2))}, instance)
		if _, ok := w.derived[ck]; !ok {
			if _, ok := w.derived[pkey]; !ok {
				w.fatalf("GetFromComposite (second client) returned data although the parent object %d was never uploaded", parent.ID)
			}
		}
	}
	return overlapped
}

// compositeParts partitions data at cuts exactly like compositeSlicer does.
func compositeParts(data []byte, cuts []int) [][]byte {
	bounds := append(append([]int{}, cuts...), len(data))
	prev := 0
	var parts [][]byte
	for _, c := range bounds {
		if c > len(data) {
			c = len(data)
		}
		if c < prev {
			continue
		}
		parts = append(parts, data[prev:c])
		prev = c
	}
	return parts
}

// overlapCompositeWorker is the body of the second client's goroutine of
// OverlappedComposite (its name is looked for in goroutine dumps).
func (w *World) overlapCompositeWorker(parentDigest, childDigest digest.Digest, sl *compositeSlicer, report func([]byte, error)) {
	b := w.St.BA.GetFromComposite(w.Ctx, parentDigest, childDigest, sl)
	data, err := b.ToByteSlice(1 << 26)
	report(data, err)
}

// overlapFMWorker is the body of the second client's goroutine (its name
// is looked for in goroutine dumps).
func (w *World) overlapFMWorker(set digest.Set, report func(digest.Set, error)) {
	missing, err := w.St.BA.FindMissing(w.Ctx, set)
	report(missing, err)
}

// goroutineState looks for a goroutine whose stack contains marker and
// reports whether it is parked acquiring a sync.Mutex.
func goroutineState(marker string) (found, blocked bool) {
	buf := make([]byte, 1<<20)
	buf = buf[:runtime.Stack(buf, true)]
	for _, g := range strings.Split(string(buf), "\n\n") {
		if !strings.Contains(g, marker) {
			continue
		}
		hdr := g
		if i := strings.IndexByte(g, '\n'); i >= 0 {
			hdr = g[:i]
		}
		return true, strings.Contains(hdr, "sync.Mutex.Lock") || (strings.Contains(hdr, "semacquire") && strings.Contains(g, "sync.(*Mutex).Lock"))
	}
	return false, false
}

// compositeSlicer designates slices of a parent at fixed cut points.
type compositeSlicer struct {
	w        *World
	instance string
	fn       remoteexecution.DigestFunction_Value
	cuts     []int // ascending offsets inside the parent
	want     int   // index of the requested child
	parent   []byte
	slices   []slicing.BlobSlice
	sliceDat [][]byte
	err      error
	// during runs inside the unlocked slicing phase (the store holds
	// only its refresh lock): other clients' uploads complete here.
	during func()
}

func (s *compositeSlicer) Slice(b buffer.Buffer, child digest.Digest) (buffer.Buffer, []slicing.BlobSlice) {
	data, err := b.ToByteSlice(1 << 26)
	if s.during != nil {
		s.during()
	}
	if err != nil {
		s.err = err
		return buffer.NewBufferFromError(err), nil
	}
	s.parent = data
	prev := 0
	bounds := append(append([]int{}, s.cuts...), len(data))
	for _, c := range bounds {
		if c > len(data) {
			c = len(data)
		}
		if c < prev {
			continue
		}
		part := data[prev:c]
		d := hx.Dig(s.instance, s.fn, part)
		s.slices = append(s.slices, slicing.BlobSlice{Digest: d, OffsetBytes: int64(prev), SizeBytes: int64(len(part))})
		s.sliceDat = append(s.sliceDat, part)
		prev = c
	}
	for i, sl := range s.slices {
		if sl.Digest == child {
			return buffer.NewCASBufferFromByteSlice(child, s.sliceDat[i], buffer.UserProvided), s.slices
		}
	}
	return buffer.NewBufferFromError(status.Error(codes.NotFound, "harness slicer: child is not a slice of the parent")), s.slices
}

// GetFromComposite reads child number `want` of the partition of the
// parent at `cuts`.
func (w *World) GetFromComposite(parent *Obj, instance string, cuts []int, want int) ReadResult {
	return w.GetFromCompositeDuring(parent, instance, cuts, want, nil)
}

// GetFromCompositeDuring is GetFromComposite with `during` executed while
// the slicer runs, i.e. in the unlocked slicing phase of the call.
func (w *World) GetFromCompositeDuring(parent *Obj, instance string, cuts []int, want int, during func()) ReadResult {
	w.FinishPendingFM()
	// The child digest must be known up front: derive it from the
	// parent content the model knows.
	bounds := append(append([]int{}, cuts...), len(parent.Data))
	prev := 0
	var parts [][]byte
	for _, c := range bounds {
		if c > len(parent.Data) {
			c = len(parent.Data)
		}
		if c < prev {
			continue
		}
		parts = append(parts, parent.Data[prev:c])
		prev = c
	}
	if want >= len(parts) {
		want = len(parts) - 1
	}
	childData := parts[want]
	childDigest := hx.Dig(instance, parent.Fn, childData)
	sl := &compositeSlicer{w: w, instance: instance, fn: parent.Fn, cuts: cuts, want: want, during: during}
	failsBefore := w.St.Alloc.NewBlockFailures
	var refreshTarget *LiveBlock
	if during != nil {
		putsBefore := map[*LiveBlock]int32{}
		for _, lb := range w.AllLive {
			putsBefore[lb] = lb.Info.Puts
		}
		sl.during = func() {
			// Only this call ran so far: a block that received an
			// allocation is the target of the parent's refresh copy.
			for _, lb := range w.AllLive {
				if lb.Info.Puts != putsBefore[lb] {
					refreshTarget = lb
				}
			}
			during()
		}
	}
	b := w.St.BA.GetFromComposite(w.Ctx, parent.Digest(instance), childDigest, sl)
	if f := w.afterCompositeCall; f != nil {
		w.afterCompositeCall = nil
		f()
	}
	data, err := b.ToByteSlice(1 << 26)
	if err != nil {
		w.logf("composite parent=%d cuts=%v want=%d -> %v", parent.ID, cuts, want, err)
		if refreshTarget != nil && (refreshTarget.Popped || refreshTarget.Quarantined) && status.Code(err) == codes.Internal {
			// Uploads completing while the slicer ran rotated the block
			// receiving the parent's refresh copy away: like an upload
			// whose target block was rotated away, the call fails.
			w.Flags["composite_refresh_target_rotated_away"]++
			return ReadResult{}
		}
		if sl.parent != nil {
			// The slicer ran: index entries for some of the designated
			// slices may have been created before the failure. They are
			// exact slices of the parent.
			for i := range sl.slices {
				o := w.objForSlice(parent.Fn, sl.sliceDat[i])
				w.derived[w.ModelKey(o, instance)] = sl.sliceDat[i]
			}
		}
		return w.classifyReadErr("GetFromComposite", parent, instance, err, failsBefore)
	}
	w.logf("composite parent=%d cuts=%v want=%d -> %d bytes", parent.ID, cuts, want, len(data))
	// The parent must be an acked object and the bytes the designated slice.
	pkey := w.ModelKey(parent, instance)
	if len(w.acked[pkey]) == 0 && (w.Epoch == 0 || len(w.attempted[pkey]) == 0) {
		if _, ok := w.derived[pkey]; !ok {
			// It may legitimately be served from a previously created child entry.
			ck := w.ModelKey(&Obj{Fn: parent.Fn, Hash: childDigest.GetHashString(), Size: int64(len(childData))}, instance)
			if _, ok := w.derived[ck]; !ok {
				w.fatalf("GetFromComposite returned data although the parent object %d was never uploaded successfully", parent.ID)
			}
		}
	}
	if !bytes.Equal(data, childData) {
		w.fatalf("GetFromComposite(parent=%d, cuts=%v, child #%d) returned %s, want exactly the designated slice %s", parent.ID, cuts, want, brief(data), brief(childData))
	}
	// All designated slices become visible objects.
	if sl.parent != nil {
		for i, s := range sl.slices {
			o := w.objForSlice(parent.Fn, sl.sliceDat[i])
			_ = s
			w.derived[w.ModelKey(o, instance)] = sl.sliceDat[i]
		}
	}
	return ReadResult{Found: true, Data: data}
}

func (w *World) objForSlice(fn remoteexecution.DigestFunction_Value, data []byte) *Obj {
	d := hx.Dig("", fn, data)
	k := fmt.Sprintf("%d/%s", fn, d.GetHashString())
	if o, ok := w.byHash[k]; ok {
		return o
	}
	o := &Obj{ID: len(w.Objs), Fn: fn, Hash: d.GetHashString(), Size: int64(len(data)), Data: append([]byte(nil), data...)}
	w.Objs = append(w.Objs, o)
	w.byHash[k] = o
	return o
}

// CheckMonitors fails on anything the pass-through monitors flagged.
func (w *World) CheckMonitors() {
	if v := w.St.Violations(); len(v) > 0 {
		w.fatalf("monitor violation: %s", strings.Join(v, "; "))
	}
	if w.Sy != nil && w.Sy.SyncCompletedWithoutSuccess != "" {
		w.fatalf("monitor violation: %s", w.Sy.SyncCompletedWithoutSuccess)
	}
	if !w.Corrupt {
		if msgs := w.St.ErrLog.Take(); len(msgs) > 0 {
			for _, m := range msgs {
				if strings.Contains(m, "data integrity") {
					w.fatalf("the store logged a data-integrity problem on a medium that is not corrupted: %q", m)
				}
			}
		}
	}
}

// Inflight returns the uploads still in flight.
func (w *World) Inflight() []*Upload {
	var out []*Upload
	for _, u := range w.Uploads {
		if u.State == "inflight" {
			out = append(out, u)
		}
	}
	return out
}

// OpenHolds returns the unfinished held reads.
func (w *World) OpenHolds() []*Hold {
	var out []*Hold
	for _, h := range w.Holds {
		if !h.done {
			out = append(out, h)
		}
	}
	return out
}

// Close releases every goroutine of the case.
func (w *World) Close() {
	for _, h := range w.Holds {
		if !h.done {
			h.done = true
			if h.cr != nil {
				h.cr.Close()
			} else if h.rd != nil {
				h.rd.Close()
			}
		}
	}
	w.closeSyncers()
	w.Sched.Abandon()
	w.Sched.Drain(2 * time.Second)
}
