// Package lstore assembles the real local store components of bb-storage
// exactly as pkg/blobstore/configuration/new_blob_access.go does, on top
// of simulated media, with pass-through monitors on every seam.
package lstore

import (
	"context"
	"fmt"
	"io"
	"sync"
	"sync/atomic"
	"time"

	remoteexecution "github.com/bazelbuild/remote-apis/build/bazel/remote/execution/v2"
	"github.com/buildbarn/bb-storage/pkg/blobstore"
	"github.com/buildbarn/bb-storage/pkg/blobstore/buffer"
	"github.com/buildbarn/bb-storage/pkg/blobstore/local"
	"github.com/buildbarn/bb-storage/pkg/digest"
	"github.com/buildbarn/bb-storage/pkg/eviction"
	pb "github.com/buildbarn/bb-storage/pkg/proto/blobstore/local"

	"verif/harness/sim"
)

// Config is a generated store geometry.
type Config struct {
	BlockDevice   bool // false: in-memory block allocator
	SectorSize    int
	BlockSectors  int
	Old, Cur, New int
	Spare         int
	Mutable       bool // AC-style growth policy (one new block)
	Hierarchical  bool
	WithInstance  bool // flat store keyed with instance name
	IndexOnDevice bool
	IndexSize     int
	GetAttempts   uint32
	PutAttempts   int
	Persistent    bool
	// Factory: "cas" (validating), "raw" (unvalidated bytes), "ac"
	// (ActionResult proto), "cascache" (validation caching around cas).
	Factory       string
	EpochInterval time.Duration
	RetryInterval time.Duration
	StorageType   string
}

// BlockSize in bytes.
func (c Config) BlockSize() int { return c.SectorSize * c.BlockSectors }

// BlockCount on the device.
func (c Config) BlockCount() int { return c.Old + c.Cur + c.New + c.Spare }

func (c Config) String() string {
	return fmt.Sprintf("{dev=%v sector=%d blockSectors=%d old=%d cur=%d new=%d spare=%d mutable=%v hier=%v inst=%v idxDev=%v idx=%d get=%d put=%d persistent=%v factory=%s}",
		c.BlockDevice, c.SectorSize, c.BlockSectors, c.Old, c.Cur, c.New, c.Spare, c.Mutable, c.Hierarchical, c.WithInstance,
		c.IndexOnDevice, c.IndexSize, c.GetAttempts, c.PutAttempts, c.Persistent, c.Factory)
}

// Media are the simulated media a store lives on.
type Media struct {
	Log   *sim.Log
	Data  *sim.Device
	Index *sim.Device
	Dir   *sim.Dir
}

// NewMedia creates zeroed media for a configuration.
func NewMedia(cfg Config) *Media {
	log := &sim.Log{}
	m := &Media{Log: log}
	if cfg.BlockDevice {
		m.Data = sim.NewDevice("data", log, make([]byte, cfg.BlockSize()*cfg.BlockCount()))
	}
	if cfg.IndexOnDevice {
		m.Index = sim.NewDevice("index", log, make([]byte, cfg.IndexSize*local.BlockDeviceBackedLocationRecordSize))
	}
	if cfg.Persistent {
		m.Dir = sim.NewDir(log)
	}
	return m
}

// ErrLog records ErrorLogger messages.
type ErrLog struct {
	mu   sync.Mutex
	Msgs []string
}

func (l *ErrLog) Log(err error) {
	l.mu.Lock()
	l.Msgs = append(l.Msgs, err.Error())
	l.mu.Unlock()
}

// Take returns and clears the messages.
func (l *ErrLog) Take() []string {
	l.mu.Lock()
	defer l.mu.Unlock()
	m := l.Msgs
	l.Msgs = nil
	return m
}

// ---- allocator monitor ----

// BlockInfo describes one block incarnation.
type BlockInfo struct {
	ID       int   // incarnation number (allocation order)
	Region   int64 // device offset in bytes, -1 for in-memory
	Restored bool
	Released bool
	// Open readers / in-flight writers of this incarnation.
	Readers atomic.Int32
	Writers atomic.Int32
	// Totals.
	Gets, Puts int32
	// Allocs mirrors the sequential allocations inside the block.
	Allocs []Alloc
	cursor int64
}

// Alloc is one allocation inside a block.
type Alloc struct {
	Off, Size int64
}

// AllocMon wraps a BlockAllocator.
type AllocMon struct {
	inner local.BlockAllocator
	mu    sync.Mutex
	// Blocks in allocation order.
	Blocks []*BlockInfo
	// NewBlockCalls counts successful NewBlock calls; NewBlockFailures
	// the failed ones.
	NewBlockCalls    int
	NewBlockFailures int
	Releases         int
	// Violations detected at allocation time (C04 safety).
	Violations []string
	// DurableListed, if set, reports whether the durable state file
	// still lists the region (persistent stores).
	DurableListed func(region int64) bool
	// OnNewBlock is called after every successful NewBlock.
	OnNewBlock func(b *BlockInfo)
	SectorSize int
	ctx        sync.Map // goroutine id -> *BlockInfo (current Get)
	// CopyGate, if set, is called right before a block writer starts
	// ingesting data (the unlocked copy phase of uploads and refreshes).
	CopyGate func()
}

type blockMon struct {
	inner local.Block
	info  *BlockInfo
	am    *AllocMon
}

func (am *AllocMon) checkReuse(region int64) {
	if region < 0 {
		return
	}
	for _, b := range am.Blocks {
		if b.Region != region {
			continue
		}
		if !b.Released {
			am.Violations = append(am.Violations, fmt.Sprintf("region %d handed out again while incarnation #%d has not been released", region, b.ID))
		}
		if r := b.Readers.Load(); r != 0 {
			am.Violations = append(am.Violations, fmt.Sprintf("region %d handed out again while %d reader(s) of incarnation #%d are still open", region, r, b.ID))
		}
		if w := b.Writers.Load(); w != 0 {
			am.Violations = append(am.Violations, fmt.Sprintf("region %d handed out again while %d writer(s) of incarnation #%d are still active", region, w, b.ID))
		}
	}
	if am.DurableListed != nil && am.DurableListed(region) {
		am.Violations = append(am.Violations, fmt.Sprintf("region %d handed out for new data while the durable state file still lists it", region))
	}
}

func (am *AllocMon) NewBlock() (local.Block, *pb.BlockLocation, error) {
	b, loc, err := am.inner.NewBlock()
	am.mu.Lock()
	defer am.mu.Unlock()
	if err != nil {
		am.NewBlockFailures++
		return nil, nil, err
	}
	am.NewBlockCalls++
	region := int64(-1)
	if loc != nil {
		region = loc.OffsetBytes
	}
	am.checkReuse(region)
	info := &BlockInfo{ID: len(am.Blocks), Region: region}
	am.Blocks = append(am.Blocks, info)
	if am.OnNewBlock != nil {
		am.OnNewBlock(info)
	}
	return &blockMon{inner: b, info: info, am: am}, loc, nil
}

func (am *AllocMon) NewBlockAtLocation(loc *pb.BlockLocation, writeOffset int64) (local.Block, bool) {
	b, ok := am.inner.NewBlockAtLocation(loc, writeOffset)
	if !ok {
		return nil, false
	}
	am.mu.Lock()
	defer am.mu.Unlock()
	info := &BlockInfo{ID: len(am.Blocks), Region: loc.OffsetBytes, Restored: true}
	if am.SectorSize > 0 {
		info.cursor = (writeOffset + int64(am.SectorSize) - 1) / int64(am.SectorSize) * int64(am.SectorSize)
	}
	am.Blocks = append(am.Blocks, info)
	return &blockMon{inner: b, info: info, am: am}, true
}

// ProbeFree counts how many blocks the real allocator can hand out
// right now, by allocating until it refuses and releasing them again
// (bypasses the monitor's bookkeeping).
func (am *AllocMon) ProbeFree() int {
	var got []local.Block
	for {
		b, _, err := am.inner.NewBlock()
		if err != nil {
			break
		}
		got = append(got, b)
		if len(got) > 1000 {
			break
		}
	}
	for _, b := range got {
		b.Release()
	}
	return len(got)
}

// InUse returns the number of incarnations not yet released by the
// block list (the list's reference; readers/writers may still pin).
func (am *AllocMon) InUse() int {
	am.mu.Lock()
	defer am.mu.Unlock()
	n := 0
	for _, b := range am.Blocks {
		if !b.Released {
			n++
		}
	}
	return n
}

// OpenReaders sums open readers over all incarnations.
func (am *AllocMon) OpenReaders() int {
	am.mu.Lock()
	defer am.mu.Unlock()
	n := 0
	for _, b := range am.Blocks {
		n += int(b.Readers.Load())
	}
	return n
}

// ActiveWriters sums in-flight writers.
func (am *AllocMon) ActiveWriters() int {
	am.mu.Lock()
	defer am.mu.Unlock()
	n := 0
	for _, b := range am.Blocks {
		n += int(b.Writers.Load())
	}
	return n
}

func (b *blockMon) Get(d digest.Digest, off, size int64, cb buffer.DataIntegrityCallback) buffer.Buffer {
	atomic.AddInt32(&b.info.Gets, 1)
	id := goid()
	b.am.ctx.Store(id, b.info)
	defer b.am.ctx.Delete(id)
	return b.inner.Get(d, off, size, cb)
}

func (b *blockMon) HasSpace(size int64) bool { return b.inner.HasSpace(size) }

func (b *blockMon) Put(size int64) local.BlockPutWriter {
	atomic.AddInt32(&b.info.Puts, 1)
	b.am.mu.Lock()
	b.info.Allocs = append(b.info.Allocs, Alloc{Off: b.info.cursor, Size: size})
	b.info.cursor += size
	b.am.mu.Unlock()
	b.info.Writers.Add(1)
	w := b.inner.Put(size)
	return func(buf buffer.Buffer) local.BlockPutFinalizer {
		if g := b.am.CopyGate; g != nil {
			g()
		}
		f := w(buf)
		b.info.Writers.Add(-1)
		return f
	}
}

func (b *blockMon) Release() {
	b.am.mu.Lock()
	if b.info.Released {
		b.am.Violations = append(b.am.Violations, fmt.Sprintf("block incarnation #%d released twice by the block list", b.info.ID))
	}
	b.info.Released = true
	b.am.Releases++
	b.am.mu.Unlock()
	b.inner.Release()
}

// ---- read buffer factory monitor ----

// FactoryMon wraps a ReadBufferFactory: counts reader opens/closes per
// block incarnation.
type FactoryMon struct {
	inner  blobstore.ReadBufferFactory
	am     *AllocMon
	Opened atomic.Int64
	Closed atomic.Int64
	mu     sync.Mutex
	Viol   []string
}

type readerMon struct {
	buffer.ReadAtCloser
	info   *BlockInfo
	fm     *FactoryMon
	closed atomic.Int32
}

func (r *readerMon) Close() error {
	if n := r.closed.Add(1); n > 1 {
		r.fm.mu.Lock()
		r.fm.Viol = append(r.fm.Viol, fmt.Sprintf("reader of block incarnation #%d closed %d times", r.info.ID, n))
		r.fm.mu.Unlock()
		return nil
	}
	r.fm.Closed.Add(1)
	if r.info != nil {
		r.info.Readers.Add(-1)
	}
	return r.ReadAtCloser.Close()
}

func (fm *FactoryMon) NewBufferFromByteSlice(d digest.Digest, data []byte, cb buffer.DataIntegrityCallback) buffer.Buffer {
	return fm.inner.NewBufferFromByteSlice(d, data, cb)
}

func (fm *FactoryMon) NewBufferFromReader(d digest.Digest, r io.ReadCloser, cb buffer.DataIntegrityCallback) buffer.Buffer {
	return fm.inner.NewBufferFromReader(d, r, cb)
}

func (fm *FactoryMon) NewBufferFromReaderAt(d digest.Digest, r buffer.ReadAtCloser, size int64, cb buffer.DataIntegrityCallback) buffer.Buffer {
	var info *BlockInfo
	if v, ok := fm.am.ctx.Load(goid()); ok {
		info = v.(*BlockInfo)
		info.Readers.Add(1)
	}
	fm.Opened.Add(1)
	return fm.inner.NewBufferFromReaderAt(d, &readerMon{ReadAtCloser: r, info: info, fm: fm}, size, cb)
}

// rawFactory returns stored bytes without validation so that a wrong
// byte is observable instead of being turned into an integrity error.
type rawFactory struct{}

func (rawFactory) NewBufferFromByteSlice(d digest.Digest, data []byte, cb buffer.DataIntegrityCallback) buffer.Buffer {
	return buffer.NewValidatedBufferFromByteSlice(data)
}

func (rawFactory) NewBufferFromReader(d digest.Digest, r io.ReadCloser, cb buffer.DataIntegrityCallback) buffer.Buffer {
	panic("lstore: rawFactory.NewBufferFromReader unused")
}

func (rawFactory) NewBufferFromReaderAt(d digest.Digest, r buffer.ReadAtCloser, size int64, cb buffer.DataIntegrityCallback) buffer.Buffer {
	return buffer.NewValidatedBufferFromReaderAt(r, size)
}

// ---- block list monitor ----

// BlockListMon wraps a BlockList.
type BlockListMon struct {
	local.BlockList
	PushBacks, PopFronts int
	OnPopFront           func()
	// OnPushBack runs after a block was appended, i.e. in the middle of a
	// rotation (the store's write lock is held by the allocating call).
	OnPushBack func()
}

func (bl *BlockListMon) PushBack() error {
	err := bl.BlockList.PushBack()
	if err == nil {
		bl.PushBacks++
		if f := bl.OnPushBack; f != nil {
			f()
		}
	}
	return err
}

func (bl *BlockListMon) PopFront() {
	bl.PopFronts++
	bl.BlockList.PopFront()
	if bl.OnPopFront != nil {
		bl.OnPopFront()
	}
}

// ---- key-location map monitor ----

// KLMMon wraps a KeyLocationMap and records Put calls.
type KLMMon struct {
	local.KeyLocationMap
	OnPut func(key local.Key, loc local.Location)
	Puts  int
	LM    *LockMon
}

// Get is the lookup as the BlobAccess performs it (harness probes use the
// embedded KeyLocationMap directly).
func (k *KLMMon) Get(key local.Key) (local.Location, error) {
	if k.LM != nil {
		k.LM.needHeld("KeyLocationMap.Get")
	}
	return k.KeyLocationMap.Get(key)
}

func (k *KLMMon) Put(key local.Key, loc local.Location) error {
	if k.LM != nil {
		k.LM.needWrite("KeyLocationMap.Put")
	}
	k.Puts++
	if k.OnPut != nil {
		k.OnPut(key, loc)
	}
	return k.KeyLocationMap.Put(key, loc)
}

// ---- lock discipline monitor ----

// LockMon checks the locking contract of the local store: Locations carry
// block indices relative to the head of the block list, so looking one up,
// resolving it to a getter, opening the getter, allocating space and
// finalizing a write are only meaningful while the store's lock is held
// (write lock for mutations). The check is a TryLock/TryRLock probe: it can
// miss a breach (when another goroutine happens to hold the lock) but can
// never report one while the caller holds the lock.
type LockMon struct {
	Lock *sync.RWMutex
	mu   sync.Mutex
	Viol []string
	// Probes counts the probes made (generator health).
	Probes          int64
	onReadLockedGet func()
}

// ArmOnReadLockedGet installs a one-shot hook that runs inside the next
// LocationBlobMap.Get call made while only a READ lock is held (the first,
// read-locked section of Get / GetFromComposite / FindMissing).
func (m *LockMon) ArmOnReadLockedGet(f func()) {
	m.mu.Lock()
	m.onReadLockedGet = f
	m.mu.Unlock()
}

func (m *LockMon) takeOnReadLockedGet() func() {
	m.mu.Lock()
	f := m.onReadLockedGet
	m.mu.Unlock()
	if f == nil {
		return nil
	}
	// Read-locked only: no writer holds the lock.
	if !m.Lock.TryRLock() {
		return nil
	}
	m.Lock.RUnlock()
	m.mu.Lock()
	m.onReadLockedGet = nil
	m.mu.Unlock()
	return f
}

func (m *LockMon) flag(what string) {
	m.mu.Lock()
	if len(m.Viol) < 4 {
		m.Viol = append(m.Viol, what)
	}
	m.mu.Unlock()
}

// needHeld: the caller must hold the lock for reading or writing.
func (m *LockMon) needHeld(what string) {
	atomic.AddInt64(&m.Probes, 1)
	if m.Lock.TryLock() {
		m.Lock.Unlock()
		m.flag(what + " while the store lock is not held (locations are only valid under the lock)")
	}
}

// needWrite: the caller must hold the lock for writing.
func (m *LockMon) needWrite(what string) {
	atomic.AddInt64(&m.Probes, 1)
	if m.Lock.TryRLock() {
		m.Lock.RUnlock()
		m.flag(what + " while the store lock is not held for writing")
	}
}

// lbmMon is the LocationBlobMap handed to the BlobAccess.
type lbmMon struct {
	inner local.LocationBlobMap
	m     *LockMon
}

func (l *lbmMon) Get(loc local.Location) (local.LocationBlobGetter, bool) {
	l.m.needHeld("LocationBlobMap.Get")
	if f := l.m.takeOnReadLockedGet(); f != nil {
		f()
	}
	g, needsRefresh := l.inner.Get(loc)
	return func(d digest.Digest) buffer.Buffer {
		l.m.needHeld("a LocationBlobGetter was opened")
		return g(d)
	}, needsRefresh
}

func (l *lbmMon) Put(sizeBytes int64) (local.LocationBlobPutWriter, error) {
	l.m.needWrite("LocationBlobMap.Put")
	w, err := l.inner.Put(sizeBytes)
	if err != nil {
		return nil, err
	}
	return func(b buffer.Buffer) local.LocationBlobPutFinalizer {
		f := w(b)
		return func() (local.Location, error) {
			l.m.needWrite("a LocationBlobPutFinalizer ran")
			return f()
		}
	}, nil
}

// ---- persistent state source / store monitors ----

// SourceMon wraps the PersistentStateSource seen by the PeriodicSyncer
// and remembers the last channels handed out.
type SourceMon struct {
	local.PersistentStateSource
	mu                     sync.Mutex
	LastPutCh              <-chan struct{}
	LastRelCh              <-chan struct{}
	PutChCalls, RelChCalls int
	Calls                  []string
	OnCall                 func(name string)
}

func (s *SourceMon) note(n string) {
	s.mu.Lock()
	s.Calls = append(s.Calls, n)
	cb := s.OnCall
	s.mu.Unlock()
	if cb != nil {
		cb(n)
	}
}

func (s *SourceMon) GetBlockReleaseWakeup() <-chan struct{} {
	ch := s.PersistentStateSource.GetBlockReleaseWakeup()
	s.mu.Lock()
	s.LastRelCh = ch
	s.RelChCalls++
	s.mu.Unlock()
	return ch
}

func (s *SourceMon) GetBlockPutWakeup() <-chan struct{} {
	ch := s.PersistentStateSource.GetBlockPutWakeup()
	s.mu.Lock()
	s.LastPutCh = ch
	s.PutChCalls++
	s.mu.Unlock()
	return ch
}

func (s *SourceMon) NotifySyncStarting(final bool) {
	if final {
		s.note("SyncStartingFinal")
	} else {
		s.note("SyncStarting")
	}
	s.PersistentStateSource.NotifySyncStarting(final)
}

func (s *SourceMon) NotifySyncCompleted() {
	s.note("SyncCompleted")
	s.PersistentStateSource.NotifySyncCompleted()
}

func (s *SourceMon) GetPersistentState() (uint32, []*pb.BlockState) {
	s.note("GetPersistentState")
	return s.PersistentStateSource.GetPersistentState()
}

func (s *SourceMon) NotifyPersistentStateWritten() {
	s.note("PersistentStateWritten")
	s.PersistentStateSource.NotifyPersistentStateWritten()
}

// ChCalls returns how often the wake-up channels were fetched.
func (s *SourceMon) ChCalls() (put, rel int) {
	s.mu.Lock()
	defer s.mu.Unlock()
	return s.PutChCalls, s.RelChCalls
}

// LastChannels returns the channels handed out last.
func (s *SourceMon) LastChannels() (put, rel <-chan struct{}) {
	s.mu.Lock()
	defer s.mu.Unlock()
	return s.LastPutCh, s.LastRelCh
}

// StoreMon wraps the PersistentStateStore: gate at entry, mutual
// exclusion assertion, failure injection through the sim.Dir.
type StoreMon struct {
	inner   local.PersistentStateStore
	sched   *sim.Sched
	inside  atomic.Int32
	Viol    []string
	mu      sync.Mutex
	Writes  int
	Success int
	// LastWritten is the last state that was written successfully.
	LastWritten *pb.PersistentState
}

func (s *StoreMon) ReadPersistentState() (*pb.PersistentState, error) {
	return s.inner.ReadPersistentState()
}

func (s *StoreMon) WritePersistentState(st *pb.PersistentState) error {
	if n := s.inside.Add(1); n > 1 {
		s.mu.Lock()
		s.Viol = append(s.Viol, "two state writers inside WritePersistentState at the same time (writers not serialised)")
		s.mu.Unlock()
	}
	defer s.inside.Add(-1)
	s.mu.Lock()
	s.Writes++
	s.mu.Unlock()
	if s.sched != nil {
		s.sched.Gate("statewrite", nil)
	}
	err := s.inner.WritePersistentState(st)
	if err == nil {
		s.mu.Lock()
		s.Success++
		s.LastWritten = st
		s.mu.Unlock()
	}
	return err
}

// SuccessCount returns the number of successful state writes.
func (s *StoreMon) SuccessCount() int {
	s.mu.Lock()
	defer s.mu.Unlock()
	return s.Success
}

// ---- the assembled store ----

// Store is an assembled local store.
type Store struct {
	Cfg     Config
	Media   *Media
	BA      blobstore.BlobAccess
	Lock    *sync.RWMutex
	Alloc   *AllocMon
	Factory *FactoryMon
	BL      *BlockListMon
	KLM     *KLMMon
	LBM     *local.OldCurrentNewLocationBlobMap
	LockMon *LockMon
	PBL     *local.PersistentBlockList
	Source  *SourceMon
	State   *StoreMon
	Syncer  *local.PeriodicSyncer
	Clock   *sim.Clock
	ErrLog  *ErrLog
	Sched   *sim.Sched
	// Restored is the number of blocks re-attached from the state file.
	Restored int
	// HashInit is the index hash initialisation in use.
	HashInit uint64
	// DataSyncFail: scripted failures of the DataSyncer (n-th call).
	DataSyncFail map[int]error
	DataSyncs    int
	DataSyncOK   int
	// SyncTimes are the virtual times at which DataSyncer calls started.
	SyncTimes []time.Time
}

type caps struct{}

func (caps) GetCapabilities(ctx context.Context, in digest.InstanceName) (*remoteexecution.ServerCapabilities, error) {
	return &remoteexecution.ServerCapabilities{}, nil
}

// Options tweak Build.
type Options struct {
	Sched *sim.Sched
	Clock *sim.Clock
	// HashInit for volatile stores (persistent ones read it from the
	// state file).
	HashInit uint64
}

// Build wires the real components on the given media.
func Build(cfg Config, m *Media, opt Options) (*Store, error) {
	st := &Store{Cfg: cfg, Media: m, Lock: &sync.RWMutex{}, ErrLog: &ErrLog{}, Sched: opt.Sched, Clock: opt.Clock, DataSyncFail: map[int]error{}}
	if st.Clock == nil {
		st.Clock = sim.NewClock()
	}
	storageType := cfg.StorageType
	if storageType == "" {
		storageType = "verif"
	}

	var base blobstore.ReadBufferFactory
	switch cfg.Factory {
	case "cas", "":
		base = blobstore.CASReadBufferFactory
	case "raw":
		base = rawFactory{}
	case "ac":
		base = blobstore.ACReadBufferFactory
	case "cascache":
		kf := digest.KeyWithoutInstance
		if cfg.WithInstance || cfg.Hierarchical {
			kf = digest.KeyWithInstance
		}
		base = blobstore.NewValidationCachingReadBufferFactory(
			blobstore.CASReadBufferFactory,
			digest.NewExistenceCache(st.Clock, kf, 64, time.Hour, eviction.NewLRUSet[string]()))
	default:
		return nil, fmt.Errorf("unknown factory %q", cfg.Factory)
	}

	var inner local.BlockAllocator
	sectorSize, blockSectors := cfg.SectorSize, int64(cfg.BlockSectors)
	st.Alloc = &AllocMon{SectorSize: cfg.SectorSize}
	st.Factory = &FactoryMon{inner: base, am: st.Alloc}
	if cfg.BlockDevice {
		inner = local.NewBlockDeviceBackedBlockAllocator(m.Data, st.Factory, sectorSize, blockSectors, cfg.BlockCount(), storageType)
	} else {
		// new_blob_access.go: sector size 1, block sector count = block size.
		inner = local.NewInMemoryBlockAllocator(cfg.BlockSize())
		sectorSize, blockSectors = 1, int64(cfg.BlockSize())
	}
	st.Alloc.inner = inner

	var blockList local.BlockList
	initialBlocks := 0
	if !cfg.Persistent {
		blockList = local.NewVolatileBlockList(st.Alloc)
		st.HashInit = opt.HashInit
	} else {
		stateStore := local.NewDirectoryBackedPersistentStateStore(m.Dir)
		st.State = &StoreMon{inner: stateStore, sched: opt.Sched}
		ps, err := st.State.ReadPersistentState()
		if err != nil {
			return nil, err
		}
		st.HashInit = ps.KeyLocationMapHashInitialization
		st.PBL, initialBlocks = local.NewPersistentBlockList(st.Alloc, ps.OldestEpochId, ps.Blocks)
		st.Restored = initialBlocks
		blockList = st.PBL
		st.Source = &SourceMon{PersistentStateSource: st.PBL}
		dataSyncer := func() error {
			covers := m.Log.Len()
			st.SyncTimes = append(st.SyncTimes, st.Clock.Now())
			if opt.Sched != nil {
				opt.Sched.Gate("datasync", nil)
			}
			n := st.DataSyncs
			st.DataSyncs++
			if err, ok := st.DataSyncFail[n]; ok {
				return err
			}
			if m.Data == nil {
				st.DataSyncOK++
				return nil
			}
			err := m.Data.SyncCovering(covers)
			if err == nil {
				st.DataSyncOK++
			}
			return err
		}
		st.Syncer = local.NewPeriodicSyncer(st.Source, st.Lock, st.State, st.Clock, st.ErrLog,
			cfg.RetryInterval, cfg.EpochInterval, st.HashInit, dataSyncer)
	}
	st.BL = &BlockListMon{BlockList: blockList}

	var policy local.BlockListGrowthPolicy
	if cfg.Mutable {
		policy = local.NewMutableBlockListGrowthPolicy(cfg.Cur)
	} else {
		policy = local.NewImmutableBlockListGrowthPolicy(cfg.Cur, cfg.New)
	}
	st.LBM = local.NewOldCurrentNewLocationBlobMap(st.BL, policy, st.ErrLog, storageType,
		int64(sectorSize)*blockSectors, cfg.Old, cfg.New, initialBlocks)

	var lra local.LocationRecordArray
	if cfg.IndexOnDevice {
		lra = local.NewBlockDeviceBackedLocationRecordArray(m.Index, st.LBM)
	} else {
		lra = local.NewInMemoryLocationRecordArray(cfg.IndexSize, st.LBM)
	}
	st.LockMon = &LockMon{Lock: st.Lock}
	st.KLM = &KLMMon{KeyLocationMap: local.NewHashingKeyLocationMap(lra, cfg.IndexSize, st.HashInit, cfg.GetAttempts, cfg.PutAttempts, storageType), LM: st.LockMon}
	lbm := &lbmMon{inner: st.LBM, m: st.LockMon}

	if cfg.Hierarchical {
		st.BA = local.NewHierarchicalCASBlobAccess(st.KLM, lbm, st.Lock, caps{})
	} else {
		kf := digest.KeyWithoutInstance
		if cfg.WithInstance {
			kf = digest.KeyWithInstance
		}
		st.BA = local.NewFlatBlobAccess(st.KLM, lbm, kf, st.Lock, storageType, caps{})
	}
	return st, nil
}

// Violations collects everything the monitors flagged.
func (st *Store) Violations() []string {
	var v []string
	st.Alloc.mu.Lock()
	v = append(v, st.Alloc.Violations...)
	st.Alloc.mu.Unlock()
	st.Factory.mu.Lock()
	v = append(v, st.Factory.Viol...)
	st.Factory.mu.Unlock()
	if st.LockMon != nil {
		st.LockMon.mu.Lock()
		v = append(v, st.LockMon.Viol...)
		st.LockMon.mu.Unlock()
	}
	if st.State != nil {
		st.State.mu.Lock()
		v = append(v, st.State.Viol...)
		st.State.mu.Unlock()
	}
	return v
}
