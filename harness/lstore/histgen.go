package lstore

import (
	"fmt"
	"time"

	"google.golang.org/grpc/codes"
	"google.golang.org/grpc/status"
	"pgregory.net/rapid"

	"verif/harness/sim"
	"verif/harness/vstats"
)

// RapidChooser draws crash loss decisions from rapid.
type RapidChooser struct {
	T *rapid.T
	// KeepPercent is the probability (in %) that an unsynced unit survives.
	KeepPercent int
	n           int
}

func (c *RapidChooser) Keep(what string) bool {
	c.n++
	return rapid.IntRange(0, 99).Draw(c.T, "keep") < c.KeepPercent
}

func (c *RapidChooser) Prefix(what string, n int) int {
	if n == 0 {
		return 0
	}
	return rapid.IntRange(0, n).Draw(c.T, "prefix/"+what)
}

// Selective keeps or loses whole classes of unsynced units: the
// adversarial corners "data lost but index and state kept" etc.
type Selective struct {
	KeepData, KeepIndex, KeepDir bool
}

func (c Selective) Keep(what string) bool {
	if len(what) > 0 && what[0] == 'd' { // "data@..."
		return c.KeepData
	}
	return c.KeepIndex
}

func (c Selective) Prefix(what string, n int) int {
	if c.KeepDir {
		return n
	}
	return 0
}

// HistOpts steer the shared history actions.
type HistOpts struct {
	BadUploads bool // generate failing upload variants
	Holds      bool
	Composite  bool
	Syncers    bool // persistent world: expose syncer coroutine steps
	Faults     bool // inject sync / state-write failures
	Shutdown   bool
	DevFaults  bool // inject data-device write failures
}

// Hist drives a generated history over a world. It is shared by the
// store-level properties; each property adds its own oracle on top.
type Hist struct {
	UploadsDuringSlicing, RotationsDuringSlicing, OverlappedFindMissing, RotationInReleaseWrite, ParkedFindMissing int
	W                                                                                                              *World
	T                                                                                                              *rapid.T
	C                                                                                                              *vstats.Case
	Opt                                                                                                            HistOpts
	Failed                                                                                                         map[*Obj]bool
	// Counters for non-triviality rules.
	FailedKeysRead       int
	HeldAcrossRotation   int
	FaultsInjected       int
	FinalizeInSync       int // upload finalised while S was parked in the data sync
	FinalizeInWrite      int // ... while a syncer was parked in the state write
	ReleaseInSync        int
	InflightAtShutdown   int
	FinalSyncFaults      int
	RotationInStateWrite int
}

// NewHist creates a history driver.
func NewHist(t *rapid.T, w *World, c *vstats.Case, opt HistOpts) *Hist {
	return &Hist{W: w, T: t, C: c, Opt: opt, Failed: map[*Obj]bool{}}
}

func (h *Hist) noteFinalize(before int) {
	w := h.W
	if w.Sy == nil {
		return
	}
	acked := 0
	for _, u := range w.Uploads {
		if u.State == "acked" {
			acked++
		}
	}
	if acked == before {
		return
	}
	if w.Sy.S != nil && w.Sy.S.Parked && w.Sy.S.At == "datasync" {
		h.FinalizeInSync++
	}
	if holdsStoreLock(w.Sy.S) || holdsStoreLock(w.Sy.R) {
		h.FinalizeInWrite++
	}
}

func (h *Hist) ackedCount() int {
	n := 0
	for _, u := range h.W.Uploads {
		if u.State == "acked" {
			n++
		}
	}
	return n
}

// NewUpload starts an upload (and possibly finishes it).
func (h *Hist) NewUpload() *Upload {
	t, w, c, cfg := h.T, h.W, h.C, h.W.Cfg
	before := h.ackedCount()
	defer func() { h.noteFinalize(before); w.Poll() }()
	var o *Obj
	variant := "good"
	if cfg.Mutable {
		if len(w.Objs) < 4 || rapid.IntRange(0, 3).Draw(t, "newKey") == 0 {
			o = w.NewACObject()
		} else {
			o = PickObj(t, w, "obj")
		}
		size := GenSize(t, cfg, "put")
		inst := rapid.SampledFrom(InstanceNames).Draw(t, "inst")
		data := w.ACContent(size)
		c.Add("putac", o.ID, len(data), inst)
		return w.StartPut(o, inst, "good", data, nil, nil)
	}
	if len(w.Objs) > 0 && rapid.IntRange(0, 3).Draw(t, "reupload") == 0 {
		o = PickObj(t, w, "obj")
	} else {
		size := GenSize(t, cfg, "put")
		if h.Opt.BadUploads && rapid.IntRange(0, 30).Draw(t, "tooBig") == 0 {
			size = cfg.BlockSize() + 1
		}
		o = w.NewObject(size, rapid.SampledFrom(Functions).Draw(t, "fn"))
	}
	inst := rapid.SampledFrom(InstanceNames).Draw(t, "inst")
	data := o.Data
	var failErr error
	if h.Opt.BadUploads {
		switch rapid.IntRange(0, 11).Draw(t, "variant") {
		case 0:
			if len(data) > 0 {
				variant = "short"
				data = data[:rapid.IntRange(0, len(data)-1).Draw(t, "shortLen")]
			}
		case 1:
			variant = "long"
			data = append(append([]byte{}, data...), make([]byte, rapid.IntRange(1, 5).Draw(t, "extra"))...)
		case 2:
			if len(data) > 0 {
				variant = "wronghash"
				data = append([]byte{}, data...)
				data[rapid.IntRange(0, len(data)-1).Draw(t, "flipAt")] ^= 0x40
			}
		case 3:
			variant = "srcerr"
			data = data[:rapid.IntRange(0, len(data)).Draw(t, "errAt")]
			if len(data) == len(o.Data) && len(data) > 0 {
				data = data[:len(data)-1]
			}
			failErr = status.Error(codes.Aborted, "injected source failure")
		}
	}
	chunks := GenChunks(t, "put")
	c.Add("put", o.ID, len(data), inst, variant, fmt.Sprint(chunks))
	u := w.StartPut(o, inst, variant, data, chunks, failErr)
	if variant != "good" {
		h.Failed[o] = true
	}
	if rapid.IntRange(0, 2).Draw(t, "finishNow") == 0 {
		w.FinishPut(u)
	}
	return u
}

// Actions returns the rapid action map for t.Repeat. Disabled actions
// fall back to an always-enabled one (rapid fails a run that keeps
// drawing disabled actions).
func (h *Hist) Actions() map[string]func(*rapid.T) {
	w, c, cfg := h.W, h.C, h.W.Cfg
	fallback := func() { h.NewUpload() }
	a := map[string]func(*rapid.T){
		"put": func(t *rapid.T) { h.NewUpload() },
		"step": func(t *rapid.T) {
			in := w.Inflight()
			if len(in) == 0 {
				fallback()
				return
			}
			u := in[rapid.IntRange(0, len(in)-1).Draw(t, "which")]
			c.Add("step", u.N)
			before := h.ackedCount()
			w.StepPut(u)
			h.noteFinalize(before)
			w.Poll()
		},
		"finish": func(t *rapid.T) {
			in := w.Inflight()
			if len(in) == 0 {
				fallback()
				return
			}
			u := in[rapid.IntRange(0, len(in)-1).Draw(t, "which")]
			c.Add("finish", u.N)
			before := h.ackedCount()
			w.FinishPut(u)
			h.noteFinalize(before)
			w.Poll()
		},
		"get": func(t *rapid.T) {
			o := PickObj(t, w, "obj")
			if o == nil {
				fallback()
				return
			}
			inst := rapid.SampledFrom(InstanceNames).Draw(t, "inst")
			c.Add("get", o.ID, inst)
			w.Get(o, inst)
			if h.Failed[o] {
				h.FailedKeysRead++
			}
			w.Poll()
		},
		"findmissing": func(t *rapid.T) {
			if len(w.Objs) == 0 {
				fallback()
				return
			}
			k := rapid.IntRange(1, 5).Draw(t, "k")
			var items []ObjInst
			for i := 0; i < k; i++ {
				o := PickObj(t, w, "obj")
				inst := rapid.SampledFrom(InstanceNames).Draw(t, "inst")
				items = append(items, ObjInst{Obj: o, Instance: inst})
				c.Add("fm", o.ID, inst)
				if h.Failed[o] {
					h.FailedKeysRead++
				}
			}
			// A third of the existence checks run as a thread that parks
			// before each refresh copy, so that the other actions interleave
			// with the unlocked copy phases of its second scan.
			if rapid.IntRange(0, 2).Draw(t, "fmAsThread") == 0 {
				c.Add("fmThread")
				p := w.StartFindMissing(items)
				if p.Parks > 0 {
					h.ParkedFindMissing++
				}
			} else {
				w.FindMissing(items)
			}
			w.Poll()
		},
		"fmStep": func(t *rapid.T) {
			p := w.PendingFindMissing()
			if p == nil {
				fallback()
				return
			}
			c.Add("fmStep")
			rot := w.St.BL.PopFronts
			_ = rot
			w.StepFindMissing(p)
			w.Poll()
		},
		"": func(t *rapid.T) {
			w.Poll()
			w.CheckMonitors()
		},
	}
	if h.Opt.Holds {
		a["hold"] = func(t *rapid.T) {
			o := PickObj(t, w, "obj")
			if o == nil || len(w.OpenHolds()) >= 3 {
				fallback()
				return
			}
			inst := rapid.SampledFrom(InstanceNames).Draw(t, "inst")
			asReader := rapid.Bool().Draw(t, "asReader")
			chunk := rapid.IntRange(1, 16).Draw(t, "chunk")
			c.Add("hold", o.ID, inst, asReader, chunk)
			w.OpenHold(o, inst, asReader, chunk)
			w.Poll()
		}
		a["getLimited"] = func(t *rapid.T) {
			o := PickObj(t, w, "obj")
			if o == nil {
				fallback()
				return
			}
			inst := rapid.SampledFrom(InstanceNames).Draw(t, "inst")
			max := rapid.IntRange(0, cfg.BlockSize()).Draw(t, "max")
			asProto := rapid.IntRange(0, 3).Draw(t, "asProto") == 0
			c.Add("getLimited", o.ID, inst, max, asProto)
			w.GetLimited(o, inst, max, asProto)
			w.Poll()
		}
		// Reads with out-of-domain arguments (a ByteStream read_offset
		// beyond the object, a negative offset, a ReadAt past the end): the
		// consumer gets an error or nothing; the buffer must nevertheless
		// have been released (leak oracles at quiescence).
		a["getBadOffset"] = func(t *rapid.T) {
			o := PickObj(t, w, "obj")
			if o == nil {
				fallback()
				return
			}
			inst := rapid.SampledFrom(InstanceNames).Draw(t, "inst")
			off := rapid.SampledFrom([]int64{-1, -7, 1, 2, 1 << 40}).Draw(t, "offKind")
			how := rapid.SampledFrom([]string{"chunk", "readat"}).Draw(t, "how")
			c.Add("getBadOffset", o.ID, inst, off, how)
			w.GetBadOffset(o, inst, off, how)
			w.Poll()
		}
		a["holdread"] = func(t *rapid.T) {
			hs := w.OpenHolds()
			if len(hs) == 0 {
				fallback()
				return
			}
			hd := hs[rapid.IntRange(0, len(hs)-1).Draw(t, "which")]
			n := rapid.IntRange(1, 32).Draw(t, "n")
			c.Add("holdread", n)
			if w.St.BL.PopFronts != hd.RotationsAtOpen {
				h.HeldAcrossRotation++
			}
			if rapid.IntRange(0, 9).Draw(t, "closeEarly") == 0 {
				w.HoldClose(hd)
			} else {
				w.HoldRead(hd, n)
			}
			w.Poll()
		}
	}
	if h.Opt.DevFaults && w.St.Media.Data != nil {
		a["devfault"] = func(t *rapid.T) {
			d := w.St.Media.Data
			k := rapid.IntRange(0, 3).Draw(t, "afterWrites")
			c.Add("devfault", k)
			h.FaultsInjected++
			if d.FailWrite == nil {
				d.FailWrite = map[int]error{}
			}
			d.FailWrite[d.Writes+k] = status.Error(codes.DataLoss, "injected device write failure")
			w.logf("fault: data device write #%d from now fails", k)
		}
	}
	if h.Opt.DevFaults && w.St.Media.Index != nil {
		a["indexfault"] = func(t *rapid.T) {
			d := w.St.Media.Index
			k := rapid.IntRange(0, 6).Draw(t, "afterReads")
			c.Add("indexfault", k)
			h.FaultsInjected++
			if d.FailRead == nil {
				d.FailRead = map[int]error{}
			}
			d.FailRead[d.Reads+k] = status.Error(codes.DataLoss, "injected index read failure")
			w.logf("fault: index device read #%d from now fails", k)
		}
	}
	if h.Opt.Composite {
		a["composite"] = func(t *rapid.T) {
			o := PickObj(t, w, "obj")
			if cfg.Mutable || o == nil || o.Data == nil {
				fallback()
				return
			}
			inst := rapid.SampledFrom(InstanceNames).Draw(t, "inst")
			ncuts := rapid.IntRange(0, 3).Draw(t, "ncuts")
			cuts := make([]int, 0, ncuts)
			prev := 0
			for i := 0; i < ncuts; i++ {
				prev = rapid.IntRange(prev, len(o.Data)).Draw(t, "cut")
				cuts = append(cuts, prev)
			}
			want := rapid.IntRange(0, ncuts).Draw(t, "want")
			// Other clients' uploads that complete while the slicer runs
			// (the unlocked slicing phase of the call).
			nDuring := 0
			if rapid.IntRange(0, 2).Draw(t, "uploadsDuringSlicing") == 0 {
				nDuring = rapid.IntRange(1, 4).Draw(t, "nDuring")
			}
			c.Add("composite", o.ID, inst, fmt.Sprint(cuts), want, nDuring)
			var during func()
			if nDuring > 0 {
				during = func() {
					rot := w.St.BL.PopFronts
					for i := 0; i < nDuring; i++ {
						w.FinishPut(h.NewUpload())
					}
					h.UploadsDuringSlicing++
					if w.St.BL.PopFronts != rot {
						h.RotationsDuringSlicing++
					}
				}
			}
			if nDuring > 0 && rapid.IntRange(0, 2).Draw(t, "fmOverlapped") == 0 {
				// A second client's FindMissing overlaps: first scan, wait
				// for the refresh lock while the uploads complete, then the
				// refreshing scan.
				k := rapid.IntRange(1, 4).Draw(t, "fmK")
				var items []ObjInst
				for i := 0; i < k; i++ {
					fo := PickObj(t, w, "fmObj")
					items = append(items, ObjInst{Obj: fo, Instance: rapid.SampledFrom(InstanceNames).Draw(t, "fmInst")})
					c.Add("fmo", fo.ID)
				}
				if _, _, ov := w.OverlappedFindMissing(o, inst, items, during); ov {
					h.OverlappedFindMissing++
				}
			} else {
				w.GetFromCompositeDuring(o, inst, cuts, want, during)
			}
			if h.Failed[o] {
				h.FailedKeysRead++
			}
			w.Poll()
		}
	}
	if h.Opt.Syncers {
		extra := func(t *rapid.T) time.Duration {
			if rapid.IntRange(0, 3).Draw(t, "late") == 0 {
				return time.Duration(rapid.IntRange(1, 90).Draw(t, "lateBy")) * time.Second
			}
			return 0
		}
		a["syncS"] = func(t *rapid.T) {
			sy := w.syn()
			switch {
			case sy.S == nil && !sy.ShutdownDone:
				c.Add("startS")
				w.StartS()
			case w.CanStepS():
				d := extra(t)
				c.Add("stepS", int64(d))
				relBefore := w.St.BL.PopFronts
				w.StepS(d)
				_ = relBefore
			default:
				fallback()
			}
		}
		a["syncR"] = func(t *rapid.T) {
			sy := w.syn()
			switch {
			case sy.R == nil && w.ReleaseWakeupPending():
				c.Add("startR")
				if sy.S != nil && sy.S.Parked && sy.S.At == "datasync" {
					h.ReleaseInSync++
				}
				w.StartR()
			case w.CanStepR():
				d := extra(t)
				c.Add("stepR", int64(d))
				w.StepR(d)
			default:
				fallback()
			}
		}
		// A release-triggered state write carried out completely while the
		// put syncer is parked inside its data sync.
		a["syncRinsideS"] = func(t *rapid.T) {
			sy := w.syn()
			if !(sy.S != nil && sy.S.Parked && sy.S.At == "datasync" && sy.R == nil && w.ReleaseWakeupPending()) {
				// Try to get there: advance S towards its data sync.
				switch {
				case sy.S == nil && !sy.ShutdownDone && w.PutWakeupPending():
					w.StartS()
				case sy.S != nil && sy.S.Parked && sy.S.At == "timer" && w.CanStepS():
					w.StepS(0)
				default:
					fallback()
				}
				return
			}
			c.Add("syncRinsideS")
			h.ReleaseInSync++
			w.StartR()
			for i := 0; i < 20 && sy.R != nil && w.CanStepR(); i++ {
				w.StepR(0)
			}
		}
		// Force a rotation (PopFront) while a syncer is parked inside the
		// state store, i.e. between GetPersistentState and
		// NotifyPersistentStateWritten.
		a["rotateDuringStateWrite"] = func(t *rapid.T) {
			sy := w.syn()
			// Drive a syncer (the release writer first) into the state store.
			progressed := false
			for i := 0; i < 8 && !(holdsStoreLock(sy.S) || holdsStoreLock(sy.R)); i++ {
				switch {
				case w.CanStepR():
					w.StepR(0)
				case sy.R == nil && w.ReleaseWakeupPending():
					w.StartR()
				case w.CanStepS():
					w.StepS(0)
				case sy.S == nil && !sy.ShutdownDone && w.PutWakeupPending():
					w.StartS()
				default:
					i = 8
					continue
				}
				progressed = true
			}
			if !(holdsStoreLock(sy.S) || holdsStoreLock(sy.R)) {
				if !progressed {
					fallback()
				}
				return
			}
			rInWrite := holdsStoreLock(sy.R)
			c.Add("rotateDuringStateWrite")
			pops := w.St.BL.PopFronts
			for i := 0; i < 24 && w.St.BL.PopFronts == pops && !w.Closed; i++ {
				size := cfg.BlockSize()/2 + 1
				if size > cfg.BlockSize() {
					size = cfg.BlockSize()
				}
				var u *Upload
				if cfg.Mutable {
					u = w.StartPut(w.NewACObject(), "", "good", w.ACContent(size), nil, nil)
				} else {
					o := w.NewObject(size, Functions[0])
					u = w.StartPut(o, "", "good", o.Data, nil, nil)
				}
				w.FinishPut(u)
			}
			if w.St.BL.PopFronts != pops {
				if rInWrite {
					h.RotationInReleaseWrite++
				}
				h.RotationInStateWrite++
			}
		}
		// Both state writers overlapping: the put syncer is parked inside
		// the state store, a rotation pops a block, the release syncer is
		// started (must block on the store lock), the put syncer finishes.
		a["raceStateWriters"] = func(t *rapid.T) {
			sy := w.syn()
			if !(holdsStoreLock(sy.S) && sy.R == nil) {
				switch {
				case w.CanStepS():
					w.StepS(0)
				case sy.S == nil && !sy.ShutdownDone && w.PutWakeupPending():
					w.StartS()
				default:
					fallback()
				}
				return
			}
			c.Add("raceStateWriters")
			pops := w.St.BL.PopFronts
			for i := 0; i < 24 && w.St.BL.PopFronts == pops && !w.Closed; i++ {
				size := cfg.BlockSize()/2 + 1
				if size > cfg.BlockSize() {
					size = cfg.BlockSize()
				}
				var u *Upload
				if cfg.Mutable {
					u = w.StartPut(w.NewACObject(), "", "good", w.ACContent(size), nil, nil)
				} else {
					o := w.NewObject(size, Functions[0])
					u = w.StartPut(o, "", "good", o.Data, nil, nil)
				}
				w.FinishPut(u)
			}
			if w.St.BL.PopFronts == pops || !w.ReleaseWakeupPending() {
				return
			}
			h.RotationInStateWrite++
			w.StartR() // special move: expected to block on the store lock
			if w.CanStepS() {
				w.StepS(0) // the put syncer's write completes and notifies
			}
		}
		a["drain"] = func(t *rapid.T) {
			c.Add("drain")
			w.Drain()
		}
		if h.Opt.Faults {
			a["fault"] = func(t *rapid.T) {
				kind := rapid.SampledFrom([]string{"datasync", "remove", "create", "write", "fsync", "close", "rename", "dirsync"}).Draw(t, "faultKind")
				c.Add("fault", kind)
				h.FaultsInjected++
				if kind == "datasync" {
					w.St.DataSyncFail[w.St.DataSyncs] = status.Error(codes.Internal, "injected sync failure")
					w.logf("fault: next data sync fails")
					return
				}
				w.St.Media.Dir.InjectFailure(kind, w.St.Media.Dir.OpCount(kind), fmt.Errorf("injected %s failure", kind))
				w.logf("fault: next directory %s fails", kind)
			}
		}
		if h.Opt.Shutdown && h.Opt.Faults {
			// Graceful shutdown whose FINAL data sync fails (once or in a
			// burst), with an upload acknowledged while the first of the
			// two shutdown syncs is in progress: only the final sync covers
			// that upload, so it must be retried until it succeeds before
			// the state file is written and shutdown completes.
			a["finalSyncFault"] = func(t *rapid.T) {
				sy := w.Syn()
				if sy.Cancelled || sy.ShutdownDone || w.Closed || rapid.IntRange(0, 2).Draw(t, "really") != 0 {
					fallback()
					return
				}
				burst := rapid.IntRange(1, 3).Draw(t, "burst")
				c.Add("finalSyncFault", burst)
				h.InflightAtShutdown = len(w.Inflight())
				w.Shutdown()
				if sy.S == nil && !sy.ShutdownDone {
					w.StartS()
				}
				for i := 0; i < 12 && sy.S != nil && w.CanStepS() && !(sy.S.Parked && sy.S.At == "datasync"); i++ {
					w.StepS(0)
				}
				if sy.S == nil || !sy.S.Parked || sy.S.At != "datasync" || w.Closed {
					return
				}
				// S is inside the first shutdown sync.
				before := h.ackedCount()
				u := h.NewUpload()
				w.FinishPut(u)
				h.noteFinalize(before)
				for j := 0; j < burst; j++ {
					w.St.DataSyncFail[w.St.DataSyncs+1+j] = status.Error(codes.Internal, "injected sync failure")
				}
				h.FaultsInjected++
				h.FinalSyncFaults++
				w.logf("fault: the final data sync fails %d time(s)", burst)
			}
		}
		if h.Opt.Shutdown {
			a["shutdown"] = func(t *rapid.T) {
				if rapid.IntRange(0, 3).Draw(t, "really") != 0 {
					fallback()
					return
				}
				c.Add("shutdown")
				if !w.ShutdownRequested() {
					h.InflightAtShutdown = len(w.Inflight())
				}
				w.Shutdown()
			}
		}
	}
	return a
}

// Quiesce finishes all uploads and held reads.
func (h *Hist) Quiesce() {
	w := h.W
	for _, u := range w.Inflight() {
		before := h.ackedCount()
		w.FinishPut(u)
		h.noteFinalize(before)
	}
	w.FinishHolds()
	w.FinishPendingFM()
	w.Poll()
}

var _ = sim.AllLost{}
