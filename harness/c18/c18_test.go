package c18

import (
	"context"
	"fmt"
	"os"
	"sort"
	"strings"
	"testing"

	"github.com/buildbarn/bb-storage/pkg/auth"
	"github.com/buildbarn/bb-storage/pkg/blobstore"
	"github.com/buildbarn/bb-storage/pkg/blobstore/buffer"
	"github.com/buildbarn/bb-storage/pkg/blobstore/slicing"
	"github.com/buildbarn/bb-storage/pkg/digest"
	"google.golang.org/grpc/codes"
	"google.golang.org/grpc/status"
	"pgregory.net/rapid"

	"verif/harness/backends"
	"verif/harness/hx"
	"verif/harness/vstats"
)

func TestMain(m *testing.M) {
	rc := m.Run()
	vstats.Flush()
	os.Exit(rc)
}

var names = []string{"", "a", "b", "a/b", "a/c", "ab", "a/b/c"}

// outcome of a leaf authorizer for one instance name.
type outcome struct {
	kind int // 0 allow, 1 deny, 2 error
	code codes.Code
	msg  string
}

func (o outcome) String() string {
	switch o.kind {
	case 0:
		return "allow"
	case 1:
		return "deny"
	}
	return fmt.Sprintf("err(%s,%s)", o.code, o.msg)
}

// node is an authorizer expression: a leaf table or any(children).
type node struct {
	leaf     map[string]outcome
	static   bool // leaf realised through the real NewStaticAuthorizer
	id       int
	children []*node
	isAny    bool
}

type leafAuthorizer struct {
	n     *node
	calls *int
}

func (l *leafAuthorizer) Authorize(ctx context.Context, ins []digest.InstanceName) []error {
	*l.calls++
	errs := make([]error, 0, len(ins))
	for _, in := range ins {
		o := l.n.leaf[in.String()]
		switch o.kind {
		case 0:
			errs = append(errs, nil)
		case 1:
			errs = append(errs, status.Error(codes.PermissionDenied, o.msg))
		default:
			errs = append(errs, status.Error(o.code, o.msg))
		}
	}
	return errs
}

func (n *node) build(calls *int) auth.Authorizer {
	if !n.isAny {
		if n.static {
			return auth.NewStaticAuthorizer(func(in digest.InstanceName) bool {
				return n.leaf[in.String()].kind == 0
			})
		}
		return &leafAuthorizer{n: n, calls: calls}
	}
	as := make([]auth.Authorizer, 0, len(n.children))
	for _, c := range n.children {
		as = append(as, c.build(calls))
	}
	return auth.NewAnyAuthorizer(as)
}

func (n *node) leaves(out []*node) []*node {
	if !n.isAny {
		return append(out, n)
	}
	for _, c := range n.children {
		out = c.leaves(out)
	}
	return out
}

func (n *node) String() string {
	if !n.isAny {
		ks := make([]string, 0, len(n.leaf))
		for k := range n.leaf {
			ks = append(ks, k)
		}
		sort.Strings(ks)
		var sb strings.Builder
		if n.static {
			sb.WriteString("static{")
		} else {
			sb.WriteString("leaf{")
		}
		for _, k := range ks {
			fmt.Fprintf(&sb, "%q:%s ", k, n.leaf[k])
		}
		sb.WriteString("}")
		return sb.String()
	}
	parts := make([]string, 0, len(n.children))
	for _, c := range n.children {
		parts = append(parts, c.String())
	}
	return "any(" + strings.Join(parts, ", ") + ")"
}

var errCodes = []codes.Code{codes.Unavailable, codes.Internal, codes.Unauthenticated, codes.DeadlineExceeded, codes.NotFound}

func genNode(t *rapid.T, depth int, idc *int, label string) *node {
	*idc++
	id := *idc
	if depth > 0 && rapid.IntRange(0, 2).Draw(t, label+"/isAny") > 0 {
		n := &node{isAny: true, id: id}
		k := rapid.IntRange(0, 3).Draw(t, label+"/members")
		for i := 0; i < k; i++ {
			n.children = append(n.children, genNode(t, depth-1, idc, fmt.Sprintf("%s.%d", label, i)))
		}
		return n
	}
	n := &node{leaf: map[string]outcome{}, id: id}
	n.static = rapid.IntRange(0, 4).Draw(t, label+"/static") == 0
	for _, name := range names {
		k := rapid.IntRange(0, 5).Draw(t, fmt.Sprintf("%s/%q", label, name))
		switch {
		case k <= 1:
			n.leaf[name] = outcome{kind: 0}
		case k <= 3 || n.static:
			msg := "Permission denied"
			if !n.static {
				msg = fmt.Sprintf("denied-by-<%d>", id)
			}
			n.leaf[name] = outcome{kind: 1, code: codes.PermissionDenied, msg: msg}
		default:
			c := errCodes[rapid.IntRange(0, len(errCodes)-1).Draw(t, label+"/code")]
			n.leaf[name] = outcome{kind: 2, code: c, msg: fmt.Sprintf("failure-of-<%d>", id)}
		}
	}
	return n
}

// checkAgainstLeaves is the oracle for one authorizer expression and one
// instance name: result is a denial <=> every leaf denies; a grant => some
// leaf grants; another error => some leaf returned exactly that error.
func checkAgainstLeaves(t *rapid.T, n *node, name string, got error) {
	ls := n.leaves(nil)
	allDeny, someGrant := true, false
	for _, l := range ls {
		o := l.leaf[name]
		if o.kind != 1 {
			allDeny = false
		}
		if o.kind == 0 {
			someGrant = true
		}
	}
	code := status.Code(got)
	switch {
	case got == nil:
		if !someGrant {
			t.Fatalf("instance name %q granted although no member grants it: %s", name, n)
		}
	case code == codes.PermissionDenied:
		if !allDeny {
			t.Fatalf("instance name %q denied (%v) although not all members deny: %s", name, got, n)
		}
	default:
		ok := false
		for _, l := range ls {
			o := l.leaf[name]
			// The member's failure may be reported with added context
			// (wrapping), but it must still be that member's failure.
			if o.kind == 2 && o.code == code && strings.Contains(status.Convert(got).Message(), o.msg) {
				ok = true
			}
		}
		if !ok {
			t.Fatalf("instance name %q: error %v was not returned by any member: %s", name, got, n)
		}
	}
	if allDeny && code != codes.PermissionDenied {
		t.Fatalf("instance name %q: all members deny but result is %v: %s", name, got, n)
	}
}

func toInstanceNames(ss []string) []digest.InstanceName {
	out := make([]digest.InstanceName, 0, len(ss))
	for _, s := range ss {
		in, err := digest.NewInstanceName(s)
		if err != nil {
			panic(err)
		}
		out = append(out, in)
	}
	return out
}

var recAny = vstats.New("TestC18Any")

// TestC18Any: nestings of NewAnyAuthorizer against the three implications.
func TestC18Any(t *testing.T) {
	rapid.Check(t, func(t *rapid.T) {
		c := recAny.Begin()
		idc := 0
		root := genNode(t, 3, &idc, "n")
		calls := 0
		a := root.build(&calls)
		// Batches may repeat names.
		batch := rapid.SliceOfN(rapid.SampledFrom(names), 1, 6).Draw(t, "batch")
		c.Add(root.String(), strings.Join(batch, "|"))
		errs := a.Authorize(context.Background(), toInstanceNames(batch))
		if len(errs) != len(batch) {
			t.Fatalf("Authorize returned %d results for %d names: %s", len(errs), len(batch), root)
		}
		kinds := map[int]bool{}
		for i, name := range batch {
			checkAgainstLeaves(t, root, name, errs[i])
			for _, l := range root.leaves(nil) {
				kinds[l.leaf[name].kind] = true
			}
		}
		ls := root.leaves(nil)
		c.ClassIf(root.isAny, "root_is_any")
		c.ClassIf(len(ls) >= 2, "two_or_more_leaves")
		c.ClassIf(len(ls) == 0, "no_leaves")
		if len(ls) >= 2 && len(kinds) >= 2 {
			c.NonTrivial()
		}
		c.Sample(func() string { return fmt.Sprintf("%s on %q -> %v", root, batch, errs) })
		c.End()
	})
}

type sliceNothing struct{}

func (sliceNothing) Slice(b buffer.Buffer, child digest.Digest) (buffer.Buffer, []slicing.BlobSlice) {
	return b, nil
}

var recDec = vstats.New("TestC18Decorator")

// TestC18Decorator: NewAuthorizingBlobAccess over a recording model back end.
func TestC18Decorator(t *testing.T) {
	f2known := vstats.KnownListed("C18", "authorizing-put-denied-buffer-not-released")
	rapid.Check(t, func(t *rapid.T) {
		c := recDec.Begin()
		idc := 0
		trees := map[string]*node{}
		calls := 0
		for _, k := range []string{"get", "put", "find"} {
			trees[k] = genNode(t, 2, &idc, k)
		}
		mem := backends.NewMem("be", digest.KeyWithInstance)
		log := &backends.Log{}
		rec := backends.NewRecorder("be", mem, log)
		authz := map[string]auth.Authorizer{}
		for k, n := range trees {
			authz[k] = n.build(&calls)
		}
		ba := blobstore.NewAuthorizingBlobAccess(rec, authz["get"], authz["put"], authz["find"])
		ctx := context.Background()

		// Pre-populate some objects directly.
		nobj := rapid.IntRange(0, 4).Draw(t, "nobj")
		for i := 0; i < nobj; i++ {
			name := rapid.SampledFrom(names).Draw(t, "pre/name")
			data := []byte(fmt.Sprintf("pre-%d", rapid.IntRange(0, 3).Draw(t, "pre/data")))
			mem.Set(hx.Sha(name, data), data)
		}
		c.Add(trees["get"].String(), trees["put"].String(), trees["find"].String())

		nops := rapid.IntRange(1, 6).Draw(t, "nops")
		var rendered []string
		for op := 0; op < nops; op++ {
			log.Reset()
			kind := rapid.SampledFrom([]string{"Get", "GetFromComposite", "Put", "FindMissing", "FindMissing"}).Draw(t, "op")
			switch kind {
			case "Get", "GetFromComposite":
				name := rapid.SampledFrom(names).Draw(t, "name")
				data := []byte(fmt.Sprintf("pre-%d", rapid.IntRange(0, 3).Draw(t, "data")))
				d := hx.Sha(name, data)
				c.Add(kind, name, data)
				want := auth.AuthorizeSingleInstanceName(ctx, authz["get"], d.GetInstanceName())
				checkAgainstLeaves(t, trees["get"], name, want)
				var b buffer.Buffer
				// childWant: the authorizer's verdict on the child's instance
				// name when it differs from the parent's (nil otherwise).
				var childWant error
				if kind == "Get" {
					b = ba.Get(ctx, d)
				} else {
					// The child digest may carry another instance name. The
					// data that is read is the parent's, so a denied parent must
					// never reach the back end, whatever the child's name is
					// allowed to do. A denied child under an allowed parent may
					// either be forwarded (the unchanged code) or be rejected
					// with the authorizer's error for the child (the literal
					// reading "every digest involved"); both are accepted.
					child := d
					if rapid.Bool().Draw(t, "childOtherInstance") {
						childName := rapid.SampledFrom(names).Draw(t, "childName")
						child = hx.Sha(childName, data)
						c.Add("child", childName)
						if childName != name {
							c.Class("composite_child_under_other_instance_name")
							childWant = auth.AuthorizeSingleInstanceName(ctx, authz["get"], child.GetInstanceName())
							if want != nil && childWant == nil {
								c.Class("composite_parent_denied_child_allowed")
							}
							if want == nil && childWant != nil {
								c.Class("composite_parent_allowed_child_denied")
							}
						}
					}
					b = ba.GetFromComposite(ctx, d, child, sliceNothing{})
				}
				got, err := b.ToByteSlice(1000)
				callsSeen := log.Snapshot()
				rendered = append(rendered, fmt.Sprintf("%s(%q)->%v", kind, name, err))
				if want != nil {
					if len(callsSeen) != 0 {
						t.Fatalf("%s for denied instance name %q reached the back end: %v", kind, name, callsSeen)
					}
					if childWant != nil && authErrorMatches(err, childWant) {
						// both names denied: either verdict is the authorizer's error
					} else {
						expectAuthError(t, err, want)
					}
					c.Class("read_rejected")
				} else if childWant != nil && len(callsSeen) == 0 {
					// allowed parent, denied child, rejected without back-end contact
					expectAuthError(t, err, childWant)
					c.Class("read_rejected_for_child_name")
				} else {
					// Allowed: the read is served by the back end. Only reads
					// of this very object may have been issued (how many, and
					// through which read method, is not part of the property).
					if len(callsSeen) == 0 {
						t.Fatalf("%s for allowed name %q did not reach the back end (result %q, %v)", kind, name, got, err)
					}
					for _, cl := range callsSeen {
						if (cl.Op != "Get" && cl.Op != "GetFromComposite") || len(cl.Digests) == 0 || cl.Digests[0] != d {
							t.Fatalf("%s for allowed name %q: back end saw a call for something else: %v", kind, name, callsSeen)
						}
					}
					c.ClassIf(len(callsSeen) != 1 || callsSeen[0].Op != kind, "read_allowed_other_call_pattern")
					if stored, ok := mem.Peek(d); ok {
						if err != nil || string(got) != string(stored) {
							t.Fatalf("%s allowed: got %q,%v want %q", kind, got, err, stored)
						}
					} else {
						if err == nil {
							t.Fatalf("%s allowed, object absent: got data %q", kind, got)
						}
						c.ClassIf(status.Code(err) != codes.NotFound, "read_allowed_absent_not_NOT_FOUND")
					}
					c.Class("read_allowed")
				}
			case "Put":
				name := rapid.SampledFrom(names).Draw(t, "name")
				data := []byte(fmt.Sprintf("put-%d", rapid.IntRange(0, 3).Draw(t, "data")))
				d := hx.Sha(name, data)
				c.Add(kind, name, data)
				want := auth.AuthorizeSingleInstanceName(ctx, authz["put"], d.GetInstanceName())
				checkAgainstLeaves(t, trees["put"], name, want)
				src := hx.NewCRC(data)
				had := mem.Has(d)
				err := ba.Put(ctx, d, buffer.NewCASBufferFromReader(d, src, buffer.UserProvided))
				callsSeen := log.Snapshot()
				rendered = append(rendered, fmt.Sprintf("Put(%q)->%v", name, err))
				if want != nil {
					if len(callsSeen) != 0 {
						t.Fatalf("Put for denied instance name %q reached the back end: %v", name, callsSeen)
					}
					if mem.Has(d) != had {
						t.Fatalf("rejected Put changed the back end")
					}
					expectAuthError(t, err, want)
					if n := src.Closes.Load(); n != 1 {
						if f2known && n == 0 {
							recDec.Excluded("authorizing-put-denied-buffer-not-released")
						} else {
							t.Fatalf("rejected upload's buffer was released %d times, want exactly once (instance name %q, put authorizer %s)", n, name, trees["put"])
						}
					}
					c.Class("put_rejected")
				} else {
					if err != nil || !mem.Has(d) {
						t.Fatalf("allowed Put failed: %v", err)
					}
					for _, cl := range callsSeen {
						if len(cl.Digests) == 0 || cl.Digests[0] != d {
							t.Fatalf("allowed Put of %s: back end saw a call for something else: %v", d, callsSeen)
						}
					}
					c.ClassIf(len(callsSeen) != 1 || callsSeen[0].Op != "Put", "put_allowed_other_call_pattern")
					c.ClassIf(src.Closes.Load() != 1, "put_allowed_release_count_not_1")
					c.Class("put_allowed")
				}
			case "FindMissing":
				k := rapid.IntRange(0, 6).Draw(t, "k")
				sb := digest.NewSetBuilder(0)
				involved := map[string]bool{}
				for i := 0; i < k; i++ {
					name := rapid.SampledFrom(names).Draw(t, "name")
					data := []byte(fmt.Sprintf("pre-%d", rapid.IntRange(0, 3).Draw(t, "data")))
					sb.Add(hx.Sha(name, data))
					involved[name] = true
					c.Add(name, data)
				}
				set := sb.Build()
				var inv []string
				for n := range involved {
					inv = append(inv, n)
				}
				sort.Strings(inv)
				wantErrs := authz["find"].Authorize(ctx, toInstanceNames(inv))
				var denied []error
				nAllowed, nDenied := 0, 0
				for i, e := range wantErrs {
					checkAgainstLeaves(t, trees["find"], inv[i], e)
					if e != nil {
						denied = append(denied, e)
						nDenied++
					} else {
						nAllowed++
					}
				}
				log.Reset()
				missing, err := ba.FindMissing(ctx, set)
				callsSeen := log.Snapshot()
				rendered = append(rendered, fmt.Sprintf("FindMissing(%q)->%v,%v", inv, missing.Items(), err))
				if len(denied) > 0 {
					if len(callsSeen) != 0 {
						t.Fatalf("FindMissing over names %q (some denied) reached the back end: %v", inv, callsSeen)
					}
					if err == nil {
						t.Fatalf("FindMissing over names %q with denied names succeeded", inv)
					}
					okAny := false
					for _, w := range denied {
						if status.Code(err) == status.Code(w) && strings.Contains(status.Convert(err).Message(), status.Convert(w).Message()) {
							okAny = true
						}
					}
					if !okAny {
						t.Fatalf("FindMissing error %v is none of the authorizer's errors %v", err, denied)
					}
					if nAllowed > 0 {
						c.NonTrivial()
						c.Class("find_mixed_batch")
					}
					c.Class("find_rejected")
				} else {
					if err != nil {
						t.Fatalf("FindMissing with all names allowed failed: %v", err)
					}
					wantMissing, _ := mem.FindMissing(ctx, set)
					if fmt.Sprint(missing.Items()) != fmt.Sprint(wantMissing.Items()) {
						t.Fatalf("FindMissing: got %v want %v", missing.Items(), wantMissing.Items())
					}
					// The request may be forwarded in one or several calls (or
					// not at all when it is empty), but never with digests the
					// caller did not ask about.
					if k > 0 && len(callsSeen) == 0 {
						t.Fatalf("allowed FindMissing over %q did not reach the back end", inv)
					}
					asked := map[digest.Digest]bool{}
					for _, d := range set.Items() {
						asked[d] = true
					}
					for _, cl := range callsSeen {
						for _, d := range cl.Digests {
							if !asked[d] {
								t.Fatalf("allowed FindMissing: back end was asked about %s, which is not in the request: %v", d, callsSeen)
							}
						}
					}
					c.ClassIf(len(callsSeen) != 1, "find_allowed_other_call_pattern")
					c.Class("find_allowed")
				}
			}
		}
		c.Sample(func() string {
			return fmt.Sprintf("get=%s put=%s find=%s ops=%v", trees["get"], trees["put"], trees["find"], rendered)
		})
		c.End()
	})
}

// authErrorMatches: got is want, possibly with context added to the message.
func authErrorMatches(got, want error) bool {
	return got != nil && status.Code(got) == status.Code(want) && strings.Contains(status.Convert(got).Message(), status.Convert(want).Message())
}

func expectAuthError(t *rapid.T, got, want error) {
	if got == nil {
		t.Fatalf("operation on a denied instance name succeeded (authorizer said %v)", want)
	}
	if !authErrorMatches(got, want) {
		t.Fatalf("caller received %v, want the authorizer's error %v (wrapped)", got, want)
	}
}
