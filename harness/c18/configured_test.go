package c18

// TestC18Configured: the authorizing decorator with authorizers built by
// the REAL configuration code (pkg/auth/configuration: allow, deny,
// instance_name_prefix, jmespath_expression; the deduplicating factory
// bb_storage uses) over a back end built by the real
// configuration.NewBlobAccessFromConfiguration (in-memory local CAS). The
// wiring of the three authorizers into NewAuthorizingBlobAccess lives in
// cmd/bb_storage/main.go (package main, not importable) and is repeated
// here verbatim, with a recorder between the decorator and the back end
// so that "the back end is not contacted" is visible.

import (
	"context"
	"encoding/json"
	"fmt"
	"strings"
	"testing"

	"github.com/buildbarn/bb-storage/pkg/auth"
	authcfg "github.com/buildbarn/bb-storage/pkg/auth/configuration"
	"github.com/buildbarn/bb-storage/pkg/blobstore"
	"github.com/buildbarn/bb-storage/pkg/blobstore/buffer"
	"github.com/buildbarn/bb-storage/pkg/blobstore/configuration"
	"github.com/buildbarn/bb-storage/pkg/digest"
	"github.com/buildbarn/bb-storage/pkg/program"
	authpb "github.com/buildbarn/bb-storage/pkg/proto/configuration/auth"
	pb "github.com/buildbarn/bb-storage/pkg/proto/configuration/blobstore"
	jmespathpb "github.com/buildbarn/bb-storage/pkg/proto/configuration/jmespath"
	"google.golang.org/grpc/codes"
	"google.golang.org/grpc/status"
	"google.golang.org/protobuf/types/known/emptypb"
	"pgregory.net/rapid"

	"verif/harness/backends"
	"verif/harness/hx"
	"verif/harness/vstats"
)

var recConfigured = vstats.New("TestC18Configured")

// cfgPolicy is one generated AuthorizerConfiguration with its meaning.
type cfgPolicy struct {
	kind  string   // allow, deny, prefix, jmespath
	names []string // prefix: allowed prefixes; jmespath: exactly allowed names
}

func (p cfgPolicy) String() string {
	if p.kind == "allow" || p.kind == "deny" {
		return p.kind
	}
	return fmt.Sprintf("%s%q", p.kind, p.names)
}

func comps(s string) []string {
	if s == "" {
		return nil
	}
	return strings.Split(s, "/")
}

// allows is the documented meaning of the policy, on component slices.
func (p cfgPolicy) allows(name string) bool {
	switch p.kind {
	case "allow":
		return true
	case "deny":
		return false
	case "prefix":
		n := comps(name)
		for _, pre := range p.names {
			pc := comps(pre)
			if len(pc) > len(n) {
				continue
			}
			ok := true
			for i := range pc {
				ok = ok && pc[i] == n[i]
			}
			if ok {
				return true
			}
		}
		return false
	default:
		for _, x := range p.names {
			if x == name {
				return true
			}
		}
		return false
	}
}

func (p cfgPolicy) config() *authpb.AuthorizerConfiguration {
	switch p.kind {
	case "allow":
		return &authpb.AuthorizerConfiguration{Policy: &authpb.AuthorizerConfiguration_Allow{Allow: &emptypb.Empty{}}}
	case "deny":
		return &authpb.AuthorizerConfiguration{Policy: &authpb.AuthorizerConfiguration_Deny{Deny: &emptypb.Empty{}}}
	case "prefix":
		return &authpb.AuthorizerConfiguration{Policy: &authpb.AuthorizerConfiguration_InstanceNamePrefix{InstanceNamePrefix: &authpb.InstanceNameAuthorizer{AllowedInstanceNamePrefixes: p.names}}}
	default:
		list, _ := json.Marshal(append([]string{}, p.names...))
		return &authpb.AuthorizerConfiguration{Policy: &authpb.AuthorizerConfiguration_JmespathExpression{JmespathExpression: &jmespathpb.Expression{
			Expression: "contains(`" + string(list) + "`, instanceName)",
		}}}
	}
}

func genCfgPolicy(t *rapid.T, label string) cfgPolicy {
	p := cfgPolicy{kind: rapid.SampledFrom([]string{"allow", "deny", "prefix", "prefix", "prefix", "jmespath", "jmespath"}).Draw(t, label+"/kind")}
	if p.kind == "prefix" || p.kind == "jmespath" {
		p.names = rapid.SliceOfNDistinct(rapid.SampledFrom(names), 0, 3, rapid.ID[string]).Draw(t, label+"/names")
	}
	return p
}

func TestC18Configured(t *testing.T) {
	rapid.Check(t, func(t *rapid.T) {
		c := recConfigured.Begin()
		pol := map[string]cfgPolicy{}
		for _, k := range []string{"get", "put", "find"} {
			pol[k] = genCfgPolicy(t, k)
			c.Add(k, pol[k].String())
		}
		type op struct {
			kind string
			objs []int
			inst []string
		}
		nops := rapid.IntRange(2, 12).Draw(t, "nops")
		ops := make([]op, nops)
		for i := range ops {
			o := op{kind: rapid.SampledFrom([]string{"get", "put", "put", "find", "find"}).Draw(t, "op")}
			k := 1
			if o.kind == "find" {
				k = rapid.IntRange(1, 5).Draw(t, "k")
			}
			for x := 0; x < k; x++ {
				o.objs = append(o.objs, rapid.IntRange(0, 3).Draw(t, "obj"))
				o.inst = append(o.inst, rapid.SampledFrom(names).Draw(t, "instance"))
			}
			ops[i] = o
			c.Add(o.kind, o.objs, strings.Join(o.inst, ","))
		}
		payload := func(o int) []byte { return []byte(fmt.Sprintf("guarded object %d", o)) }
		backendCfg := &pb.BlobAccessConfiguration{Backend: &pb.BlobAccessConfiguration_Local{Local: &pb.LocalBlobAccessConfiguration{
			KeyLocationMapBackend:            &pb.LocalBlobAccessConfiguration_KeyLocationMapInMemory_{KeyLocationMapInMemory: &pb.LocalBlobAccessConfiguration_KeyLocationMapInMemory{Entries: 1021}},
			KeyLocationMapMaximumGetAttempts: 16,
			KeyLocationMapMaximumPutAttempts: 64,
			OldBlocks:                        2,
			CurrentBlocks:                    2,
			NewBlocks:                        2,
			BlocksBackend:                    &pb.LocalBlobAccessConfiguration_BlocksInMemory_{BlocksInMemory: &pb.LocalBlobAccessConfiguration_BlocksInMemory{BlockSizeBytes: 16384}},
		}}}

		var denied, allowed, mixedFind, deniedPresentGet int
		ctx := context.Background()
		err := program.RunLocal(ctx, func(ctx context.Context, siblings, deps program.Group) error {
			info, err := configuration.NewBlobAccessFromConfiguration(deps, backendCfg, configuration.NewCASBlobAccessCreator(nil, 1<<20, nil))
			if err != nil {
				return fmt.Errorf("harness/C18: NewBlobAccessFromConfiguration failed: %v", err)
			}
			// As cmd/bb_storage/main.go newScannableBlobAccess does, with
			// one deduplicating factory for all three authorizers.
			factory := authcfg.NewDeduplicatingAuthorizerFactory(authcfg.BaseAuthorizerFactory{})
			az := map[string]auth.Authorizer{}
			for _, k := range []string{"get", "put", "find"} {
				a, err := factory.NewAuthorizerFromConfiguration(pol[k].config(), deps, nil)
				if err != nil {
					return fmt.Errorf("harness/C18: authorizer configuration %s rejected: %v", pol[k], err)
				}
				az[k] = a
			}
			log := &backends.Log{}
			var raw blobstore.BlobAccess = info.BlobAccess
			guarded := blobstore.NewAuthorizingBlobAccess(backends.NewRecorder("backend", raw, log), az["get"], az["put"], az["find"])
			has := func(o int) (bool, error) {
				missing, err := raw.FindMissing(ctx, hx.Sha("", payload(o)).ToSingletonSet())
				return err == nil && missing.Empty(), err
			}
			desc := fmt.Sprintf("get=%s put=%s find=%s", pol["get"], pol["put"], pol["find"])
			deniedErr := func(what string, err error) error {
				if err == nil {
					return fmt.Errorf("C18 (configured, %s): %s succeeded although the configured authorizer denies the instance name", desc, what)
				}
				if status.Code(err) != codes.PermissionDenied {
					return fmt.Errorf("C18 (configured, %s): %s was denied by the configured authorizer, so the caller must receive the authorizer's error (PERMISSION_DENIED), got %v", desc, what, err)
				}
				if n := len(log.Snapshot()); n != 0 {
					return fmt.Errorf("C18 (configured, %s): %s was denied but the back end was contacted: %v", desc, what, log.Snapshot())
				}
				return nil
			}
			for _, o := range ops {
				log.Reset()
				switch o.kind {
				case "put":
					d := hx.Sha(o.inst[0], payload(o.objs[0]))
					before, err := has(o.objs[0])
					if err != nil {
						return err
					}
					perr := guarded.Put(ctx, d, buffer.NewCASBufferFromByteSlice(d, payload(o.objs[0]), buffer.UserProvided))
					what := fmt.Sprintf("Put under %q", o.inst[0])
					if !pol["put"].allows(o.inst[0]) {
						denied++
						if e := deniedErr(what, perr); e != nil {
							return e
						}
						after, _ := has(o.objs[0])
						if after != before {
							return fmt.Errorf("C18 (configured, %s): %s was denied but the object reached the back end", desc, what)
						}
						continue
					}
					allowed++
					if perr != nil {
						return fmt.Errorf("C18 (configured, %s): %s is allowed by the configured authorizer but failed: %v", desc, what, perr)
					}
					if after, _ := has(o.objs[0]); !after {
						return fmt.Errorf("C18 (configured, %s): %s was allowed and acknowledged but the back end does not hold the object", desc, what)
					}
				case "get":
					d := hx.Sha(o.inst[0], payload(o.objs[0]))
					present, err := has(o.objs[0])
					if err != nil {
						return err
					}
					data, gerr := guarded.Get(ctx, d).ToByteSlice(1 << 16)
					what := fmt.Sprintf("Get under %q", o.inst[0])
					if !pol["get"].allows(o.inst[0]) {
						denied++
						if present {
							deniedPresentGet++
						}
						if e := deniedErr(what, gerr); e != nil {
							return e
						}
						continue
					}
					allowed++
					if (gerr == nil) != present {
						return fmt.Errorf("C18 (configured, %s): %s is allowed; the back end holds the object: %v, but the result is %v", desc, what, present, gerr)
					}
					if gerr == nil && string(data) != string(payload(o.objs[0])) {
						return fmt.Errorf("C18 (configured, %s): %s returned %q", desc, what, data)
					}
				case "find":
					sb := digest.NewSetBuilder(0)
					allAllowed, anyAllowed := true, false
					want := map[string]bool{}
					for x, ob := range o.objs {
						d := hx.Sha(o.inst[x], payload(ob))
						sb.Add(d)
						if pol["find"].allows(o.inst[x]) {
							anyAllowed = true
						} else {
							allAllowed = false
						}
						present, err := has(ob)
						if err != nil {
							return err
						}
						want[d.GetKey(digest.KeyWithInstance)] = !present
					}
					log.Reset()
					missing, ferr := guarded.FindMissing(ctx, sb.Build())
					what := fmt.Sprintf("FindMissing over instance names %q", o.inst)
					if !allAllowed {
						denied++
						if anyAllowed {
							mixedFind++
						}
						if e := deniedErr(what, ferr); e != nil {
							return e
						}
						continue
					}
					allowed++
					if ferr != nil {
						return fmt.Errorf("C18 (configured, %s): %s is allowed for every instance name but failed: %v", desc, what, ferr)
					}
					got := map[string]bool{}
					for _, d := range missing.Items() {
						got[d.GetKey(digest.KeyWithInstance)] = true
					}
					for k, w := range want {
						if got[k] != w {
							return fmt.Errorf("C18 (configured, %s): %s is allowed; %s missing in the back end: %v, reported missing: %v", desc, what, k, w, got[k])
						}
					}
				}
			}
			return nil
		})
		if err != nil {
			t.Fatalf("%v", err)
		}
		kinds := map[string]bool{}
		for _, k := range []string{"get", "put", "find"} {
			kinds[pol[k].kind] = true
			c.Class("policy_" + pol[k].kind)
		}
		c.ClassIf(pol["get"].kind == pol["put"].kind && pol["get"].String() != pol["put"].String(), "same_policy_type_different_content")
		c.ClassIf(pol["get"].String() == pol["put"].String() || pol["get"].String() == pol["find"].String() || pol["put"].String() == pol["find"].String(), "identical_policies_deduplicated")
		c.ClassIf(denied > 0, "denied_operation")
		c.ClassIf(allowed > 0, "allowed_operation")
		c.ClassIf(mixedFind > 0, "findmissing_mixing_allowed_and_denied_names")
		c.ClassIf(deniedPresentGet > 0, "denied_get_of_present_object")
		if denied > 0 && allowed > 0 && (kinds["prefix"] || kinds["jmespath"]) {
			c.NonTrivial()
		}
		c.Sample(func() string {
			return fmt.Sprintf("get=%s put=%s find=%s ops=%d denied=%d allowed=%d mixedFind=%d", pol["get"], pol["put"], pol["find"], nops, denied, allowed, mixedFind)
		})
		c.End()
	})
}
