package c18

// TestC18JMESPath: JMESPath expression authorizers whose expression need
// not evaluate to a boolean.
//
// auth.proto: "Allow requests if a JMESPath expression returns true. The
// JMESPath expression is called against a JSON object with the following
// structure: {authenticationMetadata, files, instanceName}". Hence the
// oracle: an instance name is granted by such an authorizer iff the
// expression evaluates, without an error, to the boolean true on
// {authenticationMetadata: <metadata of the request context>,
// instanceName: <name>}. Every other result (null because the request
// carries no metadata or the metadata lacks the selected attribute, a
// string, a number, a list, an object, false, an evaluation error) is a
// denial: PERMISSION_DENIED, back end not contacted.
//
// The expressions are generated as small syntax trees (attribute
// selection, literals, ==, !=, >=, <, contains(), ||, &&, !) and
// evaluated by an evaluator of the harness on the JSON value the harness
// generated for the request's authentication metadata. The authorizers
// are built through the real pkg/auth/configuration factory or directly
// (auth.NewJMESPathExpressionAuthorizer), alone or as members of
// auth.NewAnyAuthorizer next to static members, and are used for
// Authorize batches and, behind NewAuthorizingBlobAccess, for Get,
// GetFromComposite, Put and FindMissing.

import (
	"context"
	"encoding/json"
	"fmt"
	"sort"
	"strings"
	"testing"

	"github.com/buildbarn/bb-storage/pkg/auth"
	authcfg "github.com/buildbarn/bb-storage/pkg/auth/configuration"
	"github.com/buildbarn/bb-storage/pkg/blobstore"
	"github.com/buildbarn/bb-storage/pkg/blobstore/buffer"
	"github.com/buildbarn/bb-storage/pkg/digest"
	bbjmespath "github.com/buildbarn/bb-storage/pkg/jmespath"
	auth_pb "github.com/buildbarn/bb-storage/pkg/proto/auth"
	authpb "github.com/buildbarn/bb-storage/pkg/proto/configuration/auth"
	jmespathpb "github.com/buildbarn/bb-storage/pkg/proto/configuration/jmespath"
	gojmespath "github.com/jmespath/go-jmespath"
	"google.golang.org/grpc/codes"
	"google.golang.org/grpc/status"
	"google.golang.org/protobuf/types/known/emptypb"
	"google.golang.org/protobuf/types/known/structpb"
	"pgregory.net/rapid"

	"verif/harness/backends"
	"verif/harness/hx"
	"verif/harness/vstats"
)

// ---------------------------------------------------------------------
// expression trees
// ---------------------------------------------------------------------

type jx struct {
	op   string   // path lit eq ne ge lt contains or and not
	path []string // op == path: field names; "[n]" is an index
	lit  any      // op == lit: a JSON value
	kids []*jx
}

func (e *jx) String() string {
	switch e.op {
	case "path":
		var sb strings.Builder
		for i, s := range e.path {
			if i > 0 && !strings.HasPrefix(s, "[") {
				sb.WriteByte('.')
			}
			sb.WriteString(s)
		}
		return sb.String()
	case "lit":
		b, err := json.Marshal(e.lit)
		if err != nil {
			panic(err)
		}
		return "`" + string(b) + "`"
	case "eq":
		return "(" + e.kids[0].String() + " == " + e.kids[1].String() + ")"
	case "ne":
		return "(" + e.kids[0].String() + " != " + e.kids[1].String() + ")"
	case "ge":
		return "(" + e.kids[0].String() + " >= " + e.kids[1].String() + ")"
	case "lt":
		return "(" + e.kids[0].String() + " < " + e.kids[1].String() + ")"
	case "contains":
		return "contains(" + e.kids[0].String() + ", " + e.kids[1].String() + ")"
	case "or":
		return "(" + e.kids[0].String() + " || " + e.kids[1].String() + ")"
	case "and":
		return "(" + e.kids[0].String() + " && " + e.kids[1].String() + ")"
	case "not":
		return "!(" + e.kids[0].String() + ")"
	}
	panic("jx: unknown op " + e.op)
}

// jsonFalse: the JMESPath notion of a false-like value.
func jsonFalse(v any) bool {
	switch x := v.(type) {
	case nil:
		return true
	case bool:
		return !x
	case string:
		return x == ""
	case []any:
		return len(x) == 0
	case map[string]any:
		return len(x) == 0
	}
	return false
}

func jsonEqual(a, b any) bool {
	switch x := a.(type) {
	case nil:
		return b == nil
	case bool:
		y, ok := b.(bool)
		return ok && x == y
	case float64:
		y, ok := b.(float64)
		return ok && x == y
	case string:
		y, ok := b.(string)
		return ok && x == y
	case []any:
		y, ok := b.([]any)
		if !ok || len(x) != len(y) {
			return false
		}
		for i := range x {
			if !jsonEqual(x[i], y[i]) {
				return false
			}
		}
		return true
	case map[string]any:
		y, ok := b.(map[string]any)
		if !ok || len(x) != len(y) {
			return false
		}
		for k, v := range x {
			w, ok := y[k]
			if !ok || !jsonEqual(v, w) {
				return false
			}
		}
		return true
	}
	panic(fmt.Sprintf("jsonEqual: not a JSON value: %T", a))
}

var errJXType = fmt.Errorf("invalid argument type")

// eval is the harness' evaluator of the generated expression subset.
func (e *jx) eval(in any) (any, error) {
	switch e.op {
	case "path":
		cur := in
		for _, s := range e.path {
			if strings.HasPrefix(s, "[") {
				var idx int
				fmt.Sscanf(s, "[%d]", &idx)
				l, ok := cur.([]any)
				if !ok || idx >= len(l) {
					cur = nil
				} else {
					cur = l[idx]
				}
				continue
			}
			m, ok := cur.(map[string]any)
			if !ok {
				cur = nil
				continue
			}
			cur = m[s]
		}
		return cur, nil
	case "lit":
		return e.lit, nil
	case "not":
		v, err := e.kids[0].eval(in)
		if err != nil {
			return nil, err
		}
		return jsonFalse(v), nil
	case "or":
		v, err := e.kids[0].eval(in)
		if err != nil {
			return nil, err
		}
		if jsonFalse(v) {
			return e.kids[1].eval(in)
		}
		return v, nil
	case "and":
		v, err := e.kids[0].eval(in)
		if err != nil {
			return nil, err
		}
		if jsonFalse(v) {
			return v, nil
		}
		return e.kids[1].eval(in)
	}
	l, err := e.kids[0].eval(in)
	if err != nil {
		return nil, err
	}
	r, err := e.kids[1].eval(in)
	if err != nil {
		return nil, err
	}
	switch e.op {
	case "eq":
		return jsonEqual(l, r), nil
	case "ne":
		return !jsonEqual(l, r), nil
	case "ge", "lt":
		// ordering of anything but two numbers is null
		x, ok1 := l.(float64)
		y, ok2 := r.(float64)
		if !ok1 || !ok2 {
			return nil, nil
		}
		if e.op == "ge" {
			return x >= y, nil
		}
		return x < y, nil
	case "contains":
		switch s := l.(type) {
		case string:
			if el, ok := r.(string); ok {
				return strings.Contains(s, el), nil
			}
			return false, nil
		case []any:
			for _, it := range s {
				switch it.(type) {
				case nil, bool, float64, string:
					if jsonEqual(it, r) {
						return true, nil
					}
				}
			}
			return false, nil
		}
		return nil, errJXType
	}
	panic("jx: unknown op " + e.op)
}

var jxAttrs = []string{"admin", "role", "level", "groups"}

func genJXPath(t *rapid.T, label string) *jx {
	if rapid.IntRange(0, 7).Draw(t, label+"/pathKind") == 0 {
		return &jx{op: "path", path: []string{"instanceName"}}
	}
	p := []string{"authenticationMetadata", rapid.SampledFrom([]string{"private", "private", "private", "public"}).Draw(t, label+"/part")}
	p = append(p, rapid.SampledFrom(jxAttrs).Draw(t, label+"/attr"))
	switch rapid.IntRange(0, 5).Draw(t, label+"/sub") {
	case 0:
		p = append(p, "[0]")
	case 1:
		p = append(p, "k")
	}
	return &jx{op: "path", path: p}
}

func genJXScalar(t *rapid.T, label string) *jx {
	return &jx{op: "lit", lit: rapid.SampledFrom([]any{true, true, false, nil, "a", "yes", "", 1.0, 0.0, 3.0}).Draw(t, label+"/lit")}
}

func genJX(t *rapid.T, depth int, label string) *jx {
	k := rapid.IntRange(0, 11).Draw(t, label+"/op")
	if depth == 0 && k >= 8 {
		k = k % 8
	}
	switch k {
	case 0, 1, 2:
		return genJXPath(t, label)
	case 3:
		return genJXScalar(t, label)
	case 4:
		op := rapid.SampledFrom([]string{"eq", "eq", "ne"}).Draw(t, label+"/cmp")
		return &jx{op: op, kids: []*jx{genJXPath(t, label+".l"), genJXScalar(t, label+".r")}}
	case 5:
		op := rapid.SampledFrom([]string{"ge", "lt"}).Draw(t, label+"/ord")
		return &jx{op: op, kids: []*jx{genJXPath(t, label+".l"), {op: "lit", lit: float64(rapid.IntRange(0, 3).Draw(t, label+"/bound"))}}}
	case 6:
		// contains(<attribute or literal list of names>, instanceName)
		var subj *jx
		if rapid.Bool().Draw(t, label+"/litList") {
			l := []any{}
			for _, n := range rapid.SliceOfNDistinct(rapid.SampledFrom(names), 0, 4, rapid.ID[string]).Draw(t, label+"/list") {
				l = append(l, n)
			}
			subj = &jx{op: "lit", lit: l}
		} else {
			subj = genJXPath(t, label+".s")
		}
		return &jx{op: "contains", kids: []*jx{subj, {op: "path", path: []string{"instanceName"}}}}
	case 7:
		return &jx{op: "eq", kids: []*jx{{op: "path", path: []string{"instanceName"}}, {op: "lit", lit: rapid.SampledFrom(names).Draw(t, label+"/name")}}}
	case 8, 9:
		return &jx{op: "or", kids: []*jx{genJX(t, depth-1, label+".l"), genJX(t, depth-1, label+".r")}}
	case 10:
		return &jx{op: "and", kids: []*jx{genJX(t, depth-1, label+".l"), genJX(t, depth-1, label+".r")}}
	default:
		return &jx{op: "not", kids: []*jx{genJX(t, depth-1, label+".e")}}
	}
}

// ---------------------------------------------------------------------
// request contexts
// ---------------------------------------------------------------------

type jctx struct {
	desc string
	// raw: the authentication metadata as JSON value (nil: the context
	// carries no authentication metadata at all)
	raw      map[string]any
	ctx      context.Context
	fromProt bool
}

func genAttrValue(t *rapid.T, label string) any {
	switch rapid.IntRange(0, 11).Draw(t, label) {
	case 0, 1:
		return true
	case 2:
		return false
	case 3:
		return nil
	case 4:
		return rapid.SampledFrom([]string{"true", "", "yes", "a", "admin"}).Draw(t, label+"/s")
	case 5:
		return float64(rapid.IntRange(0, 5).Draw(t, label+"/n"))
	case 6:
		return []any{}
	case 7:
		l := []any{}
		for _, n := range rapid.SliceOfN(rapid.SampledFrom(names), 1, 3).Draw(t, label+"/l") {
			l = append(l, n)
		}
		return l
	case 8:
		return []any{rapid.SampledFrom([]any{true, false, nil, 1.0, "a"}).Draw(t, label+"/l0")}
	case 9:
		return map[string]any{}
	case 10:
		return map[string]any{"k": rapid.SampledFrom([]any{true, false, nil, "a", 2.0}).Draw(t, label+"/k")}
	default:
		return rapid.SampledFrom(names).Draw(t, label+"/name")
	}
}

func genJCtx(t *rapid.T, label string) *jctx {
	jc := &jctx{}
	if rapid.IntRange(0, 4).Draw(t, label+"/none") == 0 {
		jc.desc = "no authentication metadata"
		jc.ctx = context.Background()
		return jc
	}
	jc.raw = map[string]any{}
	for _, part := range []string{"private", "public"} {
		switch rapid.IntRange(0, 5).Draw(t, label+"/"+part) {
		case 0:
			// part absent
		case 1:
			// part is not an object
			jc.raw[part] = rapid.SampledFrom([]any{"admin", true, 1.0, []any{true}}).Draw(t, label+"/"+part+"/scalar")
		default:
			m := map[string]any{}
			for _, a := range jxAttrs {
				if rapid.IntRange(0, 2).Draw(t, label+"/"+part+"/has_"+a) > 0 {
					m[a] = genAttrValue(t, label+"/"+part+"/"+a)
				}
			}
			jc.raw[part] = m
		}
	}
	b, err := json.Marshal(jc.raw)
	if err != nil {
		panic(err)
	}
	jc.desc = string(b)
	jc.fromProt = rapid.Bool().Draw(t, label+"/fromProto")
	var md *auth.AuthenticationMetadata
	if jc.fromProt {
		msg := &auth_pb.AuthenticationMetadata{}
		for part, dst := range map[string]**structpb.Value{"private": &msg.Private, "public": &msg.Public} {
			if v, ok := jc.raw[part]; ok {
				pv, err := structpb.NewValue(v)
				if err != nil {
					t.Fatalf("harness: structpb.NewValue(%v): %v", v, err)
				}
				*dst = pv
			}
		}
		md, err = auth.NewAuthenticationMetadataFromProto(msg)
	} else {
		md, err = auth.NewAuthenticationMetadataFromRaw(jc.raw)
	}
	if err != nil {
		t.Fatalf("harness: authentication metadata %s rejected: %v", jc.desc, err)
	}
	jc.ctx = auth.NewContextWithAuthenticationMetadata(context.Background(), md)
	return jc
}

// input is the documented search input for one instance name.
func (jc *jctx) input(name string) map[string]any {
	md := map[string]any{}
	if jc.raw != nil {
		md = jc.raw
	}
	return map[string]any{"authenticationMetadata": md, "instanceName": name}
}

// ---------------------------------------------------------------------
// policies: one JMESPath authorizer, or any(...) over JMESPath and
// static members
// ---------------------------------------------------------------------

type jmember struct {
	kind       string // jmespath prefix deny
	expr       *jx
	viaFactory bool
	prefixes   []string
}

type jpolicy struct {
	members []jmember
	wrap    int // 0: the single member itself; 1: any(members); 2: any(any(members[0]), members[1:]...)
}

func (m jmember) String() string {
	switch m.kind {
	case "jmespath":
		how := "direct"
		if m.viaFactory {
			how = "factory"
		}
		return fmt.Sprintf("jmespath[%s]{%s}", how, m.expr)
	case "prefix":
		return fmt.Sprintf("prefix%q", m.prefixes)
	}
	return "deny"
}

func (p jpolicy) String() string {
	parts := make([]string, 0, len(p.members))
	for _, m := range p.members {
		parts = append(parts, m.String())
	}
	switch p.wrap {
	case 0:
		return parts[0]
	case 1:
		return "any(" + strings.Join(parts, ", ") + ")"
	}
	return "any(any(" + parts[0] + "), " + strings.Join(parts[1:], ", ") + ")"
}

func genJPolicy(t *rapid.T, label string) jpolicy {
	p := jpolicy{wrap: rapid.SampledFrom([]int{0, 0, 1, 1, 2}).Draw(t, label+"/wrap")}
	n := 1
	if p.wrap > 0 {
		n = rapid.IntRange(1, 3).Draw(t, label+"/members")
	}
	for i := 0; i < n; i++ {
		l := fmt.Sprintf("%s/m%d", label, i)
		kind := "jmespath"
		if i > 0 || (p.wrap > 0 && n > 1) {
			kind = rapid.SampledFrom([]string{"jmespath", "jmespath", "prefix", "deny"}).Draw(t, l+"/kind")
		}
		m := jmember{kind: kind}
		switch kind {
		case "jmespath":
			m.expr = genJX(t, 2, l+"/x")
			m.viaFactory = rapid.Bool().Draw(t, l+"/viaFactory")
		case "prefix":
			m.prefixes = rapid.SliceOfNDistinct(rapid.SampledFrom(names[1:]), 0, 2, rapid.ID[string]).Draw(t, l+"/prefixes")
		}
		p.members = append(p.members, m)
	}
	return p
}

func (m jmember) build(t *rapid.T, factory authcfg.AuthorizerFactory) auth.Authorizer {
	var cfg *authpb.AuthorizerConfiguration
	switch m.kind {
	case "jmespath":
		if !m.viaFactory {
			x, err := bbjmespath.NewExpressionFromConfiguration(&jmespathpb.Expression{Expression: m.expr.String()}, nil, nil)
			if err != nil {
				t.Fatalf("harness: generated expression %s does not compile: %v", m.expr, err)
			}
			return auth.NewJMESPathExpressionAuthorizer(x)
		}
		cfg = &authpb.AuthorizerConfiguration{Policy: &authpb.AuthorizerConfiguration_JmespathExpression{JmespathExpression: &jmespathpb.Expression{Expression: m.expr.String()}}}
	case "prefix":
		cfg = &authpb.AuthorizerConfiguration{Policy: &authpb.AuthorizerConfiguration_InstanceNamePrefix{InstanceNamePrefix: &authpb.InstanceNameAuthorizer{AllowedInstanceNamePrefixes: m.prefixes}}}
	default:
		cfg = &authpb.AuthorizerConfiguration{Policy: &authpb.AuthorizerConfiguration_Deny{Deny: &emptypb.Empty{}}}
	}
	a, err := factory.NewAuthorizerFromConfiguration(cfg, nil, nil)
	if err != nil {
		t.Fatalf("harness: authorizer configuration %s rejected: %v", m, err)
	}
	return a
}

func (p jpolicy) build(t *rapid.T, factory authcfg.AuthorizerFactory) auth.Authorizer {
	as := make([]auth.Authorizer, 0, len(p.members))
	for _, m := range p.members {
		as = append(as, m.build(t, factory))
	}
	switch p.wrap {
	case 0:
		return as[0]
	case 1:
		return auth.NewAnyAuthorizer(as)
	}
	return auth.NewAnyAuthorizer(append([]auth.Authorizer{auth.NewAnyAuthorizer(as[:1])}, as[1:]...))
}

// resultKind names what an evaluation produced.
func resultKind(v any, err error) string {
	if err != nil {
		return "error"
	}
	switch x := v.(type) {
	case nil:
		return "null"
	case bool:
		if x {
			return "true"
		}
		return "false"
	case string:
		return "string"
	case float64:
		return "number"
	case []any:
		return "list"
	case map[string]any:
		return "object"
	}
	return fmt.Sprintf("%T", v)
}

// grants: the documented meaning of the policy for one request context
// and instance name. kinds receives what the JMESPath members produced.
func (p jpolicy) grants(t *rapid.T, jc *jctx, name string, kinds map[string]bool) bool {
	granted := false
	for _, m := range p.members {
		switch m.kind {
		case "jmespath":
			in := jc.input(name)
			v, err := m.expr.eval(in)
			// Self-check of the harness' evaluator against the JMESPath
			// library (third-party code, not part of the repository
			// under test) on the very same input.
			lv, lerr := gojmespath.Search(m.expr.String(), in)
			if (err != nil) != (lerr != nil) || (err == nil && !jsonEqual(v, lv)) {
				t.Fatalf("harness: evaluator and JMESPath library disagree on %s over %v: %v,%v vs %v,%v", m.expr, in, v, err, lv, lerr)
			}
			k := resultKind(v, err)
			kinds[k] = true
			if k == "true" {
				granted = true
			}
		case "prefix":
			pol := cfgPolicy{kind: "prefix", names: m.prefixes}
			if pol.allows(name) {
				granted = true
			}
		}
	}
	return granted
}

var recJMESPath = vstats.New("TestC18JMESPath")

func TestC18JMESPath(t *testing.T) {
	rapid.Check(t, func(t *rapid.T) {
		c := recJMESPath.Begin()
		pol := map[string]jpolicy{}
		for _, k := range []string{"get", "put", "find"} {
			pol[k] = genJPolicy(t, k)
			c.Add(k, pol[k].String())
		}
		nctx := rapid.IntRange(1, 3).Draw(t, "nctx")
		ctxs := make([]*jctx, nctx)
		for i := range ctxs {
			ctxs[i] = genJCtx(t, fmt.Sprintf("ctx%d", i))
			c.Add(ctxs[i].desc, ctxs[i].fromProt)
		}
		factory := authcfg.NewDeduplicatingAuthorizerFactory(authcfg.BaseAuthorizerFactory{})
		az := map[string]auth.Authorizer{}
		for _, k := range []string{"get", "put", "find"} {
			az[k] = pol[k].build(t, factory)
		}
		desc := fmt.Sprintf("get=%s put=%s find=%s", pol["get"], pol["put"], pol["find"])
		mem := backends.NewMem("be", digest.KeyWithInstance)
		log := &backends.Log{}
		ba := blobstore.NewAuthorizingBlobAccess(backends.NewRecorder("be", mem, log), az["get"], az["put"], az["find"])

		kinds := map[string]bool{}
		var nAllowed, nDenied, nDeniedNonBool, nMixedFind int
		var rendered []string
		denied := func(what string, jc *jctx, err error) {
			if err == nil {
				t.Fatalf("C18 (JMESPath, %s; request with %s): %s succeeded although no authorizer grants the instance name (a JMESPath authorizer grants iff its expression returns true)", desc, jc.desc, what)
			}
			if status.Code(err) != codes.PermissionDenied {
				t.Fatalf("C18 (JMESPath, %s; request with %s): %s is denied, so the caller must receive the authorizer's error (PERMISSION_DENIED), got %v", desc, jc.desc, what, err)
			}
			if calls := log.Snapshot(); len(calls) != 0 {
				t.Fatalf("C18 (JMESPath, %s; request with %s): %s is denied but the back end was contacted: %v", desc, jc.desc, what, calls)
			}
		}
		noteDenied := func(k map[string]bool) {
			nDenied++
			if k["null"] || k["string"] || k["number"] || k["list"] || k["object"] {
				nDeniedNonBool++
			}
		}

		nops := rapid.IntRange(2, 8).Draw(t, "nops")
		for i := 0; i < nops; i++ {
			log.Reset()
			kind := rapid.SampledFrom([]string{"authorize", "get", "composite", "put", "find", "find"}).Draw(t, "op")
			jc := ctxs[rapid.IntRange(0, nctx-1).Draw(t, "ctx")]
			c.Add(kind, jc.desc)
			switch kind {
			case "authorize":
				// the authorizer itself, on a batch that may repeat names
				role := rapid.SampledFrom([]string{"get", "put", "find"}).Draw(t, "role")
				batch := rapid.SliceOfN(rapid.SampledFrom(names), 1, 5).Draw(t, "batch")
				c.Add(role, strings.Join(batch, "|"))
				errs := az[role].Authorize(jc.ctx, toInstanceNames(batch))
				if len(errs) != len(batch) {
					t.Fatalf("C18 (JMESPath, %s): Authorize returned %d results for %d names", pol[role], len(errs), len(batch))
				}
				for x, name := range batch {
					k := map[string]bool{}
					want := pol[role].grants(t, jc, name, k)
					for kk := range k {
						kinds[kk] = true
					}
					if want {
						nAllowed++
						if errs[x] != nil {
							t.Fatalf("C18 (JMESPath, %s; request with %s): instance name %q is granted by a member, but Authorize returned %v", pol[role], jc.desc, name, errs[x])
						}
						continue
					}
					noteDenied(k)
					if errs[x] == nil {
						t.Fatalf("C18 (JMESPath, %s; request with %s): Authorize granted instance name %q (position %d of %q) although no member grants it: a JMESPath authorizer grants iff its expression returns true; results here: %v", pol[role], jc.desc, name, x, batch, keysOf(k))
					}
					if status.Code(errs[x]) != codes.PermissionDenied {
						t.Fatalf("C18 (JMESPath, %s; request with %s): denial of %q must be PERMISSION_DENIED, got %v", pol[role], jc.desc, name, errs[x])
					}
				}
				rendered = append(rendered, fmt.Sprintf("Authorize[%s](%q)->%v", role, batch, errs))
			case "get", "composite":
				name := rapid.SampledFrom(names).Draw(t, "name")
				data := []byte(fmt.Sprintf("obj-%d", rapid.IntRange(0, 2).Draw(t, "data")))
				d := hx.Sha(name, data)
				present := rapid.Bool().Draw(t, "present")
				c.Add(name, data, present)
				if present {
					mem.Set(d, data)
				}
				k := map[string]bool{}
				want := pol["get"].grants(t, jc, name, k)
				for kk := range k {
					kinds[kk] = true
				}
				var b buffer.Buffer
				what := fmt.Sprintf("Get under %q", name)
				if kind == "get" {
					b = ba.Get(jc.ctx, d)
				} else {
					what = fmt.Sprintf("GetFromComposite under %q", name)
					b = ba.GetFromComposite(jc.ctx, d, d, sliceNothing{})
				}
				got, err := b.ToByteSlice(1000)
				rendered = append(rendered, fmt.Sprintf("%s->%v", what, err))
				if !want {
					noteDenied(k)
					denied(what, jc, err)
					continue
				}
				nAllowed++
				if len(log.Snapshot()) == 0 {
					t.Fatalf("C18 (JMESPath, %s; request with %s): %s is granted but did not reach the back end (%v)", desc, jc.desc, what, err)
				}
				if stored, ok := mem.Peek(d); ok {
					if err != nil || string(got) != string(stored) {
						t.Fatalf("C18 (JMESPath, %s; request with %s): %s is granted: got %q,%v want %q", desc, jc.desc, what, got, err, stored)
					}
				} else if err == nil {
					t.Fatalf("C18 (JMESPath, %s): %s of an absent object returned data %q", desc, what, got)
				}
			case "put":
				name := rapid.SampledFrom(names).Draw(t, "name")
				data := []byte(fmt.Sprintf("obj-%d", rapid.IntRange(0, 2).Draw(t, "data")))
				d := hx.Sha(name, data)
				c.Add(name, data)
				k := map[string]bool{}
				want := pol["put"].grants(t, jc, name, k)
				for kk := range k {
					kinds[kk] = true
				}
				had := mem.Has(d)
				what := fmt.Sprintf("Put under %q", name)
				err := ba.Put(jc.ctx, d, buffer.NewCASBufferFromByteSlice(d, data, buffer.UserProvided))
				rendered = append(rendered, fmt.Sprintf("%s->%v", what, err))
				if !want {
					noteDenied(k)
					denied(what, jc, err)
					if mem.Has(d) != had {
						t.Fatalf("C18 (JMESPath, %s; request with %s): %s is denied but the object reached the back end", desc, jc.desc, what)
					}
					continue
				}
				nAllowed++
				if err != nil || !mem.Has(d) {
					t.Fatalf("C18 (JMESPath, %s; request with %s): %s is granted but failed: %v", desc, jc.desc, what, err)
				}
			case "find":
				n := rapid.IntRange(1, 4).Draw(t, "k")
				sb := digest.NewSetBuilder(0)
				involved := map[string]bool{}
				for x := 0; x < n; x++ {
					name := rapid.SampledFrom(names).Draw(t, "name")
					data := []byte(fmt.Sprintf("obj-%d", rapid.IntRange(0, 2).Draw(t, "data")))
					sb.Add(hx.Sha(name, data))
					involved[name] = true
					c.Add(name, data)
				}
				inv := keysOf(involved)
				k := map[string]bool{}
				allAllowed, anyAllowed := true, false
				for _, name := range inv {
					if pol["find"].grants(t, jc, name, k) {
						anyAllowed = true
					} else {
						allAllowed = false
					}
				}
				for kk := range k {
					kinds[kk] = true
				}
				set := sb.Build()
				what := fmt.Sprintf("FindMissing over instance names %q", inv)
				missing, err := ba.FindMissing(jc.ctx, set)
				rendered = append(rendered, fmt.Sprintf("%s->%v", what, err))
				if !allAllowed {
					noteDenied(k)
					if anyAllowed {
						nMixedFind++
					}
					denied(what, jc, err)
					continue
				}
				nAllowed++
				if err != nil {
					t.Fatalf("C18 (JMESPath, %s; request with %s): %s is granted for every name but failed: %v", desc, jc.desc, what, err)
				}
				wantMissing, _ := mem.FindMissing(context.Background(), set)
				if fmt.Sprint(missing.Items()) != fmt.Sprint(wantMissing.Items()) {
					t.Fatalf("C18 (JMESPath, %s): %s: got %v want %v", desc, what, missing.Items(), wantMissing.Items())
				}
			}
		}

		for k := range kinds {
			c.Class("result_" + k)
		}
		viaFactory, direct, inAny, static := false, false, false, false
		for _, p := range pol {
			for _, m := range p.members {
				if m.kind == "jmespath" {
					viaFactory = viaFactory || m.viaFactory
					direct = direct || !m.viaFactory
					inAny = inAny || p.wrap > 0
				} else if p.wrap > 0 {
					static = true
				}
			}
		}
		noMeta, notObject := false, false
		for _, jc := range ctxs {
			noMeta = noMeta || jc.raw == nil
			if jc.raw != nil {
				if _, ok := jc.raw["private"].(map[string]any); !ok {
					notObject = true
				}
			}
		}
		c.ClassIf(viaFactory, "jmespath_via_configuration_factory")
		c.ClassIf(direct, "jmespath_built_directly")
		c.ClassIf(inAny, "jmespath_inside_any")
		c.ClassIf(static, "any_with_static_member")
		c.ClassIf(noMeta, "request_without_authentication_metadata")
		c.ClassIf(notObject, "metadata_without_private_object")
		c.ClassIf(nAllowed > 0, "granted_operation")
		c.ClassIf(nDenied > 0, "denied_operation")
		c.ClassIf(nDeniedNonBool > 0, "denied_with_non_boolean_result")
		c.ClassIf(nMixedFind > 0, "findmissing_mixing_allowed_and_denied_names")
		if nAllowed > 0 && nDeniedNonBool > 0 {
			c.NonTrivial()
		}
		c.Sample(func() string {
			cs := make([]string, 0, len(ctxs))
			for _, jc := range ctxs {
				cs = append(cs, jc.desc)
			}
			return fmt.Sprintf("%s ctx=%q ops=%v", desc, cs, rendered)
		})
		c.End()
	})
}

func keysOf(m map[string]bool) []string {
	out := make([]string, 0, len(m))
	for k := range m {
		out = append(out, k)
	}
	sort.Strings(out)
	return out
}
