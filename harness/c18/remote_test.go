package c18

// TestC18RemoteConcurrent: the remote authorizer (auth.NewRemoteAuthorizer:
// one Authorize RPC per (authentication metadata, scope, instance name),
// identical requests in flight are shared, verdicts are cached until the
// expiration time the service states) under generated interleavings.
//
// Everything runs inside a testing/synctest bubble. The "authorization
// service" is a harness grpc.ClientConnInterface: every Authorize RPC
// parks at a gate. A scheduler in the bubble's root goroutine waits for
// quiescence and then performs ONE generated action: start the next
// caller, release one parked RPC with a generated outcome (allow / deny /
// no verdict / RPC failure with a generated status code / allow with an
// unusable expiration time; with or without a cache expiration time in
// the future, at this very instant or in the past), advance the harness
// clock, or cancel a caller. Callers go through NewAuthorizingBlobAccess
// (Get, Put, FindMissing; the same remote authorizer in all three roles,
// which is what the deduplicating factory gives for identical
// configurations) over a recording back end, or call Authorize directly
// with one or two instance names.
//
// Oracle (one global event sequence, virtual time):
//   - a call is granted for a request key (instance name + metadata) only
//     if an RPC for THAT key was answered with an allow verdict and either
//     the answer arrived after the call began, or the answer carried an
//     expiration time that had not passed when the call began;
//   - hence an RPC that failed (or was denied, or was cancelled) never
//     turns into a grant for the caller that issued it or for a caller
//     that waited for it;
//   - the back end sees only digests of granted calls;
//   - a call that is refused has a cause (a non-allow answer for one of
//     its keys that arrived after it began or is still cached, or its own
//     cancellation);
//   - when nothing is parked any more every caller has returned.

import (
	"context"
	"fmt"
	"strings"
	"sync"
	"testing"
	"testing/synctest"
	"time"

	"github.com/buildbarn/bb-storage/pkg/auth"
	"github.com/buildbarn/bb-storage/pkg/blobstore"
	"github.com/buildbarn/bb-storage/pkg/blobstore/buffer"
	"github.com/buildbarn/bb-storage/pkg/digest"
	"github.com/buildbarn/bb-storage/pkg/eviction"
	auth_pb "github.com/buildbarn/bb-storage/pkg/proto/auth"
	"google.golang.org/grpc"
	"google.golang.org/grpc/codes"
	"google.golang.org/grpc/status"
	"google.golang.org/protobuf/proto"
	"google.golang.org/protobuf/types/known/emptypb"
	"google.golang.org/protobuf/types/known/structpb"
	"google.golang.org/protobuf/types/known/timestamppb"
	"pgregory.net/rapid"

	"verif/harness/backends"
	"verif/harness/hx"
	"verif/harness/vstats"
)

// routcome: how a parked Authorize RPC is answered.
type routcome struct {
	Kind   int // 0 allow, 1 deny, 2 no verdict, 3 RPC failure, 4 allow with an unusable expiration time
	Code   codes.Code
	Expiry int // 0 none, 1 now+TTL, 2 exactly now, 3 one second ago
	TTL    int // in 500 ms units
}

func (o routcome) String() string {
	k := []string{"allow", "deny", "no-verdict", "rpc-failure", "allow-bad-expiry"}[o.Kind]
	if o.Kind == 3 {
		return fmt.Sprintf("%s(%s)", k, o.Code)
	}
	if o.Kind == 4 {
		return k
	}
	switch o.Expiry {
	case 1:
		return fmt.Sprintf("%s,expires+%dms", k, o.TTL*500)
	case 2:
		return k + ",expires-now"
	case 3:
		return k + ",expired"
	}
	return k + ",no-expiry"
}

func genROutcome(t *rapid.T, label string) routcome {
	return routcome{
		Kind:   rapid.SampledFrom([]int{0, 0, 0, 1, 1, 2, 3, 3, 3, 4}).Draw(t, label+"/kind"),
		Code:   rapid.SampledFrom([]codes.Code{codes.Unavailable, codes.Internal, codes.DeadlineExceeded, codes.PermissionDenied, codes.Unauthenticated}).Draw(t, label+"/code"),
		Expiry: rapid.SampledFrom([]int{0, 1, 1, 1, 2, 3}).Draw(t, label+"/expiry"),
		TTL:    rapid.IntRange(1, 6).Draw(t, label+"/ttl"),
	}
}

type rstep struct {
	Action  int // 0..4 release, 5..7 start, 8..9 advance, 10 cancel
	Pick    int
	Outcome routcome
}

func (s rstep) kind() string {
	switch {
	case s.Action <= 4:
		return "release"
	case s.Action <= 7:
		return "start"
	case s.Action <= 9:
		return "advance"
	}
	return "cancel"
}

type rcallerSpec struct {
	Op    string // get put find authorize
	Names []int  // indices into the instance name pool
	Meta  int
}

func (s rcallerSpec) String() string { return fmt.Sprintf("%s%v/meta%d", s.Op, s.Names, s.Meta) }

// answered RPC
type ranswer struct {
	key     string
	seq     int
	outcome routcome
	// expiry: the expiration time the answer carried (hasExpiry)
	hasExpiry bool
	expiry    time.Time
	cancelled bool // the RPC ended because its context was cancelled
}

type rgate struct {
	id      int
	key     string
	release chan routcome
}

type rworld struct {
	mu       sync.Mutex
	clk      *hx.VClock
	metas    []*auth_pb.AuthenticationMetadata
	seq      int
	nextGate int
	pending  []*rgate
	answers  []ranswer
	history  []string
	problems []string
}

func (w *rworld) bump() int {
	w.seq++
	return w.seq
}

func rkey(inst string, meta int) string { return fmt.Sprintf("%q/meta%d", inst, meta) }

// Invoke implements grpc.ClientConnInterface: the Authorize RPC parks
// until the scheduler answers it or its context ends.
func (w *rworld) Invoke(ctx context.Context, method string, args, reply any, opts ...grpc.CallOption) error {
	req, ok := args.(*auth_pb.AuthorizeRequest)
	if !ok || !strings.HasSuffix(method, "/Authorize") {
		w.mu.Lock()
		w.problems = append(w.problems, fmt.Sprintf("unexpected RPC %s with %T", method, args))
		w.mu.Unlock()
		return status.Error(codes.Unimplemented, "harness: unexpected RPC")
	}
	meta := -1
	for i, m := range w.metas {
		if proto.Equal(m, req.GetAuthenticationMetadata()) || (req.AuthenticationMetadata == nil && proto.Size(m) == 0) {
			meta = i
		}
	}
	w.mu.Lock()
	if meta < 0 {
		w.problems = append(w.problems, fmt.Sprintf("Authorize RPC carries authentication metadata of no caller: %v", req.GetAuthenticationMetadata()))
	}
	w.nextGate++
	g := &rgate{id: w.nextGate, key: rkey(req.GetInstanceName(), meta), release: make(chan routcome, 1)}
	w.pending = append(w.pending, g)
	w.history = append(w.history, fmt.Sprintf("rpc #%d for %s parked", g.id, g.key))
	w.mu.Unlock()

	select {
	case o := <-g.release:
		// (the scheduler has recorded the answer)
		now := w.clk.Now()
		resp := &auth_pb.AuthorizeResponse{}
		switch o.Kind {
		case 3:
			return status.Errorf(o.Code, "injected failure of authorize RPC #%d", g.id)
		case 0, 4:
			resp.Verdict = &auth_pb.AuthorizeResponse_Allow{Allow: &emptypb.Empty{}}
		case 1:
			resp.Verdict = &auth_pb.AuthorizeResponse_Deny{Deny: fmt.Sprintf("denied-by-rpc-<%d>", g.id)}
		}
		if o.Kind == 4 {
			resp.CacheExpirationTime = &timestamppb.Timestamp{Seconds: 1 << 60}
		} else if e, ok := o.expiryAt(now); ok {
			resp.CacheExpirationTime = timestamppb.New(e)
		}
		proto.Merge(reply.(proto.Message), resp)
		return nil
	case <-ctx.Done():
		w.mu.Lock()
		for i, p := range w.pending {
			if p == g {
				w.pending = append(w.pending[:i:i], w.pending[i+1:]...)
			}
		}
		w.answers = append(w.answers, ranswer{key: g.key, seq: w.bump(), cancelled: true, outcome: routcome{Kind: 3, Code: codes.Canceled}})
		w.history = append(w.history, fmt.Sprintf("rpc #%d for %s ends: context done", g.id, g.key))
		w.mu.Unlock()
		return status.FromContextError(ctx.Err()).Err()
	}
}

func (o routcome) expiryAt(now time.Time) (time.Time, bool) {
	switch o.Expiry {
	case 1:
		return now.Add(time.Duration(o.TTL) * 500 * time.Millisecond), true
	case 2:
		return now, true
	case 3:
		return now.Add(-time.Second), true
	}
	return time.Time{}, false
}

func (w *rworld) NewStream(ctx context.Context, desc *grpc.StreamDesc, method string, opts ...grpc.CallOption) (grpc.ClientStream, error) {
	return nil, status.Error(codes.Unimplemented, "harness: no streams")
}

type rcallerState struct {
	spec      rcallerSpec
	started   bool
	done      bool
	cancel    context.CancelFunc
	cancelled bool
	beginSeq  int
	beginTime time.Time
	// results
	errs []error // authorize: one per name; otherwise a single entry
	data []byte
}

var recRemote = vstats.New("TestC18RemoteConcurrent")

var rInstances = []string{"a", "b", "a/b"}

// staleWaiterKey names the observation described in verif.json (not a finding:
// the remote authorizer is outside the files C18 is anchored in).
const staleWaiterKey = "remote-waiter-reuses-stale-entry-after-failed-rpc"

func TestC18RemoteConcurrent(outer *testing.T) {
	rapid.Check(outer, func(t *rapid.T) {
		c := recRemote.Begin()
		// ---- everything is drawn before the bubble starts ----
		cacheSize := rapid.SampledFrom([]int{0, 1, 2, 2, 100, 100, 100}).Draw(t, "maximumCacheSize")
		lru := rapid.Bool().Draw(t, "lru")
		ninst := rapid.IntRange(1, 3).Draw(t, "ninstances")
		nmeta := rapid.IntRange(1, 2).Draw(t, "nmeta")
		ncallers := rapid.IntRange(2, 5).Draw(t, "ncallers")
		callers := make([]rcallerSpec, ncallers)
		for i := range callers {
			l := fmt.Sprintf("caller%d", i)
			s := rcallerSpec{Op: rapid.SampledFrom([]string{"get", "put", "find", "authorize", "authorize"}).Draw(t, l+"/op"), Meta: rapid.IntRange(0, nmeta-1).Draw(t, l+"/meta")}
			n := 1
			if s.Op == "authorize" {
				n = rapid.IntRange(1, 2).Draw(t, l+"/nnames")
			}
			for x := 0; x < n; x++ {
				s.Names = append(s.Names, rapid.IntRange(0, ninst-1).Draw(t, l+"/name"))
			}
			callers[i] = s
		}
		eager := rapid.IntRange(1, ncallers).Draw(t, "eagerStarts")
		nsteps := rapid.IntRange(0, 16).Draw(t, "nsteps")
		steps := make([]rstep, nsteps)
		for i := range steps {
			l := fmt.Sprintf("step%d", i)
			steps[i] = rstep{Action: rapid.IntRange(0, 10).Draw(t, l+"/action"), Pick: rapid.IntRange(0, 11).Draw(t, l+"/pick"), Outcome: genROutcome(t, l)}
		}
		// answers for RPCs still parked when the generated steps are used up
		tail := make([]routcome, 3)
		for i := range tail {
			tail[i] = genROutcome(t, fmt.Sprintf("tail%d", i))
		}
		attachEmpty := rapid.Bool().Draw(t, "attachEmptyMetadata")
		c.Add(cacheSize, lru, ninst, nmeta, attachEmpty, fmt.Sprint(callers), eager, fmt.Sprint(steps), fmt.Sprint(tail))

		var failure string
		var history []string
		var nStaleExcluded int
		var nWaiters, nLeaderFailedWithWaiter, nCachedGrant, nCancelled, nGranted, nRefused, nRPCs, nRetried int
		fail := func(format string, args ...interface{}) {
			if failure == "" {
				failure = fmt.Sprintf(format, args...)
			}
		}

		synctest.Test(outer, func(st *testing.T) {
			w := &rworld{clk: hx.NewVClock()}
			w.metas = append(w.metas, &auth_pb.AuthenticationMetadata{})
			if nmeta > 1 {
				w.metas = append(w.metas, &auth_pb.AuthenticationMetadata{Private: structpb.NewStringValue("bob")})
			}
			ctxs := make([]context.Context, nmeta)
			for i, m := range w.metas {
				ctxs[i] = context.Background()
				if i > 0 || attachEmpty {
					// (metadata 0 is the empty metadata: attached explicitly or not at all)
					md, err := auth.NewAuthenticationMetadataFromProto(m)
					if err != nil {
						fail("harness: metadata rejected: %v", err)
						return
					}
					ctxs[i] = auth.NewContextWithAuthenticationMetadata(ctxs[i], md)
				}
			}
			var set eviction.Set[auth.RemoteAuthorizerCacheKey]
			if lru {
				set = eviction.NewLRUSet[auth.RemoteAuthorizerCacheKey]()
			} else {
				set = eviction.NewFIFOSet[auth.RemoteAuthorizerCacheKey]()
			}
			az := auth.NewRemoteAuthorizer(w, structpb.NewStringValue("cas"), w.clk, set, cacheSize)
			mem := backends.NewMem("be", digest.KeyWithInstance)
			log := &backends.Log{}
			ba := blobstore.NewAuthorizingBlobAccess(backends.NewRecorder("be", mem, log), az, az, az)

			payload := func(i int) []byte { return []byte(fmt.Sprintf("object of caller %d", i)) }
			digestOf := func(i int) digest.Digest { return hx.Sha(rInstances[callers[i].Names[0]], payload(i)) }
			states := make([]*rcallerState, ncallers)
			for i := range states {
				states[i] = &rcallerState{spec: callers[i]}
				if callers[i].Op == "get" {
					mem.Set(digestOf(i), payload(i))
				}
			}
			keysOfCaller := func(i int) []string {
				var ks []string
				for _, n := range callers[i].Names {
					ks = append(ks, rkey(rInstances[n], callers[i].Meta))
				}
				return ks
			}
			var wg sync.WaitGroup
			isDone := func(i int) bool {
				w.mu.Lock()
				defer w.mu.Unlock()
				return states[i].done
			}

			start := func(i int) {
				s := states[i]
				ctx, cancel := context.WithCancel(ctxs[s.spec.Meta])
				w.mu.Lock()
				s.started, s.cancel = true, cancel
				s.beginSeq, s.beginTime = w.bump(), w.clk.Now()
				if cacheSize > 0 {
					for _, g := range w.pending {
						if g.key == keysOfCaller(i)[0] {
							nWaiters++
						}
					}
				}
				w.history = append(w.history, fmt.Sprintf("start c%d %s", i, s.spec))
				w.mu.Unlock()
				wg.Add(1)
				go func() {
					defer wg.Done()
					var errs []error
					var data []byte
					d := digestOf(i)
					switch s.spec.Op {
					case "get":
						var err error
						data, err = ba.Get(ctx, d).ToByteSlice(1000)
						errs = []error{err}
					case "put":
						errs = []error{ba.Put(ctx, d, buffer.NewCASBufferFromByteSlice(d, payload(i), buffer.UserProvided))}
					case "find":
						_, err := ba.FindMissing(ctx, d.ToSingletonSet())
						errs = []error{err}
					default:
						var ins []string
						for _, n := range s.spec.Names {
							ins = append(ins, rInstances[n])
						}
						errs = az.Authorize(ctx, toInstanceNames(ins))
					}
					w.mu.Lock()
					s.errs, s.data, s.done = errs, data, true
					w.history = append(w.history, fmt.Sprintf("c%d returns %v", i, errs))
					w.mu.Unlock()
				}()
			}

			release := func(g *rgate, o routcome) {
				w.mu.Lock()
				for i, p := range w.pending {
					if p == g {
						w.pending = append(w.pending[:i:i], w.pending[i+1:]...)
					}
				}
				a := ranswer{key: g.key, seq: w.bump(), outcome: o}
				if o.Kind <= 2 {
					a.expiry, a.hasExpiry = o.expiryAt(w.clk.Now())
				}
				w.answers = append(w.answers, a)
				nRPCs++
				if o.Kind == 3 && cacheSize > 0 {
					// the RPC fails: how many running callers ask for this key?
					// (two or more: the one parked in the RPC and a waiter)
					running := 0
					for i, s := range states {
						if s.started && !s.done {
							for _, k := range keysOfCaller(i) {
								if k == g.key {
									running++
									break
								}
							}
						}
					}
					if running >= 2 {
						nLeaderFailedWithWaiter++
					}
				}
				w.history = append(w.history, fmt.Sprintf("answer rpc #%d for %s: %s", g.id, g.key, o))
				w.mu.Unlock()
				g.release <- o
			}

			for i := 0; i < eager; i++ {
				synctest.Wait()
				start(i)
			}
			stepIdx, tailIdx := 0, 0
			for iter := 0; ; iter++ {
				synctest.Wait()
				w.mu.Lock()
				pend := append([]*rgate(nil), w.pending...)
				w.mu.Unlock()
				var unstarted []int
				for i, s := range states {
					if !s.started {
						unstarted = append(unstarted, i)
					}
				}
				if len(pend) == 0 && len(unstarted) == 0 {
					break
				}
				if iter > 500 {
					fail("schedule did not terminate after 500 steps: %d authorize RPCs parked", len(pend))
					break
				}
				var sp rstep
				if stepIdx < len(steps) {
					sp = steps[stepIdx]
					stepIdx++
				} else {
					sp = rstep{Action: 0, Outcome: tail[tailIdx%len(tail)]}
					tailIdx++
				}
				switch {
				case sp.kind() == "advance":
					w.mu.Lock()
					w.clk.Advance(time.Duration(1+sp.Pick%4) * 500 * time.Millisecond)
					w.bump()
					w.history = append(w.history, fmt.Sprintf("advance clock by %d ms", (1+sp.Pick%4)*500))
					w.mu.Unlock()
				case sp.kind() == "cancel":
					var running []int
					for i, s := range states {
						if s.started && !isDone(i) && !s.cancelled {
							running = append(running, i)
						}
					}
					if len(running) == 0 {
						continue
					}
					i := running[sp.Pick%len(running)]
					w.mu.Lock()
					states[i].cancelled = true
					w.bump()
					w.history = append(w.history, fmt.Sprintf("cancel c%d", i))
					w.mu.Unlock()
					states[i].cancel()
					nCancelled++
				case (sp.kind() == "start" || len(pend) == 0) && len(unstarted) > 0:
					start(unstarted[0])
				case len(pend) > 0:
					release(pend[sp.Pick%len(pend)], sp.Outcome)
				}
			}

			synctest.Wait()
			for i, s := range states {
				if s.started && !isDone(i) {
					fail("C18 (remote authorizer): caller %d (%s) is still blocked although every Authorize RPC has been answered and none is parked (a waiter must either retry or return an error)", i, s.spec)
				}
			}
			for _, s := range states {
				if s.cancel != nil {
					s.cancel()
				}
			}
			wg.Wait()

			w.mu.Lock()
			defer w.mu.Unlock()
			history = w.history
			if len(w.problems) > 0 {
				fail("C18 (remote authorizer): %s", w.problems[0])
			}
			// which digests did the back end see?
			contacted := map[int]bool{}
			for _, cl := range log.Snapshot() {
				for _, d := range cl.Digests {
					found := false
					for i := range states {
						if d == digestOf(i) {
							contacted[i] = true
							found = true
						}
					}
					if !found {
						fail("C18 (remote authorizer): the back end saw %s, which no caller asked for", d)
					}
				}
			}
			// justified(i, key): an allow answer for this key that the call may rely on
			justified := func(s *rcallerState, key string) (bool, bool) {
				fresh, cached := false, false
				for _, a := range w.answers {
					if a.key != key || (a.outcome.Kind != 0 && a.outcome.Kind != 4) {
						continue
					}
					if a.seq > s.beginSeq {
						fresh = true
					} else if a.outcome.Kind == 0 && a.hasExpiry && !a.expiry.Before(s.beginTime) {
						cached = true
					}
				}
				return fresh || cached, !fresh && cached
			}
			// staleShape(i, key): the shape of the finding staleWaiterKey: the only
			// allow answer for the key predates the call and was not (or no
			// longer) reusable when the call began, and an RPC for the key
			// FAILED while the call was running.
			staleShape := func(s *rcallerState, key string) bool {
				old, failedDuring := false, false
				for _, a := range w.answers {
					if a.key != key {
						continue
					}
					if a.outcome.Kind == 0 && a.seq < s.beginSeq {
						old = true
					}
					if a.outcome.Kind == 3 && a.seq > s.beginSeq {
						failedDuring = true
					}
				}
				return old && failedDuring && cacheSize > 0
			}
			// everAllowed(key): some Authorize RPC for this request key was
			// answered with an allow verdict at some point (expiry ignored).
			everAllowed := func(key string) bool {
				for _, a := range w.answers {
					if a.key == key && a.outcome.Kind == 0 {
						return true
					}
				}
				return false
			}
			staleNote := func(s *rcallerState, key string) string {
				if staleShape(s, key) {
					return " [shape of " + staleWaiterKey + ": an older allow answer for this key was no longer (or never) reusable when the call began, and the RPC the call waited for failed]"
				}
				return ""
			}
			// refusable(i, key): a non-allow answer for this key that the call may rely on
			refusable := func(s *rcallerState, key string) (bool, []string) {
				ok := false
				var denyTexts []string
				onlyDeny := true
				for _, a := range w.answers {
					if a.key != key || a.outcome.Kind == 0 {
						continue
					}
					applies := a.seq > s.beginSeq || (a.hasExpiry && !a.expiry.Before(s.beginTime))
					if !applies {
						continue
					}
					ok = true
					if a.outcome.Kind == 1 {
						// (the text ends in the RPC's number; the prefix is matched)
						denyTexts = append(denyTexts, "denied-by-rpc-<")
					} else {
						onlyDeny = false
					}
				}
				if !onlyDeny {
					denyTexts = nil
				}
				return ok, denyTexts
			}
			for i, s := range states {
				if !s.started || failure != "" {
					continue
				}
				keys := keysOfCaller(i)
				if s.spec.Op != "authorize" {
					key := keys[0]
					okJ, viaCache := justified(s, key)
					granted := s.errs[0] == nil
					if (granted || contacted[i]) && !okJ && everAllowed(key) {
						// Outside C18's text (see verif.json): the grant rests on
						// an allow verdict for this very request that was no
						// longer (or never) reusable. Counted, not asserted.
						nStaleExcluded++
						continue
					}
					if contacted[i] && !okJ {
						fail("C18 (remote authorizer): %s of caller %d reached the back end, but no Authorize RPC for its request key %s was answered with an allow verdict that it may use (answered after the call began, or cached and not yet expired when it began); result %v%s", s.spec.Op, i, key, s.errs[0], staleNote(s, key))
					}
					if granted && !okJ {
						fail("C18 (remote authorizer): %s of caller %d succeeded, but no Authorize RPC for its request key %s was answered with an allow verdict that it may use%s", s.spec.Op, i, key, staleNote(s, key))
					}
					if granted && !contacted[i] {
						fail("C18 (remote authorizer): %s of caller %d succeeded without reaching the back end", s.spec.Op, i)
					}
					if granted && s.spec.Op == "get" && string(s.data) != string(payload(i)) {
						fail("C18 (remote authorizer): Get of caller %d returned %q", i, s.data)
					}
					if granted {
						nGranted++
						if viaCache {
							nCachedGrant++
						}
					}
				} else {
					for x, key := range keys {
						okJ, viaCache := justified(s, key)
						if s.errs[x] == nil {
							if !okJ && everAllowed(key) {
								nStaleExcluded++
								continue
							}
							if !okJ {
								fail("C18 (remote authorizer): Authorize of caller %d granted %s (position %d), but no Authorize RPC for that request key was answered with an allow verdict that the call may use (answered after the call began, or cached and not yet expired when it began)%s", i, key, x, staleNote(s, key))
							}
							nGranted++
							if viaCache {
								nCachedGrant++
							}
						}
					}
				}
				// refusals need a cause
				for x, err := range s.errs {
					if err == nil {
						continue
					}
					nRefused++
					if s.cancelled {
						continue
					}
					ok, denyTexts := refusable(s, keys[x])
					if !ok {
						fail("C18 (remote authorizer): caller %d (%s) was refused for %s with %v although no Authorize RPC for that key was answered with anything but allow while it was waiting, nothing of the kind is cached and it was not cancelled", i, s.spec, keys[x], err)
						continue
					}
					if len(denyTexts) > 0 {
						// every applicable answer is an explicit deny verdict:
						// auth.proto: "Deny the request by returning
						// PERMISSION_DENIED with a fixed error message"
						if status.Code(err) != codes.PermissionDenied || !strings.Contains(status.Convert(err).Message(), denyTexts[0]) {
							fail("C18 (remote authorizer): caller %d (%s) was denied by the service for %s, so it must receive PERMISSION_DENIED with the service's message, got %v", i, s.spec, keys[x], err)
						}
					}
				}
			}
			// retries: more RPCs for a key than callers that could have issued them is fine; count only
			perKey := map[string]int{}
			for _, a := range w.answers {
				perKey[a.key]++
			}
			for _, n := range perKey {
				if n > 1 {
					nRetried++
				}
			}
		})

		if failure != "" {
			t.Fatalf("%s\nmaximumCacheSize=%d callers=%v\nhistory:\n  %s", failure, cacheSize, callers, strings.Join(history, "\n  "))
		}
		c.ClassIf(cacheSize == 0, "cache_disabled")
		c.ClassIf(cacheSize > 0 && cacheSize < 100, "tiny_cache")
		c.ClassIf(nWaiters > 0, "caller_started_while_rpc_for_its_key_in_flight")
		c.ClassIf(nLeaderFailedWithWaiter > 0, "rpc_failed_while_two_callers_of_its_key_running")
		c.ClassIf(nCachedGrant > 0, "grant_from_cached_verdict")
		c.ClassIf(nCancelled > 0, "with_cancellation")
		c.ClassIf(nGranted > 0, "granted")
		c.ClassIf(nRefused > 0, "refused")
		c.ClassIf(nRetried > 0, "several_rpcs_for_one_key")
		c.ClassIf(nStaleExcluded > 0, "grant_rests_on_expired_or_uncacheable_allow_counted_not_asserted")
		if nWaiters > 0 && nLeaderFailedWithWaiter > 0 {
			c.NonTrivial()
		}
		c.Sample(func() string {
			return fmt.Sprintf("cache=%d callers=%v rpcs=%d granted=%d refused=%d", cacheSize, callers, nRPCs, nGranted, nRefused)
		})
		c.End()
	})
}
