// Package bufzoo generates buffers of every kind the buffer package can
// construct, over sources with generated misbehaviour, and consumes them
// through every consumption method, recording what the consumer saw and
// what happened to the source (reads, errors emitted, Close calls,
// integrity-callback verdicts).
//
// The API is deliberately small:
//
//	src := bufzoo.GenSource(t, "src", data)      // *SourceSpec, pure data
//	con := bufzoo.GenConsume(t, "use", size)     // *ConsumeSpec, pure data (a small tree)
//	b, probe := bufzoo.Build(src)                // real buffer + probe of its source
//	res := bufzoo.Consume(b, con)                // *Result tree mirroring con
//
// Specs are plain values: a check may override any field after drawing
// (digest, backend/user, failure position, ...) and render them with
// String() for evidence samples. Nothing in here asserts anything: oracles
// live in the property checks.
//
// Every random choice is a rapid draw.
package bufzoo

import (
	"errors"
	"fmt"
	"io"
	"strings"
	"sync"

	"github.com/buildbarn/bb-storage/pkg/blobstore/buffer"
	"github.com/buildbarn/bb-storage/pkg/digest"
	"google.golang.org/grpc/codes"
	"google.golang.org/grpc/status"
	"google.golang.org/protobuf/proto"
	"google.golang.org/protobuf/types/known/wrapperspb"
	"pgregory.net/rapid"

	"verif/harness/hx"
)

// Kind names an exported buffer constructor.
type Kind int

const (
	CASByteSlice       Kind = iota // buffer.NewCASBufferFromByteSlice
	CASReader                      // buffer.NewCASBufferFromReader
	CASChunkReader                 // buffer.NewCASBufferFromChunkReader
	ValidatedByteSlice             // buffer.NewValidatedBufferFromByteSlice
	ValidatedReaderAt              // buffer.NewValidatedBufferFromReaderAt
	ProtoFromProto                 // buffer.NewProtoBufferFromProto
	ProtoFromByteSlice             // buffer.NewProtoBufferFromByteSlice
	ProtoFromReader                // buffer.NewProtoBufferFromReader
	ErrorBuffer                    // buffer.NewBufferFromError
	numKinds
)

var kindNames = [...]string{"CASByteSlice", "CASReader", "CASChunkReader", "ValidatedByteSlice",
	"ValidatedReaderAt", "ProtoFromProto", "ProtoFromByteSlice", "ProtoFromReader", "ErrorBuffer"}

func (k Kind) String() string { return kindNames[k] }

// IsCAS: constructed with a digest and validated against it.
func (k Kind) IsCAS() bool { return k == CASByteSlice || k == CASReader || k == CASChunkReader }

// IsProto: constructed from a Protobuf message (type BytesValue here).
func (k Kind) IsProto() bool {
	return k == ProtoFromProto || k == ProtoFromByteSlice || k == ProtoFromReader
}

// HasCloser: the constructor takes ownership of something that must be
// closed exactly once (reader, chunk reader, ReaderAt).
func (k Kind) HasCloser() bool {
	return k == CASReader || k == CASChunkReader || k == ValidatedReaderAt || k == ProtoFromReader
}

// Streams: the source is read incrementally and may fail / misbehave while
// being read.
func (k Kind) Streams() bool { return k.HasCloser() }

// AllKinds, CASKinds: kind pools for generators.
var (
	AllKinds = []Kind{CASByteSlice, CASReader, CASChunkReader, ValidatedByteSlice, ValidatedReaderAt,
		ProtoFromProto, ProtoFromByteSlice, ProtoFromReader, ErrorBuffer}
	CASKinds    = []Kind{CASByteSlice, CASReader, CASChunkReader}
	StreamKinds = []Kind{CASReader, CASChunkReader}
)

// Mutation is how the bytes the source delivers differ from SourceSpec.Data.
type Mutation int

const (
	MutNone     Mutation = iota
	MutTruncate          // early EOF: only Data[:MutArg] is delivered
	MutTrailing          // Data followed by Extra
	MutFlip              // Data with byte MutArg xor-ed with 0x01 (len>0)
)

var mutNames = [...]string{"none", "truncate", "trailing", "flip"}

func (m Mutation) String() string { return mutNames[m] }

// SourceSpec describes one buffer and the behaviour of its source.
type SourceSpec struct {
	Kind Kind
	// Data is the content the buffer is supposed to hold; Stream() is
	// what the source really delivers.
	Data   []byte
	Mut    Mutation
	MutArg int
	Extra  []byte
	// Digest is the stated digest for CAS kinds. The zero value means
	// SHA-256 of Data under instance name "zoo".
	Digest digest.Digest
	// Backend selects buffer.BackendProvided(probe callback) instead of
	// buffer.UserProvided.
	Backend bool
	// Chunks are the sizes of the successive reads (reader: upper bound
	// for the bytes returned by the i-th Read; chunk reader: size of the
	// i-th chunk; 0 = empty read / empty chunk). When exhausted the
	// source returns as much as it can. Ignored by ReaderAt and slices.
	Chunks []int
	// EOFWithData: a reader's final read returns (n, io.EOF) instead of
	// (n, nil) followed by (0, io.EOF).
	EOFWithData bool
	// TrailingEmpty: a chunk reader emits this many empty chunks after
	// the data and before io.EOF.
	TrailingEmpty int
	// FailAt >= 0: after exactly FailAt bytes of Stream() the source
	// returns FailErr() instead of data or EOF (sticky). FailAt must be
	// <= len(Stream()). -1: never.
	FailAt int
	// FailWithData: a reader returns the error together with the last
	// bytes before FailAt, as (n>0, err). Only if FailAt > 0.
	FailWithData bool
	FailCode     codes.Code // codes.OK: a plain errors.New error
	FailMsg      string
	// Err is the error of an ErrorBuffer.
	Err error
	// Deriv: decoration steps Build applies to the constructed buffer, in
	// order (see derive.go). Empty: the constructor's buffer as it is.
	Deriv []DerivStep
}

// Stream returns the bytes the source delivers if read to the end without
// failure. For proto kinds this is the marshaled BytesValue{Data} after
// mutation.
func (s *SourceSpec) Stream() []byte {
	base := s.Data
	if s.Kind.IsProto() {
		base = MarshalPayload(s.Data)
	}
	switch s.Mut {
	case MutTruncate:
		return append([]byte(nil), base[:s.MutArg]...)
	case MutTrailing:
		return append(append([]byte(nil), base...), s.Extra...)
	case MutFlip:
		out := append([]byte(nil), base...)
		out[s.MutArg] ^= 0x01
		return out
	}
	return append([]byte(nil), base...)
}

// Available is the number of stream bytes the source hands out before it
// ends or fails.
func (s *SourceSpec) Available() int {
	if s.FailAt >= 0 {
		return s.FailAt
	}
	return len(s.Stream())
}

// FailErr is the error the source emits at FailAt (nil if it never fails).
// Every call returns an equal error (same code and message; compare with SameError).
func (s *SourceSpec) FailErr() error {
	if s.FailAt < 0 {
		return nil
	}
	return MkErr(s.FailCode, s.FailMsg)
}

// StatedDigest resolves the default.
func (s *SourceSpec) StatedDigest() digest.Digest {
	if s.Digest == (digest.Digest{}) {
		return hx.Sha("zoo", s.Data)
	}
	return s.Digest
}

// Layout returns the chunk sizes the source emits when every read is large
// enough (reader kinds: when the consumer's p never limits a read), up to
// the end of the stream or FailAt. ReaderAt and slice kinds: one chunk.
func (s *SourceSpec) Layout() []int {
	total := s.Available()
	if s.Kind != CASReader && s.Kind != CASChunkReader && s.Kind != ProtoFromReader {
		return []int{total}
	}
	var out []int
	pos := 0
	for _, c := range s.Chunks {
		if pos >= total {
			break
		}
		if c > total-pos {
			c = total - pos
		}
		out = append(out, c)
		pos += c
	}
	if pos < total {
		out = append(out, total-pos)
	}
	return out
}

func (s *SourceSpec) String() string {
	if len(s.Deriv) > 0 {
		return s.baseString() + " -> " + s.derivString()
	}
	return s.baseString()
}

func (s *SourceSpec) baseString() string {
	var sb strings.Builder
	fmt.Fprintf(&sb, "%s", s.Kind)
	if s.Kind == ErrorBuffer {
		fmt.Fprintf(&sb, "(%v)", s.Err)
		return sb.String()
	}
	fmt.Fprintf(&sb, "{data=%dB", len(s.Data))
	if s.Mut != MutNone {
		fmt.Fprintf(&sb, " mut=%s@%d+%d", s.Mut, s.MutArg, len(s.Extra))
	}
	if s.Kind.IsCAS() {
		d := s.StatedDigest()
		h := d.GetHashString()
		if len(h) > 8 {
			h = h[:8]
		}
		fmt.Fprintf(&sb, " digest=%s:%s../%d", d.GetDigestFunction().GetEnumValue(), h, d.GetSizeBytes())
		if s.Backend {
			sb.WriteString(" backend")
		} else {
			sb.WriteString(" user")
		}
	}
	if s.Kind.Streams() {
		fmt.Fprintf(&sb, " chunks=%s", renderChunks(s.Chunks))
		if s.EOFWithData {
			sb.WriteString(" eofWithData")
		}
		if s.TrailingEmpty > 0 {
			fmt.Fprintf(&sb, " trailingEmpty=%d", s.TrailingEmpty)
		}
		if s.FailAt >= 0 {
			fmt.Fprintf(&sb, " failAt=%d(%s,%q", s.FailAt, s.FailCode, s.FailMsg)
			if s.FailWithData {
				sb.WriteString(",withData")
			}
			sb.WriteString(")")
		}
	}
	sb.WriteString("}")
	return sb.String()
}

// renderChunks prints runs of equal sizes as "4x257".
func renderChunks(cs []int) string {
	var parts []string
	for i := 0; i < len(cs); {
		j := i
		for j < len(cs) && cs[j] == cs[i] {
			j++
		}
		if j-i >= 3 {
			parts = append(parts, fmt.Sprintf("%dx%d", cs[i], j-i))
		} else {
			for k := i; k < j; k++ {
				parts = append(parts, fmt.Sprint(cs[k]))
			}
		}
		i = j
	}
	return "[" + strings.Join(parts, " ") + "]"
}

// Hash feeds the spec into a vstats case hash.
func (s *SourceSpec) Hash(add func(...interface{})) {
	add(int(s.Kind), s.Data, int(s.Mut), s.MutArg, s.Extra, s.Backend, s.EOFWithData, s.TrailingEmpty,
		s.FailAt, s.FailWithData, int(s.FailCode), s.FailMsg)
	add(len(s.Chunks))
	for _, c := range s.Chunks {
		add(c)
	}
	if s.Kind.IsCAS() {
		add(s.StatedDigest().String())
	}
	if s.Err != nil {
		add(s.Err.Error())
	}
	if len(s.Deriv) > 0 {
		s.derivHash(add)
	}
}

// MkErr builds a source/handler/task error: a gRPC status error, or a plain
// error for codes.OK.
func MkErr(code codes.Code, msg string) error {
	if code == codes.OK {
		if msg == io.ErrUnexpectedEOF.Error() {
			// The sentinel itself: what e.g. a decompressor returns for
			// a truncated stream. It is a source I/O error like any other.
			return io.ErrUnexpectedEOF
		}
		return errors.New(msg)
	}
	return status.Error(code, msg)
}

// SameError: same status code and message ("passed through unchanged").
func SameError(a, b error) bool {
	if a == nil || b == nil {
		return a == b
	}
	if a == b {
		return true
	}
	sa, oka := status.FromError(a)
	sb, okb := status.FromError(b)
	if oka != okb {
		return false
	}
	if !oka {
		return a.Error() == b.Error()
	}
	return sa.Code() == sb.Code() && sa.Message() == sb.Message()
}

// MarshalPayload is the wire form of the message proto kinds hold:
// wrapperspb.BytesValue{Value: payload}.
func MarshalPayload(payload []byte) []byte {
	out, err := proto.MarshalOptions{Deterministic: true}.Marshal(&wrapperspb.BytesValue{Value: payload})
	if err != nil {
		panic(err)
	}
	return out
}

// ---------------------------------------------------------------------
// Probe

// ReadEvent is one Read/ReadAt call on a source.
type ReadEvent struct {
	Off int // stream offset the call started at
	N   int // bytes returned
	Err error
}

// Probe observes the source of one built buffer. All fields are read
// through the accessor methods (sources may be used from two goroutines
// when a buffer was CloneStream()ed).
type Probe struct {
	Spec *SourceSpec
	// Log, if non-nil, receives "emit" events in global order (shared
	// between the probes and handlers of one case).
	Log *EventLog
	ID  int

	mu             sync.Mutex
	closes         int
	reads          []ReadEvent
	emitted        int // how often the source returned its FailErr
	readAfterClose int
	integrity      []bool

	side side // by-products of SourceSpec.Deriv (derive.go)
}

// Closes is the number of Close calls the source received.
func (p *Probe) Closes() int { p.mu.Lock(); defer p.mu.Unlock(); return p.closes }

// Reads returns the read calls made on the source so far.
func (p *Probe) Reads() []ReadEvent {
	p.mu.Lock()
	defer p.mu.Unlock()
	return append([]ReadEvent(nil), p.reads...)
}

// BytesRead is the furthest stream offset handed out by the source.
func (p *Probe) BytesRead() int {
	p.mu.Lock()
	defer p.mu.Unlock()
	m := 0
	for _, e := range p.reads {
		if e.Off+e.N > m {
			m = e.Off + e.N
		}
	}
	return m
}

// Emitted is the number of times the source returned its failure.
func (p *Probe) Emitted() int { p.mu.Lock(); defer p.mu.Unlock(); return p.emitted }

// ReadAfterClose counts calls made on the source after Close.
func (p *Probe) ReadAfterClose() int { p.mu.Lock(); defer p.mu.Unlock(); return p.readAfterClose }

// Integrity returns the verdicts the DataIntegrityCallback received.
func (p *Probe) Integrity() []bool {
	p.mu.Lock()
	defer p.mu.Unlock()
	return append([]bool(nil), p.integrity...)
}

func (p *Probe) onIntegrity(ok bool) {
	p.mu.Lock()
	p.integrity = append(p.integrity, ok)
	p.mu.Unlock()
}

func (p *Probe) record(off, n int, err error, isFail bool) {
	// caller holds p.mu
	p.reads = append(p.reads, ReadEvent{Off: off, N: n, Err: err})
	if isFail {
		p.emitted++
		if p.Log != nil && p.emitted == 1 {
			p.Log.Add(Event{What: "emit", Who: p.ID, Err: err})
		}
	}
}

// Event / EventLog: a global order of error emissions, handler calls.
type Event struct {
	What string // "emit" (source returned its failure for the first time), "onerror", "done"
	Who  int
	Err  error
}

type EventLog struct {
	mu sync.Mutex
	ev []Event
}

func (l *EventLog) Add(e Event) { l.mu.Lock(); l.ev = append(l.ev, e); l.mu.Unlock() }
func (l *EventLog) Events() []Event {
	l.mu.Lock()
	defer l.mu.Unlock()
	return append([]Event(nil), l.ev...)
}

// ---------------------------------------------------------------------
// Sources

type srcBase struct {
	p      *Probe
	stream []byte
	chunks []int
	ci     int
	pos    int
	failed bool
	closed bool
}

func (s *srcBase) nextChunk() (int, bool) {
	if s.ci < len(s.chunks) {
		c := s.chunks[s.ci]
		s.ci++
		return c, true
	}
	return 0, false
}

type srcReader struct{ srcBase }

func (s *srcReader) Read(p []byte) (int, error) {
	pr := s.p
	pr.mu.Lock()
	defer pr.mu.Unlock()
	if s.closed {
		pr.readAfterClose++
	}
	spec := pr.Spec
	ferr := spec.FailErr()
	if s.failed || (spec.FailAt >= 0 && s.pos >= spec.FailAt) {
		s.failed = true
		pr.record(s.pos, 0, ferr, true)
		return 0, ferr
	}
	if s.pos >= len(s.stream) {
		pr.record(s.pos, 0, io.EOF, false)
		return 0, io.EOF
	}
	n := len(p)
	if c, ok := s.nextChunk(); ok && c < n {
		n = c
	}
	if rem := len(s.stream) - s.pos; n > rem {
		n = rem
	}
	if spec.FailAt >= 0 && s.pos+n > spec.FailAt {
		n = spec.FailAt - s.pos
	}
	off := s.pos
	copy(p, s.stream[s.pos:s.pos+n])
	s.pos += n
	if spec.FailAt >= 0 && spec.FailWithData && n > 0 && s.pos == spec.FailAt {
		s.failed = true
		pr.record(off, n, ferr, true)
		return n, ferr
	}
	if spec.EOFWithData && spec.FailAt < 0 && s.pos == len(s.stream) && len(p) > 0 {
		pr.record(off, n, io.EOF, false)
		return n, io.EOF
	}
	pr.record(off, n, nil, false)
	return n, nil
}

func (s *srcReader) Close() error {
	s.p.mu.Lock()
	s.p.closes++
	s.closed = true
	s.p.mu.Unlock()
	return nil
}

type srcChunkReader struct {
	srcBase
	trailing int
}

func (s *srcChunkReader) Read() ([]byte, error) {
	pr := s.p
	pr.mu.Lock()
	defer pr.mu.Unlock()
	if s.closed {
		pr.readAfterClose++
	}
	spec := pr.Spec
	if s.failed || (spec.FailAt >= 0 && s.pos >= spec.FailAt) {
		s.failed = true
		ferr := spec.FailErr()
		pr.record(s.pos, 0, ferr, true)
		return nil, ferr
	}
	if s.pos >= len(s.stream) {
		if s.trailing > 0 {
			s.trailing--
			pr.record(s.pos, 0, nil, false)
			return []byte{}, nil
		}
		pr.record(s.pos, 0, io.EOF, false)
		return nil, io.EOF
	}
	n := len(s.stream) - s.pos
	if c, ok := s.nextChunk(); ok && c < n {
		n = c
	}
	if spec.FailAt >= 0 && s.pos+n > spec.FailAt {
		n = spec.FailAt - s.pos
	}
	off := s.pos
	chunk := append([]byte{}, s.stream[s.pos:s.pos+n]...)
	s.pos += n
	pr.record(off, n, nil, false)
	return chunk, nil
}

func (s *srcChunkReader) Close() {
	s.p.mu.Lock()
	s.p.closes++
	s.closed = true
	s.p.mu.Unlock()
}

// srcReaderAt honours the io.ReaderAt contract: full reads, (n, io.EOF) at
// the end; a read that touches a byte at or beyond FailAt returns the bytes
// before FailAt and the failure.
type srcReaderAt struct{ srcBase }

func (s *srcReaderAt) ReadAt(p []byte, off int64) (int, error) {
	pr := s.p
	pr.mu.Lock()
	defer pr.mu.Unlock()
	if s.closed {
		pr.readAfterClose++
	}
	if off < 0 {
		err := status.Error(codes.InvalidArgument, "zoo ReaderAt: negative offset")
		pr.record(0, 0, err, false)
		return 0, err
	}
	spec := pr.Spec
	o := int(off)
	if off > int64(len(s.stream)) {
		o = len(s.stream)
	}
	n := copy(p, s.stream[o:])
	if spec.FailAt >= 0 && o+len(p) > spec.FailAt {
		// (also when the range reaches beyond the end: failure wins)
		k := spec.FailAt - o
		if k < 0 {
			k = 0
		}
		if k > n {
			k = n
		}
		ferr := spec.FailErr()
		pr.record(o, k, ferr, true)
		return k, ferr
	}
	if n < len(p) {
		pr.record(o, n, io.EOF, false)
		return n, io.EOF
	}
	pr.record(o, n, nil, false)
	return n, nil
}

func (s *srcReaderAt) Close() error {
	s.p.mu.Lock()
	s.p.closes++
	s.closed = true
	s.p.mu.Unlock()
	return nil
}

// ---------------------------------------------------------------------
// Build

// Build constructs the real buffer described by spec through the exported
// constructor, plus the probe observing its source.
func Build(spec *SourceSpec) (buffer.Buffer, *Probe) {
	return BuildLogged(spec, nil, 0)
}

// BuildLogged is Build with a shared event log and an id for the probe.
func BuildLogged(spec *SourceSpec, log *EventLog, id int) (buffer.Buffer, *Probe) {
	b, pr := buildBase(spec, log, id)
	if len(spec.Deriv) > 0 {
		b = applyDerivs(b, spec, pr)
	}
	return b, pr
}

func buildBase(spec *SourceSpec, log *EventLog, id int) (buffer.Buffer, *Probe) {
	pr := &Probe{Spec: spec, Log: log, ID: id}
	src := buffer.UserProvided
	if spec.Backend {
		src = buffer.BackendProvided(pr.onIntegrity)
	}
	stream := spec.Stream()
	base := srcBase{p: pr, stream: stream, chunks: spec.Chunks}
	switch spec.Kind {
	case CASByteSlice:
		return buffer.NewCASBufferFromByteSlice(spec.StatedDigest(), stream, src), pr
	case CASReader:
		return buffer.NewCASBufferFromReader(spec.StatedDigest(), &srcReader{base}, src), pr
	case CASChunkReader:
		return buffer.NewCASBufferFromChunkReader(spec.StatedDigest(), &srcChunkReader{srcBase: base, trailing: spec.TrailingEmpty}, src), pr
	case ValidatedByteSlice:
		return buffer.NewValidatedBufferFromByteSlice(stream), pr
	case ValidatedReaderAt:
		return buffer.NewValidatedBufferFromReaderAt(&srcReaderAt{base}, int64(len(stream))), pr
	case ProtoFromProto:
		return buffer.NewProtoBufferFromProto(&wrapperspb.BytesValue{Value: append([]byte(nil), spec.Data...)}, src), pr
	case ProtoFromByteSlice:
		return buffer.NewProtoBufferFromByteSlice(&wrapperspb.BytesValue{}, stream, src), pr
	case ProtoFromReader:
		return buffer.NewProtoBufferFromReader(&wrapperspb.BytesValue{}, &srcReader{base}, src), pr
	case ErrorBuffer:
		return buffer.NewBufferFromError(spec.Err), pr
	}
	panic("bufzoo: unknown kind")
}

// ---------------------------------------------------------------------
// Source generator

// SourceOpts narrows GenSourceWith.
type SourceOpts struct {
	Kinds       []Kind // default AllKinds
	NoMutation  bool   // the stream is always exactly Data
	NoFailure   bool   // the source never fails
	FlipOnly    bool   // mutations restricted to MutFlip (same length)
	FailureBias int    // 0..100: approximate probability (%) that a streaming source fails, in steps of 10; default 30
}

var failCodes = []codes.Code{codes.Unavailable, codes.Internal, codes.InvalidArgument, codes.DataLoss,
	codes.NotFound, codes.DeadlineExceeded, codes.OK}

// GenSource draws a source of any kind for the given content.
func GenSource(t *rapid.T, label string, data []byte) *SourceSpec {
	return GenSourceWith(t, label, data, SourceOpts{})
}

// GenSourceWith draws a source with restrictions. The Digest field is left
// zero (= true SHA-256 digest of data); callers state other digests by
// assigning it.
func GenSourceWith(t *rapid.T, label string, data []byte, o SourceOpts) *SourceSpec {
	kinds := o.Kinds
	if len(kinds) == 0 {
		kinds = AllKinds
	}
	s := &SourceSpec{Data: data, FailAt: -1}
	s.Kind = kinds[rapid.IntRange(0, len(kinds)-1).Draw(t, label+"/kind")]
	if s.Kind == ErrorBuffer {
		s.Err = MkErr(failCodes[rapid.IntRange(0, len(failCodes)-1).Draw(t, label+"/errcode")], label+"-error-buffer")
		return s
	}
	s.Backend = rapid.Bool().Draw(t, label+"/backend")
	base := len(data)
	if s.Kind.IsProto() {
		base = len(MarshalPayload(data))
	}
	if !o.NoMutation && s.Kind != ProtoFromProto {
		m := rapid.IntRange(0, 9).Draw(t, label+"/mut")
		switch {
		case m <= 4:
		case m <= 6 && base > 0:
			s.Mut = MutFlip
			// bias towards the very end: the last chunk is the interesting one
			if rapid.IntRange(0, 2).Draw(t, label+"/fliplast") == 0 {
				s.MutArg = base - 1 - rapid.IntRange(0, min(3, base-1)).Draw(t, label+"/flipback")
			} else {
				s.MutArg = rapid.IntRange(0, base-1).Draw(t, label+"/flipat")
			}
		case m == 7 && base > 0 && !o.FlipOnly:
			s.Mut = MutTruncate
			if rapid.Bool().Draw(t, label+"/truncshort") {
				s.MutArg = base - 1 - rapid.IntRange(0, min(2, base-1)).Draw(t, label+"/truncback")
			} else {
				s.MutArg = rapid.IntRange(0, base-1).Draw(t, label+"/truncat")
			}
		case m >= 8 && !o.FlipOnly:
			s.Mut = MutTrailing
			s.Extra = rapid.SliceOfN(rapid.Byte(), 1, 5).Draw(t, label+"/extra")
		}
	}
	total := len(s.Stream())
	if s.Kind == CASReader || s.Kind == CASChunkReader || s.Kind == ProtoFromReader {
		s.Chunks = genChunks(t, label+"/chunks", total)
		if s.Kind == CASChunkReader {
			if rapid.IntRange(0, 3).Draw(t, label+"/trailingEmpty?") == 0 {
				s.TrailingEmpty = rapid.IntRange(1, 3).Draw(t, label+"/trailingEmpty")
			}
		} else {
			s.EOFWithData = rapid.Bool().Draw(t, label+"/eofWithData")
		}
	}
	bias := o.FailureBias
	if bias == 0 {
		bias = 30
	}
	// rapid's integer draws favour small values: decide on the upper end of
	// a small range, which is close to uniform.
	if s.Kind.Streams() && !o.NoFailure && rapid.IntRange(0, 9).Draw(t, label+"/fails?") >= 10-(bias+5)/10 {
		GenFailure(t, label, s)
	}
	return s
}

// GenFailure makes a streaming source fail at a drawn position (biased
// towards chunk-interior positions, 0 and the very end).
func GenFailure(t *rapid.T, label string, s *SourceSpec) {
	total := len(s.Stream())
	switch rapid.IntRange(0, 5).Draw(t, label+"/failpos") {
	case 0:
		s.FailAt = 0
	case 1:
		s.FailAt = total
	default:
		s.FailAt = rapid.IntRange(0, total).Draw(t, label+"/failat")
	}
	s.FailCode = failCodes[rapid.IntRange(0, len(failCodes)-1).Draw(t, label+"/failcode")]
	s.FailMsg = fmt.Sprintf("%s-io-error@%d", label, s.FailAt)
	if rapid.IntRange(0, 5).Draw(t, label+"/failSentinel") == 0 {
		s.FailCode, s.FailMsg = codes.OK, io.ErrUnexpectedEOF.Error()
	}
	if (s.Kind == CASReader || s.Kind == ProtoFromReader) && s.FailAt > 0 {
		s.FailWithData = rapid.IntRange(0, 3).Draw(t, label+"/failWithData") == 0
	}
}

// genChunks draws read/chunk sizes covering a stream of total bytes: small
// sizes, empty reads, whole-stream reads, exact remainders.
func genChunks(t *rapid.T, label string, total int) []int {
	mode := rapid.IntRange(0, 5).Draw(t, label+"/mode")
	switch mode {
	case 0:
		return nil // as much as fits
	case 1:
		c := rapid.IntRange(1, 4).Draw(t, label+"/fixed")
		n := total/c + 1
		if n > 400 {
			n = 400
		}
		out := make([]int, n)
		for i := range out {
			out[i] = c
		}
		return out
	}
	var out []int
	pos := 0
	for i := 0; i < 12 && pos < total; i++ {
		var c int
		switch rapid.IntRange(0, 6).Draw(t, label+"/pick") {
		case 0:
			c = 0
		case 1:
			c = 1
		case 2:
			c = total - pos // exact remainder
		case 3:
			if total-pos > 1 {
				c = total - pos - 1 // leaves a 1-byte final chunk
			} else {
				c = 1
			}
		default:
			c = rapid.IntRange(1, max(1, total-pos)).Draw(t, label+"/size")
		}
		out = append(out, c)
		pos += c
	}
	if rapid.IntRange(0, 3).Draw(t, label+"/emptyTail") == 0 {
		out = append(out, 0) // an empty read right before the end / the rest
	}
	return out
}
