package bufzoo

import (
	"crypto/md5"
	"crypto/sha1"
	"crypto/sha256"
	"crypto/sha512"
	"encoding/hex"
	"fmt"

	remoteexecution "github.com/bazelbuild/remote-apis/build/bazel/remote/execution/v2"
	"github.com/buildbarn/bb-storage/pkg/digest"
	"github.com/buildbarn/go-sha256tree"
	"github.com/zeebo/blake3"
)

// RefHash computes the hash of data under a REv2 digest function without
// going through pkg/digest (standard library / the hash libraries
// directly), so that oracles can decide "content matches digest"
// independently of the code under test.
func RefHash(fn remoteexecution.DigestFunction_Value, data []byte) []byte {
	switch fn {
	case remoteexecution.DigestFunction_MD5:
		s := md5.Sum(data)
		return s[:]
	case remoteexecution.DigestFunction_SHA1:
		s := sha1.Sum(data)
		return s[:]
	case remoteexecution.DigestFunction_SHA256:
		s := sha256.Sum256(data)
		return s[:]
	case remoteexecution.DigestFunction_SHA384:
		s := sha512.Sum384(data)
		return s[:]
	case remoteexecution.DigestFunction_SHA512:
		s := sha512.Sum512(data)
		return s[:]
	case remoteexecution.DigestFunction_GITSHA1:
		h := sha1.New()
		fmt.Fprintf(h, "blob %d\x00", len(data))
		h.Write(data)
		return h.Sum(nil)
	case remoteexecution.DigestFunction_BLAKE3:
		s := blake3.Sum256(data)
		return s[:]
	case remoteexecution.DigestFunction_SHA256TREE:
		h := sha256tree.New(int64(len(data)))
		h.Write(data)
		return h.Sum(nil)
	}
	panic(fmt.Sprintf("bufzoo: unsupported digest function %v", fn))
}

// RefDigest builds the digest object stating (RefHash(fn, data), len(data)).
func RefDigest(instance string, fn remoteexecution.DigestFunction_Value, data []byte) digest.Digest {
	return MkDigest(instance, fn, RefHash(fn, data), int64(len(data)))
}

// MkDigest builds a digest object from parts (hash need not belong to any
// content). It panics on a malformed hash length.
func MkDigest(instance string, fn remoteexecution.DigestFunction_Value, hash []byte, size int64) digest.Digest {
	d, err := digest.MustNewFunction(instance, fn).NewDigest(hex.EncodeToString(hash), size)
	if err != nil {
		panic(err)
	}
	return d
}

// Matches decides independently whether content has exactly the size and
// hash stated by d.
func Matches(d digest.Digest, content []byte) bool {
	if d.GetSizeBytes() != int64(len(content)) {
		return false
	}
	want := RefHash(d.GetDigestFunction().GetEnumValue(), content)
	return hex.EncodeToString(want) == d.GetHashString()
}
