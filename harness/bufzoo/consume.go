package bufzoo

import (
	"fmt"
	"io"
	"strings"
	"sync"

	"github.com/buildbarn/bb-storage/pkg/blobstore/buffer"
	"google.golang.org/grpc/codes"
	"google.golang.org/protobuf/proto"
	"google.golang.org/protobuf/types/known/wrapperspb"
	"pgregory.net/rapid"
)

// Method names a Buffer method. The first seven are leaves (they consume
// the buffer); the last four are wrappers whose result is consumed by
// Next (and Next2 for the clones).
type Method int

const (
	ToByteSlice Method = iota
	ToReader
	ToChunkReader
	ReadAt
	IntoWriter
	ToProto
	Discard
	CloneCopy
	CloneStream
	WithTask
	WithErrorHandler
	numMethods
)

var methodNames = [...]string{"ToByteSlice", "ToReader", "ToChunkReader", "ReadAt", "IntoWriter", "ToProto",
	"Discard", "CloneCopy", "CloneStream", "WithTask", "WithErrorHandler"}

func (m Method) String() string { return methodNames[m] }

// IsLeaf: the method consumes the buffer.
func (m Method) IsLeaf() bool { return m <= Discard }

// ConsumeSpec is a small tree describing how a buffer is consumed.
type ConsumeSpec struct {
	Method Method
	// MaxSize: ToByteSlice, ToProto, CloneCopy.
	MaxSize int
	// ReadSizes: ToReader: len(p) of the successive Read calls; the last
	// one is repeated. All >= 1 except that ZeroFirst issues one
	// Read(p[:0]) first.
	ReadSizes []int
	ZeroFirst bool
	// CloseAfter: ToReader / ToChunkReader: >= 0 closes after that many
	// Read calls even if the stream has not ended; -1 reads to the end.
	CloseAfter int
	// Off: ToChunkReader, ReadAt (may be negative or beyond the size).
	Off int64
	// MaxChunk: ToChunkReader (>= 1).
	MaxChunk int
	// Len: ReadAt: len(p).
	Len int
	// WriterLimit: IntoWriter: >= 0 makes the writer fail with
	// WriterErr() on the write that would exceed that many bytes.
	WriterLimit int
	// TaskFails: WithTask: the task returns TaskErr().
	TaskFails bool
	// Handler: WithErrorHandler.
	Handler *HandlerSpec

	Next, Next2 *ConsumeSpec
}

// WriterErr / TaskErr: fixed recognisable errors.
func WriterErr() error { return MkErr(codes.ResourceExhausted, "zoo-writer-full") }
func TaskErr() error   { return MkErr(codes.Aborted, "zoo-task-failed") }

// ArgsValid: the arguments of a leaf are within the buffer's documented
// domain for an object of the given size (offset in [0,size], maximum size
// >= size). Wrappers: CloneCopy's maximum size.
func (c *ConsumeSpec) ArgsValid(size int64) bool {
	switch c.Method {
	case ToByteSlice, ToProto, CloneCopy:
		return int64(c.MaxSize) >= size
	case ToChunkReader, ReadAt:
		return c.Off >= 0 && c.Off <= size
	}
	return true
}

// ReadsToEnd: a leaf that, absent errors, consumes the whole stream and
// thereby observes completion.
func (c *ConsumeSpec) ReadsToEnd() bool {
	switch c.Method {
	case ToReader, ToChunkReader:
		return c.CloseAfter < 0
	case Discard:
		return false
	}
	return c.Method.IsLeaf()
}

func (c *ConsumeSpec) String() string {
	if c == nil {
		return "-"
	}
	switch c.Method {
	case ToByteSlice, ToProto:
		return fmt.Sprintf("%s(max=%d)", c.Method, c.MaxSize)
	case ToReader:
		z := ""
		if c.ZeroFirst {
			z = ",zeroFirst"
		}
		return fmt.Sprintf("ToReader(reads=%v%s,closeAfter=%d)", c.ReadSizes, z, c.CloseAfter)
	case ToChunkReader:
		return fmt.Sprintf("ToChunkReader(off=%d,max=%d,closeAfter=%d)", c.Off, c.MaxChunk, c.CloseAfter)
	case ReadAt:
		return fmt.Sprintf("ReadAt(len=%d,off=%d)", c.Len, c.Off)
	case IntoWriter:
		return fmt.Sprintf("IntoWriter(limit=%d)", c.WriterLimit)
	case Discard:
		return "Discard"
	case CloneCopy:
		return fmt.Sprintf("CloneCopy(max=%d)[%s | %s]", c.MaxSize, c.Next, c.Next2)
	case CloneStream:
		return fmt.Sprintf("CloneStream[%s | %s]", c.Next, c.Next2)
	case WithTask:
		return fmt.Sprintf("WithTask(fails=%v).%s", c.TaskFails, c.Next)
	case WithErrorHandler:
		return fmt.Sprintf("WithErrorHandler(%s).%s", c.Handler, c.Next)
	}
	return "?"
}

// Hash feeds the spec into a vstats case hash.
func (c *ConsumeSpec) Hash(add func(...interface{})) {
	if c == nil {
		add(-1)
		return
	}
	add(int(c.Method), c.MaxSize, c.ZeroFirst, c.CloseAfter, c.Off, c.MaxChunk, c.Len, c.WriterLimit, c.TaskFails)
	add(len(c.ReadSizes))
	for _, r := range c.ReadSizes {
		add(r)
	}
	if c.Handler != nil {
		c.Handler.Hash(add)
	}
	if !c.Method.IsLeaf() {
		c.Next.Hash(add)
		c.Next2.Hash(add)
	}
}

// Leaves lists the leaf specs in left-to-right order.
func (c *ConsumeSpec) Leaves() []*ConsumeSpec {
	if c == nil {
		return nil
	}
	if c.Method.IsLeaf() {
		return []*ConsumeSpec{c}
	}
	return append(c.Next.Leaves(), c.Next2.Leaves()...)
}

// Contains reports whether the tree uses the method anywhere.
func (c *ConsumeSpec) Contains(m Method) bool {
	if c == nil {
		return false
	}
	return c.Method == m || c.Next.Contains(m) || c.Next2.Contains(m)
}

// ---------------------------------------------------------------------
// Error handler

// ActionKind is what a scripted handler does on its i-th OnError call.
type ActionKind int

const (
	PassThrough ActionKind = iota // return (nil, err): the error unchanged
	Translate                     // return (nil, Err)
	Replace                       // return (Build(Part), nil)
)

// HandlerAction is one step of the script.
type HandlerAction struct {
	Kind ActionKind
	Err  error       // Translate
	Part *SourceSpec // Replace
}

// HandlerSpec scripts an ErrorHandler: Actions[i] answers the i-th OnError
// call; calls beyond the script are passed through unchanged.
type HandlerSpec struct {
	Actions []HandlerAction
}

func (h *HandlerSpec) String() string {
	if h == nil || len(h.Actions) == 0 {
		return "passthrough"
	}
	var parts []string
	for _, a := range h.Actions {
		switch a.Kind {
		case PassThrough:
			parts = append(parts, "pass")
		case Translate:
			parts = append(parts, fmt.Sprintf("translate(%v)", a.Err))
		case Replace:
			parts = append(parts, "replace("+a.Part.String()+")")
		}
	}
	return strings.Join(parts, "; ")
}

func (h *HandlerSpec) Hash(add func(...interface{})) {
	add(len(h.Actions))
	for _, a := range h.Actions {
		add(int(a.Kind))
		if a.Err != nil {
			add(a.Err.Error())
		}
		if a.Part != nil {
			a.Part.Hash(add)
		}
	}
}

// Handler is the running ErrorHandler built from a HandlerSpec.
type Handler struct {
	Spec *HandlerSpec
	Log  *EventLog

	mu             sync.Mutex
	received       []error
	returned       []error // translated error returned by the i-th call, nil when a replacement was returned
	parts          []*Probe
	done           int
	onErrAfterDone int
}

// NewHandler builds the handler; log may be nil.
func NewHandler(spec *HandlerSpec, log *EventLog) *Handler {
	if spec == nil {
		spec = &HandlerSpec{}
	}
	return &Handler{Spec: spec, Log: log}
}

// OnError implements buffer.ErrorHandler.
func (h *Handler) OnError(err error) (buffer.Buffer, error) {
	h.mu.Lock()
	defer h.mu.Unlock()
	if h.done > 0 {
		h.onErrAfterDone++
	}
	i := len(h.received)
	h.received = append(h.received, err)
	if h.Log != nil {
		h.Log.Add(Event{What: "onerror", Who: -1, Err: err})
	}
	if i < len(h.Spec.Actions) {
		a := h.Spec.Actions[i]
		switch a.Kind {
		case Translate:
			h.returned = append(h.returned, a.Err)
			return nil, a.Err
		case Replace:
			b, pr := BuildLogged(a.Part, h.Log, len(h.parts)+1)
			h.parts = append(h.parts, pr)
			h.returned = append(h.returned, nil)
			return b, nil
		}
	}
	h.returned = append(h.returned, err)
	return nil, err
}

// Done implements buffer.ErrorHandler.
func (h *Handler) Done() {
	h.mu.Lock()
	h.done++
	if h.Log != nil {
		h.Log.Add(Event{What: "done", Who: -1})
	}
	h.mu.Unlock()
}

// Received: the errors offered to OnError, in order.
func (h *Handler) Received() []error {
	h.mu.Lock()
	defer h.mu.Unlock()
	return append([]error(nil), h.received...)
}

// Returned: per OnError call the error it returned (nil: a replacement).
func (h *Handler) Returned() []error {
	h.mu.Lock()
	defer h.mu.Unlock()
	return append([]error(nil), h.returned...)
}

// Parts: probes of the replacement buffers handed out so far, in order.
func (h *Handler) Parts() []*Probe {
	h.mu.Lock()
	defer h.mu.Unlock()
	return append([]*Probe(nil), h.parts...)
}

// DoneCalls: number of Done() calls. OnErrorAfterDone: OnError calls that
// arrived after Done().
func (h *Handler) DoneCalls() int        { h.mu.Lock(); defer h.mu.Unlock(); return h.done }
func (h *Handler) OnErrorAfterDone() int { h.mu.Lock(); defer h.mu.Unlock(); return h.onErrAfterDone }

// ---------------------------------------------------------------------
// Result

// Result mirrors the ConsumeSpec tree. For a leaf:
//
//	Complete: the consumer observed successful completion of the method
//	  (ToByteSlice/ToProto/IntoWriter returned nil; ReadAt returned nil or
//	  io.EOF; the reader / chunk reader returned io.EOF and, for readers,
//	  Close() returned nil).
//	Data: the bytes the method yielded when Complete (ToProto: the
//	  deterministic re-marshaling of the returned message).
//	Err: the error the consumer received (nil when Complete, closed
//	  early, or discarded).
//	BytesSeenBeforeError: every byte handed to the consumer before the
//	  error, the early Close or completion, in order (all-or-nothing
//	  methods: what was returned next to the error; ReadAt: p[:n]).
//	Off: stream offset of the first byte of Data/BytesSeenBeforeError.
type Result struct {
	Spec                 *ConsumeSpec
	Data                 []byte
	Err                  error
	Complete             bool
	BytesSeenBeforeError []byte
	Off                  int64
	ClosedEarly          bool // reader / chunk reader closed before the end
	Discarded            bool
	Stuck                bool // the consumer loop made no progress for too long (never expected)
	Panic                interface{}
	Calls                int // Read calls made on the reader / chunk reader

	// wrappers
	Handler     *Handler // WithErrorHandler
	TaskRan     int      // WithTask: times the task function ran
	Next, Next2 *Result
}

// Leaves lists the leaf results in left-to-right order.
func (r *Result) Leaves() []*Result {
	if r == nil {
		return nil
	}
	if r.Spec.Method.IsLeaf() {
		return []*Result{r}
	}
	return append(r.Next.Leaves(), r.Next2.Leaves()...)
}

// Handlers lists the handlers of all WithErrorHandler nodes, outermost first.
func (r *Result) Handlers() []*Handler {
	if r == nil {
		return nil
	}
	var out []*Handler
	if r.Handler != nil {
		out = append(out, r.Handler)
	}
	out = append(out, r.Next.Handlers()...)
	return append(out, r.Next2.Handlers()...)
}

// FirstPanic returns the first recovered panic in the tree (nil: none).
func (r *Result) FirstPanic() interface{} {
	if r == nil {
		return nil
	}
	if r.Panic != nil {
		return r.Panic
	}
	if p := r.Next.FirstPanic(); p != nil {
		return p
	}
	return r.Next2.FirstPanic()
}

func (r *Result) String() string {
	if r == nil {
		return "-"
	}
	if !r.Spec.Method.IsLeaf() {
		s := fmt.Sprintf("%s[%s", r.Spec.Method, r.Next)
		if r.Next2 != nil {
			s += " | " + r.Next2.String()
		}
		if r.Handler != nil {
			s += fmt.Sprintf(" handler:received=%v,done=%d", r.Handler.Received(), r.Handler.DoneCalls())
		}
		return s + "]"
	}
	switch {
	case r.Complete:
		return fmt.Sprintf("%s:complete(%dB@%d)", r.Spec.Method, len(r.Data), r.Off)
	case r.Err != nil:
		return fmt.Sprintf("%s:err(%v; seen %dB@%d)", r.Spec.Method, r.Err, len(r.BytesSeenBeforeError), r.Off)
	case r.Discarded:
		return "Discard"
	}
	return fmt.Sprintf("%s:closedEarly(seen %dB@%d)", r.Spec.Method, len(r.BytesSeenBeforeError), r.Off)
}

type limitedWriter struct {
	limit int
	data  []byte
}

func (w *limitedWriter) Write(p []byte) (int, error) {
	if w.limit >= 0 && len(w.data)+len(p) > w.limit {
		k := w.limit - len(w.data)
		w.data = append(w.data, p[:k]...)
		return k, WriterErr()
	}
	w.data = append(w.data, p...)
	return len(p), nil
}

// Consume consumes b as described by spec. Both halves of a clone are
// consumed in their own goroutines (CloneStream requires it); Consume
// returns when every goroutine it started has finished. A panic in the
// code under test is recovered into Result.Panic of the node it hit.
func Consume(b buffer.Buffer, spec *ConsumeSpec) *Result {
	return consume(b, spec, nil)
}

// ConsumeLogged is Consume with a shared event log for handlers and
// replacement parts.
func ConsumeLogged(b buffer.Buffer, spec *ConsumeSpec, log *EventLog) *Result {
	return consume(b, spec, log)
}

func consume(b buffer.Buffer, spec *ConsumeSpec, log *EventLog) (res *Result) {
	res = &Result{Spec: spec}
	defer func() {
		if p := recover(); p != nil {
			res.Panic = p
		}
	}()
	switch spec.Method {
	case ToByteSlice:
		data, err := b.ToByteSlice(spec.MaxSize)
		res.BytesSeenBeforeError = data
		if err != nil {
			res.Err = err
		} else {
			res.Complete = true
			res.Data = data
		}
	case ToProto:
		m, err := b.ToProto(&wrapperspb.BytesValue{}, spec.MaxSize)
		if err != nil {
			res.Err = err
			if m != nil {
				res.BytesSeenBeforeError, _ = proto.MarshalOptions{Deterministic: true}.Marshal(m)
			}
		} else {
			data, merr := proto.MarshalOptions{Deterministic: true}.Marshal(m)
			if merr != nil {
				res.Err = merr
			} else {
				res.Complete = true
				res.Data = data
				res.BytesSeenBeforeError = data
			}
		}
	case ReadAt:
		p := make([]byte, spec.Len)
		n, err := b.ReadAt(p, spec.Off)
		res.Off = spec.Off
		if n < 0 || n > len(p) {
			res.Err = fmt.Errorf("ReadAt returned n=%d for len(p)=%d (err %v)", n, len(p), err)
			res.Stuck = true
			return res
		}
		res.BytesSeenBeforeError = p[:n]
		if err == nil || err == io.EOF {
			res.Complete = true
			res.Data = p[:n]
		} else {
			res.Err = err
		}
	case IntoWriter:
		w := &limitedWriter{limit: spec.WriterLimit}
		err := b.IntoWriter(w)
		res.BytesSeenBeforeError = w.data
		if err != nil {
			res.Err = err
		} else {
			res.Complete = true
			res.Data = w.data
		}
	case Discard:
		b.Discard()
		res.Discarded = true
	case ToReader:
		r := b.ToReader()
		var seen []byte
		eof := false
		budget := 100000
		for {
			if spec.CloseAfter >= 0 && res.Calls >= spec.CloseAfter {
				res.ClosedEarly = true
				break
			}
			size := 0
			idx := res.Calls
			if spec.ZeroFirst {
				idx--
			}
			if idx >= 0 {
				if idx >= len(spec.ReadSizes) {
					idx = len(spec.ReadSizes) - 1
				}
				size = spec.ReadSizes[idx]
			}
			p := make([]byte, size)
			n, err := r.Read(p)
			res.Calls++
			if n < 0 || n > len(p) {
				res.Stuck = true
				res.Err = fmt.Errorf("Read returned n=%d for len(p)=%d", n, len(p))
				break
			}
			seen = append(seen, p[:n]...)
			if err == io.EOF {
				eof = true
				break
			}
			if err != nil {
				res.Err = err
				break
			}
			if budget--; budget == 0 {
				res.Stuck = true
				break
			}
		}
		cerr := r.Close()
		res.BytesSeenBeforeError = seen
		if res.Err == nil && cerr != nil {
			res.Err = cerr
			res.ClosedEarly = false
		}
		if eof && res.Err == nil {
			res.Complete = true
			res.Data = seen
		}
	case ToChunkReader:
		r := b.ToChunkReader(spec.Off, spec.MaxChunk)
		res.Off = spec.Off
		var seen []byte
		eof := false
		budget := 100000
		for {
			if spec.CloseAfter >= 0 && res.Calls >= spec.CloseAfter {
				res.ClosedEarly = true
				break
			}
			chunk, err := r.Read()
			res.Calls++
			if err == io.EOF {
				eof = true
				break
			}
			if err != nil {
				res.Err = err
				break
			}
			seen = append(seen, chunk...)
			if budget--; budget == 0 {
				res.Stuck = true
				break
			}
		}
		r.Close()
		res.BytesSeenBeforeError = seen
		if eof {
			res.Complete = true
			res.Data = seen
		}
	case CloneCopy, CloneStream:
		var b1, b2 buffer.Buffer
		if spec.Method == CloneCopy {
			b1, b2 = b.CloneCopy(spec.MaxSize)
		} else {
			b1, b2 = b.CloneStream()
		}
		var wg sync.WaitGroup
		wg.Add(2)
		go func() { defer wg.Done(); res.Next = consume(b1, spec.Next, log) }()
		go func() { defer wg.Done(); res.Next2 = consume(b2, spec.Next2, log) }()
		wg.Wait()
	case WithTask:
		var mu sync.Mutex
		ran := 0
		fails := spec.TaskFails
		b2 := b.WithTask(func() error {
			mu.Lock()
			ran++
			mu.Unlock()
			if fails {
				return TaskErr()
			}
			return nil
		})
		res.Next = consume(b2, spec.Next, log)
		mu.Lock()
		res.TaskRan = ran
		mu.Unlock()
	case WithErrorHandler:
		h := NewHandler(spec.Handler, log)
		res.Handler = h
		b2 := buffer.WithErrorHandler(b, h)
		res.Next = consume(b2, spec.Next, log)
	default:
		panic("bufzoo: unknown method")
	}
	return res
}

// ---------------------------------------------------------------------
// Consumption generator

// ConsumeOpts narrows GenConsumeWith.
type ConsumeOpts struct {
	// MaxDepth: maximum number of nested wrappers (default 2).
	MaxDepth int
	// NoErrorHandler: never draw WithErrorHandler wrappers (the check
	// installs its own).
	NoErrorHandler bool
	// NoProto: never draw ToProto (content is not a BytesValue).
	NoProto bool
	// AllowTaskCloneRewrap: also draw WithTask/WithErrorHandler below a
	// clone of a buffer that has a task (the shape of finding F1,
	// casBufferWithBackgroundTask.decorateBuffer; property C15 owns it).
	AllowTaskCloneRewrap bool
	// ValidArgsOnly: offsets within [0,size], maximum sizes >= size, no
	// failing writer.
	ValidArgsOnly bool
}

// GenConsume draws a consumption tree for an object whose stated size is
// size, with the default options.
func GenConsume(t *rapid.T, label string, size int) *ConsumeSpec {
	return GenConsumeWith(t, label, size, ConsumeOpts{})
}

// GenConsumeWith draws a consumption tree.
func GenConsumeWith(t *rapid.T, label string, size int, o ConsumeOpts) *ConsumeSpec {
	if o.MaxDepth == 0 {
		o.MaxDepth = 2
	}
	return genConsume(t, label, size, o, o.MaxDepth, false, false)
}

func genMaxSize(t *rapid.T, label string, size int, o ConsumeOpts) int {
	k := rapid.IntRange(0, 9).Draw(t, label+"/max")
	switch {
	case k <= 3 || (o.ValidArgsOnly && k >= 8):
		return size
	case k <= 5:
		return size + rapid.IntRange(1, 100).Draw(t, label+"/maxplus")
	case k <= 7:
		return 1 << 20
	case k == 8 && size > 0:
		return size - 1
	case k == 9 && size > 0:
		return rapid.IntRange(0, size-1).Draw(t, label+"/maxsmall")
	}
	return size
}

func genOff(t *rapid.T, label string, size int, o ConsumeOpts) int64 {
	k := rapid.IntRange(0, 11).Draw(t, label+"/off")
	switch {
	case k <= 3:
		return 0
	case k == 4:
		return int64(size)
	case k <= 7 && size > 0:
		return int64(rapid.IntRange(0, size).Draw(t, label+"/offin"))
	case k == 8 && size > 0:
		return int64(size - 1)
	case k == 9 && !o.ValidArgsOnly:
		return int64(size + 1 + rapid.IntRange(0, 5).Draw(t, label+"/offbeyond"))
	case k == 10 && !o.ValidArgsOnly:
		return -int64(1 + rapid.IntRange(0, 3).Draw(t, label+"/offneg"))
	}
	return 0
}

func genConsume(t *rapid.T, label string, size int, o ConsumeOpts, depth int, underTask, underTaskClone bool) *ConsumeSpec {
	c := &ConsumeSpec{CloseAfter: -1, WriterLimit: -1}
	wrap := depth > 0 && rapid.IntRange(0, 9).Draw(t, label+"/wrap?") < 4
	if wrap {
		ms := []Method{CloneCopy, CloneStream, WithTask}
		if !o.NoErrorHandler {
			ms = append(ms, WithErrorHandler)
		}
		if underTaskClone && !o.AllowTaskCloneRewrap {
			ms = []Method{CloneCopy, CloneStream}
		}
		c.Method = ms[rapid.IntRange(0, len(ms)-1).Draw(t, label+"/wrapper")]
		switch c.Method {
		case CloneCopy, CloneStream:
			if c.Method == CloneCopy {
				c.MaxSize = genMaxSize(t, label, size, o)
			}
			c.Next = genConsume(t, label+".a", size, o, depth-1, underTask, underTask || underTaskClone)
			c.Next2 = genConsume(t, label+".b", size, o, depth-1, underTask, underTask || underTaskClone)
		case WithTask:
			c.TaskFails = rapid.IntRange(0, 2).Draw(t, label+"/taskFails") == 0
			c.Next = genConsume(t, label+".t", size, o, depth-1, true, underTaskClone)
		case WithErrorHandler:
			c.Handler = &HandlerSpec{} // pass-through; checks script their own
			c.Next = genConsume(t, label+".h", size, o, depth-1, underTask, underTaskClone)
		}
		return c
	}
	leaves := []Method{ToByteSlice, ToByteSlice, ToReader, ToReader, ToChunkReader, ToChunkReader, ReadAt, ReadAt, IntoWriter, Discard}
	if !o.NoProto {
		leaves = append(leaves, ToProto)
	}
	c.Method = leaves[rapid.IntRange(0, len(leaves)-1).Draw(t, label+"/leaf")]
	switch c.Method {
	case ToByteSlice, ToProto:
		c.MaxSize = genMaxSize(t, label, size, o)
	case ToReader:
		n := rapid.IntRange(1, 4).Draw(t, label+"/nreads")
		for i := 0; i < n; i++ {
			var sz int
			switch rapid.IntRange(0, 6).Draw(t, label+"/rs") {
			case 0:
				sz = 1
			case 1:
				sz = max(1, size)
			case 2:
				sz = size + 1
			case 3:
				sz = max(1, size-1)
			case 4:
				sz = 64 * 1024
			default:
				sz = rapid.IntRange(1, max(1, size+2)).Draw(t, label+"/rsz")
			}
			c.ReadSizes = append(c.ReadSizes, sz)
		}
		c.ZeroFirst = rapid.IntRange(0, 7).Draw(t, label+"/zeroFirst") == 0
		if rapid.IntRange(0, 3).Draw(t, label+"/early?") == 0 {
			c.CloseAfter = rapid.IntRange(0, 4).Draw(t, label+"/closeAfter")
		}
	case ToChunkReader:
		c.Off = genOff(t, label, size, o)
		switch rapid.IntRange(0, 4).Draw(t, label+"/mc") {
		case 0:
			c.MaxChunk = 1
		case 1:
			c.MaxChunk = max(1, size)
		case 2:
			c.MaxChunk = 64 * 1024
		default:
			c.MaxChunk = rapid.IntRange(1, max(1, size+1)).Draw(t, label+"/maxchunk")
		}
		if rapid.IntRange(0, 3).Draw(t, label+"/early?") == 0 {
			c.CloseAfter = rapid.IntRange(0, 4).Draw(t, label+"/closeAfter")
		}
	case ReadAt:
		c.Off = genOff(t, label, size, o)
		rem := size - int(c.Off)
		if rem < 0 || rem > size {
			rem = size
		}
		switch rapid.IntRange(0, 5).Draw(t, label+"/len") {
		case 0:
			c.Len = 0
		case 1:
			c.Len = rem
		case 2:
			c.Len = rem + 1
		case 3:
			c.Len = 1
		default:
			c.Len = rapid.IntRange(0, size+3).Draw(t, label+"/lenany")
		}
	case IntoWriter:
		if !o.ValidArgsOnly && size > 0 && rapid.IntRange(0, 5).Draw(t, label+"/wfail?") == 0 {
			c.WriterLimit = rapid.IntRange(0, size-1).Draw(t, label+"/wlimit")
		}
	}
	return c
}
