package bufzoo

import (
	"fmt"
	"strings"
	"sync"
	"time"

	"github.com/buildbarn/bb-storage/pkg/blobstore/buffer"
	"pgregory.net/rapid"
)

// Derived buffers: the kinds of Buffer that no constructor returns but that
// every BlobAccess decorator produces out of the constructed ones - stream
// clones (one half consumed elsewhere), clone copies, buffers that wait for
// a background task, the "replicate" shape of
// replication.LocalBlobReplicator.ReplicateSingle
//
//	b1, b2 := source.Get(d).CloneStream()
//	return b1.WithTask(func() error { return sink.Put(d, b2) })
//
// and buffers that already carry an error handler of their own.
//
// SourceSpec.Deriv lists the decoration steps; Build / BuildLogged apply
// them in order to the freshly constructed buffer. The steps' by-products
// (what the other half of a clone saw, the handlers attached on the way)
// are collected in the Probe; Probe.Wait joins the goroutines that consume
// the other halves.

// DerivKind names one decoration step.
type DerivKind int

const (
	// DerivCloneStream: b1, b2 := b.CloneStream(); b2 is consumed by a
	// goroutine of the harness as DerivStep.Sib says; b1 goes on.
	DerivCloneStream DerivKind = iota
	// DerivCloneCopy: b1, b2 := b.CloneCopy(1 MiB); b2 is consumed on the
	// spot as Sib says; b1 goes on.
	DerivCloneCopy
	// DerivTask: b.WithTask(task that succeeds).
	DerivTask
	// DerivReplicate: b1, b2 := b.CloneStream(); b1.WithTask(task that
	// consumes b2 as Sib says and succeeds) goes on.
	DerivReplicate
	// DerivOwnHandler: buffer.WithErrorHandler(b, scripted handler
	// DerivStep.Handler; nil = pass every error through unchanged).
	DerivOwnHandler
	numDerivKinds
)

var derivNames = [...]string{"cloneStream", "cloneCopy", "task", "replicate", "ownHandler"}

func (k DerivKind) String() string { return derivNames[k] }

// DerivStep is one decoration step.
type DerivStep struct {
	Kind DerivKind
	// Sib: how the other half of the clone is consumed (clone kinds).
	Sib *ConsumeSpec
	// Handler: script of the attached handler (DerivOwnHandler).
	Handler *HandlerSpec
}

func (d DerivStep) String() string {
	switch d.Kind {
	case DerivCloneStream, DerivCloneCopy, DerivReplicate:
		return fmt.Sprintf("%s(other half: %s)", d.Kind, d.Sib)
	case DerivOwnHandler:
		return fmt.Sprintf("ownHandler(%s)", d.Handler)
	}
	return d.Kind.String()
}

// DerivLabel is a short name of the decoration ("plain", "cloneStream",
// "cloneStream+task", ...), for class counters.
func (s *SourceSpec) DerivLabel() string {
	if len(s.Deriv) == 0 {
		return "plain"
	}
	var parts []string
	for _, d := range s.Deriv {
		parts = append(parts, d.Kind.String())
	}
	return strings.Join(parts, "+")
}

func (s *SourceSpec) derivString() string {
	var parts []string
	for _, d := range s.Deriv {
		parts = append(parts, d.String())
	}
	return strings.Join(parts, " -> ")
}

func (s *SourceSpec) derivHash(add func(...interface{})) {
	add(len(s.Deriv))
	for _, d := range s.Deriv {
		add(int(d.Kind))
		if d.Sib != nil {
			d.Sib.Hash(add)
		}
		if d.Handler != nil {
			d.Handler.Hash(add)
		}
	}
}

// side is the part of a Probe that belongs to the decoration steps.
type side struct {
	wg      sync.WaitGroup
	mu      sync.Mutex
	results []*Result  // what the other halves of the clones saw, in step order where known
	inner   []*Handler // handlers attached by DerivOwnHandler steps, innermost first
	taskRan int
}

// Wait blocks until the goroutines consuming the other halves of this
// buffer's clones have finished. They finish by themselves once the buffer
// handed out by Build has been consumed or discarded. The duration is a
// hang watchdog only (false: gave up waiting).
func (p *Probe) Wait(d time.Duration) bool {
	done := make(chan struct{})
	go func() { p.side.wg.Wait(); close(done) }()
	select {
	case <-done:
		return true
	case <-time.After(d):
		return false
	}
}

// Sides returns what the other halves of the clones created by the
// decoration steps saw (call after Wait).
func (p *Probe) Sides() []*Result {
	p.side.mu.Lock()
	defer p.side.mu.Unlock()
	return append([]*Result(nil), p.side.results...)
}

// Inner returns the handlers attached by DerivOwnHandler steps, innermost
// first.
func (p *Probe) Inner() []*Handler {
	p.side.mu.Lock()
	defer p.side.mu.Unlock()
	return append([]*Handler(nil), p.side.inner...)
}

func (p *Probe) addSide(r *Result) {
	p.side.mu.Lock()
	p.side.results = append(p.side.results, r)
	p.side.mu.Unlock()
}

// applyDerivs decorates the constructed buffer.
func applyDerivs(b buffer.Buffer, spec *SourceSpec, pr *Probe) buffer.Buffer {
	for _, st := range spec.Deriv {
		st := st
		switch st.Kind {
		case DerivCloneStream:
			b1, b2 := b.CloneStream()
			pr.side.wg.Add(1)
			go func() {
				defer pr.side.wg.Done()
				pr.addSide(consume(b2, st.Sib, nil))
			}()
			b = b1
		case DerivCloneCopy:
			b1, b2 := b.CloneCopy(1 << 20)
			pr.addSide(consume(b2, st.Sib, nil))
			b = b1
		case DerivTask:
			b = b.WithTask(func() error {
				pr.side.mu.Lock()
				pr.side.taskRan++
				pr.side.mu.Unlock()
				return nil
			})
		case DerivReplicate:
			b1, b2 := b.CloneStream()
			pr.side.wg.Add(1)
			b = b1.WithTask(func() error {
				defer pr.side.wg.Done()
				pr.addSide(consume(b2, st.Sib, nil))
				return nil
			})
		case DerivOwnHandler:
			h := NewHandler(st.Handler, nil)
			pr.side.mu.Lock()
			pr.side.inner = append(pr.side.inner, h)
			pr.side.mu.Unlock()
			b = buffer.WithErrorHandler(b, h)
		default:
			panic("bufzoo: unknown decoration step")
		}
	}
	return b
}

// DerivOpts narrows GenDerivs.
type DerivOpts struct {
	// Kinds: the step kinds to draw from (default: all).
	Kinds []DerivKind
	// MaxSteps: 1..3 (default 2).
	MaxSteps int
	// TranslatingHandlers: DerivOwnHandler steps may translate the error
	// (Handler = [Translate]) instead of passing it through.
	TranslatingHandlers bool
}

// GenDerivs draws 0..MaxSteps decoration steps for an object of the given
// size. The other halves of clones are consumed through any leaf method
// with valid arguments, sometimes below an error handler of their own (the
// only consumers that read a clone without asking for validation).
func GenDerivs(t *rapid.T, label string, size int, o DerivOpts) []DerivStep {
	kinds := o.Kinds
	if len(kinds) == 0 {
		kinds = []DerivKind{DerivCloneStream, DerivCloneCopy, DerivTask, DerivReplicate, DerivOwnHandler}
	}
	if o.MaxSteps == 0 {
		o.MaxSteps = 2
	}
	n := []int{0, 1, 1, 1, 1, 2, 2, 2, 3, 3}[rapid.IntRange(0, 9).Draw(t, label+"/steps")]
	if n > o.MaxSteps {
		n = o.MaxSteps
	}
	var out []DerivStep
	for i := 0; i < n; i++ {
		l := fmt.Sprintf("%s/step%d", label, i)
		st := DerivStep{Kind: kinds[rapid.IntRange(0, len(kinds)-1).Draw(t, l+"/kind")]}
		switch st.Kind {
		case DerivCloneStream, DerivCloneCopy, DerivReplicate:
			st.Sib = GenSibling(t, l+"/sib", size)
		case DerivOwnHandler:
			if o.TranslatingHandlers && rapid.IntRange(0, 2).Draw(t, l+"/translate") == 0 {
				st.Handler = &HandlerSpec{Actions: []HandlerAction{{Kind: Translate, Err: MkErr(failCodes[rapid.IntRange(0, len(failCodes)-2).Draw(t, l+"/tcode")], l+"-translated")}}}
			}
		}
		out = append(out, st)
	}
	return out
}

// GenSibling draws how the other half of a clone is consumed: a leaf with
// valid arguments (no ToProto), one time in four below a pass-through error
// handler.
func GenSibling(t *rapid.T, label string, size int) *ConsumeSpec {
	leaf := genConsume(t, label, size, ConsumeOpts{ValidArgsOnly: true, NoProto: true, NoErrorHandler: true}, 0, false, false)
	if rapid.IntRange(0, 3).Draw(t, label+"/handled") == 0 {
		return &ConsumeSpec{Method: WithErrorHandler, Handler: &HandlerSpec{}, Next: leaf, CloseAfter: -1, WriterLimit: -1}
	}
	return leaf
}

// GenLeaf draws one leaf consumption (no wrappers).
func GenLeaf(t *rapid.T, label string, size int, o ConsumeOpts) *ConsumeSpec {
	return genConsume(t, label, size, o, 0, false, false)
}
