package c17

import (
	"bytes"
	"context"
	"fmt"
	"io"
	"os"
	"sort"
	"strings"
	"testing"
	"time"

	remoteexecution "github.com/bazelbuild/remote-apis/build/bazel/remote/execution/v2"
	"github.com/buildbarn/bb-storage/pkg/blobstore"
	"github.com/buildbarn/bb-storage/pkg/blobstore/buffer"
	"github.com/buildbarn/bb-storage/pkg/blobstore/readcaching"
	"github.com/buildbarn/bb-storage/pkg/blobstore/readfallback"
	"github.com/buildbarn/bb-storage/pkg/blobstore/slicing"
	"github.com/buildbarn/bb-storage/pkg/digest"
	"github.com/buildbarn/bb-storage/pkg/eviction"
	"google.golang.org/grpc/codes"
	"google.golang.org/grpc/status"
	"google.golang.org/protobuf/encoding/prototext"
	"google.golang.org/protobuf/proto"
	"pgregory.net/rapid"

	"verif/harness/backends"
	"verif/harness/hx"
	"verif/harness/vstats"
)

func TestMain(m *testing.M) {
	rc := m.Run()
	vstats.Flush()
	os.Exit(rc)
}

var faultCodes = []codes.Code{codes.Unavailable, codes.Internal, codes.DeadlineExceeded, codes.ResourceExhausted, codes.PermissionDenied, codes.Unknown, codes.Aborted}

// ---------------------------------------------------------------------
// shared generators / helpers
// ---------------------------------------------------------------------

type object struct {
	inst string
	data []byte
	d    digest.Digest
	// msg != nil: data is the serialization of this message (a Directory,
	// Action or ActionResult stored as a CAS blob), so that a read of the
	// object can be consumed with Buffer.ToProto.
	msg proto.Message
}

// protoObject returns the i-th message of ln "units" and its
// serialization. The messages of different pool indices differ.
func protoObject(i, ln int) (proto.Message, []byte) {
	name := fmt.Sprintf("o%d-%s", i, strings.Repeat("n", ln))
	var m proto.Message
	switch i % 3 {
	case 0:
		m = &remoteexecution.Directory{Files: []*remoteexecution.FileNode{{Name: name, IsExecutable: ln%2 == 1}}}
	case 1:
		m = &remoteexecution.Action{DoNotCache: true, Salt: []byte(name)}
	default:
		m = &remoteexecution.ActionResult{ExitCode: int32(ln + 1), StdoutRaw: []byte(name)}
	}
	data, err := proto.MarshalOptions{Deterministic: true}.Marshal(m)
	if err != nil {
		panic(err)
	}
	return m, data
}

// genPoolRT is genPool for the read-through unit: some objects are
// serialized messages.
func genPoolRT(t *rapid.T, max int) []object {
	pool := genPool(t, max)
	for i := range pool {
		if len(pool[i].data) == 0 {
			// the empty blob is the serialization of a message without fields
			pool[i].msg = &remoteexecution.Directory{}
		} else if rapid.IntRange(0, 2).Draw(t, fmt.Sprintf("obj%d/proto", i)) == 0 {
			pool[i].msg, pool[i].data = protoObject(i, len(pool[i].data))
			pool[i].d = hx.Sha(pool[i].inst, pool[i].data)
		}
	}
	return pool
}

var lengths = []int{0, 1, 2, 5, 9, 31}

func genPool(t *rapid.T, max int) []object {
	n := rapid.IntRange(1, max).Draw(t, "nobj")
	pool := make([]object, 0, n)
	for i := 0; i < n; i++ {
		ln := rapid.SampledFrom(lengths).Draw(t, fmt.Sprintf("obj%d/len", i))
		var data []byte
		if !(i == 0 && ln == 0) {
			data = []byte(fmt.Sprintf("o%d:", i))
			for j := 0; j < ln; j++ {
				data = append(data, byte('a'+(i*7+j)%26))
			}
		}
		inst := rapid.SampledFrom([]string{"", "x"}).Draw(t, fmt.Sprintf("obj%d/inst", i))
		pool = append(pool, object{inst: inst, data: data, d: hx.Sha(inst, data)})
	}
	return pool
}

func genRepl(t *rapid.T, label string, depth int, allowNoop bool) *backends.ReplCfg {
	max := 4
	if depth <= 0 {
		max = 1
	}
	switch rapid.IntRange(0, max).Draw(t, label+"/kind") {
	case 0:
		return &backends.ReplCfg{Kind: "local"}
	case 1:
		if allowNoop && rapid.IntRange(0, 1).Draw(t, label+"/noop") == 0 {
			return &backends.ReplCfg{Kind: "noop"}
		}
		return &backends.ReplCfg{Kind: "local"}
	case 2:
		return &backends.ReplCfg{Kind: "deduplicating", Base: genRepl(t, label+".b", depth-1, false)}
	case 3:
		return &backends.ReplCfg{Kind: "concurrency_limiting", N: int64(rapid.IntRange(1, 3).Draw(t, label+"/n")),
			Base: genRepl(t, label+".b", depth-1, false)}
	default:
		return &backends.ReplCfg{Kind: "queued",
			CacheSize:     rapid.IntRange(1, 4).Draw(t, label+"/cachesize"),
			CacheDuration: time.Duration(rapid.IntRange(0, 3).Draw(t, label+"/cachedur")) * time.Second,
			Policy:        rapid.SampledFrom([]string{"fifo", "lru"}).Draw(t, label+"/policy"),
			Base:          genRepl(t, label+".b", depth-1, false)}
	}
}

func genScript(t *rapid.T, label string) map[int]backends.Fault {
	n := rapid.IntRange(0, 3).Draw(t, label+"/nfaults")
	out := map[int]backends.Fault{}
	for i := 0; i < n; i++ {
		at := rapid.IntRange(0, 12).Draw(t, fmt.Sprintf("%s/at%d", label, i))
		out[at] = backends.Fault{Code: rapid.SampledFrom(faultCodes).Draw(t, fmt.Sprintf("%s/code%d", label, i)), MidStreamAfter: -1}
		// Bursts: the call that follows a failing one (a repetition of
		// it, for instance) fails as well, in 1 of 4 cases.
		for j := 1; j <= rapid.SampledFrom([]int{0, 0, 0, 0, 0, 0, 1, 2}).Draw(t, fmt.Sprintf("%s/burst%d", label, i)); j++ {
			out[at+j] = backends.Fault{Code: rapid.SampledFrom(faultCodes).Draw(t, fmt.Sprintf("%s/code%d+%d", label, i, j)), MidStreamAfter: -1}
		}
	}
	return out
}

func scriptString(m map[int]backends.Fault) string {
	ks := make([]int, 0, len(m))
	for k := range m {
		ks = append(ks, k)
	}
	sort.Ints(ks)
	var sb strings.Builder
	for _, k := range ks {
		fmt.Fprintf(&sb, "%d:%s ", k, m[k].Code)
	}
	return "{" + strings.TrimSpace(sb.String()) + "}"
}

// streamer optionally turns Get results into reader-backed buffers, so
// that replicators run their copy as a real background task.
type streamer struct {
	*backends.Mem
	stream bool
	chunk  int
}

func (s *streamer) Get(ctx context.Context, d digest.Digest) buffer.Buffer {
	data, ok := s.Mem.Peek(d)
	if !ok || !s.stream {
		return s.Mem.Get(ctx, d)
	}
	src := hx.NewCRC(data)
	if s.chunk > 0 {
		src.Chunks = []int{s.chunk}
	}
	return buffer.NewCASBufferFromReader(d, src, buffer.BackendProvided(buffer.Irreparable(d)))
}

func (s *streamer) GetFromComposite(ctx context.Context, parent, child digest.Digest, slicer slicing.BlobSlicer) buffer.Buffer {
	b, _ := slicer.Slice(s.Get(ctx, parent), child)
	return b
}

type rangeSlicer struct{ off, ln int }

func (s rangeSlicer) Slice(b buffer.Buffer, child digest.Digest) (buffer.Buffer, []slicing.BlobSlice) {
	data, err := b.ToByteSlice(1 << 20)
	if err != nil {
		return buffer.NewBufferFromError(err), nil
	}
	return buffer.NewCASBufferFromByteSlice(child, data[s.off:s.off+s.ln], buffer.BackendProvided(buffer.Irreparable(child))), nil
}

// readArgs are the additional arguments of the consumption methods ToProto
// and ReadAt.
type readArgs struct {
	msg     proto.Message // ToProto: the message the object is the serialization of
	full    []byte        // the complete contents the read is expected to have
	off, ln int           // partial ReadAt: range (may extend past the end)
}

// wanted is what a successful consumption with that method returns.
func (a readArgs) wanted(method int) []byte {
	if method != methodReadAtPartial {
		return a.full
	}
	end := a.off + a.ln
	if end > len(a.full) {
		end = len(a.full)
	}
	return a.full[a.off:end]
}

const (
	methodIntoWriter    = 2
	methodToProto       = 3
	methodReadAtFull    = 4
	methodReadAtPartial = 5
)

// methodChoices: the distribution consumption methods are drawn from.
var methodChoices = []int{0, 1, methodIntoWriter, methodToProto, methodToProto, methodReadAtFull, methodReadAtPartial}

// consume reads a buffer with the given method: to the end, except for
// the partial ReadAt.
func consume(b buffer.Buffer, method, chunk int, a readArgs) ([]byte, error) {
	switch method {
	case methodToProto:
		m, err := b.ToProto(a.msg.ProtoReflect().New().Interface(), 1<<20)
		if err != nil {
			return nil, err
		}
		if m == nil {
			return []byte("ToProto returned a nil message and no error"), nil
		}
		if !proto.Equal(m, a.msg) {
			return []byte("ToProto returned " + prototext.MarshalOptions{}.Format(m)), nil
		}
		return a.full, nil
	case methodReadAtFull, methodReadAtPartial:
		// Full range: a slice of exactly the object's size, or one byte
		// more (the read then runs into the end of the object).
		off, p := 0, make([]byte, len(a.full)+chunk%2)
		if method == methodReadAtPartial {
			off, p = a.off, make([]byte, a.ln)
		}
		n, err := b.ReadAt(p, int64(off))
		if err != nil && err != io.EOF {
			return nil, err
		}
		return p[:n], nil
	}
	switch method {
	case 0:
		return b.ToByteSlice(1 << 20)
	case 1:
		r := b.ToReader()
		var out []byte
		p := make([]byte, chunk)
		var rerr error
		for {
			n, err := r.Read(p)
			out = append(out, p[:n]...)
			if err == io.EOF {
				break
			}
			if err != nil {
				rerr = err
				break
			}
		}
		cerr := r.Close()
		if rerr != nil {
			return nil, rerr
		}
		if cerr != nil {
			return nil, cerr
		}
		return out, nil
	default:
		var w bytes.Buffer
		if err := b.IntoWriter(&w); err != nil {
			return nil, err
		}
		return w.Bytes(), nil
	}
}

var methodNames = []string{"ToByteSlice", "ToReader", "IntoWriter", "ToProto", "ReadAt(all)", "ReadAt(part)"}

// opDeadline bounds one operation on the composite (wall clock). The model
// back ends never block, so an operation that is still running after this
// long is blocked inside the code under test (e.g. waiting for a replication
// slot that an earlier, failed replication never gave back).
const opDeadline = 20 * time.Second

type backend struct {
	label  string
	mem    *backends.Mem
	faulty *backends.Faulty
	rec    *backends.Recorder
	script map[int]backends.Fault
}

func newBackend(label string, kf digest.KeyFormat, stream bool, chunk int, script map[int]backends.Fault, log *backends.Log) *backend {
	b := &backend{label: label, script: script}
	b.mem = backends.NewMem("be-"+label, kf)
	b.faulty = backends.NewFaulty("be-"+label, &streamer{Mem: b.mem, stream: stream, chunk: chunk}, script)
	b.rec = backends.NewRecorder(label, b.faulty, log)
	return b
}

type mark struct {
	logLen       int
	calls, fired [2]int
}

type observed struct {
	calls      []backends.Call
	firstFault [2]bool
	anyFault   [2]bool
	contacted  [2]bool
	codes      map[codes.Code]bool
}

func countCalls(calls []backends.Call, label string) int {
	n := 0
	for _, c := range calls {
		if c.Backend == label && c.Op != "GetCapabilities" {
			n++
		}
	}
	return n
}

func takeMark(log *backends.Log, be [2]*backend) mark {
	var m mark
	snap := log.Snapshot()
	m.logLen = len(snap)
	for i, b := range be {
		m.calls[i] = countCalls(snap, b.label)
		m.fired[i] = b.faulty.FiredCount()
	}
	return m
}

func observe(log *backends.Log, be [2]*backend, m mark) observed {
	o := observed{codes: map[codes.Code]bool{}}
	o.calls = log.Snapshot()[m.logLen:]
	for i, b := range be {
		o.contacted[i] = countCalls(o.calls, b.label) > 0
		for _, callNo := range b.faulty.Fired[m.fired[i]:] {
			o.anyFault[i] = true
			o.codes[b.script[callNo].Code] = true
			if callNo == m.calls[i] {
				o.firstFault[i] = true
			}
		}
	}
	return o
}

func (o observed) any() bool { return o.anyFault[0] || o.anyFault[1] }

func (o observed) String() string {
	parts := make([]string, 0, len(o.calls))
	for _, c := range o.calls {
		parts = append(parts, c.Backend+"."+c.Op)
	}
	return fmt.Sprintf("calls=%v faultAtFirstCall=%v anyFault=%v", parts, o.firstFault, o.anyFault)
}

func (o observed) ops(label string) []string {
	var out []string
	for _, c := range o.calls {
		if c.Backend == label {
			out = append(out, c.Op)
		}
	}
	return out
}

func carriesInjected(err error, o observed) bool {
	return o.codes[status.Code(err)] && strings.Contains(status.Convert(err).Message(), "injected fault at be-")
}

// ---------------------------------------------------------------------
// (a) read caching / read fallback
// ---------------------------------------------------------------------

var recRT = vstats.New("TestC17ReadThrough")

// TestC17ReadThrough: NewReadCachingBlobAccess(slow, fast, replicator) and
// NewReadFallbackBlobAccess(primary, secondary, replicator), wired like
// configuration/new_blob_access.go (replicator source = slow resp.
// secondary, sink = fast resp. primary), over two model back ends.
// Back end 0 is the one read first (fast / primary), 1 the other.
func TestC17ReadThrough(t *testing.T) {
	rapid.Check(t, func(t *rapid.T) {
		c := recRT.Begin()
		caching := rapid.Bool().Draw(t, "readCaching")
		kf := digest.KeyWithoutInstance
		if rapid.Bool().Draw(t, "keyWithInstance") {
			kf = digest.KeyWithInstance
		}
		cfg := genRepl(t, "repl", 2, true)
		pool := genPoolRT(t, 4)
		log := &backends.Log{}
		names := [2]string{"primary", "secondary"}
		if caching {
			names = [2]string{"fast", "slow"}
		}
		var be [2]*backend
		var scripts [2]map[int]backends.Fault
		for i := range be {
			stream := rapid.Bool().Draw(t, names[i]+"/stream")
			chunk := rapid.IntRange(0, 7).Draw(t, names[i]+"/chunk")
			scripts[i] = genScript(t, names[i])
			be[i] = newBackend(names[i], kf, stream, chunk, scripts[i], log)
			c.Add(stream, chunk, scriptString(scripts[i]))
		}
		clk := hx.NewVClock()
		repl := cfg.Build(be[1].rec, be[0].rec, kf, clk)
		var ba blobstore.BlobAccess
		uploadTo := 0
		if caching {
			ba = readcaching.NewReadCachingBlobAccess(be[1].rec, be[0].rec, repl)
			uploadTo = 1
		} else {
			ba = readfallback.NewReadFallbackBlobAccess(be[0].rec, be[1].rec, repl)
		}
		copies := !cfg.IsNoop()
		ctx := context.Background()
		c.Add(caching, int(kf), cfg.String())
		c.ClassIf(caching, "read_caching")
		c.ClassIf(!caching, "read_fallback")
		c.Class("repl_" + cfg.Kind)

		poolKeys := map[string]bool{}
		placement := make([]int, len(pool))
		for j, o := range pool {
			poolKeys[o.d.GetKey(kf)] = true
			placement[j] = rapid.IntRange(0, 3).Draw(t, fmt.Sprintf("obj%d/placement", j))
			for i := range be {
				if placement[j]&(1<<i) != 0 {
					be[i].mem.Set(o.d, o.data)
				}
			}
			c.Add(o.inst, o.data, placement[j])
		}
		has := func(i int, o object) bool { return be[i].mem.Has(o.d) }
		snapshot := func() [][2]bool {
			s := make([][2]bool, len(pool))
			for j, o := range pool {
				s[j] = [2]bool{has(0, o), has(1, o)}
			}
			return s
		}
		checkContents := func(what string, before [][2]bool) {
			for i, b := range be {
				for _, k := range b.mem.Keys() {
					if !poolKeys[k] {
						t.Fatalf("after %s: back end %s holds unknown key %q", what, b.label, k)
					}
				}
				for j, o := range pool {
					data, ok := b.mem.Peek(o.d)
					if ok && !bytes.Equal(data, o.data) {
						t.Fatalf("after %s: back end %s holds %q under the digest of %q", what, b.label, data, o.data)
					}
					if before[j][i] && !ok {
						t.Fatalf("after %s: back end %s lost object %d", what, b.label, j)
					}
				}
			}
		}

		nops := rapid.IntRange(1, 7).Draw(t, "nops")
		var rendered []string
		for op := 0; op < nops; op++ {
			kind := rapid.SampledFrom([]string{"Get", "Get", "GetFromComposite", "Put", "FindMissing"}).Draw(t, "op")
			before := snapshot()
			m := takeMark(log, be)
			// Every operation runs under a generous deadline; the model
			// back ends answer immediately, so a deadline that expires
			// means the operation was blocked in the code under test (an
			// object that a back end holds is then not returned).
			opCtx, opCancel := context.WithTimeout(ctx, opDeadline)
			notBlocked := func(what string, err error) {
				if opCtx.Err() != nil {
					t.Fatalf("%s was still running after %v although no back-end call was pending (it returned %v once its context expired): the operation blocks, e.g. on a replication slot that an earlier (failed) replication did not give back", what, opDeadline, err)
				}
			}
			switch kind {
			case "Get", "GetFromComposite":
				j := rapid.IntRange(0, len(pool)-1).Draw(t, "obj")
				obj := pool[j]
				method := rapid.SampledFrom(methodChoices).Draw(t, "method")
				chunk := rapid.IntRange(1, 9).Draw(t, "readchunk")
				want := obj.data
				off, ln := 0, len(obj.data)
				if kind == "GetFromComposite" {
					off = rapid.IntRange(0, len(obj.data)).Draw(t, "sliceoff")
					ln = rapid.IntRange(0, len(obj.data)-off).Draw(t, "slicelen")
					want = obj.data[off : off+ln]
				}
				// ToProto only on complete objects that are serialized
				// messages (anything else fails to unmarshal, which is no
				// statement about the back ends).
				if method == methodToProto && (kind != "Get" || obj.msg == nil) {
					method = 0
				}
				ra := readArgs{msg: obj.msg, full: want}
				if method == methodReadAtPartial {
					ra.off = rapid.IntRange(0, len(want)).Draw(t, "readat_off")
					ra.ln = rapid.IntRange(0, len(want)-ra.off+2).Draw(t, "readat_len")
				}
				partial := method == methodReadAtPartial
				c.Add(kind, j, method, chunk, off, ln, ra.off, ra.ln)
				c.Class("consume_" + methodNames[method])
				want = ra.wanted(method)
				var b buffer.Buffer
				if kind == "Get" {
					b = ba.Get(opCtx, obj.d)
				} else {
					b = ba.GetFromComposite(opCtx, obj.d, hx.Sha(obj.inst, ra.full), rangeSlicer{off, ln})
				}
				got, err := consume(b, method, chunk, ra)
				o := observe(log, be, m)
				notBlocked(fmt.Sprintf("%s(object %d, %s) with replicator %s", kind, j, methodNames[method], cfg), err)
				what := fmt.Sprintf("%s(object %d, %s) held before by %s=%v %s=%v -> %d bytes, %v; %s; replicator %s",
					kind, j, methodNames[method], names[0], before[j][0], names[1], before[j][1], len(got), err, o, cfg)
				// The property fixes WHAT a read returns (the object iff one of
				// the two back ends holds it) and where it ends up, not the
				// order or number of back-end calls, and - unlike the mirrored
				// pair - nothing about how a back-end failure is reported
				// (code, prefix, whether the other back end is still tried):
				// those are only counted.
				c.ClassIf(len(o.calls) > 0 && (o.calls[0].Backend != names[0] || o.calls[0].Op != kind), "get_not_started_at_"+names[0])
				held := before[j][0] || before[j][1]
				code := status.Code(err)
				switch {
				case err == nil:
					if !held {
						t.Fatalf("%s: returned data although neither back end holds the object", what)
					}
					if !bytes.Equal(got, want) {
						t.Fatalf("%s: returned %q, want %q", what, got, want)
					}
					c.ClassIf(o.firstFault[0] || (o.contacted[1] && o.firstFault[1]), "get_ok_despite_backend_failure")
					c.ClassIf(before[j][0] && o.contacted[1], "get_second_consulted_although_first_holds")
					// read-through: the object came from the slow/secondary
					// back end (the fast/primary one did not hold it)
					// (not demanded of a partial ReadAt: the Buffer
					// documentation ties the attached copy to the buffer
					// "being read", which a partial read does only in part;
					// today it waits for the copy like every other method)
					if !before[j][0] && copies && !has(0, obj) {
						if !partial {
							t.Fatalf("%s: successful read-through with a copying replicator, but %s still lacks the object", what, names[0])
						}
						c.Class("partial_readat_ok_without_copy")
					}
				case !o.any():
					// no back end failed during this read: the answer must be
					// the object iff a back end holds it
					if held {
						t.Fatalf("%s: error although a back end holds the object and no failure was injected", what)
					}
					c.ClassIf(code != codes.NotFound, "get_absent_other_error")
				default:
					// a back end failed during this read: any error
					c.ClassIf(code == codes.NotFound, "get_fault_reported_as_not_found")
					c.ClassIf(!carriesInjected(err, o), "get_fault_error_recoded")
					c.ClassIf(o.firstFault[0] && o.contacted[1], "get_second_consulted_after_first_failed")
				}
				switch {
				case o.any():
					c.Class("get_with_fault")
				case err == nil && before[j][0]:
					c.Class("get_hit_first")
				case err == nil:
					c.Class("get_read_through")
					c.NonTrivial()
				default:
					c.Class("get_not_found")
				}
				rendered = append(rendered, fmt.Sprintf("%s(o%d,%s)->%v", kind, j, methodNames[method], err))

			case "Put":
				j := rapid.IntRange(0, len(pool)-1).Draw(t, "obj")
				obj := pool[j]
				wrong := rapid.IntRange(0, 3).Draw(t, "wrong") == 0
				c.Add(kind, j, wrong)
				data := obj.data
				if wrong {
					data = append(append([]byte(nil), data...), '!')
				}
				src := hx.NewCRC(data)
				err := ba.Put(opCtx, obj.d, buffer.NewCASBufferFromReader(obj.d, src, buffer.UserProvided))
				o := observe(log, be, m)
				notBlocked(fmt.Sprintf("Put(object %d) with replicator %s", j, cfg), err)
				what := fmt.Sprintf("Put(object %d, wrong=%v) -> %v; %s", j, wrong, err, o)
				if o.contacted[1-uploadTo] {
					t.Fatalf("%s: the upload reached the %s back end; uploads must go to %s only", what, names[1-uploadTo], names[uploadTo])
				}
				// (how many and which calls the upload target sees is the
				// implementation's: only counted)
				if got := o.ops(names[uploadTo]); len(got) != 1 || got[0] != "Put" {
					c.Class("put_target_saw_other_than_one_put")
				}
				if has(1-uploadTo, obj) != before[j][1-uploadTo] {
					t.Fatalf("%s: the upload changed the %s back end", what, names[1-uploadTo])
				}
				if err == nil {
					// (an acknowledged upload of mismatching content is caught
					// by checkContents if it was stored; if the target already
					// held the object, skipping the upload is legitimate)
					c.ClassIf(wrong, "put_wrong_content_acknowledged")
					if !has(uploadTo, obj) {
						t.Fatalf("%s: acknowledged, but %s does not hold the object", what, names[uploadTo])
					}
					c.ClassIf(o.any(), "put_ok_despite_backend_failure")
					c.Class("put_ok")
				} else {
					if !wrong && !o.any() {
						t.Fatalf("%s: unexplained upload error (correct content, no failure injected)", what)
					}
					c.Class("put_failed")
				}
				rendered = append(rendered, fmt.Sprintf("Put(o%d,wrong=%v)->%v", j, wrong, err))

			case "FindMissing":
				sb := digest.NewSetBuilder(0)
				var members []int
				for j := range pool {
					if rapid.Bool().Draw(t, fmt.Sprintf("in%d", j)) {
						sb.Add(pool[j].d)
						members = append(members, j)
					}
				}
				c.Add(kind, fmt.Sprint(members))
				missing, err := ba.FindMissing(opCtx, sb.Build())
				o := observe(log, be, m)
				notBlocked(fmt.Sprintf("FindMissing(%v) with replicator %s", members, cfg), err)
				what := fmt.Sprintf("FindMissing(%v) -> %v, %v; %s; replicator %s", members, missing.Items(), err, o, cfg)
				var got []string
				for _, d := range missing.Items() {
					got = append(got, d.String())
				}
				sort.Strings(got)
				// want: what must be reported; may: what may additionally be
				// reported. Fallback: "exactly the objects missing from both".
				// Read caching: the property says nothing about FindMissing;
				// today it is forwarded to the slow back end (the source of
				// truth, ReadCachingBlobAccessConfiguration.slow). Accepted is
				// every answer that reports everything missing from both and
				// nothing the slow back end holds.
				var want []string
				may := map[string]bool{}
				for _, j := range members {
					if !before[j][0] && !before[j][1] {
						want = append(want, pool[j].d.String())
					} else if caching && !before[j][1] {
						may[pool[j].d.String()] = true
					}
				}
				sort.Strings(want)
				c.ClassIf(caching && o.contacted[0], "find_read_cache_consulted_fast")
				if err == nil {
					c.ClassIf(o.firstFault[0] || o.firstFault[1], "find_ok_despite_backend_failure")
					var gotMust []string
					for _, g := range got {
						if !may[g] {
							gotMust = append(gotMust, g)
						}
					}
					if fmt.Sprint(gotMust) != fmt.Sprint(want) {
						t.Fatalf("%s: reported missing %v, want %v (optionally also %v)", what, got, want, may)
					}
					// (today a fallback FindMissing also copies objects held
					// by the secondary only into the primary; the property
					// demands that of read-through only: counted)
					synced, unsynced := 0, 0
					if !caching {
						for _, j := range members {
							if before[j][1] && !before[j][0] {
								if has(0, pool[j]) {
									synced++
								} else if copies {
									unsynced++
								}
							}
						}
					}
					c.ClassIf(synced > 0, "find_ok_synchronized")
					c.ClassIf(unsynced > 0, "find_ok_not_synchronized")
					c.ClassIf(synced == 0, "find_ok")
				} else {
					if !o.any() {
						t.Fatalf("%s: unexplained FindMissing error (no failure injected)", what)
					}
					c.ClassIf(status.Code(err) == codes.NotFound, "find_fault_reported_as_not_found")
					c.Class("find_failed")
				}
				rendered = append(rendered, fmt.Sprintf("FindMissing(%v)->%d,%v", members, len(got), err))
			}
			opCancel()
			checkContents(kind, before)
		}
		c.Sample(func() string {
			return fmt.Sprintf("caching=%v repl=%s placement=%v faults=%s/%s ops=%v", caching, cfg, placement,
				scriptString(scripts[0]), scriptString(scripts[1]), rendered)
		})
		c.End()
	})
}

// ---------------------------------------------------------------------
// (c) existence cache
// ---------------------------------------------------------------------

// scriptedSet is an eviction.Set whose victim is chosen by a generated
// script: it subsumes FIFO, LRU and random replacement.
type scriptedSet struct {
	elements []string
	choices  []int
	n        int
	peeked   int
}

func (s *scriptedSet) Insert(v string) { s.elements = append(s.elements, v) }
func (s *scriptedSet) Touch(v string)  {}
func (s *scriptedSet) Peek() string {
	s.peeked = 0
	if len(s.choices) > 0 {
		s.peeked = s.choices[s.n%len(s.choices)] % len(s.elements)
		s.n++
	}
	return s.elements[s.peeked]
}

func (s *scriptedSet) Remove() {
	s.elements = append(s.elements[:s.peeked:s.peeked], s.elements[s.peeked+1:]...)
}

var _ eviction.Set[string] = (*scriptedSet)(nil)

var recEC = vstats.New("TestC17ExistenceCache")

// TestC17ExistenceCache: NewExistenceCachingBlobAccess over a model back
// end whose contents the harness also changes behind the cache's back.
func TestC17ExistenceCache(t *testing.T) {
	rapid.Check(t, func(t *rapid.T) {
		c := recEC.Begin()
		kf := digest.KeyWithoutInstance
		if rapid.Bool().Draw(t, "keyWithInstance") {
			kf = digest.KeyWithInstance
		}
		size := rapid.IntRange(1, 4).Draw(t, "cacheSize")
		durTicks := rapid.IntRange(0, 4).Draw(t, "durationTicks")
		const tick = 500 * time.Millisecond
		duration := time.Duration(durTicks) * tick
		policy := rapid.SampledFrom([]string{"fifo", "lru", "scripted"}).Draw(t, "policy")
		var set eviction.Set[string]
		if policy == "scripted" {
			set = &scriptedSet{choices: rapid.SliceOfN(rapid.IntRange(0, 3), 0, 6).Draw(t, "victims")}
		} else {
			set = backends.NewEvictionSet(policy)
		}
		pool := genPool(t, 5)
		script := genScript(t, "be")
		log := &backends.Log{}
		mem := backends.NewMem("be-base", kf)
		faulty := backends.NewFaulty("be-base", mem, script)
		rec := backends.NewRecorder("base", faulty, log)
		clk := hx.NewVClock()
		cache := digest.NewExistenceCache(clk, kf, size, duration, eviction.NewMetricsSet(set, "ExistenceCachingBlobAccess"))
		ba := blobstore.NewExistenceCachingBlobAccess(rec, cache)
		ctx := context.Background()
		c.Add(int(kf), size, durTicks, policy, scriptString(script))
		for j, o := range pool {
			if rapid.Bool().Draw(t, fmt.Sprintf("obj%d/present", j)) {
				mem.Set(o.d, o.data)
			}
			c.Add(o.inst, o.data, mem.Has(o.d))
		}

		// lastPresent[j]: virtual time at which the back end last reported
		// object j present in answer to a FindMissing issued by the cache.
		lastPresent := map[int]time.Time{}
		expiredRequery := false
		nops := rapid.IntRange(1, 12).Draw(t, "nops")
		var rendered []string
		for op := 0; op < nops; op++ {
			kind := rapid.SampledFrom([]string{"FindMissing", "FindMissing", "FindMissing", "Advance", "Delete", "Put", "Get", "Restore"}).Draw(t, "op")
			logLen := len(log.Snapshot())
			fired := faulty.FiredCount()
			switch kind {
			case "Advance":
				n := rapid.IntRange(1, 5).Draw(t, "ticks")
				c.Add(kind, n)
				clk.Advance(time.Duration(n) * tick)
				rendered = append(rendered, fmt.Sprintf("Advance(%d)", n))
			case "Delete", "Restore":
				// the back end changes behind the cache's back
				j := rapid.IntRange(0, len(pool)-1).Draw(t, "obj")
				c.Add(kind, j)
				if kind == "Delete" {
					mem.Delete(pool[j].d)
				} else {
					mem.Set(pool[j].d, pool[j].data)
				}
				rendered = append(rendered, fmt.Sprintf("%s(o%d)", kind, j))
			case "Put":
				j := rapid.IntRange(0, len(pool)-1).Draw(t, "obj")
				c.Add(kind, j)
				err := ba.Put(ctx, pool[j].d, buffer.NewCASBufferFromByteSlice(pool[j].d, pool[j].data, buffer.UserProvided))
				// Put and Get are outside the property's existence-cache
				// clause; asserted is only transparency when nothing fails.
				if faulty.FiredCount() > fired {
					c.ClassIf(err == nil, "put_ok_despite_backend_failure")
				} else if err != nil || !mem.Has(pool[j].d) {
					t.Fatalf("Put through the existence cache failed although the back end did not: %v", err)
				}
				rendered = append(rendered, fmt.Sprintf("Put(o%d)->%v", j, err))
			case "Get":
				j := rapid.IntRange(0, len(pool)-1).Draw(t, "obj")
				c.Add(kind, j)
				stored, present := mem.Peek(pool[j].d)
				got, err := ba.Get(ctx, pool[j].d).ToByteSlice(1 << 20)
				switch {
				case faulty.FiredCount() > fired:
					c.ClassIf(err == nil, "get_ok_despite_backend_failure")
				case present:
					if err != nil || !bytes.Equal(got, stored) {
						t.Fatalf("Get of a present object through the existence cache: %q, %v", got, err)
					}
				default:
					if err == nil {
						t.Fatalf("Get of an absent object through the existence cache returned %q", got)
					}
					c.ClassIf(status.Code(err) != codes.NotFound, "get_absent_other_error")
				}
				rendered = append(rendered, fmt.Sprintf("Get(o%d)->%v", j, err))
			case "FindMissing":
				sb := digest.NewSetBuilder(0)
				var members []int
				for j := range pool {
					if rapid.IntRange(0, 2).Draw(t, fmt.Sprintf("in%d", j)) > 0 {
						sb.Add(pool[j].d)
						members = append(members, j)
					}
				}
				c.Add(kind, fmt.Sprint(members))
				now := clk.Now()
				missing, err := ba.FindMissing(ctx, sb.Build())
				// How often the back end is asked (not at all when the cache
				// answers everything, once, in batches) is the
				// implementation's. asked: digests about which the back end
				// ANSWERED during this call.
				calls := log.Snapshot()[logLen:]
				asked := map[string]bool{}
				nFind := 0
				for _, cl := range calls {
					if cl.Op != "FindMissing" {
						continue
					}
					nFind++
					if cl.Err != nil {
						continue
					}
					for _, d := range cl.Digests {
						asked[d.GetKey(kf)] = true
					}
				}
				c.ClassIf(nFind != 1, "find_backend_not_asked_exactly_once")
				what := fmt.Sprintf("FindMissing(%v) at t=%v -> %v, %v (back end answered about %d); cache size %d duration %v", members, now.Sub(time.Unix(1_000_000, 0)), missing.Items(), err, len(asked), size, duration)
				// every "present" answer of the back end may enter the cache
				notePresent := func() {
					for j := range pool {
						if asked[pool[j].d.GetKey(kf)] && mem.Has(pool[j].d) {
							lastPresent[j] = now
						}
					}
				}
				if err != nil {
					if faulty.FiredCount() == fired {
						t.Fatalf("%s: unexplained error (the back end did not fail)", what)
					}
					notePresent()
					c.Class("find_failed")
					rendered = append(rendered, fmt.Sprintf("FindMissing(%v)->%v", members, err))
					break
				}
				c.ClassIf(faulty.FiredCount() > fired, "find_ok_despite_backend_failure")
				reported := map[string]bool{}
				for _, d := range missing.Items() {
					reported[d.GetKey(kf)] = true
				}
				inSet := map[string]bool{}
				for _, j := range members {
					k := pool[j].d.GetKey(kf)
					inSet[k] = true
					present := mem.Has(pool[j].d)
					if lp, ok := lastPresent[j]; ok && now.Sub(lp) > duration {
						expiredRequery = true
					}
					switch {
					case present && reported[k]:
						t.Fatalf("%s: object %d is present in the back end but reported missing", what, j)
					case !present && !reported[k]:
						// hidden as present: only allowed if the back end said
						// "present" through this cache no longer than duration ago
						lp, ok := lastPresent[j]
						if !ok {
							t.Fatalf("%s: object %d is absent and the back end never reported it present through this cache, yet it is not reported missing", what, j)
						}
						if age := now.Sub(lp); age > duration {
							t.Fatalf("%s: object %d is absent; the back end last reported it present %v ago (> duration %v), yet it is not reported missing", what, j, age, duration)
						}
						if asked[k] {
							t.Fatalf("%s: object %d: back end was asked, says absent, result says present", what, j)
						}
						c.Class("stale_hit_within_duration")
					}
				}
				notePresent()
				for k := range reported {
					if !inSet[k] {
						t.Fatalf("%s: reports a digest that was not asked for", what)
					}
				}
				for k := range asked {
					if !inSet[k] {
						c.Class("find_backend_asked_about_other_digest")
					}
				}
				c.ClassIf(len(asked) < len(members), "find_served_partly_from_cache")
				c.Class("find_ok")
				rendered = append(rendered, fmt.Sprintf("FindMissing(%v)->%d missing, asked %d", members, len(reported), len(asked)))
			}
		}
		if expiredRequery {
			c.NonTrivial()
			c.Class("entry_expired_between_queries")
		}
		c.Sample(func() string {
			return fmt.Sprintf("size=%d durationTicks=%d policy=%s faults=%s ops=%v", size, durTicks, policy, scriptString(script), rendered)
		})
		c.End()
	})
}
