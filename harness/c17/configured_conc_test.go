package c17

// TestC17ConfiguredConcurrent: CONCURRENT read-throughs / replications of
// the same blob under different instance names through replicators as the
// REAL configuration code builds them (which key format the in-flight table
// of a deduplicating replicator and the cache of a queued one are given,
// nested to depth 3).
//
// The two leaves are real in-memory `local` CAS back ends built by
// configuration.NewBlobAccessFromConfiguration, each flat or
// hierarchical_instance_names; they keep the key format that code announces
// for them. The code under test reaches them only through a harness wrapper
// at which every Get / Put / FindMissing parks. Two modes:
//   - composite: read_caching{slow, fast, replicator} or
//     read_fallback{primary, secondary, replicator} built by
//     NewBlobAccessFromConfiguration; its two back ends are `grpc`
//     configurations with a harness address that a wrapper around the CAS
//     BlobAccessCreator resolves to the gated leaves (everything else,
//     replicators included, is delegated to the real creator). Callers: Get
//     (four consumption methods), FindMissing (fallback only).
//   - replicator: configuration.NewBlobReplicatorFromConfiguration with the
//     real CAS BlobReplicatorCreator over the gated leaves. Callers:
//     ReplicateSingle, ReplicateMultiple.
//
// 2..5 callers ask for 1..2 blobs under the instance names "", p, p/q, r.
// The case runs in a testing/synctest bubble; the scheduler (root goroutine)
// performs one generated step - start the next caller, release one parked
// back-end call, or fail one with UNAVAILABLE - after every quiescence
// (synctest.Wait), and reads the leaves directly (not through the gates)
// after every step. Nothing sleeps; wall-clock time influences nothing.
//
// Oracle: a Get through the composite returns the object (right bytes) if a
// back end held it when the call began and no back-end call was failed, and
// only if one holds it when the call returns; after a successful Get the
// fast / primary back end holds it under the requested instance name (the
// replicators here all copy); ReplicateSingle / ReplicateMultiple report
// success only if the sink holds every requested pair when they return;
// FindMissing through the fallback reports no pair missing that was held
// when it began and every pair missing that nobody holds when it returns;
// below a configured deduplicating replicator no two Puts of the same object
// (as the sink identifies objects) are in flight at the same time; once every
// back-end call has been answered every caller has returned.

import (
	"context"
	"fmt"
	"strings"
	"sync"
	"sync/atomic"
	"testing"
	"testing/synctest"

	"github.com/buildbarn/bb-storage/pkg/blobstore"
	"github.com/buildbarn/bb-storage/pkg/blobstore/buffer"
	"github.com/buildbarn/bb-storage/pkg/blobstore/configuration"
	"github.com/buildbarn/bb-storage/pkg/blobstore/replication"
	"github.com/buildbarn/bb-storage/pkg/blobstore/slicing"
	"github.com/buildbarn/bb-storage/pkg/digest"
	"github.com/buildbarn/bb-storage/pkg/program"
	pb "github.com/buildbarn/bb-storage/pkg/proto/configuration/blobstore"
	grpcpb "github.com/buildbarn/bb-storage/pkg/proto/configuration/grpc"
	"github.com/buildbarn/bb-storage/pkg/util"
	"google.golang.org/grpc/codes"
	"google.golang.org/grpc/status"
	"pgregory.net/rapid"

	"verif/harness/hx"
	"verif/harness/vstats"
)

var recCC = vstats.New("TestC17ConfiguredConcurrent")

const ccGateAddress = "harness-gate:"

type ccCallerKey struct{}

type ccGate struct {
	id      int
	leaf    int
	op      string
	caller  int
	what    string
	release chan error
}

func (g *ccGate) String() string {
	return fmt.Sprintf("g%d:c%d %s.%s(%s)", g.id, g.caller, [2]string{"source", "sink"}[g.leaf], g.op, g.what)
}

type ccWorld struct {
	mu      sync.Mutex
	next    int
	pending []*ccGate
}

func (w *ccWorld) park(ctx context.Context, leaf int, op, what string) error {
	caller, ok := ctx.Value(ccCallerKey{}).(int)
	if !ok {
		caller = -1
	}
	g := &ccGate{leaf: leaf, op: op, caller: caller, what: what, release: make(chan error, 1)}
	w.mu.Lock()
	g.id = w.next
	w.next++
	w.pending = append(w.pending, g)
	w.mu.Unlock()
	select {
	case err := <-g.release:
		return err
	case <-ctx.Done():
		w.mu.Lock()
		for i, p := range w.pending {
			if p == g {
				w.pending = append(w.pending[:i:i], w.pending[i+1:]...)
				break
			}
		}
		w.mu.Unlock()
		return util.StatusFromContext(ctx)
	}
}

// ccLeaf is the gate in front of a real leaf.
type ccLeaf struct {
	blobstore.BlobAccess
	w    *ccWorld
	leaf int
}

func (l *ccLeaf) Get(ctx context.Context, d digest.Digest) buffer.Buffer {
	if err := l.w.park(ctx, l.leaf, "Get", d.GetInstanceName().String()+"|"+d.GetHashString()[:6]); err != nil {
		return buffer.NewBufferFromError(err)
	}
	return l.BlobAccess.Get(ctx, d)
}

func (l *ccLeaf) GetFromComposite(ctx context.Context, p, c digest.Digest, s slicing.BlobSlicer) buffer.Buffer {
	if err := l.w.park(ctx, l.leaf, "GetFromComposite", p.GetInstanceName().String()+"|"+p.GetHashString()[:6]); err != nil {
		return buffer.NewBufferFromError(err)
	}
	return l.BlobAccess.GetFromComposite(ctx, p, c, s)
}

func (l *ccLeaf) Put(ctx context.Context, d digest.Digest, b buffer.Buffer) error {
	if err := l.w.park(ctx, l.leaf, "Put", d.GetInstanceName().String()+"|"+d.GetHashString()[:6]); err != nil {
		b.Discard()
		return err
	}
	return l.BlobAccess.Put(ctx, d, b)
}

func (l *ccLeaf) FindMissing(ctx context.Context, ds digest.Set) (digest.Set, error) {
	parts := []string{}
	for _, d := range ds.Items() {
		parts = append(parts, d.GetInstanceName().String()+"|"+d.GetHashString()[:6])
	}
	if err := l.w.park(ctx, l.leaf, "FindMissing", strings.Join(parts, " ")); err != nil {
		return digest.EmptySet, err
	}
	return l.BlobAccess.FindMissing(ctx, ds)
}

// ccCreator is the real CAS BlobAccessCreator, except that a `grpc` back end
// whose address names a gated leaf resolves to that leaf (with the key
// format the real configuration code announced for it).
type ccCreator struct {
	configuration.BlobAccessCreator
	leaves [2]configuration.BlobAccessInfo
}

type ccNested struct {
	inner   configuration.NestedBlobAccessCreator
	creator *ccCreator
}

func (n ccNested) NewNestedBlobAccess(cfg *pb.BlobAccessConfiguration, _ configuration.BlobAccessCreator) (configuration.BlobAccessInfo, error) {
	return n.inner.NewNestedBlobAccess(cfg, n.creator)
}

func (cc *ccCreator) NewCustomBlobAccess(group program.Group, cfg *pb.BlobAccessConfiguration, nested configuration.NestedBlobAccessCreator) (configuration.BlobAccessInfo, string, error) {
	if g, ok := cfg.Backend.(*pb.BlobAccessConfiguration_Grpc); ok && strings.HasPrefix(g.Grpc.GetClient().GetAddress(), ccGateAddress) {
		switch strings.TrimPrefix(g.Grpc.Client.Address, ccGateAddress) {
		case "0":
			return cc.leaves[0], "grpc", nil
		case "1":
			return cc.leaves[1], "grpc", nil
		}
	}
	return cc.BlobAccessCreator.NewCustomBlobAccess(group, cfg, ccNested{inner: nested, creator: cc})
}

func ccGateRef(leaf int) *pb.BlobAccessConfiguration {
	return &pb.BlobAccessConfiguration{Backend: &pb.BlobAccessConfiguration_Grpc{Grpc: &pb.GrpcBlobAccessConfiguration{
		Client: &grpcpb.ClientConfiguration{Address: fmt.Sprintf("%s%d", ccGateAddress, leaf)}}}}
}

type ccCaller struct {
	id     int
	kind   string // get, find, single, multiple
	refs   []cfgRef
	method int
	chunk  int

	started         bool
	finished        atomic.Bool
	done            bool // set by the scheduler once it has seen finished
	cancel          context.CancelFunc
	err             error
	data            []byte
	missing         digest.Set
	startSnap       map[ccCell]bool
	injectedAtStart int
}

func (c *ccCaller) String() string {
	parts := []string{}
	for _, r := range c.refs {
		parts = append(parts, r.String())
	}
	s := fmt.Sprintf("c%d:%s(%s)", c.id, c.kind, strings.Join(parts, " "))
	if c.kind == "get" {
		s += "/" + methodNames[c.method]
	}
	return s
}

type ccCell struct {
	leaf int
	ref  cfgRef
}

func TestC17ConfiguredConcurrent(outer *testing.T) {
	rapid.Check(outer, func(t *rapid.T) {
		c := recCC.Begin()
		mode := rapid.SampledFrom([]string{"read_caching", "read_fallback", "replicator"}).Draw(t, "mode")
		var hier [2]bool
		hier[0] = rapid.Bool().Draw(t, "source/hierarchical")
		hier[1] = rapid.IntRange(0, 2).Draw(t, "sink/hierarchical") != 0
		var repl cfgRepl
		for i, n := 0, rapid.IntRange(0, 3).Draw(t, "depth"); i < n; i++ {
			w := cfgWrap{kind: rapid.SampledFrom([]string{"deduplicating", "deduplicating", "concurrency_limiting", "queued"}).Draw(t, "wrapper")}
			switch w.kind {
			case "concurrency_limiting":
				w.n = int64(rapid.IntRange(1, 2).Draw(t, "maximum_concurrency"))
			case "queued":
				w.cacheSize = int64(rapid.SampledFrom([]int{1, 2, 16}).Draw(t, "cache_size"))
			}
			repl.wrappers = append(repl.wrappers, w)
		}
		c.Add(mode, hier[0], hier[1], repl.String())
		names := [2]string{"source", "sink"}
		switch mode {
		case "read_caching":
			names = [2]string{"slow", "fast"}
		case "read_fallback":
			names = [2]string{"secondary", "primary"}
		}

		nobj := rapid.IntRange(1, 2).Draw(t, "nobjects")
		objs := make([][]byte, nobj)
		for o := range objs {
			objs[o] = []byte(fmt.Sprintf("concurrently replicated object %d", o))
		}
		allInsts := []string{"", "p", "p/q", "r"}
		type placement struct {
			ref  cfgRef
			leaf int
		}
		var seeds []placement
		for o := range objs {
			// the source holds the blob under most instance names, the sink
			// rarely under one
			for _, inst := range allInsts {
				if rapid.IntRange(0, 3).Draw(t, fmt.Sprintf("o%d@%s/in_source", o, inst)) != 0 {
					seeds = append(seeds, placement{cfgRef{o, inst}, 0})
				}
			}
			if rapid.IntRange(0, 4).Draw(t, fmt.Sprintf("o%d/in_sink", o)) == 0 {
				seeds = append(seeds, placement{cfgRef{o, rapid.SampledFrom(allInsts).Draw(t, "sink_inst")}, 1})
			}
		}
		for _, s := range seeds {
			c.Add(s.ref.o, s.ref.inst, s.leaf)
		}
		ncallers := rapid.IntRange(2, 5).Draw(t, "ncallers")
		callers := make([]*ccCaller, ncallers)
		for i := range callers {
			cl := &ccCaller{id: i}
			switch mode {
			case "read_caching":
				cl.kind = "get"
			case "read_fallback":
				cl.kind = rapid.SampledFrom([]string{"get", "get", "find"}).Draw(t, "caller")
			default:
				cl.kind = rapid.SampledFrom([]string{"single", "multiple"}).Draw(t, "caller")
			}
			k := 1
			if cl.kind == "find" || cl.kind == "multiple" {
				k = rapid.IntRange(1, 3).Draw(t, "k")
			}
			seen := map[cfgRef]bool{}
			for x := 0; x < k; x++ {
				r := cfgRef{o: rapid.IntRange(0, nobj-1).Draw(t, "obj"), inst: rapid.SampledFrom(allInsts).Draw(t, "instance")}
				if !seen[r] {
					seen[r] = true
					cl.refs = append(cl.refs, r)
				}
			}
			if cl.kind == "get" {
				cl.method = rapid.SampledFrom([]int{0, 0, 1, methodIntoWriter, methodReadAtFull}).Draw(t, "method")
				cl.chunk = rapid.IntRange(1, 9).Draw(t, "readchunk")
			}
			callers[i] = cl
			c.Add(cl.String(), cl.chunk)
		}
		type step struct {
			kind  string // start, release, fail
			which int
		}
		nsteps := rapid.IntRange(0, 30).Draw(t, "nsteps")
		steps := make([]step, nsteps)
		for i := range steps {
			steps[i] = step{
				kind:  rapid.SampledFrom([]string{"start", "start", "release", "release", "release", "release", "release", "fail"}).Draw(t, "step"),
				which: rapid.IntRange(0, 7).Draw(t, "which"),
			}
			c.Add(steps[i].kind, steps[i].which)
		}
		// failures are injected in one case out of three only
		if rapid.IntRange(0, 2).Draw(t, "with_failures") != 0 {
			for i := range steps {
				if steps[i].kind == "fail" {
					steps[i].kind = "release"
				}
			}
		}

		desc := fmt.Sprintf("%s, replicator %s; %s %s, %s %s", mode, repl, names[0], cfgLeaf{hier[0], cfgBlockNormal}, names[1], cfgLeaf{hier[1], cfgBlockNormal})
		var log []string
		var overlapOtherInstance, overlapOtherInstanceBothOK, injected, successes, failures, spuriousReplicateFailures, concurrentCopies int
		var verdict error
		synctest.Test(outer, func(st *testing.T) {
			verdict = program.RunLocal(context.Background(), func(ctx context.Context, siblings, deps program.Group) error {
				w := &ccWorld{}
				real := configuration.NewCASBlobAccessCreator(nil, 1<<20, nil)
				var leafInfo [2]configuration.BlobAccessInfo
				creator := &ccCreator{BlobAccessCreator: real}
				for x := range leafInfo {
					info, err := configuration.NewBlobAccessFromConfiguration(deps, cfgLocalLeaf(cfgLeaf{hierarchical: hier[x], blockSize: cfgBlockNormal}), real)
					if err != nil {
						return fmt.Errorf("harness/C17: NewBlobAccessFromConfiguration failed for leaf %d: %v", x, err)
					}
					leafInfo[x] = info
					creator.leaves[x] = configuration.BlobAccessInfo{BlobAccess: &ccLeaf{BlobAccess: info.BlobAccess, w: w, leaf: x}, DigestKeyFormat: info.DigestKeyFormat}
				}
				var ba blobstore.BlobAccess
				var br replication.BlobReplicator
				switch mode {
				case "read_caching":
					info, err := configuration.NewBlobAccessFromConfiguration(deps, &pb.BlobAccessConfiguration{Backend: &pb.BlobAccessConfiguration_ReadCaching{ReadCaching: &pb.ReadCachingBlobAccessConfiguration{
						Slow: ccGateRef(0), Fast: ccGateRef(1), Replicator: repl.config()}}}, creator)
					if err != nil {
						return fmt.Errorf("harness/C17: NewBlobAccessFromConfiguration failed for %s: %v", desc, err)
					}
					ba = info.BlobAccess
				case "read_fallback":
					info, err := configuration.NewBlobAccessFromConfiguration(deps, &pb.BlobAccessConfiguration{Backend: &pb.BlobAccessConfiguration_ReadFallback{ReadFallback: &pb.ReadFallbackBlobAccessConfiguration{
						Secondary: ccGateRef(0), Primary: ccGateRef(1), Replicator: repl.config()}}}, creator)
					if err != nil {
						return fmt.Errorf("harness/C17: NewBlobAccessFromConfiguration failed for %s: %v", desc, err)
					}
					ba = info.BlobAccess
				default:
					var err error
					br, err = configuration.NewBlobReplicatorFromConfiguration(deps, repl.config(), creator.leaves[0].BlobAccess, creator.leaves[1], configuration.NewCASBlobReplicatorCreator(nil))
					if err != nil {
						return fmt.Errorf("harness/C17: NewBlobReplicatorFromConfiguration failed for %s: %v", desc, err)
					}
				}
				dig := func(r cfgRef) digest.Digest { return hx.Sha(r.inst, objs[r.o]) }
				snapshot := func() (map[ccCell]bool, error) {
					out := map[ccCell]bool{}
					for x := range leafInfo {
						for o := range objs {
							for _, inst := range allInsts {
								r := cfgRef{o, inst}
								missing, err := leafInfo[x].BlobAccess.FindMissing(ctx, dig(r).ToSingletonSet())
								if err != nil {
									return nil, fmt.Errorf("harness/C17: direct FindMissing on leaf %d failed: %v", x, err)
								}
								if missing.Empty() {
									out[ccCell{x, r}] = true
								}
							}
						}
					}
					return out, nil
				}
				for _, s := range seeds {
					d := dig(s.ref)
					if err := leafInfo[s.leaf].BlobAccess.Put(ctx, d, buffer.NewCASBufferFromByteSlice(d, objs[s.ref.o], buffer.UserProvided)); err != nil {
						return fmt.Errorf("harness/C17: direct Put into leaf %d failed: %v", s.leaf, err)
					}
				}
				snap, err := snapshot()
				if err != nil {
					return err
				}
				var wg sync.WaitGroup
				// Whatever happens, no goroutine outlives the case.
				defer func() {
					for _, cl := range callers {
						if cl.cancel != nil {
							cl.cancel()
						}
					}
					for {
						synctest.Wait()
						w.mu.Lock()
						pending := w.pending
						w.pending = nil
						w.mu.Unlock()
						if len(pending) == 0 {
							break
						}
						for _, g := range pending {
							g.release <- status.Error(codes.Aborted, "harness: the case is over")
						}
					}
					wg.Wait()
				}()
				startCaller := func(cl *ccCaller) {
					cl.started = true
					cl.startSnap = snap
					cl.injectedAtStart = injected
					for _, other := range callers {
						if other == cl || !other.started || other.done {
							continue
						}
						for _, r := range cl.refs {
							for _, or := range other.refs {
								if r.o == or.o && r.inst != or.inst {
									overlapOtherInstance++
								}
							}
						}
					}
					cctx, cancel := context.WithCancel(context.WithValue(ctx, ccCallerKey{}, cl.id))
					cl.cancel = cancel
					wg.Add(1)
					go func() {
						defer wg.Done()
						switch cl.kind {
						case "get":
							cl.data, cl.err = consume(ba.Get(cctx, dig(cl.refs[0])), cl.method, cl.chunk, readArgs{full: objs[cl.refs[0].o]})
						case "find":
							sb := digest.NewSetBuilder(0)
							for _, r := range cl.refs {
								sb.Add(dig(r))
							}
							cl.missing, cl.err = ba.FindMissing(cctx, sb.Build())
						case "single":
							cl.data, cl.err = br.ReplicateSingle(cctx, dig(cl.refs[0])).ToByteSlice(1 << 16)
						case "multiple":
							sb := digest.NewSetBuilder(0)
							for _, r := range cl.refs {
								sb.Add(dig(r))
							}
							cl.err = br.ReplicateMultiple(cctx, sb.Build())
						}
						cl.finished.Store(true)
					}()
					log = append(log, "start "+cl.String())
				}
				release := func(i int, fail bool) {
					w.mu.Lock()
					g := w.pending[i]
					w.pending = append(w.pending[:i:i], w.pending[i+1:]...)
					w.mu.Unlock()
					if fail {
						injected++
						log = append(log, "FAIL "+g.String())
						g.release <- status.Error(codes.Unavailable, cfgFailingText)
						return
					}
					log = append(log, g.String())
					g.release <- nil
				}
				noted := map[int]bool{}
				// settle: wait for quiescence, read the leaves, judge the
				// callers that returned during this step.
				settle := func() error {
					synctest.Wait()
					var err error
					if snap, err = snapshot(); err != nil {
						return err
					}
					// Below a deduplicating replicator at most one copy of the
					// same object runs at a time. A copy is a Put into the
					// sink; "the same object" is decided by the sink's own
					// notion (flat: the blob; hierarchical: blob and instance
					// name).
					w.mu.Lock()
					copies := map[string][]string{}
					for _, g := range w.pending {
						if g.leaf == 1 && g.op == "Put" {
							k := g.what
							if !hier[1] {
								k = k[strings.Index(k, "|"):]
							}
							copies[k] = append(copies[k], g.String())
						}
					}
					w.mu.Unlock()
					for _, gs := range copies {
						if len(gs) > 1 {
							concurrentCopies++
							if repl.has("deduplicating") {
								return fmt.Errorf("C17 (configured, concurrent; %s): a deduplicating replicator never runs more than one concurrent copy of the same object, but %d copies into the %s back end are in flight at the same time: %v (schedule: %s)", desc, len(gs), names[1], gs, strings.Join(log, "; "))
							}
						}
					}
					for _, cl := range callers {
						if !cl.finished.Load() || noted[cl.id] {
							continue
						}
						noted[cl.id] = true
						cl.done = true
						excused := injected > 0
						what := fmt.Sprintf("%s (schedule so far: %s)", cl, strings.Join(log, "; "))
						log = append(log, fmt.Sprintf("c%d returns %v", cl.id, cl.err))
						if cl.err != nil {
							failures++
						} else {
							successes++
						}
						heldStart := func(r cfgRef) bool { return cl.startSnap[ccCell{0, r}] || cl.startSnap[ccCell{1, r}] }
						heldEnd := func(r cfgRef) bool { return snap[ccCell{0, r}] || snap[ccCell{1, r}] }
						switch cl.kind {
						case "get", "single":
							r := cl.refs[0]
							if cl.err == nil {
								if string(cl.data) != string(objs[r.o]) {
									return fmt.Errorf("C17 (configured, concurrent; %s): %s returned %q, want %q", desc, what, cl.data, objs[r.o])
								}
								if !heldEnd(r) {
									return fmt.Errorf("C17 (configured, concurrent; %s): %s returned the object although neither back end holds it under that instance name", desc, what)
								}
								if !snap[ccCell{1, r}] {
									if cl.kind == "single" {
										return fmt.Errorf("C17 (configured, concurrent; %s): a replicator never reports success unless the object was found in, or copied to, the sink: %s succeeded, but the sink does not hold %s under that instance name (the source holds it: %v)", desc, what, r, snap[ccCell{0, r}])
									}
									return fmt.Errorf("C17 (configured, concurrent; %s): after a successful read-through with a copying replicator the object is present in the %s back end: %s succeeded, but the %s back end does not hold %s under that instance name", desc, names[1], what, names[1], r)
								}
							} else if cl.kind == "single" {
								// (whether a replicator has to succeed is not
								// stated: counted)
								if cl.startSnap[ccCell{0, r}] && !excused {
									spuriousReplicateFailures++
								}
							} else if heldStart(r) && !excused {
								return fmt.Errorf("C17 (configured, concurrent; %s): the composite returns an object if the %s or the %s back end holds it, but %s failed although the %s back end held it: %v, the %s one: %v, when the call began and no back-end call failed: %v", desc, names[1], names[0], what, names[0], cl.startSnap[ccCell{0, r}], names[1], cl.startSnap[ccCell{1, r}], cl.err)
							}
						case "multiple":
							if cl.err == nil {
								for _, r := range cl.refs {
									if !snap[ccCell{1, r}] {
										return fmt.Errorf("C17 (configured, concurrent; %s): a replicator never reports success unless the object was found in, or copied to, the sink: %s succeeded, but the sink does not hold %s under that instance name (the source holds it: %v)", desc, what, r, snap[ccCell{0, r}])
									}
								}
							} else if !excused {
								all := true
								for _, r := range cl.refs {
									all = all && cl.startSnap[ccCell{0, r}]
								}
								if all {
									spuriousReplicateFailures++
								}
							}
						case "find":
							if cl.err != nil {
								if !excused {
									return fmt.Errorf("C17 (configured, concurrent; %s): %s failed although no back-end call failed: %v", desc, what, cl.err)
								}
								break
							}
							got := map[string]bool{}
							for _, d := range cl.missing.Items() {
								got[d.GetKey(digest.KeyWithInstance)] = true
							}
							for _, r := range cl.refs {
								k := dig(r).GetKey(digest.KeyWithInstance)
								if got[k] && heldStart(r) {
									return fmt.Errorf("C17 (configured, concurrent; %s): FindMissing through a fallback reports exactly the objects missing from both back ends: %s reports %s missing although a back end held it when the call began", desc, what, r)
								}
								if !got[k] && !heldEnd(r) {
									return fmt.Errorf("C17 (configured, concurrent; %s): FindMissing through a fallback reports exactly the objects missing from both back ends: %s does not report %s missing although neither back end holds it", desc, what, r)
								}
								delete(got, k)
							}
							if len(got) != 0 {
								return fmt.Errorf("C17 (configured, concurrent; %s): %s reported digests that were not asked about: %v", desc, what, got)
							}
						}
					}
					return nil
				}
				nextCaller := 0
				for _, s := range steps {
					w.mu.Lock()
					npending := len(w.pending)
					w.mu.Unlock()
					kind := s.kind
					if kind == "start" && nextCaller == len(callers) {
						kind = "release"
					}
					if kind != "start" && npending == 0 {
						if nextCaller == len(callers) {
							break
						}
						kind = "start"
					}
					if kind == "start" {
						startCaller(callers[nextCaller])
						nextCaller++
					} else {
						release(s.which%npending, kind == "fail")
					}
					if err := settle(); err != nil {
						return err
					}
				}
				// Drain: start everybody, then answer the parked calls in order.
				for {
					allDone := nextCaller == len(callers)
					for _, cl := range callers {
						allDone = allDone && (!cl.started || cl.done)
					}
					w.mu.Lock()
					npending := len(w.pending)
					w.mu.Unlock()
					if allDone && npending == 0 {
						break
					}
					switch {
					case nextCaller < len(callers):
						startCaller(callers[nextCaller])
						nextCaller++
					case npending > 0:
						release(0, false)
					default:
						var stuck []string
						for _, cl := range callers {
							if cl.started && !cl.done {
								stuck = append(stuck, cl.String())
							}
						}
						return fmt.Errorf("C17 (configured, concurrent; %s): every back-end call has been answered, yet %v did not return (lost wake-up / a slot that was not given back). Schedule: %s", desc, stuck, strings.Join(log, "; "))
					}
					if err := settle(); err != nil {
						return err
					}
				}
				// both overlapping callers for the same blob under different
				// instance names succeeded?
				for _, a := range callers {
					for _, b := range callers {
						if a.id < b.id && a.err == nil && b.err == nil {
							for _, ra := range a.refs {
								for _, rb := range b.refs {
									if ra.o == rb.o && ra.inst != rb.inst {
										overlapOtherInstanceBothOK++
									}
								}
							}
						}
					}
				}
				return nil
			})
		})
		if verdict != nil {
			t.Fatalf("%v", verdict)
		}
		c.Class("mode_" + mode)
		c.ClassIf(hier[1], "hierarchical_sink")
		c.ClassIf(hier[0], "hierarchical_source")
		for _, k := range []string{"deduplicating", "concurrency_limiting", "queued"} {
			c.ClassIf(repl.has(k), "replicator_"+k)
		}
		c.ClassIf(len(repl.wrappers) > 1, "nested_replicator")
		c.ClassIf(overlapOtherInstance > 0, "caller_started_while_same_blob_in_flight_under_other_instance_name")
		c.ClassIf(overlapOtherInstance > 0 && hier[1] && repl.has("deduplicating"), "same_blob_other_instance_in_flight_instance_aware_sink_deduplicating")
		c.ClassIf(concurrentCopies > 0, "same_object_copied_concurrently_without_deduplicating")
		c.ClassIf(injected > 0, "back_end_call_failed")
		c.ClassIf(successes > 0, "caller_succeeded")
		c.ClassIf(failures > 0, "caller_failed")
		c.ClassIf(spuriousReplicateFailures > 0, "replicate_failed_although_source_holds_and_no_call_failed")
		if overlapOtherInstance > 0 && overlapOtherInstanceBothOK > 0 && hier[1] {
			c.NonTrivial()
		}
		c.Sample(func() string {
			return fmt.Sprintf("%s seeds=%v schedule=%s", desc, seeds, strings.Join(log, "; "))
		})
		c.End()
	})
}
