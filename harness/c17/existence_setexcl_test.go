package c17

// TestC17ExistenceCacheSetExclusion: digest.ExistenceCache documents "It is
// safe to access ExistenceCache concurrently", while the eviction.Set it is
// given is not thread-safe: every call into the set has to happen inside the
// cache's critical section, and a key may only be touched while it is still
// in the set (the real LRU set dereferences a missing element). Sequential
// calls cannot tell; here the set handed to the cache is a pass-through
// wrapper around the REAL LRU / FIFO set which, at one generated call of
// Touch / Insert / Peek / Remove made on behalf of a RemoveExisting or Add,
// starts a second client's Add (fresh digests: it evicts when the cache is
// full) on another goroutine and waits until that Add has returned or is
// parked on a mutex (the cache's lock, on the unchanged code). Oracles: no
// second call enters the set while one is in progress, no panic, the second
// Add returns once the first call has, and RemoveExisting only ever removes
// digests that were added before (the clock stands still, so nothing
// expires).

import (
	"fmt"
	"runtime"
	"strings"
	"sync"
	"testing"
	"time"

	"github.com/buildbarn/bb-storage/pkg/digest"
	"github.com/buildbarn/bb-storage/pkg/eviction"
	"pgregory.net/rapid"

	"verif/harness/backends"
	"verif/harness/hx"
	"verif/harness/vstats"
)

var recECX = vstats.New("TestC17ExistenceCacheSetExclusion")

type exclSet struct {
	base eviction.Set[string]

	mu        sync.Mutex
	inside    string // method in progress ("" if none)
	violation string
	calls     int
	fireAt    int // call number at which the hook fires (-1: never)
	hook      func(method string)
}

func (s *exclSet) enter(m string) {
	s.mu.Lock()
	if s.inside != "" && s.violation == "" {
		s.violation = fmt.Sprintf("eviction set method %s was entered while %s was still in progress on another goroutine: the set is used outside the cache's critical section", m, s.inside)
	}
	s.inside = m
	n := s.calls
	s.calls++
	var h func(string)
	if n == s.fireAt {
		h = s.hook
	}
	s.mu.Unlock()
	if h != nil {
		h(m)
	}
}

func (s *exclSet) leave() {
	s.mu.Lock()
	s.inside = ""
	s.mu.Unlock()
}

func (s *exclSet) Insert(v string) { s.enter("Insert"); defer s.leave(); s.base.Insert(v) }
func (s *exclSet) Touch(v string)  { s.enter("Touch"); defer s.leave(); s.base.Touch(v) }
func (s *exclSet) Peek() string    { s.enter("Peek"); defer s.leave(); return s.base.Peek() }
func (s *exclSet) Remove()         { s.enter("Remove"); defer s.leave(); s.base.Remove() }

// ecxWorker is the second client (its name is looked for in goroutine dumps).
func ecxWorker(cache *digest.ExistenceCache, set digest.Set, done chan<- interface{}) {
	defer func() { done <- recover() }()
	cache.Add(set)
}

func ecxBlockedOnMutex(marker string) (found, blocked bool) {
	buf := make([]byte, 1<<20)
	buf = buf[:runtime.Stack(buf, true)]
	for _, g := range strings.Split(string(buf), "\n\n") {
		if !strings.Contains(g, marker) {
			continue
		}
		hdr := g
		if i := strings.IndexByte(g, '\n'); i >= 0 {
			hdr = g[:i]
		}
		return true, strings.Contains(hdr, "sync.Mutex.Lock") || (strings.Contains(hdr, "semacquire") && strings.Contains(g, "sync.(*Mutex).Lock"))
	}
	return false, false
}

func TestC17ExistenceCacheSetExclusion(t *testing.T) {
	rapid.Check(t, func(t *rapid.T) {
		c := recECX.Begin()
		policy := rapid.SampledFrom([]string{"lru", "lru", "fifo"}).Draw(t, "policy")
		size := rapid.IntRange(1, 4).Draw(t, "size")
		kf := digest.KeyWithInstance
		c.Add(policy, size)
		set := &exclSet{base: backends.NewEvictionSet(policy), fireAt: -1}
		clk := hx.NewVClock()
		cache := digest.NewExistenceCache(clk, kf, size, time.Hour, set)
		pool := make([]digest.Digest, 6)
		for i := range pool {
			pool[i] = hx.Sha("", []byte(fmt.Sprintf("ecx-%d", i)))
		}
		subset := func(label string) (digest.Set, []int) {
			idx := rapid.SliceOfNDistinct(rapid.IntRange(0, len(pool)-1), 1, 3, func(i int) int { return i }).Draw(t, label)
			b := digest.NewSetBuilder(0)
			for _, i := range idx {
				b.Add(pool[i])
			}
			return b.Build(), idx
		}
		everAdded := map[string]bool{}
		fresh := 0
		overlaps, blockedSeen, evictedDuring := 0, 0, 0
		nops := rapid.IntRange(2, 10).Draw(t, "nops")
		for op := 0; op < nops; op++ {
			isAdd := rapid.Bool().Draw(t, "isAdd")
			ds, idx := subset("subset")
			overlap := rapid.IntRange(0, 2).Draw(t, "overlap") == 0
			done := make(chan interface{}, 1)
			started, joined := false, false
			var workerPanic interface{}
			if overlap {
				// The second client adds `size` fresh digests: on a full
				// cache that evicts every older entry.
				b := digest.NewSetBuilder(0)
				for i := 0; i < size; i++ {
					fresh++
					d := hx.Sha("", []byte(fmt.Sprintf("ecx-fresh-%d", fresh)))
					b.Add(d)
					everAdded[d.GetKey(kf)] = true
				}
				other := b.Build()
				set.mu.Lock()
				set.fireAt = set.calls + rapid.IntRange(0, 3).Draw(t, "fireAfter")
				set.hook = func(method string) {
					started = true
					go ecxWorker(cache, other, done)
					for i := 0; i < 20000; i++ {
						select {
						case workerPanic = <-done:
							joined = true
						default:
						}
						if joined {
							break
						}
						if found, bl := ecxBlockedOnMutex("c17.ecxWorker"); found && bl {
							blockedSeen++
							break
						}
						runtime.Gosched()
						if i > 100 {
							time.Sleep(50 * time.Microsecond)
						}
					}
					if joined {
						evictedDuring++
					}
				}
				set.mu.Unlock()
			}
			c.Add(isAdd, fmt.Sprint(idx), overlap)
			var result digest.Set
			var opPanic interface{}
			func() {
				defer func() { opPanic = recover() }()
				if isAdd {
					cache.Add(ds)
				} else {
					result = cache.RemoveExisting(ds)
				}
			}()
			set.mu.Lock()
			set.fireAt = -1
			set.hook = nil
			set.mu.Unlock()
			if started && !joined {
				// (No wall-clock verdict: if the second client never returns
				// - lock not released - the unit hangs and the driver reports
				// the run as inconclusive.)
				workerPanic = <-done
			}
			if started {
				overlaps++
			}
			if opPanic != nil {
				t.Fatalf("ExistenceCache.%s panicked while a second client's Add overlapped with it: %v", map[bool]string{true: "Add", false: "RemoveExisting"}[isAdd], opPanic)
			}
			if workerPanic != nil {
				t.Fatalf("a second client's ExistenceCache.Add panicked: %v", workerPanic)
			}
			set.mu.Lock()
			v := set.violation
			set.mu.Unlock()
			if v != "" {
				t.Fatalf("%s", v)
			}
			if isAdd {
				for _, i := range idx {
					everAdded[pool[i].GetKey(kf)] = true
				}
			} else {
				// Soundness: whatever was taken out of the set was added
				// before (nothing expires: the clock stands still).
				in := map[string]bool{}
				for _, d := range result.Items() {
					in[d.GetKey(kf)] = true
				}
				for _, d := range ds.Items() {
					k := d.GetKey(kf)
					if !in[k] && !everAdded[k] {
						t.Fatalf("RemoveExisting treated %s as cached although it was never added", d)
					}
				}
				for k := range in {
					found := false
					for _, d := range ds.Items() {
						if d.GetKey(kf) == k {
							found = true
						}
					}
					if !found {
						t.Fatalf("RemoveExisting returned a digest that was not in its input")
					}
				}
			}
		}
		c.ClassIf(overlaps > 0, "second_add_started_inside_a_set_call")
		c.ClassIf(blockedSeen > 0, "second_add_waited_for_the_cache_lock")
		c.ClassIf(evictedDuring > 0, "second_add_completed_inside_a_set_call")
		if blockedSeen > 0 {
			c.NonTrivial()
		}
		c.End()
	})
}
