package c17

import (
	"bytes"
	"context"
	"fmt"
	"strings"
	"sync"
	"testing"
	"testing/synctest"
	"time"

	remoteexecution "github.com/bazelbuild/remote-apis/build/bazel/remote/execution/v2"
	"github.com/buildbarn/bb-storage/pkg/blobstore/buffer"
	"github.com/buildbarn/bb-storage/pkg/blobstore/replication"
	"github.com/buildbarn/bb-storage/pkg/blobstore/slicing"
	"github.com/buildbarn/bb-storage/pkg/digest"
	"github.com/buildbarn/bb-storage/pkg/eviction"
	"github.com/buildbarn/bb-storage/pkg/util"
	"golang.org/x/sync/semaphore"
	"google.golang.org/grpc/codes"
	"google.golang.org/grpc/status"
	"pgregory.net/rapid"

	"verif/harness/backends"
	"verif/harness/hx"
	"verif/harness/vstats"
)

// ---------------------------------------------------------------------
// (b) replicator decorators under generated interleavings
//
// The decorators under test (deduplicating, concurrency-limiting, queued
// and nestings) sit on top of a harness BASE replicator and a harness
// SINK back end. Every call that reaches base or sink parks at a gate; a
// scheduler that runs in the root goroutine of a synctest bubble waits
// for quiescence, then performs ONE generated action: start the next
// caller, release one parked call (with success or an injected error),
// cancel a caller's context, or advance the virtual clock. The effect
// of a released call (copy into the sink, existence answer) is applied
// by the scheduler at release time, so every event has a place in one
// global sequence.
// ---------------------------------------------------------------------

type callerKeyT struct{}

type gate struct {
	id      int
	kind    string // "base", "check" (sink.FindMissing), "get" (sink.Get/GetFromComposite), "put"
	caller  int
	digests []digest.Digest
	release chan gateResult
}

type gateResult struct {
	err     error
	missing digest.Set
}

// event: something that justifies reporting success for a key.
type event struct {
	seq    int
	vtime  time.Time
	key    string
	what   string
	caller int
}

func (e event) String() string { return fmt.Sprintf("#%d c%d %s %s", e.seq, e.caller, e.what, e.key) }

// released: one of caller's parked calls was answered at (seq, vtime).
type released struct {
	seq    int
	vtime  time.Time
	caller int
}

type world struct {
	kf  digest.KeyFormat
	clk *hx.VClock
	mem *backends.Mem // the sink's contents
	src *backends.Mem // the source's contents (always complete)

	mu          sync.Mutex
	nextGate    int
	pending     []*gate
	seq         int
	events      []event
	releases    []released
	activeKey   map[string]int
	activeTotal int
	maxPerKey   int
	maxTotal    int
	violations  []string
	failedGates map[int][]codes.Code // caller -> codes of failures injected into its calls

	perKeyLimit bool
	totalLimit  int // 0: none
}

func (w *world) violate(format string, args ...interface{}) {
	w.mu.Lock()
	w.violations = append(w.violations, fmt.Sprintf(format, args...))
	w.mu.Unlock()
}

// park registers a gate and blocks until the scheduler releases it or the
// caller's context is cancelled.
func (w *world) park(ctx context.Context, kind string, digests []digest.Digest) gateResult {
	caller, _ := ctx.Value(callerKeyT{}).(int)
	g := &gate{kind: kind, caller: caller, digests: digests, release: make(chan gateResult, 1)}
	w.mu.Lock()
	g.id = w.nextGate
	w.nextGate++
	w.pending = append(w.pending, g)
	w.mu.Unlock()
	select {
	case r := <-g.release:
		return r
	case <-ctx.Done():
		w.mu.Lock()
		for i, p := range w.pending {
			if p == g {
				w.pending = append(w.pending[:i:i], w.pending[i+1:]...)
				break
			}
		}
		w.mu.Unlock()
		return gateResult{err: util.StatusFromContext(ctx)}
	}
}

// gatedSink is the sink BlobAccess handed to the decorators.
type gatedSink struct{ w *world }

func (s gatedSink) Get(ctx context.Context, d digest.Digest) buffer.Buffer {
	if r := s.w.park(ctx, "get", []digest.Digest{d}); r.err != nil {
		return buffer.NewBufferFromError(r.err)
	}
	return s.w.mem.Get(ctx, d)
}

func (s gatedSink) GetFromComposite(ctx context.Context, p, c digest.Digest, slicer slicing.BlobSlicer) buffer.Buffer {
	if r := s.w.park(ctx, "get", []digest.Digest{p}); r.err != nil {
		return buffer.NewBufferFromError(r.err)
	}
	return s.w.mem.GetFromComposite(ctx, p, c, slicer)
}

func (s gatedSink) Put(ctx context.Context, d digest.Digest, b buffer.Buffer) error {
	if r := s.w.park(ctx, "put", []digest.Digest{d}); r.err != nil {
		b.Discard()
		return r.err
	}
	return s.w.mem.Put(ctx, d, b)
}

func (s gatedSink) FindMissing(ctx context.Context, ds digest.Set) (digest.Set, error) {
	r := s.w.park(ctx, "check", append([]digest.Digest(nil), ds.Items()...))
	return r.missing, r.err
}

func (s gatedSink) GetCapabilities(ctx context.Context, in digest.InstanceName) (*remoteexecution.ServerCapabilities, error) {
	return s.w.mem.GetCapabilities(ctx, in)
}

// gatedBase is the base replicator handed to the decorators. It also is
// the monitor for "how many copies run at the same time".
type gatedBase struct{ w *world }

// ReplicateSingle / ReplicateComposite: one base copy of that object (the
// decorators under test use ReplicateMultiple only today; which base
// method they use is theirs to choose). The data is served from the
// (always complete) source once the copy has been released.
func (b gatedBase) ReplicateSingle(ctx context.Context, d digest.Digest) buffer.Buffer {
	if err := b.ReplicateMultiple(ctx, d.ToSingletonSet()); err != nil {
		return buffer.NewBufferFromError(err)
	}
	return b.w.src.Get(ctx, d)
}

func (b gatedBase) ReplicateComposite(ctx context.Context, p, c digest.Digest, s slicing.BlobSlicer) buffer.Buffer {
	if err := b.ReplicateMultiple(ctx, p.ToSingletonSet()); err != nil {
		return buffer.NewBufferFromError(err)
	}
	return b.w.src.GetFromComposite(ctx, p, c, s)
}

func (b gatedBase) ReplicateMultiple(ctx context.Context, ds digest.Set) error {
	w := b.w
	items := append([]digest.Digest(nil), ds.Items()...)
	w.mu.Lock()
	w.activeTotal++
	if w.activeTotal > w.maxTotal {
		w.maxTotal = w.activeTotal
	}
	if w.totalLimit > 0 && w.activeTotal > w.totalLimit {
		w.violations = append(w.violations, fmt.Sprintf("%d base replications run concurrently, limit is %d", w.activeTotal, w.totalLimit))
	}
	for _, d := range items {
		k := d.GetKey(w.kf)
		w.activeKey[k]++
		if w.activeKey[k] > w.maxPerKey {
			w.maxPerKey = w.activeKey[k]
		}
		if w.perKeyLimit && w.activeKey[k] > 1 {
			w.violations = append(w.violations, fmt.Sprintf("%d concurrent base copies of the same object %s below a deduplicating replicator", w.activeKey[k], d))
		}
	}
	w.mu.Unlock()
	r := w.park(ctx, "base", items)
	w.mu.Lock()
	w.activeTotal--
	for _, d := range items {
		w.activeKey[d.GetKey(w.kf)]--
	}
	w.mu.Unlock()
	return r.err
}

// stack description for (b): decorators only, innermost is the gated base.
type stackCfg struct {
	Kind          string // base, deduplicating, concurrency_limiting, queued
	N             int64
	CacheSize     int
	CacheDuration time.Duration
	Policy        string
	Base          *stackCfg
}

func (c *stackCfg) String() string {
	switch c.Kind {
	case "base":
		return "base"
	case "deduplicating":
		return "dedup(" + c.Base.String() + ")"
	case "concurrency_limiting":
		return fmt.Sprintf("limit%d(%s)", c.N, c.Base)
	default:
		return fmt.Sprintf("queued[%d,%s,%s](%s)", c.CacheSize, c.CacheDuration, c.Policy, c.Base)
	}
}

func (c *stackCfg) contains(kind string) bool {
	for x := c; x != nil; x = x.Base {
		if x.Kind == kind {
			return true
		}
	}
	return false
}

// limit: the bound on concurrently running base calls (0 = none).
func (c *stackCfg) limit() int {
	l := 0
	for x := c; x != nil; x = x.Base {
		n := 0
		switch x.Kind {
		case "concurrency_limiting":
			n = int(x.N)
		case "queued":
			n = 1
		}
		if n > 0 && (l == 0 || n < l) {
			l = n
		}
	}
	return l
}

func (c *stackCfg) queuedDuration() (time.Duration, bool) {
	var d time.Duration
	found := false
	for x := c; x != nil; x = x.Base {
		if x.Kind == "queued" {
			found = true
			if x.CacheDuration > d {
				d = x.CacheDuration
			}
		}
	}
	return d, found
}

func (c *stackCfg) build(w *world) replication.BlobReplicator {
	var r replication.BlobReplicator
	switch c.Kind {
	case "base":
		return gatedBase{w}
	case "deduplicating":
		r = replication.NewDeduplicatingBlobReplicator(c.Base.build(w), gatedSink{w}, w.kf)
	case "concurrency_limiting":
		r = replication.NewConcurrencyLimitingBlobReplicator(c.Base.build(w), gatedSink{w}, semaphore.NewWeighted(c.N))
	case "queued":
		ec := digest.NewExistenceCache(w.clk, w.kf, c.CacheSize, c.CacheDuration,
			eviction.NewMetricsSet(backends.NewEvictionSet(c.Policy), "QueuedBlobReplicator"))
		r = replication.NewQueuedBlobReplicator(w.src, c.Base.build(w), ec)
	}
	return replication.NewMetricsBlobReplicator(r, w.clk, "cas")
}

func genStack(t *rapid.T, label string, depth int) *stackCfg {
	if depth <= 0 {
		return &stackCfg{Kind: "base"}
	}
	inner := func() *stackCfg {
		if rapid.IntRange(0, 2).Draw(t, label+"/nest") == 0 {
			return genStack(t, label+".b", depth-1)
		}
		return &stackCfg{Kind: "base"}
	}
	switch rapid.IntRange(0, 3).Draw(t, label+"/kind") {
	case 0, 1:
		return &stackCfg{Kind: "deduplicating", Base: inner()}
	case 2:
		return &stackCfg{Kind: "concurrency_limiting", N: int64(rapid.IntRange(1, 3).Draw(t, label+"/n")), Base: inner()}
	default:
		return &stackCfg{Kind: "queued",
			CacheSize:     rapid.IntRange(1, 4).Draw(t, label+"/cachesize"),
			CacheDuration: time.Duration(rapid.IntRange(0, 2).Draw(t, label+"/cachedur")) * time.Second,
			Policy:        rapid.SampledFrom([]string{"fifo", "lru"}).Draw(t, label+"/policy"),
			Base:          inner()}
	}
}

type callerSpec struct {
	Op      int // 0 ReplicateMultiple, 1 ReplicateSingle, 2 ReplicateComposite
	Objects []int
}

func (c callerSpec) String() string {
	return fmt.Sprintf("%s%v", []string{"Multiple", "Single", "Composite"}[c.Op], c.Objects)
}

type step struct {
	Action int // see act* constants
	Pick   int
	Code   codes.Code
}

// Actions 0..11: 0-3 and 11 release ok, 4-5 release with failure, 6-8 start
// a caller, 9 cancel a caller, 10 advance the clock.
func (s step) kind() string {
	switch {
	case s.Action == 4 || s.Action == 5:
		return "fail"
	case s.Action >= 6 && s.Action <= 8:
		return "start"
	case s.Action == 9:
		return "cancel"
	case s.Action == 10:
		return "advance"
	}
	return "ok"
}

type callerState struct {
	spec      callerSpec
	started   bool
	done      bool
	cancelled bool // cancel was called before it finished
	err       error
	data      []byte
	beginSeq  int
	beginTime time.Time
	cancel    context.CancelFunc
}

type identitySlicer struct{}

func (identitySlicer) Slice(b buffer.Buffer, child digest.Digest) (buffer.Buffer, []slicing.BlobSlice) {
	return b, nil
}

var recConc = vstats.New("TestC17ReplicatorsConcurrent")

// TestC17ReplicatorsConcurrent: 2..6 callers with overlapping digest sets
// against one decorator stack, interleaving / failures / cancellations
// generated.
func TestC17ReplicatorsConcurrent(outer *testing.T) { replicatorsConcurrent(outer, recConc) }

var recConcRace = vstats.New("TestC17ReplicatorsConcurrentRace")

// TestC17ReplicatorsConcurrentRace is the same property; the driver runs it
// from a -race binary with GOMAXPROCS=8 (thorough tier), so that goroutines
// which become runnable in the same step really run in parallel.
func TestC17ReplicatorsConcurrentRace(outer *testing.T) { replicatorsConcurrent(outer, recConcRace) }

func replicatorsConcurrent(outer *testing.T, rec *vstats.Recorder) {
	rapid.Check(outer, func(t *rapid.T) {
		c := rec.Begin()
		// ---- everything is drawn BEFORE the bubble starts ----
		kf := digest.KeyWithoutInstance
		if rapid.Bool().Draw(t, "keyWithInstance") {
			kf = digest.KeyWithInstance
		}
		cfg := genStack(t, "stack", 2)
		pool := genPool(t, 3)
		inSink := make([]bool, len(pool))
		for j := range pool {
			inSink[j] = rapid.IntRange(0, 3).Draw(t, fmt.Sprintf("obj%d/inSink", j)) == 0
		}
		ncallers := rapid.IntRange(2, 6).Draw(t, "ncallers")
		callers := make([]callerSpec, ncallers)
		for i := range callers {
			op := rapid.SampledFrom([]int{0, 0, 1, 2}).Draw(t, fmt.Sprintf("caller%d/op", i))
			var objs []int
			if op == 0 {
				for j := range pool {
					if rapid.IntRange(0, 2).Draw(t, fmt.Sprintf("caller%d/in%d", i, j)) > 0 {
						objs = append(objs, j)
					}
				}
			} else {
				objs = []int{rapid.IntRange(0, len(pool)-1).Draw(t, fmt.Sprintf("caller%d/obj", i))}
			}
			callers[i] = callerSpec{Op: op, Objects: objs}
		}
		// callers started before the first gate is released
		eager := rapid.IntRange(1, ncallers).Draw(t, "eagerStarts")
		nsteps := rapid.IntRange(0, 30).Draw(t, "nsteps")
		steps := make([]step, nsteps)
		for i := range steps {
			steps[i] = step{
				Action: rapid.IntRange(0, 11).Draw(t, fmt.Sprintf("step%d/action", i)),
				Pick:   rapid.IntRange(0, 11).Draw(t, fmt.Sprintf("step%d/pick", i)),
				Code:   rapid.SampledFrom(faultCodes).Draw(t, fmt.Sprintf("step%d/code", i)),
			}
		}
		c.Add(int(kf), cfg.String(), fmt.Sprint(inSink), fmt.Sprint(callers), eager, fmt.Sprint(steps))
		for j, o := range pool {
			c.Add(j, o.inst, o.data)
		}

		var failure string
		var history []string
		leaderFailedWithWaiters := 0
		nCancelled, nFailures, nStale := 0, 0, 0
		nCancelSlow, nCancelOther, nForeignErr := 0, 0, 0
		var maxPerKey, maxTotal int

		synctest.Test(outer, func(st *testing.T) {
			w := &world{kf: kf, clk: hx.NewVClock(), mem: backends.NewMem("sink", kf), src: backends.NewMem("source", kf),
				activeKey: map[string]int{}, failedGates: map[int][]codes.Code{}}
			w.perKeyLimit = cfg.contains("deduplicating")
			w.totalLimit = cfg.limit()
			keyToObj := map[string]int{}
			for j, o := range pool {
				w.src.Set(o.d, o.data)
				if inSink[j] {
					w.mem.Set(o.d, o.data)
				}
				keyToObj[o.d.GetKey(kf)] = j
			}
			repl := cfg.build(w)
			states := make([]*callerState, ncallers)
			for i := range states {
				states[i] = &callerState{spec: callers[i]}
			}
			var wg sync.WaitGroup
			fail := func(format string, args ...interface{}) {
				if failure == "" {
					failure = fmt.Sprintf(format, args...)
				}
			}

			start := func(i int) {
				s := states[i]
				s.started = true
				w.mu.Lock()
				w.seq++
				s.beginSeq = w.seq
				w.mu.Unlock()
				s.beginTime = w.clk.Now()
				ctx, cancel := context.WithCancel(context.WithValue(context.Background(), callerKeyT{}, i))
				s.cancel = cancel
				history = append(history, fmt.Sprintf("start c%d %s", i, s.spec))
				wg.Add(1)
				go func() {
					defer wg.Done()
					var err error
					var data []byte
					switch s.spec.Op {
					case 0:
						sb := digest.NewSetBuilder(0)
						for _, j := range s.spec.Objects {
							sb.Add(pool[j].d)
						}
						err = repl.ReplicateMultiple(ctx, sb.Build())
					case 1:
						data, err = repl.ReplicateSingle(ctx, pool[s.spec.Objects[0]].d).ToByteSlice(1 << 20)
					default:
						d := pool[s.spec.Objects[0]].d
						data, err = repl.ReplicateComposite(ctx, d, d, identitySlicer{}).ToByteSlice(1 << 20)
					}
					w.mu.Lock()
					s.done, s.err, s.data = true, err, data
					w.mu.Unlock()
				}()
			}

			isDone := func(i int) bool {
				w.mu.Lock()
				defer w.mu.Unlock()
				return states[i].done
			}

			// release applies the effect of gate g and lets its goroutine go on.
			release := func(g *gate, failWith error) {
				w.mu.Lock()
				for i, p := range w.pending {
					if p == g {
						w.pending = append(w.pending[:i:i], w.pending[i+1:]...)
						break
					}
				}
				w.seq++
				seq := w.seq
				now := w.clk.Now()
				w.releases = append(w.releases, released{seq: seq, vtime: now, caller: g.caller})
				var res gateResult
				if failWith != nil {
					res.err = failWith
					w.failedGates[g.caller] = append(w.failedGates[g.caller], status.Code(failWith))
				} else {
					switch g.kind {
					case "base":
						for _, d := range g.digests {
							j := keyToObj[d.GetKey(kf)]
							w.mem.Set(d, pool[j].data)
							w.events = append(w.events, event{seq: seq, vtime: now, key: d.GetKey(kf), what: "copied", caller: g.caller})
						}
					case "check":
						sb := digest.NewSetBuilder(0)
						for _, d := range g.digests {
							if w.mem.Has(d) {
								w.events = append(w.events, event{seq: seq, vtime: now, key: d.GetKey(kf), what: "found in sink", caller: g.caller})
							} else {
								sb.Add(d)
							}
						}
						res.missing = sb.Build()
					case "get":
						for _, d := range g.digests {
							if w.mem.Has(d) {
								w.events = append(w.events, event{seq: seq, vtime: now, key: d.GetKey(kf), what: "found in sink", caller: g.caller})
							}
						}
					}
				}
				w.mu.Unlock()
				if failWith != nil {
					// NT: how many OTHER callers that want one of these keys are
					// parked inside a decorator (no gate of their own) right now?
					waiting := 0
					for i, s := range states {
						if i == g.caller || !s.started || isDone(i) {
							continue
						}
						hasGate := false
						w.mu.Lock()
						for _, p := range w.pending {
							if p.caller == i {
								hasGate = true
							}
						}
						w.mu.Unlock()
						if hasGate {
							continue
						}
						for _, j := range s.spec.Objects {
							for _, d := range g.digests {
								if pool[j].d.GetKey(kf) == d.GetKey(kf) {
									waiting++
								}
							}
						}
					}
					if waiting >= 2 && (g.kind == "base" || g.kind == "check") {
						leaderFailedWithWaiters++
					}
					nFailures++
				}
				history = append(history, fmt.Sprintf("release #%d %s c%d %v -> %v", g.id, g.kind, g.caller, g.digests, failWith))
				g.release <- res
			}

			for i := 0; i < eager; i++ {
				synctest.Wait()
				start(i)
			}
			stepIdx := 0
			for iter := 0; ; iter++ {
				synctest.Wait()
				w.mu.Lock()
				pend := append([]*gate(nil), w.pending...)
				w.mu.Unlock()
				var unstarted []int
				for i, s := range states {
					if !s.started {
						unstarted = append(unstarted, i)
					}
				}
				if len(pend) == 0 && len(unstarted) == 0 {
					break
				}
				if iter > 2000 {
					fail("schedule did not terminate after 2000 steps (livelock): pending %d gates", len(pend))
					break
				}
				st := step{Action: 0}
				if stepIdx < len(steps) {
					st = steps[stepIdx]
					stepIdx++
				}
				switch {
				case st.kind() == "advance":
					w.clk.Advance(time.Duration(st.Pick%4) * 500 * time.Millisecond)
					history = append(history, fmt.Sprintf("advance %d", st.Pick%4))
				case st.kind() == "cancel":
					var running []int
					for i, s := range states {
						if s.started && !isDone(i) && !s.cancelled {
							running = append(running, i)
						}
					}
					if len(running) == 0 {
						continue
					}
					i := running[st.Pick%len(running)]
					states[i].cancelled = true
					states[i].cancel()
					nCancelled++
					history = append(history, fmt.Sprintf("cancel c%d", i))
					// (how fast and with which error a cancelled caller returns
					// is not part of the property: counted; that it returns at
					// all is covered by the final quiescence check)
					synctest.Wait()
					if !isDone(i) {
						nCancelSlow++
					} else if states[i].err == nil || status.Code(states[i].err) != codes.Canceled {
						nCancelOther++
					}
				case (st.kind() == "start" || len(pend) == 0) && len(unstarted) > 0:
					start(unstarted[0])
				case len(pend) > 0:
					g := pend[st.Pick%len(pend)]
					var failWith error
					if st.kind() == "fail" {
						failWith = status.Errorf(st.Code, "injected failure of %s #%d", g.kind, g.id)
					}
					release(g, failWith)
				}
			}

			// Quiescence with nothing left to release: every caller must be done.
			synctest.Wait()
			for i, s := range states {
				if s.started && !isDone(i) {
					fail("caller %d (%s) is still blocked although every base/sink call has been answered and nothing is in flight (lost wake-up)", i, s.spec)
				}
			}
			// unwind whatever is left so that the bubble can end
			for _, s := range states {
				if s.cancel != nil {
					s.cancel()
				}
			}
			wg.Wait()

			w.mu.Lock()
			defer w.mu.Unlock()
			if len(w.violations) > 0 {
				fail("%s", w.violations[0])
			}
			maxPerKey, maxTotal = w.maxPerKey, w.maxTotal
			qdur, hasQueued := cfg.queuedDuration()
			for i, s := range states {
				if !s.started || failure != "" {
					continue
				}
				if s.err == nil {
					for _, j := range s.spec.Objects {
						key := pool[j].d.GetKey(kf)
						justified, stale := false, false
						for _, e := range w.events {
							if e.key != key {
								continue
							}
							if e.seq > s.beginSeq {
								justified = true
							} else if hasQueued {
								// The queued replicator answers from its cache of
								// recently completed replications (documented:
								// "Don't queue requests for objects that have
								// already been replicated"). The entry is stamped
								// when the replicating call completes, i.e. at one
								// of that caller's later releases.
								for _, r := range w.releases {
									if r.caller == e.caller && r.seq >= e.seq && !r.vtime.Before(s.beginTime.Add(-qdur)) {
										stale = true
									}
								}
							}
						}
						if !justified && !stale {
							fail("caller %d (%s, began at #%d) got success, but object %d was neither found in nor copied to the sink after it asked; events: %v", i, s.spec, s.beginSeq, j, w.events)
						}
						if !justified && stale {
							nStale++
						}
						if !w.mem.Has(pool[j].d) {
							fail("caller %d (%s) got success but the sink lacks object %d", i, s.spec, j)
						}
					}
					if s.spec.Op != 0 && !bytes.Equal(s.data, pool[s.spec.Objects[0]].data) {
						fail("caller %d (%s) received %q, want %q", i, s.spec, s.data, pool[s.spec.Objects[0]].data)
					}
				} else {
					// An error must have a cause: the caller was cancelled, or
					// a base/sink call was failed / a caller was cancelled by
					// the schedule. Whether waiters retry after a leader's
					// failure (today) or share its error is not fixed by the
					// property (it only forbids sharing an unearned SUCCESS):
					// an error that is not the caller's own is only counted.
					code := status.Code(s.err)
					own := s.cancelled
					for _, fc := range w.failedGates[i] {
						if fc == code {
							own = true
						}
					}
					if !own {
						nForeignErr++
					}
					if !s.cancelled && nFailures == 0 && nCancelled == 0 {
						fail("caller %d (%s) failed with %v although no base/sink call was failed and nobody was cancelled", i, s.spec, s.err)
					}
				}
			}
		})

		if failure != "" {
			t.Fatalf("stack %s, callers %v, sink initially holds %v: %s\nhistory:\n  %s", cfg, callers, inSink, failure, strings.Join(history, "\n  "))
		}
		for x := cfg; x != nil && x.Kind != "base"; x = x.Base {
			c.Class("stack_" + x.Kind)
		}
		c.ClassIf(cfg.Base != nil && cfg.Base.Kind != "base", "stack_nested")
		c.ClassIf(nCancelled > 0, "with_cancellation")
		c.ClassIf(nFailures > 0, "with_injected_failure")
		c.ClassIf(nStale > 0, "success_from_queued_cache")
		c.ClassIf(nCancelSlow > 0, "cancelled_caller_still_blocked_at_next_quiescence")
		c.ClassIf(nCancelOther > 0, "cancelled_caller_returned_other_than_cancelled")
		c.ClassIf(nForeignErr > 0, "error_not_caused_by_own_call")
		c.ClassIf(maxPerKey > 1, "same_key_copied_concurrently")
		c.ClassIf(maxTotal > 1, "base_calls_overlap")
		if leaderFailedWithWaiters > 0 && (cfg.contains("deduplicating") || cfg.contains("queued")) {
			c.NonTrivial()
			c.Class("leader_failed_with_2_waiters")
		}
		c.Sample(func() string {
			return fmt.Sprintf("stack=%s callers=%v inSink=%v history=%v", cfg, callers, inSink, history)
		})
		c.End()
	})
}
