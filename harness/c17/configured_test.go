package c17

// TestC17Configured: read_caching, read_fallback and existence_caching as
// the REAL configuration code assembles them
// (configuration.NewBlobAccessFromConfiguration: which back end is slow /
// fast / primary / secondary, which one is the replicator's source and
// which its sink, which key format an existence cache - the
// existence_caching decorator's or the queued replicator's - is given).
// The leaves are real in-memory `local` CAS back ends declared under
// with_labels, each either flat (instance names ignored) or hierarchical
// (an object is visible under the instance names it was stored under and
// their children); a demultiplexer makes the composite reachable under the
// instance name prefix "c" and the two leaves directly under "x" and "y",
// so placements can be made and inspected through the same configured
// stack.
//
// Back-end failures come from the configuration too: a back end of the
// composite may be a demultiplexer that sends one instance name ("fx" for
// the slow / secondary one, "fy" for the fast / primary one) to an `error`
// back end, and one leaf may have blocks too small for the one big object
// of the case (its Put of that object fails), so that replications fail
// and later ones must still work.
//
// The whole case runs inside a testing/synctest bubble: every operation on
// the composite gets a deadline on the bubble's virtual clock, which only
// advances when every goroutine is blocked. A blocked operation (e.g. a
// replication slot that a failed replication never gave back) therefore
// returns at once with an expired context and is reported; wall-clock time
// influences nothing.

import (
	"context"
	"fmt"
	"strings"
	"testing"
	"testing/synctest"
	"time"

	remoteexecution "github.com/bazelbuild/remote-apis/build/bazel/remote/execution/v2"
	"github.com/buildbarn/bb-storage/pkg/blobstore"
	"github.com/buildbarn/bb-storage/pkg/blobstore/buffer"
	"github.com/buildbarn/bb-storage/pkg/blobstore/configuration"
	"github.com/buildbarn/bb-storage/pkg/digest"
	"github.com/buildbarn/bb-storage/pkg/program"
	pb "github.com/buildbarn/bb-storage/pkg/proto/configuration/blobstore"
	digestpb "github.com/buildbarn/bb-storage/pkg/proto/configuration/digest"
	evictionpb "github.com/buildbarn/bb-storage/pkg/proto/configuration/eviction"
	"google.golang.org/grpc/codes"
	"google.golang.org/grpc/status"
	"google.golang.org/protobuf/proto"
	"google.golang.org/protobuf/types/known/durationpb"
	"google.golang.org/protobuf/types/known/emptypb"
	"pgregory.net/rapid"

	"verif/harness/hx"
	"verif/harness/vstats"
)

var recConfigured = vstats.New("TestC17Configured")

// cfgOpDeadline is the (virtual) deadline of one operation on the composite.
const cfgOpDeadline = time.Hour

// Block sizes of the leaves. Per case far less than one block is written
// to a leaf, so no block ever rotates: leaves never evict and never need
// to refresh.
const (
	cfgBlockNormal = 16384
	cfgBlockSmall  = 4096  // the leaf that cannot store the big object
	cfgBlockLarge  = 65536 // the other leaf of such a case
	cfgBigObject   = 5000
)

type cfgLeaf struct {
	hierarchical bool
	blockSize    int64
}

func (l cfgLeaf) String() string {
	k := "flat"
	if l.hierarchical {
		k = "hierarchical"
	}
	return fmt.Sprintf("%s/%d", k, l.blockSize)
}

func cfgLocalLeaf(l cfgLeaf) *pb.BlobAccessConfiguration {
	return &pb.BlobAccessConfiguration{Backend: &pb.BlobAccessConfiguration_Local{Local: &pb.LocalBlobAccessConfiguration{
		KeyLocationMapBackend:            &pb.LocalBlobAccessConfiguration_KeyLocationMapInMemory_{KeyLocationMapInMemory: &pb.LocalBlobAccessConfiguration_KeyLocationMapInMemory{Entries: 1021}},
		KeyLocationMapMaximumGetAttempts: 16,
		KeyLocationMapMaximumPutAttempts: 64,
		OldBlocks:                        2,
		CurrentBlocks:                    2,
		NewBlocks:                        2,
		BlocksBackend:                    &pb.LocalBlobAccessConfiguration_BlocksInMemory_{BlocksInMemory: &pb.LocalBlobAccessConfiguration_BlocksInMemory{BlockSizeBytes: l.blockSize}},
		HierarchicalInstanceNames:        l.hierarchical,
	}}}
}

func cfgLabelRef(l string) *pb.BlobAccessConfiguration {
	return &pb.BlobAccessConfiguration{Backend: &pb.BlobAccessConfiguration_Label{Label: l}}
}

func cfgExistenceCache(size int64) *digestpb.ExistenceCacheConfiguration {
	return &digestpb.ExistenceCacheConfiguration{
		CacheSize:              size,
		CacheDuration:          durationpb.New(24 * time.Hour),
		CacheReplacementPolicy: evictionpb.CacheReplacementPolicy_LEAST_RECENTLY_USED,
	}
}

const cfgFailingText = "injected: the storage behind this instance name is down"

// cfgBackEnd is one back end of the composite: the leaf itself, or
// (failCode != OK) a demultiplexer that sends instance name failInst to an
// `error` back end and everything else to the leaf.
func cfgBackEnd(leafLabel, failInst string, failCode codes.Code) *pb.BlobAccessConfiguration {
	if failCode == codes.OK {
		return cfgLabelRef(leafLabel)
	}
	return &pb.BlobAccessConfiguration{Backend: &pb.BlobAccessConfiguration_Demultiplexing{Demultiplexing: &pb.DemultiplexingBlobAccessConfiguration{InstanceNamePrefixes: map[string]*pb.DemultiplexedBlobAccessConfiguration{
		"":       {Backend: cfgLabelRef(leafLabel)},
		failInst: {Backend: &pb.BlobAccessConfiguration{Backend: &pb.BlobAccessConfiguration_Error{Error: status.New(failCode, cfgFailingText).Proto()}}},
	}}}}
}

// cfgWrap is one decorator of a replicator configuration.
type cfgWrap struct {
	kind      string
	n         int64 // concurrency_limiting: maximum_concurrency
	cacheSize int64 // queued: existence cache size
}

func (w cfgWrap) String() string {
	switch w.kind {
	case "concurrency_limiting":
		return fmt.Sprintf("concurrency_limiting[%d]", w.n)
	case "queued":
		return fmt.Sprintf("queued[%d]", w.cacheSize)
	}
	return w.kind
}

// cfgRepl is a replicator configuration: wrappers around `local` or `noop`.
type cfgRepl struct {
	wrappers []cfgWrap
	noop     bool
}

func (r cfgRepl) String() string {
	parts := []string{}
	for _, w := range r.wrappers {
		parts = append(parts, w.String())
	}
	base := "local"
	if r.noop {
		base = "noop"
	}
	return strings.Join(append(parts, base), ">")
}

func (r cfgRepl) has(kind string) bool {
	for _, w := range r.wrappers {
		if w.kind == kind {
			return true
		}
	}
	return false
}

func (r cfgRepl) config() *pb.BlobReplicatorConfiguration {
	var out *pb.BlobReplicatorConfiguration
	if r.noop {
		out = &pb.BlobReplicatorConfiguration{Mode: &pb.BlobReplicatorConfiguration_Noop{Noop: &emptypb.Empty{}}}
	} else {
		out = &pb.BlobReplicatorConfiguration{Mode: &pb.BlobReplicatorConfiguration_Local{Local: &emptypb.Empty{}}}
	}
	for i := len(r.wrappers) - 1; i >= 0; i-- {
		w := r.wrappers[i]
		switch w.kind {
		case "deduplicating":
			out = &pb.BlobReplicatorConfiguration{Mode: &pb.BlobReplicatorConfiguration_Deduplicating{Deduplicating: out}}
		case "concurrency_limiting":
			out = &pb.BlobReplicatorConfiguration{Mode: &pb.BlobReplicatorConfiguration_ConcurrencyLimiting{ConcurrencyLimiting: &pb.ConcurrencyLimitingBlobReplicatorConfiguration{Base: out, MaximumConcurrency: w.n}}}
		case "queued":
			out = &pb.BlobReplicatorConfiguration{Mode: &pb.BlobReplicatorConfiguration_Queued{Queued: &pb.QueuedBlobReplicatorConfiguration{Base: out, ExistenceCache: cfgExistenceCache(w.cacheSize)}}}
		}
	}
	return out
}

func genCfgRepl(t *rapid.T) cfgRepl {
	var r cfgRepl
	if rapid.IntRange(0, 5).Draw(t, "noop") == 0 {
		r.noop = true
		return r
	}
	n := rapid.IntRange(0, 3).Draw(t, "depth")
	for i := 0; i < n; i++ {
		w := cfgWrap{kind: rapid.SampledFrom([]string{"deduplicating", "concurrency_limiting", "queued", "queued"}).Draw(t, "wrapper")}
		switch w.kind {
		case "concurrency_limiting":
			w.n = int64(rapid.IntRange(1, 2).Draw(t, "maximum_concurrency"))
		case "queued":
			w.cacheSize = int64(rapid.SampledFrom([]int{1, 2, 3, 16}).Draw(t, "cache_size"))
		}
		r.wrappers = append(r.wrappers, w)
	}
	return r
}

// cfgObject is one blob of a configured case.
type cfgObject struct {
	data []byte
	msg  proto.Message // != nil: data is the serialization of msg
	big  bool
}

func genCfgObject(t *rapid.T, o int, big bool) cfgObject {
	asProto := rapid.Bool().Draw(t, fmt.Sprintf("obj%d/proto", o))
	switch {
	case big && asProto:
		m := &remoteexecution.Directory{Files: []*remoteexecution.FileNode{{Name: fmt.Sprintf("big %d ", o) + strings.Repeat("n", cfgBigObject)}}}
		data, err := proto.MarshalOptions{Deterministic: true}.Marshal(m)
		if err != nil {
			panic(err)
		}
		return cfgObject{data: data, msg: m, big: true}
	case big:
		return cfgObject{data: []byte(fmt.Sprintf("big cached object %d ", o) + strings.Repeat("b", cfgBigObject)), big: true}
	case asProto:
		m, data := protoObject(o, 5+o)
		return cfgObject{data: data, msg: m}
	}
	return cfgObject{data: []byte(fmt.Sprintf("cached object %d", o))}
}

// cfgRead is how the result of a read is consumed.
type cfgRead struct {
	method  int
	chunk   int
	off, ln int // partial ReadAt
}

func genCfgRead(t *rapid.T, obj cfgObject) cfgRead {
	r := cfgRead{method: rapid.SampledFrom(methodChoices).Draw(t, "method"), chunk: rapid.IntRange(1, 9).Draw(t, "readchunk")}
	if r.method == methodToProto && obj.msg == nil {
		r.method = 0
	}
	if r.method == methodReadAtPartial {
		r.off = rapid.IntRange(0, len(obj.data)).Draw(t, "readat_off")
		r.ln = rapid.IntRange(0, len(obj.data)-r.off+2).Draw(t, "readat_len")
	}
	return r
}

// cfgRef is one (object, instance name) pair.
type cfgRef struct {
	o    int
	inst string
}

func (r cfgRef) String() string { return fmt.Sprintf("o%d@%q", r.o, r.inst) }

type cfgOp struct {
	kind string // get, put, find, place
	refs []cfgRef
	read cfgRead
	leaf int // place: the leaf the blob is put into directly
}

func (o cfgOp) String() string {
	parts := []string{}
	for _, r := range o.refs {
		parts = append(parts, r.String())
	}
	s := o.kind + "(" + strings.Join(parts, " ") + ")"
	if o.kind == "get" {
		s += "/" + methodNames[o.read.method]
	}
	if o.kind == "place" {
		s += fmt.Sprintf("->leaf%d", o.leaf)
	}
	return s
}

func TestC17Configured(outer *testing.T) {
	rapid.Check(outer, func(t *rapid.T) {
		c := recConfigured.Begin()
		kind := rapid.SampledFrom([]string{"read_caching", "read_caching", "read_fallback", "read_fallback", "existence_caching"}).Draw(t, "composite")
		repl := genCfgRepl(t)
		cacheSize := int64(rapid.IntRange(1, 8).Draw(t, "cacheSize"))
		c.Add(kind, repl.String(), int(cacheSize))
		existence := kind == "existence_caching"

		// Leaf X (index 0) is the slow / secondary back end (the
		// replicator's source), leaf Y (index 1) the fast / primary one
		// (its sink); for existence_caching only X exists and it is
		// hierarchical (its keys include the instance name).
		names := [2]string{"slow", "fast"}
		if kind == "read_fallback" {
			names = [2]string{"secondary", "primary"}
		}
		var leaves [2]cfgLeaf
		for x := range leaves {
			leaves[x] = cfgLeaf{hierarchical: rapid.IntRange(0, 2).Draw(t, fmt.Sprintf("leaf%d/hierarchical", x)) != 0, blockSize: cfgBlockNormal}
		}
		// small: the leaf whose blocks cannot hold the big object (-1: no
		// big object in this case).
		small := rapid.SampledFrom([]int{-1, -1, -1, 0, 1, 1}).Draw(t, "small_leaf")
		failInst := [2]string{"fx", "fy"}
		var failCode [2]codes.Code
		for x := range failCode {
			failCode[x] = rapid.SampledFrom([]codes.Code{codes.OK, codes.OK, codes.Unavailable, codes.Internal, codes.PermissionDenied, codes.ResourceExhausted}).Draw(t, fmt.Sprintf("backend%d/failure", x))
		}
		if existence {
			leaves[0].hierarchical = true
			small = -1
			failCode = [2]codes.Code{}
		}
		if small >= 0 {
			leaves[small].blockSize = cfgBlockSmall
			leaves[1-small].blockSize = cfgBlockLarge
		}
		c.Add(leaves[0].String(), leaves[1].String(), small, int(failCode[0]), int(failCode[1]))

		var composite *pb.BlobAccessConfiguration
		labels := map[string]*pb.BlobAccessConfiguration{"leafX": cfgLocalLeaf(leaves[0]), "leafY": cfgLocalLeaf(leaves[1])}
		backX, backY := cfgBackEnd("leafX", failInst[0], failCode[0]), cfgBackEnd("leafY", failInst[1], failCode[1])
		switch kind {
		case "read_caching":
			composite = &pb.BlobAccessConfiguration{Backend: &pb.BlobAccessConfiguration_ReadCaching{ReadCaching: &pb.ReadCachingBlobAccessConfiguration{
				Slow: backX, Fast: backY, Replicator: repl.config()}}}
		case "read_fallback":
			composite = &pb.BlobAccessConfiguration{Backend: &pb.BlobAccessConfiguration_ReadFallback{ReadFallback: &pb.ReadFallbackBlobAccessConfiguration{
				Secondary: backX, Primary: backY, Replicator: repl.config()}}}
		default:
			composite = &pb.BlobAccessConfiguration{Backend: &pb.BlobAccessConfiguration_ExistenceCaching{ExistenceCaching: &pb.ExistenceCachingBlobAccessConfiguration{
				Backend: cfgLabelRef("leafX"), ExistenceCache: cfgExistenceCache(cacheSize)}}}
		}
		cfg := &pb.BlobAccessConfiguration{Backend: &pb.BlobAccessConfiguration_WithLabels{WithLabels: &pb.WithLabelsBlobAccessConfiguration{
			Labels: labels,
			Backend: &pb.BlobAccessConfiguration{Backend: &pb.BlobAccessConfiguration_Demultiplexing{Demultiplexing: &pb.DemultiplexingBlobAccessConfiguration{InstanceNamePrefixes: map[string]*pb.DemultiplexedBlobAccessConfiguration{
				"x": {Backend: cfgLabelRef("leafX")},
				"y": {Backend: cfgLabelRef("leafY")},
				"c": {Backend: composite},
			}}}},
		}}}

		nobj := rapid.IntRange(1, 4).Draw(t, "nobjects")
		objs := make([]cfgObject, nobj)
		for o := range objs {
			if existence {
				objs[o] = cfgObject{data: []byte(fmt.Sprintf("cached object %d", o))}
			} else {
				objs[o] = genCfgObject(t, o, small >= 0 && o == 0)
			}
			c.Add(objs[o].data)
		}
		// Instance names: prefix-related ones ("", p, p/q), an unrelated
		// one (r) and the two that a back end may fail for.
		insts := []string{"", "p", "p/q", "r", "r"}
		if !existence {
			insts = append(insts, "fx", "fy")
		}
		allInsts := []string{"", "p", "p/q", "r", "fx", "fy"}
		genRef := func() cfgRef {
			return cfgRef{o: rapid.IntRange(0, nobj-1).Draw(t, "obj"), inst: rapid.SampledFrom(insts).Draw(t, "instance")}
		}
		type seed struct {
			ref  cfgRef
			leaf int
		}
		var seeds []seed
		for i, n := 0, rapid.IntRange(0, 6).Draw(t, "nseeds"); i < n; i++ {
			s := seed{ref: genRef(), leaf: rapid.SampledFrom([]int{0, 0, 1}).Draw(t, "seedleaf")}
			if existence {
				s.leaf = 0
			}
			if objs[s.ref.o].big && s.leaf == small {
				s.leaf = 1 - small
			}
			seeds = append(seeds, s)
			c.Add(s.ref.o, s.leaf, s.ref.inst)
		}
		nops := rapid.IntRange(1, 10).Draw(t, "nops")
		ops := make([]cfgOp, nops)
		for i := range ops {
			o := cfgOp{kind: rapid.SampledFrom([]string{"get", "get", "get", "get", "put", "find", "find", "place"}).Draw(t, "op")}
			if existence && o.kind == "place" {
				o.kind = "put"
			}
			k := 1
			if o.kind == "find" {
				k = rapid.IntRange(1, 5).Draw(t, "k")
			}
			for x := 0; x < k; x++ {
				o.refs = append(o.refs, genRef())
			}
			if o.kind == "get" && !existence {
				o.read = genCfgRead(t, objs[o.refs[0].o])
			}
			if o.kind == "place" {
				// the object appears in a back end behind the composite's
				// back (the source, mostly)
				o.leaf = rapid.SampledFrom([]int{0, 0, 1}).Draw(t, "leaf")
				if objs[o.refs[0].o].big && o.leaf == small {
					o.leaf = 1 - small
				}
			}
			ops[i] = o
			c.Add(o.String(), fmt.Sprint(o.read))
		}

		desc := fmt.Sprintf("%s, replicator %s; %s %s, %s %s", kind, repl, names[0], leaves[0], names[1], leaves[1])
		if existence {
			desc = fmt.Sprintf("%s, cache size %d", kind, cacheSize)
		}
		for x := range failCode {
			if failCode[x] != codes.OK {
				desc += fmt.Sprintf("; the %s back end fails with %s for instance name %q", names[x], failCode[x], failInst[x])
			}
		}
		// fails: back end x cannot answer for that instance name.
		fails := func(x int, inst string) bool { return failCode[x] != codes.OK && inst == failInst[x] }
		// fits: leaf x can store the object.
		fits := func(x, o int) bool { return !(objs[o].big && x == small) }
		copying := !repl.noop

		var (
			readThrough, readThroughCopied, findBothSides, cachePresent, cacheOtherInstanceAbsent, absentReads, hiddenAsMissing int
			failedOps, opsAfterFailure, copyAfterFailure, readFailingBackEnd, copyTooBig, putCannotStore, findFailing           int
			copiedAlreadyThereUnrelated, copiedAlreadyTherePrefix                                                               int
			placedLater                                                                                                         int
			methodsUsed                                                                                                         = map[string]bool{}
		)
		var verdict error
		synctest.Test(outer, func(st *testing.T) {
			verdict = program.RunLocal(context.Background(), func(ctx context.Context, siblings, deps program.Group) error {
				info, err := configuration.NewBlobAccessFromConfiguration(deps, cfg, configuration.NewCASBlobAccessCreator(nil, 1<<20, nil))
				if err != nil {
					return fmt.Errorf("harness/C17: NewBlobAccessFromConfiguration failed: %v", err)
				}
				var ba blobstore.BlobAccess = info.BlobAccess
				dig := func(prefix string, r cfgRef) digest.Digest {
					n := prefix
					if r.inst != "" {
						n += "/" + r.inst
					}
					return hx.Sha(n, objs[r.o].data)
				}
				leafPrefix := [2]string{"x", "y"}
				// stored: does leaf x hold the object visibly under that
				// instance name, asked directly.
				stored := func(x int, r cfgRef) (bool, error) {
					missing, err := ba.FindMissing(ctx, dig(leafPrefix[x], r).ToSingletonSet())
					if err != nil {
						return false, fmt.Errorf("harness/C17: direct FindMissing on leaf %s failed: %v", leafPrefix[x], err)
					}
					return missing.Empty(), nil
				}
				// holds: as seen through the composite's back end x (a back
				// end that fails for the instance name holds nothing there).
				holds := func(x int, r cfgRef) (bool, error) {
					s, err := stored(x, r)
					return s && !fails(x, r.inst), err
				}
				heldAnywhere := func(o int) (bool, error) {
					for x := range leafPrefix {
						for _, inst := range allInsts {
							s, err := stored(x, cfgRef{o, inst})
							if err != nil || s {
								return s, err
							}
						}
					}
					return false, nil
				}
				// everything ever seen on a leaf must stay there (leaves
				// never evict in this test).
				type seenKey struct {
					x   int
					ref cfgRef
				}
				seen := map[seenKey]bool{}
				note := func(r cfgRef) error {
					for x := range leafPrefix {
						s, err := stored(x, r)
						if err != nil {
							return err
						}
						if s {
							seen[seenKey{x, r}] = true
						}
					}
					return nil
				}
				checkNothingLost := func(after string) error {
					for k := range seen {
						s, err := stored(k.x, k.ref)
						if err != nil {
							return err
						}
						if !s {
							return fmt.Errorf("C17 (configured, %s): after %s the %s back end no longer holds %s, which it held before (nothing is ever evicted in this test)", desc, after, names[k.x], k.ref)
						}
					}
					return nil
				}
				for _, s := range seeds {
					d := dig(leafPrefix[s.leaf], s.ref)
					if err := ba.Put(ctx, d, buffer.NewCASBufferFromByteSlice(d, objs[s.ref.o].data, buffer.UserProvided)); err != nil {
						return fmt.Errorf("harness/C17: direct Put into leaf %s failed: %v", leafPrefix[s.leaf], err)
					}
					if err := note(s.ref); err != nil {
						return err
					}
				}
				// run: one operation on the composite under the virtual
				// deadline. Returns blocked = the deadline expired.
				run := func(f func(ctx context.Context)) (blocked bool) {
					opCtx, cancel := context.WithTimeout(ctx, cfgOpDeadline)
					defer cancel()
					f(opCtx)
					return opCtx.Err() != nil
				}
				blockedErr := func(what string, err error) error {
					return fmt.Errorf("C17 (configured, %s): %s did not complete although both back ends answer every call at once: it stayed blocked until its deadline on the virtual clock expired, i.e. until every goroutine was blocked (then: %v). No copy is running, so every replication slot has to be free (%d operation(s) failed earlier in this case: a failed replication has to give its slot back)", desc, what, err, failedOps)
				}

				for _, o := range ops {
					if failedOps > 0 {
						opsAfterFailure++
					}
					if existence {
						switch o.kind {
						case "put":
							d := dig("c", o.refs[0])
							if err := ba.Put(ctx, d, buffer.NewCASBufferFromByteSlice(d, objs[o.refs[0].o].data, buffer.UserProvided)); err != nil {
								return fmt.Errorf("C17 (configured, %s): Put failed: %v", desc, err)
							}
						case "get":
							h, err := stored(0, o.refs[0])
							if err != nil {
								return err
							}
							_, gerr := ba.Get(ctx, dig("c", o.refs[0])).ToByteSlice(1 << 16)
							// Reads are not part of the existence cache clause:
							// counted only.
							if (gerr == nil) != h {
								recConfigured.Count("existence_caching_get_differs_from_back_end", 1)
							}
						case "find":
							sb := digest.NewSetBuilder(0)
							for _, r := range o.refs {
								sb.Add(dig("c", r))
							}
							missing, err := ba.FindMissing(ctx, sb.Build())
							if err != nil {
								return fmt.Errorf("C17 (configured, %s): FindMissing failed: %v", desc, err)
							}
							got := map[string]bool{}
							for _, d := range missing.Items() {
								got[d.GetKey(digest.KeyWithInstance)] = true
							}
							for _, r := range o.refs {
								h, err := stored(0, r)
								if err != nil {
									return err
								}
								reportedPresent := !got[dig("c", r).GetKey(digest.KeyWithInstance)]
								if reportedPresent && !h {
									return fmt.Errorf("C17 (configured, %s, cache size %d): an existence cache never reports an object present unless the back end reported it present, but object %d is reported present under %q, where the back end has never held it (objects never disappear in this test)", desc, cacheSize, r.o, r.inst)
								}
								if reportedPresent {
									cachePresent++
								} else {
									if h {
										hiddenAsMissing++
									}
									// Is the same blob present under another
									// instance name? Then a cache keyed without
									// the instance name would have said present.
									for _, other := range allInsts {
										if oh, _ := stored(0, cfgRef{r.o, other}); oh && other != r.inst {
											cacheOtherInstanceAbsent++
											break
										}
									}
								}
							}
						}
						continue
					}
					switch o.kind {
					case "place":
						r := o.refs[0]
						d := dig(leafPrefix[o.leaf], r)
						if err := ba.Put(ctx, d, buffer.NewCASBufferFromByteSlice(d, objs[r.o].data, buffer.UserProvided)); err != nil {
							return fmt.Errorf("harness/C17: direct Put into leaf %s failed: %v", leafPrefix[o.leaf], err)
						}
						placedLater++
						if err := note(r); err != nil {
							return err
						}
					case "put":
						r := o.refs[0]
						obj := objs[r.o]
						// uploads go to: slow (read_caching), primary (read_fallback)
						target := 0
						if kind == "read_fallback" {
							target = 1
						}
						otherBefore, err := stored(1-target, r)
						if err != nil {
							return err
						}
						d := dig("c", r)
						var perr error
						if run(func(ctx context.Context) {
							perr = ba.Put(ctx, d, buffer.NewCASBufferFromByteSlice(d, obj.data, buffer.UserProvided))
						}) {
							return blockedErr(fmt.Sprintf("the upload of %s", r), perr)
						}
						cannot := fails(target, r.inst) || !fits(target, r.o)
						if cannot {
							putCannotStore++
						}
						if perr != nil {
							failedOps++
							if !cannot {
								return fmt.Errorf("C17 (configured, %s): Put of %s failed although the %s back end, which uploads go to, is healthy and can store it: %v", desc, r, names[target], perr)
							}
						} else {
							h, err := holds(target, r)
							if err != nil {
								return err
							}
							if !h {
								return fmt.Errorf("C17 (configured, %s): uploads go to the %s back end, but after an acknowledged upload of %s the %s back end does not hold it (it is able to store it: %v)", desc, names[target], r, names[target], !cannot)
							}
						}
						otherAfter, err := stored(1-target, r)
						if err != nil {
							return err
						}
						if otherAfter && !otherBefore {
							return fmt.Errorf("C17 (configured, %s): uploads go only to the %s back end, but the upload of %s also stored it in the %s back end", desc, names[target], r, names[1-target])
						}
						if err := note(r); err != nil {
							return err
						}
					case "get":
						r := o.refs[0]
						obj := objs[r.o]
						rd := o.read
						bx, err := holds(0, r)
						if err != nil {
							return err
						}
						by, err := holds(1, r)
						if err != nil {
							return err
						}
						existed, err := heldAnywhere(r.o)
						if err != nil {
							return err
						}
						// was the blob in the sink leaf under another
						// instance name already?
						sinkHadOther := ""
						for _, inst := range allInsts {
							if s, _ := stored(1, cfgRef{r.o, inst}); s && inst != r.inst {
								sinkHadOther = inst
								break
							}
						}
						anyFailing := fails(0, r.inst) || fails(1, r.inst)
						ra := readArgs{msg: obj.msg, full: obj.data, off: rd.off, ln: rd.ln}
						methodsUsed[methodNames[rd.method]] = true
						what := fmt.Sprintf("Get of %s consumed with %s (%s holds it: %v, %s holds it: %v)", r, methodNames[rd.method], names[0], bx, names[1], by)
						var data []byte
						var gerr error
						if run(func(ctx context.Context) {
							data, gerr = consume(ba.Get(ctx, dig("c", r)), rd.method, rd.chunk, ra)
						}) {
							return blockedErr(what, gerr)
						}
						if gerr == nil {
							if !bx && !by {
								return fmt.Errorf("C17 (configured, %s): %s returned %.60q although neither back end holds it", desc, what, data)
							}
							if want := ra.wanted(rd.method); string(data) != string(want) {
								return fmt.Errorf("C17 (configured, %s): %s returned %d bytes %.60q, want %d bytes %.60q", desc, what, len(data), data, len(want), want)
							}
						} else {
							failedOps++
							switch {
							case anyFailing:
								// a back end failed during this read: any error
								readFailingBackEnd++
							case !bx && !by:
								absentReads++
							case bx && !by && copying && !fits(1, r.o):
								// the copy cannot be stored: a back-end
								// failure, any error
								copyTooBig++
							default:
								return fmt.Errorf("C17 (configured, %s): the composite returns an object if the %s or the %s back end holds it, but %s failed: %v", desc, names[1], names[0], what, gerr)
							}
						}
						ay, err := holds(1, r)
						if err != nil {
							return err
						}
						ax, err := holds(0, r)
						if err != nil {
							return err
						}
						if (bx && !ax) || (by && !ay) {
							return fmt.Errorf("C17 (configured, %s): %s removed the object from a back end: %s %v->%v, %s %v->%v", desc, what, names[0], bx, ax, names[1], by, ay)
						}
						if !existed && (ax || ay) {
							return fmt.Errorf("C17 (configured, %s): %s left a blob that no back end held under any instance name in a back end (%s: %v, %s: %v)", desc, what, names[0], ax, names[1], ay)
						}
						if gerr == nil && bx && !by && !anyFailing {
							readThrough++
							if ay {
								readThroughCopied++
								if failedOps > 0 {
									copyAfterFailure++
								}
								if sinkHadOther != "" {
									if strings.HasPrefix(sinkHadOther, r.inst) || strings.HasPrefix(r.inst, sinkHadOther) {
										copiedAlreadyTherePrefix++
									} else {
										copiedAlreadyThereUnrelated++
									}
								}
							}
							// (not demanded of a partial ReadAt, see verif.json)
							if copying && !ay && rd.method != methodReadAtPartial {
								return fmt.Errorf("C17 (configured, %s): after a successful read-through with a copying replicator the object is present in the %s back end, but after %s it is still absent from it under that instance name (the %s back end is able to store it: %v; the same blob was there under instance name %q before: %v)", desc, names[1], what, names[1], fits(1, r.o), sinkHadOther, sinkHadOther != "")
							}
						}
						if !bx && by && ax {
							recConfigured.Count("read_copied_object_towards_source", 1)
						}
						if err := note(r); err != nil {
							return err
						}
					case "find":
						if kind == "read_caching" {
							continue // the property states nothing about it
						}
						sb := digest.NewSetBuilder(0)
						type state struct{ bx, by, failing bool }
						before := map[cfgRef]state{}
						anyFailing, cannotCopy, both := false, false, false
						for _, r := range o.refs {
							sb.Add(dig("c", r))
							bx, err := holds(0, r)
							if err != nil {
								return err
							}
							by, err := holds(1, r)
							if err != nil {
								return err
							}
							f := fails(0, r.inst) || fails(1, r.inst)
							before[r] = state{bx, by, f}
							anyFailing = anyFailing || f
							// (today a fallback FindMissing also copies
							// secondary-only objects into the primary)
							cannotCopy = cannotCopy || (bx && !by && copying && !fits(1, r.o))
							both = both || bx != by
						}
						if both {
							findBothSides++
						}
						var missing digest.Set
						var ferr error
						if run(func(ctx context.Context) { missing, ferr = ba.FindMissing(ctx, sb.Build()) }) {
							return blockedErr(fmt.Sprintf("FindMissing over %v", o.refs), ferr)
						}
						if ferr != nil {
							failedOps++
							if anyFailing {
								findFailing++
							}
							if !anyFailing && !cannotCopy {
								return fmt.Errorf("C17 (configured, %s): FindMissing over %v failed although both back ends are healthy: %v", desc, o.refs, ferr)
							}
						} else {
							got := map[string]bool{}
							for _, d := range missing.Items() {
								got[d.GetKey(digest.KeyWithInstance)] = true
							}
							for r, s := range before {
								k := dig("c", r).GetKey(digest.KeyWithInstance)
								switch {
								case !s.failing:
									if got[k] != (!s.bx && !s.by) {
										return fmt.Errorf("C17 (configured, %s): FindMissing through a fallback reports exactly the objects missing from both back ends: %s missing from both: %v, reported missing: %v (request %v, answer %v)", desc, r, !s.bx && !s.by, got[k], o.refs, missing.Items())
									}
								case s.bx || s.by:
									if got[k] {
										return fmt.Errorf("C17 (configured, %s): FindMissing through a fallback reported %s missing although the healthy back end holds it (request %v, answer %v)", desc, r, o.refs, missing.Items())
									}
								}
								delete(got, k)
							}
							if len(got) != 0 {
								return fmt.Errorf("C17 (configured, %s): FindMissing reported digests that were not asked about: %v", desc, got)
							}
						}
						for _, r := range o.refs {
							if err := note(r); err != nil {
								return err
							}
						}
					}
					if err := checkNothingLost(o.String()); err != nil {
						return err
					}
				}
				return nil
			})
		})
		if verdict != nil {
			t.Fatalf("%v", verdict)
		}
		c.Class("composite_" + kind)
		if !existence {
			c.ClassIf(repl.noop, "noop_replicator")
			c.ClassIf(len(repl.wrappers) > 0, "wrapped_replicator")
			c.ClassIf(len(repl.wrappers) > 1, "nested_replicator")
			for _, k := range []string{"deduplicating", "concurrency_limiting", "queued"} {
				c.ClassIf(repl.has(k), "replicator_"+k)
			}
			c.ClassIf(leaves[1].hierarchical, "hierarchical_sink")
			c.ClassIf(leaves[0].hierarchical, "hierarchical_source")
			c.ClassIf(failCode[0] != codes.OK || failCode[1] != codes.OK, "back_end_failing_for_an_instance_name")
			c.ClassIf(small >= 0, "leaf_too_small_for_the_big_object")
		}
		c.ClassIf(readThrough > 0, "read_through")
		c.ClassIf(readThroughCopied > 0, "read_through_copied")
		c.ClassIf(copiedAlreadyThereUnrelated > 0, "read_through_copied_blob_already_in_sink_under_unrelated_instance_name")
		c.ClassIf(copiedAlreadyTherePrefix > 0, "read_through_copied_blob_already_in_sink_under_prefix_related_instance_name")
		c.ClassIf(findBothSides > 0, "fallback_findmissing_with_one_sided_object")
		c.ClassIf(cachePresent > 0, "existence_cache_reports_present")
		c.ClassIf(cacheOtherInstanceAbsent > 0, "existence_cache_absent_here_present_under_other_instance_name")
		c.ClassIf(hiddenAsMissing > 0, "existence_cache_reports_missing_although_held")
		c.ClassIf(absentReads > 0, "read_of_absent_object")
		c.ClassIf(readFailingBackEnd > 0, "read_failed_with_failing_back_end")
		c.ClassIf(copyTooBig > 0, "read_failed_because_copy_too_big_for_sink")
		c.ClassIf(putCannotStore > 0, "upload_the_target_cannot_store")
		c.ClassIf(findFailing > 0, "fallback_findmissing_failed_with_failing_back_end")
		c.ClassIf(placedLater > 0, "blob_placed_in_a_back_end_between_operations")
		c.ClassIf(failedOps > 0 && opsAfterFailure > 0, "operations_after_a_failed_one")
		c.ClassIf(copyAfterFailure > 0, "read_through_copied_after_a_failed_operation")
		for m := range methodsUsed {
			c.Class("consume_" + m)
		}
		if readThroughCopied > 0 || findBothSides > 0 || cacheOtherInstanceAbsent > 0 {
			c.NonTrivial()
		}
		c.Sample(func() string {
			parts := []string{}
			for _, o := range ops {
				parts = append(parts, o.String())
			}
			return fmt.Sprintf("%s seeds=%v ops=%v readThrough=%d copied=%d", desc, seeds, parts, readThrough, readThroughCopied)
		})
		c.End()
	})
}
