package c17

// TestC17Configured: read_caching, read_fallback and existence_caching as
// the REAL configuration code assembles them
// (configuration.NewBlobAccessFromConfiguration: which back end is slow /
// fast / primary / secondary, which one is the replicator's source and
// which its sink, which key format an existence cache is given). The
// leaves are real in-memory `local` CAS back ends declared under
// with_labels; a demultiplexer makes the composite reachable under the
// instance name prefix "c" and the two leaves directly under "x" and "y",
// so placements can be made and inspected through the same configured
// stack.

import (
	"context"
	"fmt"
	"strings"
	"testing"
	"time"

	"github.com/buildbarn/bb-storage/pkg/blobstore"
	"github.com/buildbarn/bb-storage/pkg/blobstore/buffer"
	"github.com/buildbarn/bb-storage/pkg/blobstore/configuration"
	"github.com/buildbarn/bb-storage/pkg/digest"
	"github.com/buildbarn/bb-storage/pkg/program"
	pb "github.com/buildbarn/bb-storage/pkg/proto/configuration/blobstore"
	digestpb "github.com/buildbarn/bb-storage/pkg/proto/configuration/digest"
	evictionpb "github.com/buildbarn/bb-storage/pkg/proto/configuration/eviction"
	"google.golang.org/protobuf/types/known/durationpb"
	"google.golang.org/protobuf/types/known/emptypb"
	"pgregory.net/rapid"

	"verif/harness/hx"
	"verif/harness/vstats"
)

var recConfigured = vstats.New("TestC17Configured")

func cfgLocalLeaf(hierarchical bool) *pb.BlobAccessConfiguration {
	return &pb.BlobAccessConfiguration{Backend: &pb.BlobAccessConfiguration_Local{Local: &pb.LocalBlobAccessConfiguration{
		KeyLocationMapBackend:            &pb.LocalBlobAccessConfiguration_KeyLocationMapInMemory_{KeyLocationMapInMemory: &pb.LocalBlobAccessConfiguration_KeyLocationMapInMemory{Entries: 1021}},
		KeyLocationMapMaximumGetAttempts: 16,
		KeyLocationMapMaximumPutAttempts: 64,
		OldBlocks:                        2,
		CurrentBlocks:                    2,
		NewBlocks:                        2,
		BlocksBackend:                    &pb.LocalBlobAccessConfiguration_BlocksInMemory_{BlocksInMemory: &pb.LocalBlobAccessConfiguration_BlocksInMemory{BlockSizeBytes: 16384}},
		HierarchicalInstanceNames:        hierarchical,
	}}}
}

func cfgLabelRef(l string) *pb.BlobAccessConfiguration {
	return &pb.BlobAccessConfiguration{Backend: &pb.BlobAccessConfiguration_Label{Label: l}}
}

func cfgExistenceCache(size int64) *digestpb.ExistenceCacheConfiguration {
	return &digestpb.ExistenceCacheConfiguration{
		CacheSize:              size,
		CacheDuration:          durationpb.New(time.Hour),
		CacheReplacementPolicy: evictionpb.CacheReplacementPolicy_LEAST_RECENTLY_USED,
	}
}

// cfgRepl is a replicator configuration: wrappers around `local` or `noop`.
type cfgRepl struct {
	wrappers []string
	noop     bool
}

func (r cfgRepl) String() string {
	base := "local"
	if r.noop {
		base = "noop"
	}
	return strings.Join(append(append([]string{}, r.wrappers...), base), ">")
}

func (r cfgRepl) config() *pb.BlobReplicatorConfiguration {
	var out *pb.BlobReplicatorConfiguration
	if r.noop {
		out = &pb.BlobReplicatorConfiguration{Mode: &pb.BlobReplicatorConfiguration_Noop{Noop: &emptypb.Empty{}}}
	} else {
		out = &pb.BlobReplicatorConfiguration{Mode: &pb.BlobReplicatorConfiguration_Local{Local: &emptypb.Empty{}}}
	}
	for i := len(r.wrappers) - 1; i >= 0; i-- {
		switch r.wrappers[i] {
		case "deduplicating":
			out = &pb.BlobReplicatorConfiguration{Mode: &pb.BlobReplicatorConfiguration_Deduplicating{Deduplicating: out}}
		case "concurrency_limiting":
			out = &pb.BlobReplicatorConfiguration{Mode: &pb.BlobReplicatorConfiguration_ConcurrencyLimiting{ConcurrencyLimiting: &pb.ConcurrencyLimitingBlobReplicatorConfiguration{Base: out, MaximumConcurrency: 2}}}
		case "queued":
			out = &pb.BlobReplicatorConfiguration{Mode: &pb.BlobReplicatorConfiguration_Queued{Queued: &pb.QueuedBlobReplicatorConfiguration{Base: out, ExistenceCache: cfgExistenceCache(16)}}}
		}
	}
	return out
}

func genCfgRepl(t *rapid.T) cfgRepl {
	var r cfgRepl
	if rapid.IntRange(0, 4).Draw(t, "noop") == 0 {
		r.noop = true
		return r
	}
	n := rapid.IntRange(0, 2).Draw(t, "depth")
	for i := 0; i < n; i++ {
		r.wrappers = append(r.wrappers, rapid.SampledFrom([]string{"deduplicating", "concurrency_limiting", "queued"}).Draw(t, "wrapper"))
	}
	return r
}

func TestC17Configured(t *testing.T) {
	rapid.Check(t, func(t *rapid.T) {
		c := recConfigured.Begin()
		kind := rapid.SampledFrom([]string{"read_caching", "read_fallback", "existence_caching"}).Draw(t, "composite")
		repl := genCfgRepl(t)
		cacheSize := int64(rapid.IntRange(1, 8).Draw(t, "cacheSize"))
		c.Add(kind, repl.String(), int(cacheSize))

		// Leaf X is the slow / secondary back end (the replicator's
		// source), leaf Y the fast / primary one (its sink); for
		// existence_caching only X exists and it is hierarchical (its keys
		// include the instance name).
		var composite *pb.BlobAccessConfiguration
		labels := map[string]*pb.BlobAccessConfiguration{"leafX": cfgLocalLeaf(kind == "existence_caching"), "leafY": cfgLocalLeaf(false)}
		switch kind {
		case "read_caching":
			composite = &pb.BlobAccessConfiguration{Backend: &pb.BlobAccessConfiguration_ReadCaching{ReadCaching: &pb.ReadCachingBlobAccessConfiguration{
				Slow: cfgLabelRef("leafX"), Fast: cfgLabelRef("leafY"), Replicator: repl.config()}}}
		case "read_fallback":
			composite = &pb.BlobAccessConfiguration{Backend: &pb.BlobAccessConfiguration_ReadFallback{ReadFallback: &pb.ReadFallbackBlobAccessConfiguration{
				Secondary: cfgLabelRef("leafX"), Primary: cfgLabelRef("leafY"), Replicator: repl.config()}}}
		default:
			composite = &pb.BlobAccessConfiguration{Backend: &pb.BlobAccessConfiguration_ExistenceCaching{ExistenceCaching: &pb.ExistenceCachingBlobAccessConfiguration{
				Backend: cfgLabelRef("leafX"), ExistenceCache: cfgExistenceCache(cacheSize)}}}
		}
		cfg := &pb.BlobAccessConfiguration{Backend: &pb.BlobAccessConfiguration_WithLabels{WithLabels: &pb.WithLabelsBlobAccessConfiguration{
			Labels: labels,
			Backend: &pb.BlobAccessConfiguration{Backend: &pb.BlobAccessConfiguration_Demultiplexing{Demultiplexing: &pb.DemultiplexingBlobAccessConfiguration{InstanceNamePrefixes: map[string]*pb.DemultiplexedBlobAccessConfiguration{
				"x": {Backend: cfgLabelRef("leafX")},
				"y": {Backend: cfgLabelRef("leafY")},
				"c": {Backend: composite},
			}}}},
		}}}

		nobj := rapid.IntRange(1, 5).Draw(t, "nobjects")
		payload := func(o int) []byte { return []byte(fmt.Sprintf("cached object %d", o)) }
		insts := []string{"", "p", "p/q", "r"}
		type seed struct {
			o    int
			leaf string
			inst string
		}
		var seeds []seed
		for i, n := 0, rapid.IntRange(0, 6).Draw(t, "nseeds"); i < n; i++ {
			s := seed{o: rapid.IntRange(0, nobj-1).Draw(t, "seedobj"), leaf: rapid.SampledFrom([]string{"x", "y"}).Draw(t, "seedleaf"), inst: rapid.SampledFrom(insts).Draw(t, "seedinst")}
			if kind == "existence_caching" {
				s.leaf = "x"
			}
			seeds = append(seeds, s)
			c.Add(s.o, s.leaf, s.inst)
		}
		type op struct {
			kind string
			objs []int
			inst []string
		}
		nops := rapid.IntRange(1, 10).Draw(t, "nops")
		ops := make([]op, nops)
		for i := range ops {
			o := op{kind: rapid.SampledFrom([]string{"get", "get", "put", "find", "find"}).Draw(t, "op")}
			k := 1
			if o.kind == "find" {
				k = rapid.IntRange(1, 5).Draw(t, "k")
			}
			for x := 0; x < k; x++ {
				o.objs = append(o.objs, rapid.IntRange(0, nobj-1).Draw(t, "obj"))
				o.inst = append(o.inst, rapid.SampledFrom(insts).Draw(t, "instance"))
			}
			ops[i] = o
			c.Add(o.kind, o.objs, strings.Join(o.inst, ","))
		}

		var readThrough, readThroughCopied, findBothSides, cachePresent, cacheOtherInstanceAbsent, absentReads, hiddenAsMissing int
		ctx := context.Background()
		err := program.RunLocal(ctx, func(ctx context.Context, siblings, deps program.Group) error {
			info, err := configuration.NewBlobAccessFromConfiguration(deps, cfg, configuration.NewCASBlobAccessCreator(nil, 1<<20, nil))
			if err != nil {
				return fmt.Errorf("harness/C17: NewBlobAccessFromConfiguration failed: %v", err)
			}
			var ba blobstore.BlobAccess = info.BlobAccess
			dig := func(prefix, inst string, o int) digest.Digest {
				n := prefix
				if inst != "" {
					n += "/" + inst
				}
				return hx.Sha(n, payload(o))
			}
			// holds: does the leaf hold o under inst, asked directly.
			holds := func(leaf, inst string, o int) (bool, error) {
				missing, err := ba.FindMissing(ctx, dig(leaf, inst, o).ToSingletonSet())
				if err != nil {
					return false, fmt.Errorf("harness/C17: direct FindMissing on leaf %s failed: %v", leaf, err)
				}
				return missing.Empty(), nil
			}
			for _, s := range seeds {
				d := dig(s.leaf, s.inst, s.o)
				if err := ba.Put(ctx, d, buffer.NewCASBufferFromByteSlice(d, payload(s.o), buffer.UserProvided)); err != nil {
					return fmt.Errorf("harness/C17: direct Put into leaf %s failed: %v", s.leaf, err)
				}
			}
			desc := fmt.Sprintf("%s, replicator %s", kind, repl)
			// Names of the roles in messages.
			xName, yName := "slow", "fast"
			if kind == "read_fallback" {
				xName, yName = "secondary", "primary"
			}
			for _, o := range ops {
				if kind == "existence_caching" {
					switch o.kind {
					case "put":
						d := dig("c", o.inst[0], o.objs[0])
						if err := ba.Put(ctx, d, buffer.NewCASBufferFromByteSlice(d, payload(o.objs[0]), buffer.UserProvided)); err != nil {
							return fmt.Errorf("C17 (configured, %s): Put failed: %v", desc, err)
						}
					case "get":
						h, err := holds("x", o.inst[0], o.objs[0])
						if err != nil {
							return err
						}
						_, gerr := ba.Get(ctx, dig("c", o.inst[0], o.objs[0])).ToByteSlice(1 << 16)
						// Reads are not part of the existence cache clause:
						// counted only.
						if (gerr == nil) != h {
							recConfigured.Count("existence_caching_get_differs_from_back_end", 1)
						}
					case "find":
						sb := digest.NewSetBuilder(0)
						for x, ob := range o.objs {
							sb.Add(dig("c", o.inst[x], ob))
						}
						missing, err := ba.FindMissing(ctx, sb.Build())
						if err != nil {
							return fmt.Errorf("C17 (configured, %s): FindMissing failed: %v", desc, err)
						}
						got := map[string]bool{}
						for _, d := range missing.Items() {
							got[d.GetKey(digest.KeyWithInstance)] = true
						}
						for x, ob := range o.objs {
							h, err := holds("x", o.inst[x], ob)
							if err != nil {
								return err
							}
							reportedPresent := !got[dig("c", o.inst[x], ob).GetKey(digest.KeyWithInstance)]
							if reportedPresent && !h {
								return fmt.Errorf("C17 (configured, %s, cache size %d): an existence cache never reports an object present unless the back end reported it present, but object %d is reported present under %q, where the back end has never held it (objects never disappear in this test)", desc, cacheSize, ob, o.inst[x])
							}
							if reportedPresent {
								cachePresent++
							} else {
								if h {
									hiddenAsMissing++
								}
								// Is the same blob present under another
								// instance name? Then a cache keyed without
								// the instance name would have said present.
								for _, other := range insts {
									if oh, _ := holds("x", other, ob); oh && other != o.inst[x] {
										cacheOtherInstanceAbsent++
										break
									}
								}
							}
						}
					}
					continue
				}
				switch o.kind {
				case "put":
					ob := o.objs[0]
					bx, err := holds("x", "", ob)
					if err != nil {
						return err
					}
					by, err := holds("y", "", ob)
					if err != nil {
						return err
					}
					d := dig("c", o.inst[0], ob)
					if err := ba.Put(ctx, d, buffer.NewCASBufferFromByteSlice(d, payload(ob), buffer.UserProvided)); err != nil {
						return fmt.Errorf("C17 (configured, %s): Put of object %d failed: %v", desc, ob, err)
					}
					ax, _ := holds("x", "", ob)
					ay, _ := holds("y", "", ob)
					if kind == "read_caching" {
						if !ax {
							return fmt.Errorf("C17 (configured, %s): uploads go to the slow back end, but after an acknowledged upload of object %d the slow back end does not hold it", desc, ob)
						}
						if ay && !by {
							return fmt.Errorf("C17 (configured, %s): uploads go only to the slow back end, but the upload of object %d also stored it in the fast back end", desc, ob)
						}
					} else {
						if !ay {
							return fmt.Errorf("C17 (configured, %s): uploads go to the primary back end, but after an acknowledged upload of object %d the primary back end does not hold it", desc, ob)
						}
						if ax && !bx {
							return fmt.Errorf("C17 (configured, %s): uploads go only to the primary back end, but the upload of object %d also stored it in the secondary back end", desc, ob)
						}
					}
				case "get":
					ob := o.objs[0]
					bx, err := holds("x", "", ob)
					if err != nil {
						return err
					}
					by, err := holds("y", "", ob)
					if err != nil {
						return err
					}
					data, gerr := ba.Get(ctx, dig("c", o.inst[0], ob)).ToByteSlice(1 << 16)
					if gerr == nil && !bx && !by {
						return fmt.Errorf("C17 (configured, %s): Get of object %d returned %q although neither back end holds it", desc, ob, data)
					}
					if gerr != nil && (bx || by) {
						return fmt.Errorf("C17 (configured, %s): the composite returns an object if the %s or the %s back end holds it, but Get of object %d (%s holds: %v, %s holds: %v) failed: %v", desc, yName, xName, ob, xName, bx, yName, by, gerr)
					}
					if gerr == nil && string(data) != string(payload(ob)) {
						return fmt.Errorf("C17 (configured, %s): Get of object %d returned %q", desc, ob, data)
					}
					ax, _ := holds("x", "", ob)
					ay, _ := holds("y", "", ob)
					if (bx && !ax) || (by && !ay) || (!bx && !by && (ax || ay)) {
						return fmt.Errorf("C17 (configured, %s): Get of object %d changed the back ends unexpectedly: %s %v->%v, %s %v->%v", desc, ob, xName, bx, ax, yName, by, ay)
					}
					if !bx && !by {
						absentReads++
					}
					if bx && !by {
						readThrough++
						if ay {
							readThroughCopied++
						}
						if !repl.noop && !ay {
							return fmt.Errorf("C17 (configured, %s): after a successful read-through with a copying replicator the object is present in the %s back end, but object %d (held only by the %s back end, read successfully) is still absent from it", desc, yName, ob, xName)
						}
					}
					if !bx && by && ax {
						recConfigured.Count("read_copied_object_towards_source", 1)
					}
				case "find":
					if kind == "read_caching" {
						continue // the property states nothing about it
					}
					sb := digest.NewSetBuilder(0)
					want := map[string]bool{}
					both := false
					for x, ob := range o.objs {
						d := dig("c", o.inst[x], ob)
						sb.Add(d)
						bx, err := holds("x", "", ob)
						if err != nil {
							return err
						}
						by, err := holds("y", "", ob)
						if err != nil {
							return err
						}
						want[d.GetKey(digest.KeyWithInstance)] = !bx && !by
						both = both || bx != by
					}
					if both {
						findBothSides++
					}
					missing, err := ba.FindMissing(ctx, sb.Build())
					if err != nil {
						return fmt.Errorf("C17 (configured, %s): FindMissing over %v failed although both back ends are healthy: %v", desc, sb.Build().Items(), err)
					}
					got := map[string]bool{}
					for _, d := range missing.Items() {
						got[d.GetKey(digest.KeyWithInstance)] = true
					}
					for k, w := range want {
						if got[k] != w {
							return fmt.Errorf("C17 (configured, %s): FindMissing through a fallback reports exactly the objects missing from both back ends: %s missing from both: %v, reported missing: %v (request %v, answer %v)", desc, k, w, got[k], sb.Build().Items(), missing.Items())
						}
						delete(got, k)
					}
					if len(got) != 0 {
						return fmt.Errorf("C17 (configured, %s): FindMissing reported digests that were not asked about: %v", desc, got)
					}
				}
			}
			return nil
		})
		if err != nil {
			t.Fatalf("%v", err)
		}
		c.Class("composite_" + kind)
		c.ClassIf(repl.noop && kind != "existence_caching", "noop_replicator")
		c.ClassIf(len(repl.wrappers) > 0 && kind != "existence_caching", "wrapped_replicator")
		c.ClassIf(readThrough > 0, "read_through")
		c.ClassIf(readThroughCopied > 0, "read_through_copied")
		c.ClassIf(findBothSides > 0, "fallback_findmissing_with_one_sided_object")
		c.ClassIf(cachePresent > 0, "existence_cache_reports_present")
		c.ClassIf(cacheOtherInstanceAbsent > 0, "existence_cache_absent_here_present_under_other_instance_name")
		c.ClassIf(hiddenAsMissing > 0, "existence_cache_reports_missing_although_held")
		c.ClassIf(absentReads > 0, "read_of_absent_object")
		if readThroughCopied > 0 || findBothSides > 0 || cacheOtherInstanceAbsent > 0 {
			c.NonTrivial()
		}
		c.Sample(func() string {
			return fmt.Sprintf("%s repl=%s cache=%d seeds=%v ops=%d readThrough=%d copied=%d", kind, repl, cacheSize, seeds, nops, readThrough, readThroughCopied)
		})
		c.End()
	})
}
