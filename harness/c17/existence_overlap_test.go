package c17

// TestC17ExistenceCacheOverlapping: digest.ExistenceCache under OVERLAPPING
// Add / RemoveExisting calls.
//
// The cache documents "It is safe to access ExistenceCache concurrently",
// "Add digests to the cache. These digests will automatically be removed
// once the duration provided to NewExistenceCache passes" and
// "RemoveExisting removes digests from a provided set that are present in
// the cache". Both calls read the clock and then work on the shared table;
// a call that was handed its time and is then delayed (pre-empted, waiting
// for the lock) completes AFTER calls that were handed later times. Such
// schedules cannot be produced by sequential calls: here the clock handed to
// the cache is a harness wrapper whose Now() parks a designated caller (after
// the time has been taken, before it is returned) until the generated
// schedule releases it.
//
// Every call runs in its own goroutine, and at any moment at most one of
// them is running (all others are parked inside Now() or have returned), so
// the schedule is fully determined by the generated steps: no sleeping, no
// dependence on the Go scheduler.
//
// Reference model (exact when the capacity exceeds the number of keys, so
// that the replacement policy never evicts): a key is present at time T iff
// some COMPLETED Add that contained it was handed a time t with
// T - t < duration, absent iff T - t > duration for all of them (T is the
// time handed to the RemoveExisting call; at T - t == duration either answer
// is accepted). RemoveExisting has to agree in both directions.
//
// A caller can only be parked inside Now() if the cache does not hold its
// lock while it reads the clock. That is probed once per run (a parked call,
// then a second call under a wall-clock watchdog: the only use of wall-clock
// time, and it never produces a violation): for an implementation that reads
// the clock under its lock, calls cannot overlap between "time taken" and
// "table updated" at all, and the unit runs its schedules without parking.

import (
	"fmt"
	"sort"
	"strings"
	"sync"
	"testing"
	"time"

	"github.com/buildbarn/bb-storage/pkg/digest"
	"github.com/buildbarn/bb-storage/pkg/eviction"
	"pgregory.net/rapid"

	"verif/harness/backends"
	"verif/harness/hx"
	"verif/harness/vstats"
)

var recECO = vstats.New("TestC17ExistenceCacheOverlapping")

// ecoWatchdog only guards against an implementation this scheduler cannot
// drive (e.g. one that reads the clock while holding its lock, so that a
// parked caller blocks everybody else): such a case is abandoned as
// inconclusive, never reported as a violation.
const ecoWatchdog = 15 * time.Second

// ecoNoPark[add]: calls of that kind must not be parked inside Now() (the
// implementation holds its lock there, or a watchdog fired).
var (
	ecoProbeOnce sync.Once
	ecoNoPark    = map[bool]bool{}
)

// ecoProbe finds out, for Add and for RemoveExisting, whether another call
// can run while a call of that kind is parked inside Now().
func ecoProbe() {
	d := hx.Sha("probe", []byte("existence cache probe")).ToSingletonSet()
	for _, parkedIsAdd := range []bool{true, false} {
		for _, otherIsAdd := range []bool{true, false} {
			if ecoNoPark[parkedIsAdd] {
				continue
			}
			clk := &parkClock{VClock: hx.NewVClock(), events: make(chan ecoEvent, 8)}
			cache := digest.NewExistenceCache(clk, digest.KeyWithInstance, 8, time.Hour, eviction.NewMetricsSet(backends.NewEvictionSet("lru"), "ExistenceCachingBlobAccess"))
			do := func(add bool) {
				if add {
					cache.Add(d)
				} else {
					cache.RemoveExisting(d)
				}
			}
			first := &ecoCall{add: parkedIsAdd, park: true, release: make(chan struct{})}
			clk.cur = first
			go func() {
				do(parkedIsAdd)
				clk.events <- ecoEvent{call: first}
			}()
			if ev := <-clk.events; !ev.parked {
				continue // did not read the clock at all
			}
			clk.mu.Lock()
			clk.cur = nil
			clk.mu.Unlock()
			returned := make(chan struct{})
			go func() {
				do(otherIsAdd)
				close(returned)
			}()
			select {
			case <-returned:
			case <-time.After(ecoWatchdog):
				ecoNoPark[parkedIsAdd] = true
				recECO.Count(fmt.Sprintf("INCONCLUSIVE_clock_read_under_lock_no_overlap_possible_add=%v", parkedIsAdd), 1)
			}
			close(first.release)
			<-clk.events
			<-returned
		}
	}
}

type ecoCall struct {
	id      int
	add     bool
	members []int // indices into the pool
	park    bool

	parked   bool        // is inside Now() right now
	didPark  bool        // has been parked once already
	samples  []time.Time // times Now() handed to this call
	release  chan struct{}
	startClk time.Time
	endClk   time.Time
	result   digest.Set           // RemoveExisting
	atStart  map[string]time.Time // RemoveExisting: model snapshot (bestLo) when the call began
	done     bool
}

func (c *ecoCall) String() string {
	k := "RemoveExisting"
	if c.add {
		k = "Add"
	}
	p := ""
	if c.park {
		p = ",parks"
	}
	return fmt.Sprintf("#%d %s(%v%s)", c.id, k, c.members, p)
}

type ecoEvent struct {
	call   *ecoCall
	parked bool // false: the call returned
}

// parkClock is the clock handed to the cache.
type parkClock struct {
	*hx.VClock
	mu     sync.Mutex
	cur    *ecoCall // the one call that is running right now
	events chan ecoEvent
}

func (p *parkClock) Now() time.Time {
	now := p.VClock.Now()
	p.mu.Lock()
	c := p.cur
	p.mu.Unlock()
	if c == nil {
		return now
	}
	c.samples = append(c.samples, now)
	if c.park && !c.didPark {
		c.didPark = true
		p.events <- ecoEvent{call: c, parked: true}
		<-c.release
	}
	return now
}

func ecoSpan(samples []time.Time, start, end time.Time) (lo, hi time.Time) {
	if len(samples) == 0 {
		// the call did not read the clock: it ran somewhere in between
		return start, end
	}
	lo, hi = samples[0], samples[0]
	for _, s := range samples[1:] {
		if s.Before(lo) {
			lo = s
		}
		if s.After(hi) {
			hi = s
		}
	}
	return lo, hi
}

func TestC17ExistenceCacheOverlapping(t *testing.T) {
	rapid.Check(t, func(t *rapid.T) {
		ecoProbeOnce.Do(ecoProbe)
		c := recECO.Begin()
		kf := digest.KeyWithoutInstance
		if rapid.Bool().Draw(t, "keyWithInstance") {
			kf = digest.KeyWithInstance
		}
		const tick = 500 * time.Millisecond
		durTicks := rapid.IntRange(0, 4).Draw(t, "durationTicks")
		duration := time.Duration(durTicks) * tick
		// (with an extra half tick no age ever equals the duration: the
		// model is exact at every query)
		if rapid.Bool().Draw(t, "durationHalfTick") {
			duration += tick / 2
		}
		policy := rapid.SampledFrom([]string{"lru", "fifo"}).Draw(t, "policy")

		// Pool: the same hash under several instance names, and a second hash.
		type poolEntry struct {
			d   digest.Digest
			key string // model key
		}
		var pool []poolEntry
		modelKeys := map[string]bool{}
		for blob := 0; blob < 2; blob++ {
			for _, inst := range []string{"", "a", "a/b", "c"} {
				// (the first hash under the first instance name is always there)
				if len(pool) > 0 && rapid.IntRange(0, 2).Draw(t, fmt.Sprintf("blob%d@%s", blob, inst)) != 0 {
					continue
				}
				key := fmt.Sprintf("blob%d", blob)
				if kf == digest.KeyWithInstance {
					key += "@" + inst
				}
				pool = append(pool, poolEntry{d: hx.Sha(inst, []byte(fmt.Sprintf("existence cache blob %d", blob))), key: key})
				modelKeys[key] = true
				c.Add(blob, inst)
			}
		}
		// Capacity: mostly larger than the number of keys (exact model), at
		// times smaller (then only "present => justified" is decided).
		size := len(modelKeys) + rapid.IntRange(1, 8).Draw(t, "spare")
		if rapid.IntRange(0, 5).Draw(t, "smallCache") == 0 {
			size = rapid.IntRange(1, 3).Draw(t, "cacheSize")
		}
		exact := size > len(modelKeys)
		c.Add(int(kf), int(duration/(tick/2)), policy, size)

		clk := &parkClock{VClock: hx.NewVClock(), events: make(chan ecoEvent, 64)}
		epoch := clk.VClock.Now()
		cache := digest.NewExistenceCache(clk, kf, size, duration, eviction.NewMetricsSet(backends.NewEvictionSet(policy), "ExistenceCachingBlobAccess"))

		var (
			bestLo, bestHi                                                                         = map[string]time.Time{}, map[string]time.Time{}
			older                                                                                  = map[string]time.Time{} // key -> time of an Add that completed after an Add with a later time
			parked                                                                                 []*ecoCall
			rendered                                                                               []string
			nextID                                                                                 int
			overlapSameKey, olderCompletedLast, queryBetweenWindows, parkedRemove, addDuringRemove bool
			expiredSeen, presentSeen                                                               int
		)
		tk := func(x time.Time) string { return fmt.Sprintf("t%.1f", float64(x.Sub(epoch))/float64(tick)) }
		describe := func() string {
			return fmt.Sprintf("key format with instance name: %v, capacity %d (%d keys), duration %.1f ticks, policy %s; schedule: %s",
				kf == digest.KeyWithInstance, size, len(modelKeys), float64(duration)/float64(tick), policy, strings.Join(rendered, "; "))
		}

		// A failing case must not leave its parked calls behind.
		defer func() {
			for _, p := range parked {
				close(p.release)
			}
		}()
		// await: the running call parks or returns.
		inconclusive := false
		await := func(call *ecoCall) {
			select {
			case ev := <-clk.events:
				if ev.call != call {
					t.Fatalf("harness/C17: event of call %s while %s was running", ev.call, call)
				}
				if ev.parked {
					call.parked = true
					parked = append(parked, call)
					rendered = append(rendered, fmt.Sprintf("%s is handed %s and parks", call, tk(call.samples[len(call.samples)-1])))
					return
				}
				call.parked = false
			case <-time.After(ecoWatchdog):
				inconclusive = true
				ecoNoPark[true], ecoNoPark[false] = true, true
			}
		}
		// finish: a call has returned; update the model / decide its answer.
		finish := func(call *ecoCall) {
			call.done = true
			call.endClk = clk.VClock.Now()
			lo, hi := ecoSpan(call.samples, call.startClk, call.endClk)
			if call.add {
				for _, m := range call.members {
					k := pool[m].key
					if cur, ok := bestLo[k]; ok && lo.Before(cur) {
						olderCompletedLast = true
						older[k] = lo
					}
					if cur, ok := bestLo[k]; !ok || lo.After(cur) {
						bestLo[k] = lo
					}
					if cur, ok := bestHi[k]; !ok || hi.After(cur) {
						bestHi[k] = hi
					}
				}
				rendered = append(rendered, fmt.Sprintf("%s completes with %s", call, tk(lo)))
				return
			}
			got := map[string]bool{}
			for _, d := range call.result.Items() {
				got[d.GetKey(digest.KeyWithInstance)] = true
			}
			var answer []string
			for _, m := range call.members {
				k := pool[m].key
				notCached := got[pool[m].d.GetKey(digest.KeyWithInstance)]
				delete(got, pool[m].d.GetKey(digest.KeyWithInstance))
				answer = append(answer, fmt.Sprintf("%d:%v", m, !notCached))
				// must be present: an Add that had completed before this call
				// began is still inside its window at every time handed to
				// this call.
				// (At an age of exactly the duration either answer is
				// accepted: "once the duration passes" does not fix the
				// boundary. Today such an entry still counts as present.)
				if t0, ok := call.atStart[k]; ok && hi.Sub(t0) < duration {
					presentSeen++
					if o, ok := older[k]; ok && hi.Sub(o) > duration {
						queryBetweenWindows = true
					}
					if notCached && exact {
						rendered = append(rendered, fmt.Sprintf("%s handed %s -> cached %v", call, tk(hi), answer))
						t.Fatalf("C17 (existence cache, overlapping calls): digests added to the cache are removed once the duration passes, not earlier: pool entry %d (%s) was added by a call that was handed %s and had completed before this RemoveExisting began; RemoveExisting was handed %s, i.e. %v later (duration %v), yet it returns the digest as not cached (the capacity exceeds the number of keys, nothing is ever evicted). %s",
							m, pool[m].d, tk(t0), tk(hi), hi.Sub(t0), duration, describe())
					}
					continue
				}
				// must be absent: no Add completed so far whose window reaches
				// any time handed to this call.
				if t1, ok := bestHi[k]; !ok || lo.Sub(t1) > duration {
					if ok {
						expiredSeen++
					}
					if !notCached {
						rendered = append(rendered, fmt.Sprintf("%s handed %s -> cached %v", call, tk(lo), answer))
						last := "no completed Add contained it"
						if ok {
							last = fmt.Sprintf("the latest time handed to a completed Add that contained it is %s, %v earlier", tk(t1), lo.Sub(t1))
						}
						t.Fatalf("C17 (existence cache, overlapping calls): an existence cache never hides an object as present unless it was reported present within the duration: RemoveExisting, handed %s, filters out pool entry %d (%s) although %s (duration %v). %s",
							tk(lo), m, pool[m].d, last, duration, describe())
					}
					continue
				}
				// An Add completed while this call was parked: either answer.
				addDuringRemove = true
			}
			if len(got) != 0 {
				t.Fatalf("C17 (existence cache, overlapping calls): RemoveExisting returned digests that are not in the set it was given: %v. %s", got, describe())
			}
			rendered = append(rendered, fmt.Sprintf("%s handed %s -> cached %v", call, tk(lo), answer))
		}
		start := func(call *ecoCall) {
			call.release = make(chan struct{})
			call.startClk = clk.VClock.Now()
			if !call.add {
				call.atStart = map[string]time.Time{}
				for k, v := range bestLo {
					call.atStart[k] = v
				}
			}
			for _, m := range call.members {
				for _, p := range parked {
					if p.add && call.add {
						for _, pm := range p.members {
							if pool[pm].key == pool[m].key {
								overlapSameKey = true
							}
						}
					}
				}
			}
			sb := digest.NewSetBuilder(0)
			for _, m := range call.members {
				sb.Add(pool[m].d)
			}
			set := sb.Build()
			clk.mu.Lock()
			clk.cur = call
			clk.mu.Unlock()
			go func() {
				if call.add {
					cache.Add(set)
				} else {
					call.result = cache.RemoveExisting(set)
				}
				clk.events <- ecoEvent{call: call}
			}()
			await(call)
			if !inconclusive && !call.parked {
				finish(call)
			}
			clk.mu.Lock()
			clk.cur = nil
			clk.mu.Unlock()
		}
		resume := func(i int) {
			call := parked[i]
			parked = append(parked[:i:i], parked[i+1:]...)
			if !call.add {
				parkedRemove = true
			}
			clk.mu.Lock()
			clk.cur = call
			clk.mu.Unlock()
			call.parked = false
			call.release <- struct{}{}
			await(call)
			if !inconclusive && !call.parked {
				finish(call)
			}
			clk.mu.Lock()
			clk.cur = nil
			clk.mu.Unlock()
		}
		genMembers := func() []int {
			var ms []int
			for i := range pool {
				if rapid.IntRange(0, 2).Draw(t, fmt.Sprintf("in%d", i)) > 0 {
					ms = append(ms, i)
				}
			}
			return ms
		}

		nsteps := rapid.IntRange(2, 14).Draw(t, "nsteps")
		for s := 0; s < nsteps && !inconclusive; s++ {
			kind := rapid.SampledFrom([]string{"add", "add", "add", "remove", "remove", "advance", "advance", "release", "release"}).Draw(t, "step")
			if kind == "release" && len(parked) == 0 {
				kind = "add"
			}
			switch kind {
			case "advance":
				n := rapid.IntRange(1, 3).Draw(t, "ticks")
				c.Add(kind, n)
				clk.VClock.Advance(time.Duration(n) * tick)
				rendered = append(rendered, fmt.Sprintf("advance to %s", tk(clk.VClock.Now())))
			case "release":
				i := rapid.IntRange(0, len(parked)-1).Draw(t, "which")
				c.Add(kind, parked[i].id)
				resume(i)
			default:
				call := &ecoCall{id: nextID, add: kind == "add", members: genMembers()}
				nextID++
				call.park = len(parked) < 3 && rapid.IntRange(0, 2).Draw(t, "parks") > 0
				if ecoNoPark[call.add] {
					call.park = false
				}
				c.Add(kind, fmt.Sprint(call.members), call.park)
				start(call)
			}
		}
		// Let every parked call finish (in generated order), then query
		// every digest once more, possibly later.
		for len(parked) > 0 && !inconclusive {
			resume(rapid.IntRange(0, len(parked)-1).Draw(t, "drain"))
		}
		if !inconclusive {
			n := rapid.IntRange(0, 3).Draw(t, "finalTicks")
			c.Add("final", n)
			if n > 0 {
				clk.VClock.Advance(time.Duration(n) * tick)
				rendered = append(rendered, fmt.Sprintf("advance to %s", tk(clk.VClock.Now())))
			}
			all := &ecoCall{id: nextID}
			for i := range pool {
				all.members = append(all.members, i)
			}
			start(all)
		}
		if inconclusive {
			recECO.Count("INCONCLUSIVE_call_neither_parked_nor_returned", 1)
			t.Skip("a call neither reached the clock nor returned: this scheduler cannot drive the implementation")
		}

		c.ClassIf(exact, "capacity_exceeds_keys_exact_model")
		c.ClassIf(!exact, "small_capacity_one_direction_only")
		c.ClassIf(overlapSameKey, "overlapping_adds_of_the_same_key")
		c.ClassIf(olderCompletedLast, "add_with_older_time_completed_after_newer_one")
		c.ClassIf(queryBetweenWindows, "query_inside_newer_window_outside_older_one")
		c.ClassIf(parkedRemove, "remove_existing_parked")
		c.ClassIf(addDuringRemove, "query_where_either_answer_is_accepted")
		c.ClassIf(expiredSeen > 0, "query_after_expiry")
		c.ClassIf(presentSeen > 0, "query_inside_window")
		c.ClassIf(kf == digest.KeyWithInstance, "key_with_instance")
		if olderCompletedLast && presentSeen > 0 {
			c.NonTrivial()
		}
		c.Sample(func() string {
			ks := make([]string, 0, len(modelKeys))
			for k := range modelKeys {
				ks = append(ks, k)
			}
			sort.Strings(ks)
			return fmt.Sprintf("keys=%v %s", ks, describe())
		})
		c.End()
	})
}
