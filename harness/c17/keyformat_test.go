package c17

// TestC17ConfiguredKeyFormats: the consumers of a composite's announced key
// format - existence_caching (keys its digest.ExistenceCache with the format
// its back end announces), the queued replicator (keys its cache of
// replicated objects with the sink's format) and the deduplicating replicator
// (keys its in-flight table with the sink's format) - over GENERATED TREES of
// composites whose leaves differ in key format.
//
// A tree node is a labelled in-memory `local` leaf, flat (instance names
// ignored) or hierarchical_instance_names (an object is visible under the
// instance names it was stored under and their children), or one of
// read_fallback{primary, secondary, replicator}, read_caching{slow, fast,
// replicator}, mirrored{backend_a, backend_b, replicator_a_to_b,
// replicator_b_to_a}, deadline_enforcing{backend}, existence_caching{backend}
// over subtrees (at most four leaves, every mix of flat / hierarchical in
// every position). The whole tree is built by the REAL
// configuration.NewBlobAccessFromConfiguration (CAS creator); a demultiplexer
// exposes the tree under instance name prefix "c" and every leaf directly
// under "x0".."x3", through which the oracle reads the leaves and places
// objects behind the tree's back. The same blob is requested under several
// instance names: "", p, p/q (prefix-related) and r.
//
// Oracle (leaves never evict: far less than a block is written per case; no
// back end fails): reach(subtree, blob, instance name) = some leaf of the
// subtree reports the pair present when asked directly.
//   - FindMissing through the tree never reports present a pair that no leaf
//     of the tree holds (an existence cache never hides an object as present
//     unless the back end reported it present; objects never disappear here);
//   - Get through the tree returns the object (right bytes) iff reach(tree);
//   - a read never removes anything from a leaf and never makes a blob appear
//     that no leaf held under any instance name;
//   - after a successful Get of a pair that, in the whole tree, only the slow /
//     secondary side of ONE read_caching / read_fallback node N held (no
//     sibling subtree of N or of an ancestor of N held it: the data can only
//     have come through N's replicator) and N's replicator copies, the fast /
//     primary side of N holds it under the requested instance name.

import (
	"context"
	"fmt"
	"strings"
	"testing"
	"testing/synctest"
	"time"

	"github.com/buildbarn/bb-storage/pkg/blobstore"
	"github.com/buildbarn/bb-storage/pkg/blobstore/buffer"
	"github.com/buildbarn/bb-storage/pkg/blobstore/configuration"
	"github.com/buildbarn/bb-storage/pkg/digest"
	"github.com/buildbarn/bb-storage/pkg/program"
	pb "github.com/buildbarn/bb-storage/pkg/proto/configuration/blobstore"
	"google.golang.org/protobuf/types/known/durationpb"
	"pgregory.net/rapid"

	"verif/harness/hx"
	"verif/harness/vstats"
)

var recKF = vstats.New("TestC17ConfiguredKeyFormats")

const kfMaxLeaves = 4

type kfNode struct {
	kind string // leaf, read_fallback, read_caching, mirrored, deadline_enforcing, existence_caching
	// read_fallback: kids = [secondary, primary]; read_caching: [slow, fast]
	// (index 0 = the replicator's source, 1 = its sink); mirrored: [a, b]
	kids      []*kfNode
	repl      []cfgRepl // read_fallback / read_caching: one; mirrored: a_to_b, b_to_a
	leaf      int
	hier      bool
	cacheSize int64
	parent    *kfNode
}

func (n *kfNode) String() string {
	switch n.kind {
	case "leaf":
		if n.hier {
			return fmt.Sprintf("H%d", n.leaf)
		}
		return fmt.Sprintf("F%d", n.leaf)
	case "read_fallback":
		return fmt.Sprintf("read_fallback{primary:%s secondary:%s repl:%s}", n.kids[1], n.kids[0], n.repl[0])
	case "read_caching":
		return fmt.Sprintf("read_caching{slow:%s fast:%s repl:%s}", n.kids[0], n.kids[1], n.repl[0])
	case "mirrored":
		return fmt.Sprintf("mirrored{a:%s b:%s a_to_b:%s b_to_a:%s}", n.kids[0], n.kids[1], n.repl[0], n.repl[1])
	case "existence_caching":
		return fmt.Sprintf("existence_caching[%d]{%s}", n.cacheSize, n.kids[0])
	}
	return fmt.Sprintf("%s{%s}", n.kind, n.kids[0])
}

func (n *kfNode) leaves() []*kfNode {
	if n.kind == "leaf" {
		return []*kfNode{n}
	}
	var out []*kfNode
	for _, k := range n.kids {
		out = append(out, k.leaves()...)
	}
	return out
}

func (n *kfNode) walk(f func(*kfNode)) {
	f(n)
	for _, k := range n.kids {
		k.walk(f)
	}
}

func (n *kfNode) config() *pb.BlobAccessConfiguration {
	switch n.kind {
	case "leaf":
		return cfgLabelRef(fmt.Sprintf("leaf%d", n.leaf))
	case "read_fallback":
		return &pb.BlobAccessConfiguration{Backend: &pb.BlobAccessConfiguration_ReadFallback{ReadFallback: &pb.ReadFallbackBlobAccessConfiguration{
			Secondary: n.kids[0].config(), Primary: n.kids[1].config(), Replicator: n.repl[0].config()}}}
	case "read_caching":
		return &pb.BlobAccessConfiguration{Backend: &pb.BlobAccessConfiguration_ReadCaching{ReadCaching: &pb.ReadCachingBlobAccessConfiguration{
			Slow: n.kids[0].config(), Fast: n.kids[1].config(), Replicator: n.repl[0].config()}}}
	case "mirrored":
		return &pb.BlobAccessConfiguration{Backend: &pb.BlobAccessConfiguration_Mirrored{Mirrored: &pb.MirroredBlobAccessConfiguration{
			BackendA: n.kids[0].config(), BackendB: n.kids[1].config(), ReplicatorAToB: n.repl[0].config(), ReplicatorBToA: n.repl[1].config()}}}
	case "deadline_enforcing":
		return &pb.BlobAccessConfiguration{Backend: &pb.BlobAccessConfiguration_DeadlineEnforcing{DeadlineEnforcing: &pb.DeadlineEnforcingBlobAccess{
			Timeout: durationpb.New(30 * time.Minute), Backend: n.kids[0].config()}}}
	case "existence_caching":
		return &pb.BlobAccessConfiguration{Backend: &pb.BlobAccessConfiguration_ExistenceCaching{ExistenceCaching: &pb.ExistenceCachingBlobAccessConfiguration{
			Backend: n.kids[0].config(), ExistenceCache: cfgExistenceCache(n.cacheSize)}}}
	}
	panic("unknown node kind " + n.kind)
}

// genKFRepl: like genCfgRepl, but a replicator that does not copy is drawn
// more often (with one, nothing ever reaches an instance-agnostic primary
// behind the cache's back, so a too coarse key stays visible).
func genKFRepl(t *rapid.T) cfgRepl {
	if rapid.IntRange(0, 2).Draw(t, "noop_replicator") == 0 {
		return cfgRepl{noop: true}
	}
	var r cfgRepl
	for i, n := 0, rapid.IntRange(0, 2).Draw(t, "depth"); i < n; i++ {
		w := cfgWrap{kind: rapid.SampledFrom([]string{"deduplicating", "concurrency_limiting", "queued", "queued"}).Draw(t, "wrapper")}
		switch w.kind {
		case "concurrency_limiting":
			w.n = int64(rapid.IntRange(1, 2).Draw(t, "maximum_concurrency"))
		case "queued":
			w.cacheSize = int64(rapid.SampledFrom([]int{1, 2, 16}).Draw(t, "cache_size"))
		}
		r.wrappers = append(r.wrappers, w)
	}
	return r
}

// genKFNode draws a subtree with at most budget leaves (budget >= 1).
func genKFNode(t *rapid.T, depth, budget int, nleaves *int, forceBinary bool) *kfNode {
	kinds := []string{"leaf", "leaf", "read_fallback", "read_fallback", "read_caching", "read_caching", "mirrored", "deadline_enforcing", "existence_caching"}
	if forceBinary {
		kinds = []string{"read_fallback", "read_fallback", "read_caching", "read_caching", "mirrored"}
	}
	kind := "leaf"
	if depth > 0 {
		kind = rapid.SampledFrom(kinds).Draw(t, "node")
	}
	if budget < 2 && (kind == "read_fallback" || kind == "read_caching" || kind == "mirrored") {
		kind = "leaf"
	}
	n := &kfNode{kind: kind}
	switch kind {
	case "leaf":
		n.leaf = *nleaves
		*nleaves++
		n.hier = rapid.Bool().Draw(t, fmt.Sprintf("leaf%d/hierarchical", n.leaf))
	case "deadline_enforcing", "existence_caching":
		if kind == "existence_caching" {
			n.cacheSize = int64(rapid.IntRange(1, 8).Draw(t, "cacheSize"))
		}
		n.kids = []*kfNode{genKFNode(t, depth-1, budget, nleaves, false)}
	default:
		first := genKFNode(t, depth-1, budget-1, nleaves, false)
		second := genKFNode(t, depth-1, budget-len(first.leaves()), nleaves, false)
		n.kids = []*kfNode{first, second}
		n.repl = []cfgRepl{genKFRepl(t)}
		if kind == "mirrored" {
			n.repl = append(n.repl, genKFRepl(t))
		}
	}
	for _, k := range n.kids {
		k.parent = n
	}
	return n
}

func TestC17ConfiguredKeyFormats(outer *testing.T) {
	rapid.Check(outer, func(t *rapid.T) {
		c := recKF.Begin()
		nleaves := 0
		var root *kfNode
		if rapid.IntRange(0, 4).Draw(t, "top_is_existence_cache") != 0 {
			root = &kfNode{kind: "existence_caching", cacheSize: int64(rapid.IntRange(1, 8).Draw(t, "cacheSize"))}
			root.kids = []*kfNode{genKFNode(t, 2, kfMaxLeaves, &nleaves, true)}
			root.kids[0].parent = root
		} else {
			root = genKFNode(t, 2, kfMaxLeaves, &nleaves, true)
		}
		leaves := root.leaves()
		c.Add(root.String())

		labels := map[string]*pb.BlobAccessConfiguration{}
		prefixes := map[string]*pb.DemultiplexedBlobAccessConfiguration{"c": {Backend: root.config()}}
		anyHier, anyFlat := false, false
		for _, l := range leaves {
			labels[fmt.Sprintf("leaf%d", l.leaf)] = cfgLocalLeaf(cfgLeaf{hierarchical: l.hier, blockSize: cfgBlockNormal})
			prefixes[fmt.Sprintf("x%d", l.leaf)] = &pb.DemultiplexedBlobAccessConfiguration{Backend: cfgLabelRef(fmt.Sprintf("leaf%d", l.leaf))}
			anyHier = anyHier || l.hier
			anyFlat = anyFlat || !l.hier
		}
		cfg := &pb.BlobAccessConfiguration{Backend: &pb.BlobAccessConfiguration_WithLabels{WithLabels: &pb.WithLabelsBlobAccessConfiguration{
			Labels:  labels,
			Backend: &pb.BlobAccessConfiguration{Backend: &pb.BlobAccessConfiguration_Demultiplexing{Demultiplexing: &pb.DemultiplexingBlobAccessConfiguration{InstanceNamePrefixes: prefixes}}},
		}}}
		hasKind := map[string]bool{}
		root.walk(func(n *kfNode) { hasKind[n.kind] = true })

		nobj := rapid.IntRange(1, 3).Draw(t, "nobjects")
		objs := make([][]byte, nobj)
		for o := range objs {
			objs[o] = []byte(fmt.Sprintf("key format object %d", o))
		}
		allInsts := []string{"", "p", "p/q", "r"}
		genRef := func() cfgRef {
			return cfgRef{o: rapid.IntRange(0, nobj-1).Draw(t, "obj"), inst: rapid.SampledFrom(allInsts).Draw(t, "instance")}
		}
		type placement struct {
			ref  cfgRef
			leaf int
		}
		var seeds []placement
		for i, n := 0, rapid.IntRange(1, 5).Draw(t, "nseeds"); i < n; i++ {
			s := placement{ref: genRef(), leaf: rapid.IntRange(0, len(leaves)-1).Draw(t, "seedleaf")}
			seeds = append(seeds, s)
			c.Add(s.ref.o, s.ref.inst, s.leaf)
		}
		type kfOp struct {
			kind   string
			refs   []cfgRef
			leaf   int
			method int
			chunk  int
		}
		nops := rapid.IntRange(2, 10).Draw(t, "nops")
		ops := make([]kfOp, nops)
		rendered := make([]string, nops)
		for i := range ops {
			o := kfOp{kind: rapid.SampledFrom([]string{"find", "find", "find", "get", "get", "put", "place"}).Draw(t, "op")}
			k := 1
			if o.kind == "find" {
				k = rapid.IntRange(1, 4).Draw(t, "k")
			}
			for x := 0; x < k; x++ {
				o.refs = append(o.refs, genRef())
			}
			switch o.kind {
			case "get":
				o.method = rapid.SampledFrom([]int{0, 0, 1, methodIntoWriter, methodReadAtFull}).Draw(t, "method")
				o.chunk = rapid.IntRange(1, 9).Draw(t, "readchunk")
			case "place":
				o.leaf = rapid.IntRange(0, len(leaves)-1).Draw(t, "leaf")
			}
			ops[i] = o
			rendered[i] = fmt.Sprintf("%s%v", o.kind, o.refs)
			if o.kind == "place" {
				rendered[i] += fmt.Sprintf("->leaf%d", o.leaf)
			}
			c.Add(rendered[i], o.method, o.chunk)
		}
		desc := root.String()

		var (
			cachePresent, cacheOtherInstanceAbsent, missingAlthoughReachable, readThrough, readThroughCopied, absentReads, puts int
			copiedMixed, findExact                                                                                              int
		)
		var verdict error
		synctest.Test(outer, func(st *testing.T) {
			verdict = program.RunLocal(context.Background(), func(ctx context.Context, siblings, deps program.Group) error {
				info, err := configuration.NewBlobAccessFromConfiguration(deps, cfg, configuration.NewCASBlobAccessCreator(nil, 1<<20, nil))
				if err != nil {
					return fmt.Errorf("harness/C17: NewBlobAccessFromConfiguration failed for %s: %v", desc, err)
				}
				var ba blobstore.BlobAccess = info.BlobAccess
				dig := func(prefix string, r cfgRef) digest.Digest {
					n := prefix
					if r.inst != "" {
						n += "/" + r.inst
					}
					return hx.Sha(n, objs[r.o])
				}
				stored := func(leaf int, r cfgRef) (bool, error) {
					missing, err := ba.FindMissing(ctx, dig(fmt.Sprintf("x%d", leaf), r).ToSingletonSet())
					if err != nil {
						return false, fmt.Errorf("harness/C17: direct FindMissing on leaf %d failed: %v", leaf, err)
					}
					return missing.Empty(), nil
				}
				// snapshot: what every leaf holds, for every object and
				// instance name.
				type cell struct {
					leaf int
					ref  cfgRef
				}
				snapshot := func() (map[cell]bool, error) {
					out := map[cell]bool{}
					for _, l := range leaves {
						for o := range objs {
							for _, inst := range allInsts {
								s, err := stored(l.leaf, cfgRef{o, inst})
								if err != nil {
									return nil, err
								}
								if s {
									out[cell{l.leaf, cfgRef{o, inst}}] = true
								}
							}
						}
					}
					return out, nil
				}
				reach := func(snap map[cell]bool, n *kfNode, r cfgRef) bool {
					for _, l := range n.leaves() {
						if snap[cell{l.leaf, r}] {
							return true
						}
					}
					return false
				}
				blobAnywhere := func(snap map[cell]bool, o int) bool {
					for k := range snap {
						if k.ref.o == o {
							return true
						}
					}
					return false
				}
				put := func(prefix string, r cfgRef) error {
					d := dig(prefix, r)
					return ba.Put(ctx, d, buffer.NewCASBufferFromByteSlice(d, objs[r.o], buffer.UserProvided))
				}
				for _, s := range seeds {
					if err := put(fmt.Sprintf("x%d", s.leaf), s.ref); err != nil {
						return fmt.Errorf("harness/C17: direct Put into leaf %d failed: %v", s.leaf, err)
					}
				}
				run := func(f func(ctx context.Context)) (blocked bool) {
					opCtx, cancel := context.WithTimeout(ctx, cfgOpDeadline)
					defer cancel()
					f(opCtx)
					return opCtx.Err() != nil
				}
				for i, o := range ops {
					what := fmt.Sprintf("operation %d of %v", i, rendered)
					before, err := snapshot()
					if err != nil {
						return err
					}
					switch o.kind {
					case "place":
						if err := put(fmt.Sprintf("x%d", o.leaf), o.refs[0]); err != nil {
							return fmt.Errorf("harness/C17: direct Put into leaf %d failed: %v", o.leaf, err)
						}
					case "put":
						var perr error
						if run(func(ctx context.Context) {
							d := dig("c", o.refs[0])
							perr = ba.Put(ctx, d, buffer.NewCASBufferFromByteSlice(d, objs[o.refs[0].o], buffer.UserProvided))
						}) {
							return fmt.Errorf("C17 (configured key formats, %s): %s: the upload blocked until its virtual deadline although every back end answers at once (then: %v)", desc, what, perr)
						}
						if perr != nil {
							return fmt.Errorf("C17 (configured key formats, %s): %s: the upload failed although every back end is healthy: %v", desc, what, perr)
						}
						puts++
					case "find":
						sb := digest.NewSetBuilder(0)
						for _, r := range o.refs {
							sb.Add(dig("c", r))
						}
						var missing digest.Set
						var ferr error
						if run(func(ctx context.Context) { missing, ferr = ba.FindMissing(ctx, sb.Build()) }) {
							return fmt.Errorf("C17 (configured key formats, %s): %s: FindMissing blocked until its virtual deadline although every back end answers at once (then: %v)", desc, what, ferr)
						}
						if ferr != nil {
							return fmt.Errorf("C17 (configured key formats, %s): %s: FindMissing failed although every back end is healthy: %v", desc, what, ferr)
						}
						after, err := snapshot()
						if err != nil {
							return err
						}
						got := map[string]bool{}
						for _, d := range missing.Items() {
							got[d.GetKey(digest.KeyWithInstance)] = true
						}
						asked := map[string]bool{}
						for _, r := range o.refs {
							k := dig("c", r).GetKey(digest.KeyWithInstance)
							if asked[k] {
								continue
							}
							asked[k] = true
							reportedPresent := !got[k]
							// (held before or after the call: FindMissing may
							// synchronise back ends while it runs)
							held := reach(before, root, r) || reach(after, root, r)
							if reportedPresent && !held {
								other := ""
								for _, inst := range allInsts {
									if inst != r.inst && reach(after, root, cfgRef{r.o, inst}) {
										other = inst
										break
									}
								}
								return fmt.Errorf("C17 (configured key formats, %s): FindMissing never reports an object present that no back end holds (an existence cache never hides an object as present unless the back end reported it present): %s: %s is reported present, but no leaf of the tree holds that blob under that instance name (the blob is held under instance name %q: %v). Answer: missing=%v", desc, what, r, other, other != "", missing.Items())
							}
							if reportedPresent {
								cachePresent++
							} else {
								if reach(before, root, r) {
									// stated only for fallbacks (and true of
									// mirrors); a read cache answers for its slow
									// side alone
									if !hasKind["read_caching"] {
										return fmt.Errorf("C17 (configured key formats, %s): FindMissing through a fallback reports exactly the objects missing from both back ends: %s: %s is reported missing although a leaf of the tree holds it. Answer: missing=%v", desc, what, r, missing.Items())
									}
									missingAlthoughReachable++
								}
								for _, inst := range allInsts {
									if inst != r.inst && reach(after, root, cfgRef{r.o, inst}) {
										cacheOtherInstanceAbsent++
										break
									}
								}
							}
						}
						if !hasKind["read_caching"] {
							findExact++
						}
						for k := range asked {
							delete(got, k)
						}
						if len(got) != 0 {
							return fmt.Errorf("C17 (configured key formats, %s): %s: FindMissing reported digests that were not asked about: %v", desc, what, got)
						}
					case "get":
						r := o.refs[0]
						held := reach(before, root, r)
						ra := readArgs{full: objs[r.o]}
						var data []byte
						var gerr error
						if run(func(ctx context.Context) {
							data, gerr = consume(ba.Get(ctx, dig("c", r)), o.method, o.chunk, ra)
						}) {
							return fmt.Errorf("C17 (configured key formats, %s): %s: Get of %s (%s) blocked until its virtual deadline although every back end answers at once (then: %v)", desc, what, r, methodNames[o.method], gerr)
						}
						if gerr == nil {
							if !held {
								return fmt.Errorf("C17 (configured key formats, %s): %s: Get of %s returned %.40q although no leaf of the tree holds it under that instance name", desc, what, r, data)
							}
							if string(data) != string(objs[r.o]) {
								return fmt.Errorf("C17 (configured key formats, %s): %s: Get of %s (%s) returned %q, want %q", desc, what, r, methodNames[o.method], data, objs[r.o])
							}
						} else {
							if held {
								return fmt.Errorf("C17 (configured key formats, %s): the composite returns an object if one of its back ends holds it, but %s: Get of %s (%s) failed although a leaf of the tree holds it and every back end is healthy: %v", desc, what, r, methodNames[o.method], gerr)
							}
							absentReads++
						}
						after, err := snapshot()
						if err != nil {
							return err
						}
						if !blobAnywhere(before, r.o) && blobAnywhere(after, r.o) {
							return fmt.Errorf("C17 (configured key formats, %s): %s: the read of %s left a blob in a leaf that no leaf held under any instance name", desc, what, r)
						}
						if gerr == nil {
							// the nodes the data can only have come through
							var err error
							root.walk(func(n *kfNode) {
								if err != nil || (n.kind != "read_caching" && n.kind != "read_fallback") {
									return
								}
								if !reach(before, n.kids[0], r) || reach(before, n.kids[1], r) {
									return
								}
								for a := n; a.parent != nil; a = a.parent {
									for _, sib := range a.parent.kids {
										if sib != a && reach(before, sib, r) {
											return
										}
									}
								}
								readThrough++
								if reach(after, n.kids[1], r) {
									readThroughCopied++
									if anyHier && anyFlat {
										copiedMixed++
									}
								} else if !n.repl[0].noop {
									side := [2]string{"fast", "slow"}
									if n.kind == "read_fallback" {
										side = [2]string{"primary", "secondary"}
									}
									err = fmt.Errorf("C17 (configured key formats, %s): after a successful read-through with a copying replicator the object is present in the %s back end: %s: Get of %s (%s) succeeded; in the whole tree only the %s side (%s) of %s held the pair, its replicator %s copies, but afterwards its %s side (%s) still does not hold it under that instance name", desc, side[0], what, r, methodNames[o.method], side[1], n.kids[0], n.kind, n.repl[0], side[0], n.kids[1])
								}
							})
							if err != nil {
								return err
							}
						}
					}
					after, err := snapshot()
					if err != nil {
						return err
					}
					for k := range before {
						if !after[k] {
							return fmt.Errorf("C17 (configured key formats, %s): %s: leaf %d no longer holds %s, which it held before (nothing is ever evicted in this test)", desc, what, k.leaf, k.ref)
						}
					}
				}
				return nil
			})
		})
		if verdict != nil {
			t.Fatalf("%v", verdict)
		}
		for k := range hasKind {
			c.Class("tree_has_" + k)
		}
		c.Class("top_" + root.kind)
		mixedUnderCache := false
		root.walk(func(n *kfNode) {
			if n.kind != "existence_caching" {
				return
			}
			h, f := false, false
			for _, l := range n.leaves() {
				h = h || l.hier
				f = f || !l.hier
			}
			mixedUnderCache = mixedUnderCache || (h && f)
		})
		c.ClassIf(anyHier && anyFlat, "leaves_of_both_key_formats")
		c.ClassIf(mixedUnderCache, "existence_cache_over_leaves_of_both_key_formats")
		noopSomewhere, queuedSomewhere, dedupSomewhere, compositeSink := false, false, false, false
		root.walk(func(n *kfNode) {
			for _, r := range n.repl {
				noopSomewhere = noopSomewhere || r.noop
				queuedSomewhere = queuedSomewhere || r.has("queued")
				dedupSomewhere = dedupSomewhere || r.has("deduplicating")
			}
			if len(n.repl) > 0 && (n.kids[1].kind != "leaf" || (n.kind == "mirrored" && n.kids[0].kind != "leaf")) {
				compositeSink = true
			}
		})
		c.ClassIf(noopSomewhere, "noop_replicator")
		c.ClassIf(queuedSomewhere, "queued_replicator")
		c.ClassIf(dedupSomewhere, "deduplicating_replicator")
		c.ClassIf(compositeSink, "replicator_sink_is_a_composite")
		c.ClassIf(cachePresent > 0, "reported_present")
		c.ClassIf(cacheOtherInstanceAbsent > 0, "reported_missing_but_blob_held_under_other_instance_name")
		c.ClassIf(cacheOtherInstanceAbsent > 0 && mixedUnderCache, "reported_missing_but_blob_held_under_other_instance_name_mixed_under_cache")
		c.ClassIf(missingAlthoughReachable > 0, "read_cache_reports_missing_although_fast_side_holds")
		c.ClassIf(findExact > 0, "findmissing_decided_exactly")
		c.ClassIf(readThrough > 0, "read_through_a_single_node")
		c.ClassIf(readThroughCopied > 0, "read_through_copied")
		c.ClassIf(copiedMixed > 0, "read_through_copied_leaves_of_both_key_formats")
		c.ClassIf(absentReads > 0, "read_of_absent_object")
		c.ClassIf(puts > 0, "upload_through_the_tree")
		if anyHier && anyFlat && (cacheOtherInstanceAbsent > 0 || readThroughCopied > 0) {
			c.NonTrivial()
		}
		c.Sample(func() string {
			return fmt.Sprintf("%s seeds=%v ops=%s", desc, seeds, strings.Join(rendered, " "))
		})
		c.End()
	})
}
