package c02

import (
	"fmt"
	"io"
	"log"
	"os"
	"testing"

	"pgregory.net/rapid"

	"verif/harness/lstore"
	"verif/harness/sim"
	"verif/harness/vstats"
)

func TestMain(m *testing.M) {
	log.SetOutput(io.Discard)
	rc := m.Run()
	vstats.Flush()
	os.Exit(rc)
}

var rec = vstats.New("TestC02Crash")

// checkRestarted runs the C02 oracle on a store rebuilt from a
// post-crash medium: whatever is reported present must be readable with
// exactly the bytes of an upload of that key. It returns the objects
// that were visible.
func checkRestarted(w *lstore.World) []lstore.ObjInst {
	var items []lstore.ObjInst
	for _, o := range w.Objs {
		items = append(items, lstore.ObjInst{Obj: o, Instance: ""})
		if w.Cfg.Hierarchical || w.Cfg.WithInstance {
			for _, in := range lstore.InstanceNames[1:] {
				items = append(items, lstore.ObjInst{Obj: o, Instance: in})
			}
		}
	}
	if len(items) == 0 {
		return nil
	}
	present, err := w.FindMissing(items)
	if err != nil {
		return nil
	}
	var visible []lstore.ObjInst
	for i, it := range items {
		if !present[i] {
			continue
		}
		r := w.Get(it.Obj, it.Instance) // fatals on wrong bytes or integrity errors
		if r.Found {
			visible = append(visible, it)
		}
	}
	w.CheckMonitors()
	return visible
}

func TestC02Crash(t *testing.T) {
	rapid.Check(t, func(t *rapid.T) {
		c := rec.Begin()
		cfg := lstore.GenConfig(t, lstore.GenOpts{Persistent: true, AllowAC: true, Factories: []string{"raw", "raw", "cas", "cascache"}, MaxBlockBytes: 192})
		c.Add(cfg.String())
		w := lstore.NewWorld(t, cfg, nil, 0)
		worlds := []*lstore.World{w}
		defer func() {
			for _, x := range worlds {
				x.Close()
			}
		}()
		w.InstallDurableCheck()
		h := lstore.NewHist(t, w, c, lstore.HistOpts{BadUploads: true, Syncers: true, Faults: true, Shutdown: true})
		t.Repeat(h.Actions())
		// Do not quiesce: uploads in flight at the crash are part of the
		// quantifier. But the media must not change while we analyse.
		entries := w.St.Media.Log.Snapshot()
		n := len(entries)

		// Candidate cuts: boundaries of syncs, renames, directory syncs,
		// acknowledgements; plus drawn ones.
		var interesting []int
		commits := 0
		for i, e := range entries {
			switch e.Kind {
			case sim.KSync, sim.KRename, sim.KDirSync, sim.KFSync:
				interesting = append(interesting, i, i+1)
				if e.Kind == sim.KDirSync {
					commits++
				}
			case sim.KMark:
				interesting = append(interesting, i+1)
			}
		}
		interesting = append(interesting, n)
		ncuts := rapid.IntRange(1, 6).Draw(t, "ncuts")
		anyLostAfterCommit := false
		betweenReleaseAndState := false
		for ci := 0; ci < ncuts; ci++ {
			var cut int
			if len(interesting) > 0 && rapid.Bool().Draw(t, "cutAtBoundary") {
				cut = interesting[rapid.IntRange(0, len(interesting)-1).Draw(t, "cutIdx")]
			} else {
				cut = rapid.IntRange(0, n).Draw(t, "cut")
			}
			var ch sim.Chooser
			switch rapid.IntRange(0, 6).Draw(t, "loss") {
			case 0:
				ch = sim.AllLost{}
			case 1:
				ch = sim.NoneLost{}
			case 2:
				ch = lstore.Selective{KeepData: false, KeepIndex: true, KeepDir: true}
			case 3:
				ch = lstore.Selective{KeepData: true, KeepIndex: true, KeepDir: false}
			default:
				ch = &lstore.RapidChooser{T: t, KeepPercent: rapid.SampledFrom([]int{20, 50, 80}).Draw(t, "keepPct")}
			}
			c.Add("cut", cut)
			img := w.Crash(cut, ch)
			commitsBefore := 0
			for i := 0; i < cut && i < n; i++ {
				if entries[i].Kind == sim.KDirSync {
					commitsBefore++
				}
			}
			if commitsBefore >= 1 && img.LostUnits > 0 {
				anyLostAfterCommit = true
			}
			drop := 0
			if cfg.Spare > 0 && rapid.IntRange(0, 4).Draw(t, "shrink") == 0 {
				drop = rapid.IntRange(1, cfg.Spare).Draw(t, "drop")
				c.Class("restart_with_fewer_blocks")
			}
			w2 := w.RestartShrunk(img, drop)
			worlds = append(worlds, w2)
			if drop == 0 {
				// (With a shrunk device the old state file legitimately
				// lists blocks behind the first one that could not be
				// re-attached; they are never restored again.)
				w2.InstallDurableCheck()
			}
			visible := checkRestarted(w2)
			if w2.St.Restored < len(img.DurableStateBlocks()) {
				// fewer blocks re-attached than the state file lists: fine
				// (restore stops at the first unknown block), counted.
				c.Class("restore_stopped_early")
			}
			c.ClassIf(len(visible) > 0, "objects_visible_after_restart")
			c.ClassIf(img.LostUnits > 0, "unsynced_units_lost")
			if w.St.BL.PopFronts > 0 && w.ReleaseWakeupPending() {
				betweenReleaseAndState = true
			}

			// Post-restart workload: new uploads must never overwrite
			// space of objects that are still visible.
			if rapid.Bool().Draw(t, "postWorkload") {
				h2 := lstore.NewHist(t, w2, c, lstore.HistOpts{Syncers: true})
				k := rapid.IntRange(1, 6).Draw(t, "postOps")
				for i := 0; i < k; i++ {
					h2.NewUpload()
					if rapid.IntRange(0, 2).Draw(t, "postDrain") == 0 {
						w2.Drain()
					}
				}
				h2.Quiesce()
				for _, it := range visible {
					w2.Get(it.Obj, it.Instance) // NOT_FOUND or exact bytes
				}
				w2.CheckMonitors()
				c.Class("post_restart_workload")
				// Second crash during/after recovery.
				if rapid.IntRange(0, 2).Draw(t, "secondCrash") == 0 {
					n2 := w2.St.Media.Log.Len()
					cut2 := rapid.IntRange(0, n2).Draw(t, "cut2")
					img2 := w2.Crash(cut2, &lstore.RapidChooser{T: t, KeepPercent: 50})
					w3 := w2.Restart(img2)
					worlds = append(worlds, w3)
					checkRestarted(w3)
					c.Class("second_crash")
				}
			}
		}
		c.ClassIf(commits >= 1, "history_has_commit")
		c.ClassIf(anyLostAfterCommit, "cut_after_commit_with_loss")
		c.ClassIf(betweenReleaseAndState, "release_pending_at_end")
		c.ClassIf(h.FinalizeInSync > 0, "finalize_during_data_sync")
		c.ClassIf(h.FinalizeInWrite > 0, "finalize_during_state_write")
		c.ClassIf(h.ReleaseInSync > 0, "release_writer_inside_data_sync")
		c.ClassIf(h.FaultsInjected > 0, "faults_injected")
		c.ClassIf(h.FinalSyncFaults > 0, "final_shutdown_sync_fails_after_upload_acked_during_first_shutdown_sync")
		c.ClassIf(w.St.BL.PopFronts > 0, "rotated")
		if anyLostAfterCommit || betweenReleaseAndState {
			c.NonTrivial()
		}
		c.Sample(func() string { return worlds[len(worlds)-1].Render() })
		c.End()
		_ = fmt.Sprint
	})
}
