// Package backends contains a trivially correct model BlobAccess and
// pass-through decorators (call recorder, scripted fault injector) that
// composite-level properties place underneath the code under test.
package backends

import (
	"context"
	"fmt"
	"sort"
	"sync"

	remoteexecution "github.com/bazelbuild/remote-apis/build/bazel/remote/execution/v2"
	"github.com/buildbarn/bb-storage/pkg/blobstore"
	"github.com/buildbarn/bb-storage/pkg/blobstore/buffer"
	"github.com/buildbarn/bb-storage/pkg/blobstore/slicing"
	"github.com/buildbarn/bb-storage/pkg/digest"

	"google.golang.org/grpc/codes"
	"google.golang.org/grpc/status"
)

// Mem is a map-backed BlobAccess. Objects are keyed by
// digest.GetKey(KeyFormat). Put consumes the buffer completely and
// stores only if that succeeded. It never validates more than the
// buffer layer does by itself.
type Mem struct {
	Name      string
	KeyFormat digest.KeyFormat
	MaxSize   int

	mu    sync.Mutex
	blobs map[string][]byte
}

// NewMem creates an empty model back end.
func NewMem(name string, kf digest.KeyFormat) *Mem {
	return &Mem{Name: name, KeyFormat: kf, MaxSize: 1 << 24, blobs: map[string][]byte{}}
}

var _ blobstore.BlobAccess = (*Mem)(nil)

func (m *Mem) key(d digest.Digest) string { return d.GetKey(m.KeyFormat) }

// Has reports presence without going through the BlobAccess API.
func (m *Mem) Has(d digest.Digest) bool {
	m.mu.Lock()
	defer m.mu.Unlock()
	_, ok := m.blobs[m.key(d)]
	return ok
}

// Peek returns the stored bytes.
func (m *Mem) Peek(d digest.Digest) ([]byte, bool) {
	m.mu.Lock()
	defer m.mu.Unlock()
	b, ok := m.blobs[m.key(d)]
	return b, ok
}

// Set stores bytes directly (initial placement).
func (m *Mem) Set(d digest.Digest, data []byte) {
	m.mu.Lock()
	defer m.mu.Unlock()
	m.blobs[m.key(d)] = append([]byte(nil), data...)
}

// Delete removes an object directly.
func (m *Mem) Delete(d digest.Digest) {
	m.mu.Lock()
	defer m.mu.Unlock()
	delete(m.blobs, m.key(d))
}

// Len returns the number of stored objects.
func (m *Mem) Len() int {
	m.mu.Lock()
	defer m.mu.Unlock()
	return len(m.blobs)
}

// Keys returns the sorted stored keys.
func (m *Mem) Keys() []string {
	m.mu.Lock()
	defer m.mu.Unlock()
	ks := make([]string, 0, len(m.blobs))
	for k := range m.blobs {
		ks = append(ks, k)
	}
	sort.Strings(ks)
	return ks
}

func notFound(name string, d digest.Digest) error {
	return status.Errorf(codes.NotFound, "%s: object %s not found", name, d.String())
}

// Get implements BlobAccess.
func (m *Mem) Get(ctx context.Context, d digest.Digest) buffer.Buffer {
	data, ok := m.Peek(d)
	if !ok {
		return buffer.NewBufferFromError(notFound(m.Name, d))
	}
	return buffer.NewCASBufferFromByteSlice(d, data, buffer.BackendProvided(buffer.Irreparable(d)))
}

// GetFromComposite implements BlobAccess.
func (m *Mem) GetFromComposite(ctx context.Context, parent, child digest.Digest, slicer slicing.BlobSlicer) buffer.Buffer {
	b, _ := slicer.Slice(m.Get(ctx, parent), child)
	return b
}

// Put implements BlobAccess.
func (m *Mem) Put(ctx context.Context, d digest.Digest, b buffer.Buffer) error {
	data, err := b.ToByteSlice(m.MaxSize)
	if err != nil {
		return err
	}
	m.Set(d, data)
	return nil
}

// FindMissing implements BlobAccess.
func (m *Mem) FindMissing(ctx context.Context, digests digest.Set) (digest.Set, error) {
	sb := digest.NewSetBuilder(0)
	for _, d := range digests.Items() {
		if !m.Has(d) {
			sb.Add(d)
		}
	}
	return sb.Build(), nil
}

// GetCapabilities implements capabilities.Provider.
func (m *Mem) GetCapabilities(ctx context.Context, in digest.InstanceName) (*remoteexecution.ServerCapabilities, error) {
	return &remoteexecution.ServerCapabilities{
		CacheCapabilities: &remoteexecution.CacheCapabilities{
			DigestFunctions: digest.SupportedDigestFunctions,
		},
	}, nil
}

// Call is one recorded BlobAccess invocation.
type Call struct {
	Backend string
	Op      string // Get, GetFromComposite, Put, FindMissing, GetCapabilities
	Digests []digest.Digest
	Err     error // error returned directly (Put, FindMissing); nil for Get
}

func (c Call) String() string {
	s := c.Backend + "." + c.Op + "("
	for i, d := range c.Digests {
		if i > 0 {
			s += ","
		}
		s += d.String()
	}
	return s + ")"
}

// Log is a shared, ordered call log.
type Log struct {
	mu    sync.Mutex
	Calls []Call
}

// Add appends a call.
func (l *Log) Add(c Call) {
	l.mu.Lock()
	l.Calls = append(l.Calls, c)
	l.mu.Unlock()
}

// Snapshot copies the log.
func (l *Log) Snapshot() []Call {
	l.mu.Lock()
	defer l.mu.Unlock()
	return append([]Call(nil), l.Calls...)
}

// Reset clears the log.
func (l *Log) Reset() {
	l.mu.Lock()
	l.Calls = nil
	l.mu.Unlock()
}

// Recorder is a pass-through decorator that logs every call.
type Recorder struct {
	blobstore.BlobAccess
	Name string
	Log  *Log
}

// NewRecorder wraps base.
func NewRecorder(name string, base blobstore.BlobAccess, log *Log) *Recorder {
	return &Recorder{BlobAccess: base, Name: name, Log: log}
}

func (r *Recorder) Get(ctx context.Context, d digest.Digest) buffer.Buffer {
	r.Log.Add(Call{Backend: r.Name, Op: "Get", Digests: []digest.Digest{d}})
	return r.BlobAccess.Get(ctx, d)
}

func (r *Recorder) GetFromComposite(ctx context.Context, p, c digest.Digest, s slicing.BlobSlicer) buffer.Buffer {
	r.Log.Add(Call{Backend: r.Name, Op: "GetFromComposite", Digests: []digest.Digest{p, c}})
	return r.BlobAccess.GetFromComposite(ctx, p, c, s)
}

func (r *Recorder) Put(ctx context.Context, d digest.Digest, b buffer.Buffer) error {
	r.Log.Add(Call{Backend: r.Name, Op: "Put", Digests: []digest.Digest{d}})
	return r.BlobAccess.Put(ctx, d, b)
}

func (r *Recorder) FindMissing(ctx context.Context, ds digest.Set) (digest.Set, error) {
	r.Log.Add(Call{Backend: r.Name, Op: "FindMissing", Digests: append([]digest.Digest(nil), ds.Items()...)})
	return r.BlobAccess.FindMissing(ctx, ds)
}

func (r *Recorder) GetCapabilities(ctx context.Context, in digest.InstanceName) (*remoteexecution.ServerCapabilities, error) {
	r.Log.Add(Call{Backend: r.Name, Op: "GetCapabilities"})
	return r.BlobAccess.GetCapabilities(ctx, in)
}

// Fault describes an injected failure.
type Fault struct {
	Code codes.Code
	// MidStreamAfter >= 0 on Get: the returned buffer yields that many
	// bytes and then fails (instead of failing up front).
	MidStreamAfter int
}

// Faulty is a decorator that fails the n-th call (counted per
// decorator over all operations, starting at 0) according to Script.
type Faulty struct {
	blobstore.BlobAccess
	Name   string
	mu     sync.Mutex
	n      int
	Script map[int]Fault
	// Fired lists call numbers at which a fault was injected.
	Fired []int
}

// NewFaulty wraps base.
func NewFaulty(name string, base blobstore.BlobAccess, script map[int]Fault) *Faulty {
	return &Faulty{BlobAccess: base, Name: name, Script: script}
}

func (f *Faulty) next() (Fault, bool) {
	f.mu.Lock()
	defer f.mu.Unlock()
	ft, ok := f.Script[f.n]
	if ok {
		f.Fired = append(f.Fired, f.n)
	}
	f.n++
	return ft, ok
}

// FiredCount returns how many faults fired so far.
func (f *Faulty) FiredCount() int {
	f.mu.Lock()
	defer f.mu.Unlock()
	return len(f.Fired)
}

// ErrText is the text every injected error carries.
func (f *Faulty) ErrText() string { return fmt.Sprintf("injected fault at %s", f.Name) }

func (f *Faulty) err(ft Fault) error { return status.Error(ft.Code, f.ErrText()) }

func (f *Faulty) Get(ctx context.Context, d digest.Digest) buffer.Buffer {
	if ft, ok := f.next(); ok {
		return buffer.NewBufferFromError(f.err(ft))
	}
	return f.BlobAccess.Get(ctx, d)
}

func (f *Faulty) GetFromComposite(ctx context.Context, p, c digest.Digest, s slicing.BlobSlicer) buffer.Buffer {
	if ft, ok := f.next(); ok {
		return buffer.NewBufferFromError(f.err(ft))
	}
	return f.BlobAccess.GetFromComposite(ctx, p, c, s)
}

func (f *Faulty) Put(ctx context.Context, d digest.Digest, b buffer.Buffer) error {
	if ft, ok := f.next(); ok {
		b.Discard()
		return f.err(ft)
	}
	return f.BlobAccess.Put(ctx, d, b)
}

func (f *Faulty) FindMissing(ctx context.Context, ds digest.Set) (digest.Set, error) {
	if ft, ok := f.next(); ok {
		return digest.EmptySet, f.err(ft)
	}
	return f.BlobAccess.FindMissing(ctx, ds)
}
